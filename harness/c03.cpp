// C03: no input crashes, hangs or corrupts memory; every failure is a reported error.
//
//   xv_c03 <cases.ndjson> <inputs.ndjson> <outdir> <jobs> <datadir>
//
// inputs.ndjson : one line per input  {"i":n,"hex":"<bytes>"}                       (arbitrary bytes)
// cases.ndjson  : first line {"config":true, "seedXml":i, "seedXsl":i, "paramXsl":i, "seedExpr":"...", "timeout":s,
//                             "batch":n, "leak":true|false}
//                 then one line per execution  {"id":n,"grp":"T"|"X","scen":name,"role":"xml"|"xsl"|"xpath"|"param",
//                                               "cls":class,"in":i [,"leak":bool]}
// One execution = one scenario (1..5 API calls of one entry-point family) on one input.  The harness writes one
// ndjson event per action of spec/system/ApiProtocol.tla with write(2):
//   Reset(case)  Call(h,op,cls,role)  Return(h,op,status,msgEmpty,chan)  Probe(h,status,out)  LeakCheck(clean)
//   Abort(why,frames)  Exit(normal,how)
// A batch of executions shares one CHILD process and ONE transformer / C-API handle / evaluator (the Probe after
// every call therefore runs "after any history").  std::terminate, SIGSEGV/SIGBUS/SIGFPE/SIGILL/SIGABRT, SIGPROF
// (CPU-time limit = time-out) and the sanitizer death callback write an Abort event naming the top frames and end the child; the
// parent appends Exit(normal=false) and continues with the NEXT case in a new child, so a crash is attributed to the
// case in flight (its Reset / Call events are the last ones before the Abort).  Between executions the child writes
// Exit(normal=true, how="continue"): control returned to the driver.
// The harness decides nothing: status rules, the Probe's reference output and the verdict per input class are in
// ApiProtocol.tla / Trace_C03.tla.
#include "common.hpp"

#include <csignal>
#include <csetjmp>
#include <sys/time.h>
#include <cxxabi.h>
#include <dlfcn.h>
#include <execinfo.h>
#include <fcntl.h>
#include <sys/mman.h>
#include <sys/personality.h>
#include <sys/resource.h>
#include <sys/stat.h>
#include <sys/types.h>
#include <sys/wait.h>
#include <ucontext.h>
#include <unistd.h>
#include <exception>
#include <typeinfo>

#include <xercesc/sax/SAXException.hpp>
#include <xercesc/sax/SAXParseException.hpp>
#include <xercesc/util/OutOfMemoryException.hpp>
#include <xercesc/util/XMLException.hpp>
#include <xercesc/dom/DOMException.hpp>

#include <xalanc/XalanTransformer/XalanCAPI.h>
#include <xalanc/XalanTransformer/XalanCompiledStylesheet.hpp>
#include <xalanc/XalanTransformer/XalanParsedSource.hpp>
#include <xalanc/XalanTransformer/XalanTransformer.hpp>
#include <xalanc/XSLT/XSLTInputSource.hpp>
#include <xalanc/XSLT/XSLTResultTarget.hpp>
#include <xalanc/XPath/XObject.hpp>
#include <xalanc/XPath/XPath.hpp>
#include <xalanc/XPath/NodeRefList.hpp>
#include <xalanc/XPath/XPathEvaluator.hpp>
#include <xalanc/XPathCAPI/XPathCAPI.h>

#if defined(__SANITIZE_ADDRESS__)
#include <sanitizer/asan_interface.h>
#include <sanitizer/common_interface_defs.h>
#include <sanitizer/lsan_interface.h>
#define C03_ASAN 1
#else
#define C03_ASAN 0
#endif

using namespace xv;

// ------------------------------------------------------------------------------- event output
static int g_fd = 1;
static int g_errfd = -1;          // the child's stderr file (sanitizer reports), opened O_RDWR
static off_t g_errPos = 0;

static void emit(const char* s, size_t n) {
    while (n) { ssize_t w = ::write(g_fd, s, n); if (w <= 0) return; s += w; n -= (size_t)w; }
}
static void emit(const std::string& s) { emit(s.data(), s.size()); }

struct Shared { volatile long inflight; volatile long done; };      // case index in flight / executions finished
static Shared* g_sh = nullptr;

// JSON-escape raw bytes into buf (printable ASCII kept, the rest replaced by '?'); returns length
static size_t escInto(char* out, size_t cap, const char* s, size_t n) {
    size_t o = 0;
    for (size_t i = 0; i < n && o + 8 < cap; ++i) {
        unsigned char ch = (unsigned char)s[i];
        if (ch == '"' || ch == '\\') { out[o++] = '\\'; out[o++] = (char)ch; }
        else if (ch == '\n') { out[o++] = '\\'; out[o++] = 'n'; }
        else if (ch < 0x20 || ch >= 0x7f) out[o++] = '?';
        else out[o++] = (char)ch;
    }
    return o;
}

// call stack as JSON array of mangled symbol names (unresolved frames as "?"); no malloc.
// An overrun may have destroyed the stack the unwinder walks: a fault inside backtrace() is caught and the
// event is written without frames.
static sigjmp_buf g_bail;
static volatile sig_atomic_t g_bailArmed = 0;
static void onBail(int) { if (g_bailArmed) siglongjmp(g_bail, 1); _exit(73); }
static size_t framesJson(char* out, size_t cap, int skip) {
    static void* addr[160];
    volatile int n = 0;
    struct sigaction sa, oldSegv, oldBus; memset(&sa, 0, sizeof sa);
    sa.sa_handler = onBail; sa.sa_flags = SA_NODEFER | SA_ONSTACK; sigemptyset(&sa.sa_mask);
    sigaction(SIGSEGV, &sa, &oldSegv); sigaction(SIGBUS, &sa, &oldBus);
    { sigset_t un; sigemptyset(&un); sigaddset(&un, SIGSEGV); sigaddset(&un, SIGBUS); sigprocmask(SIG_UNBLOCK, &un, nullptr); }
    if (sigsetjmp(g_bail, 1) == 0) { g_bailArmed = 1; n = backtrace(addr, 160); }
    else { n = 0; }
    g_bailArmed = 0;
    sigaction(SIGSEGV, &oldSegv, nullptr); sigaction(SIGBUS, &oldBus, nullptr);
    size_t len = 0;
    out[len++] = '[';
    bool first = true;
    for (int i = skip; i < n && len + 300 < cap; ++i) {
        Dl_info di;
        char one[280];
        if (dladdr(addr[i], &di) && di.dli_sname) snprintf(one, sizeof one, "%.260s", di.dli_sname);
        else if (di.dli_fname) { const char* b = strrchr(di.dli_fname, '/'); snprintf(one, sizeof one, "?%.60s", b ? b + 1 : di.dli_fname); }
        else snprintf(one, sizeof one, "?");
        len += (size_t)snprintf(out + len, cap - len, "%s\"%s\"", first ? "" : ",", one);
        first = false;
    }
    out[len++] = ']'; out[len] = 0;
    return len;
}

// the part of the child's stderr written since the last call (sanitizer report), escaped
static size_t newStderr(char* out, size_t cap, size_t maxRead) {
    static char raw[12000];
    if (g_errfd < 0) return 0;
    if (maxRead > sizeof raw) maxRead = sizeof raw;
    ssize_t r = pread(g_errfd, raw, maxRead, g_errPos);
    off_t end = lseek(g_errfd, 0, SEEK_END);
    if (end > 0) g_errPos = end;
    if (r <= 0) return 0;
    return escInto(out, cap, raw, (size_t)r);
}

static void abortEvent(const char* why, const char* detail, int skip) {
    static char buf[90000];
    size_t n = (size_t)snprintf(buf, sizeof buf, "{\"e\":\"Abort\",\"why\":\"%s\",\"detail\":\"", why);
    n += escInto(buf + n, 300, detail, strlen(detail));
    n += (size_t)snprintf(buf + n, sizeof buf - n, "\",\"frames\":");
    n += framesJson(buf + n, 60000, skip);
    n += (size_t)snprintf(buf + n, sizeof buf - n, ",\"report\":\"");
    n += newStderr(buf + n, sizeof buf - n - 16, 9000);
    buf[n++] = '"'; buf[n++] = '}'; buf[n++] = '\n';
    emit(buf, n);
}

// ------------------------------------------------------------------- terminate / fatal signals
static volatile sig_atomic_t g_dying = 0;

static void onTerminate() {
    if (g_dying++) _exit(72);
    const char* tn = "none";
    std::type_info* t = abi::__cxa_current_exception_type();
    if (t) tn = t->name();
    abortEvent("terminate", tn, 1);
    _exit(70);
}

static void onSignal(int sig, siginfo_t* si, void* uc_) {
    if (g_dying++) _exit(72);
    const char* nm = sig == SIGSEGV ? "SIGSEGV" : sig == SIGABRT ? "SIGABRT" : sig == SIGBUS ? "SIGBUS" : sig == SIGFPE ? "SIGFPE"
                   : sig == SIGILL ? "SIGILL" : sig == SIGPROF ? "timeout" : "signal";
    if (sig == SIGSEGV && si && uc_) {
        // a fault within a page or so of the stack pointer = the stack is exhausted (what ASan calls stack-overflow)
        ucontext_t* uc = (ucontext_t*)uc_;
#if defined(__x86_64__)
        const uintptr_t sp = (uintptr_t)uc->uc_mcontext.gregs[REG_RSP];
#elif defined(__aarch64__)
        const uintptr_t sp = (uintptr_t)uc->uc_mcontext.sp;
#else
        const uintptr_t sp = 0;
#endif
        const uintptr_t a = (uintptr_t)si->si_addr;
        if (sp && a + 65536 >= sp && a < sp + 65536) nm = "stack-overflow";
    }
    abortEvent(nm, "", 2);
    _exit(71);
}

#if C03_ASAN
static void onSanitizerDeath() {
    if (g_dying++) return;
    const char* kind = "ubsan";
    if (__asan_report_present()) { const char* d = __asan_get_report_description(); kind = d ? d : "asan"; }
    abortEvent("sanitizer", kind, 1);
}
#endif

static void installHandlers() {
    std::set_terminate(onTerminate);
    static char altstack[1 << 17];
    stack_t ss; ss.ss_sp = altstack; ss.ss_size = sizeof altstack; ss.ss_flags = 0;
    sigaltstack(&ss, nullptr);
    struct sigaction sa; memset(&sa, 0, sizeof sa);
    sa.sa_sigaction = onSignal; sa.sa_flags = SA_ONSTACK | SA_RESETHAND | SA_SIGINFO;
    sigemptyset(&sa.sa_mask);
    for (int s : { SIGSEGV, SIGABRT, SIGBUS, SIGFPE, SIGILL, SIGPROF }) sigaction(s, &sa, nullptr);
#if C03_ASAN
    __sanitizer_set_death_callback(onSanitizerDeath);
    // GCC links libubsan with its own copy of the common runtime: register there as well
    if (void* h = dlopen("libubsan.so.1", RTLD_NOW | RTLD_NOLOAD)) {
        typedef void (*SetCb)(void (*)());
        SetCb f = (SetCb)dlsym(h, "__sanitizer_set_death_callback");
        if (f && f != (SetCb)&__sanitizer_set_death_callback) f(onSanitizerDeath);
    }
#endif
}

// ------------------------------------------------------------------------------------ inputs
static std::vector<std::string> g_inputs;
static std::string g_data = ".";
static std::string g_seedExpr;
static long g_seedXml = 0, g_seedXsl = 0, g_paramXsl = 0, g_timeout = 30, g_batch = 25;
static bool g_leakDefault = true;

static std::string unhex(const std::string& h) {
    std::string o; o.reserve(h.size() / 2);
    auto v = [](char c) { return c <= '9' ? c - '0' : (c | 32) - 'a' + 10; };
    for (size_t i = 0; i + 1 < h.size(); i += 2) o += char(v(h[i]) * 16 + v(h[i + 1]));
    return o;
}

// lenient UTF-8 -> UTF-16 (any byte sequence gives some code units), built in one piece
static XalanDOMString utf16(const std::string& u) {
    std::vector<XalanDOMChar> r; r.reserve(u.size() + 1);
    size_t i = 0;
    while (i < u.size()) {
        unsigned char c = (unsigned char)u[i]; unsigned cp; int len;
        if (c < 0x80) { cp = c; len = 1; } else if ((c >> 5) == 6) { cp = c & 0x1F; len = 2; } else if ((c >> 4) == 14) { cp = c & 0x0F; len = 3; } else { cp = c & 0x07; len = 4; }
        for (int k = 1; k < len && i + k < u.size(); ++k) cp = (cp << 6) | ((unsigned char)u[i + k] & 0x3F);
        i += (size_t)len;
        if (cp >= 0x10000) { cp -= 0x10000; r.push_back(XalanDOMChar(0xD800 + ((cp >> 10) & 0x3FF))); r.push_back(XalanDOMChar(0xDC00 + (cp & 0x3FF))); }
        else r.push_back(XalanDOMChar(cp));
    }
    size_t n = 0; while (n < r.size() && r[n] != 0) ++n;      // the API takes NUL-terminated strings
    return r.empty() ? XalanDOMString() : XalanDOMString(&r[0], XalanMemMgrs::getDefaultXercesMemMgr(), (XalanDOMString::size_type)n);
}

static const char* const PROBE_XML = "<doc><item n='2'>b</item><item n='1'>a</item></doc>";
static const char* const PROBE_XSL =
    "<xsl:stylesheet version='1.0' xmlns:xsl='http://www.w3.org/1999/XSL/Transform'>"
    "<xsl:output method='xml' omit-xml-declaration='yes'/>"
    "<xsl:key name='k' match='item' use='@n'/>"
    "<xsl:template match='/'><out n='{count(//item)}'><xsl:for-each select='doc/item'><xsl:sort select='@n' data-type='number'/>"
    "<i><xsl:value-of select='concat(@n, \":\", .)'/></i></xsl:for-each><k><xsl:value-of select='key(\"k\", \"2\")'/></k>"
    "<f><xsl:value-of select='format-number(1234.5, \"#,##0.00\")'/></f></out></xsl:template>"
    "</xsl:stylesheet>";
static const char* const PROBE_EXPR = "concat(name(/*), ':', count(//item), ':', string(//item[@n = '2']), ':', 7 div 2)";
static const char* const PROBE_BOOL = "count(//item) = 2 and //item[@n = '1'] = 'a'";

struct OutBuf { std::string s; };
static CallbackSizeType outWrite(const char* d, CallbackSizeType n, void* h) { static_cast<OutBuf*>(h)->s.append(d, n); return n; }
static void outFlush(void*) {}

// status of an exception documented for the C++ API, numbered as XalanTransformer does (-1 XSL, -2 SAX, -3 XML, -4 DOM);
// anything else is not a reported error: rethrown to the caller of call()
struct Caught { int status; std::string msg; std::string type; };
static Caught classifyException() {
    try { throw; }
    catch (const XSLException& e) { return { -1, excMessage(e), "XSLException" }; }
    catch (const xercesc::SAXParseException& e) { return { -2, toUtf8(e.getMessage(), XalanDOMString::length(e.getMessage())), "SAXParseException" }; }
    catch (const xercesc::SAXException& e) { return { -2, toUtf8(e.getMessage(), XalanDOMString::length(e.getMessage())), "SAXException" }; }
    catch (const xercesc::XMLException& e) { return { -3, toUtf8(e.getMessage(), XalanDOMString::length(e.getMessage())), "XMLException" }; }
    catch (const XalanDOMException& e) { return { -4, "XalanDOMException " + std::to_string((int)e.getExceptionCode()), "XalanDOMException" }; }
    catch (const xercesc::DOMException& e) { return { -4, toUtf8(e.getMessage(), XalanDOMString::length(e.getMessage())), "DOMException" }; }
}
static std::string escapedName() {
    try { throw; }
    catch (const xercesc::OutOfMemoryException&) { return "xercesc::OutOfMemoryException"; }
    catch (const std::bad_alloc&) { return "std::bad_alloc"; }
    catch (const std::exception& e) { return std::string("std::exception:") + typeid(e).name(); }
    catch (...) {
        std::type_info* t = abi::__cxa_current_exception_type();
        return t ? t->name() : "unknown";
    }
}

// ----------------------------------------------------------------------------- one child process
struct Child {
    std::string grp;
    XalanTransformer* xt = nullptr;       // C++ transformer (group T)
    XalanHandle ch = nullptr;             // C API transformer (group T)
    XPathEvaluator* ev = nullptr;         // C++ evaluator (group X)
    XalanXPathEvaluatorHandle xh = nullptr;   // XPath C API evaluator (group X)
    std::unique_ptr<XalanSourceTreeDOMSupport> esupport;
    std::unique_ptr<XalanSourceTreeParserLiaison> eliaison;
    XalanDocument* edoc = nullptr;        // seed document of the evaluator scenarios
    std::string cls, role;
    long depth = 0;                      // nesting depth parameter of the Deep classes (0 otherwise)
    bool aborted = false;                 // an exception escaped in this execution: skip the rest of it

    void init(const std::string& g) {
        grp = g;
        if (g == "T") {
            if (XalanInitialize() != 0) { fprintf(stderr, "XalanInitialize failed\n"); _exit(3); }
            xt = new XalanTransformer;
            ch = CreateXalanTransformer();
        } else {
            if (XalanXPathAPIInitialize() != XALAN_XPATH_API_SUCCESS) { fprintf(stderr, "XalanXPathAPIInitialize failed\n"); _exit(3); }
            ev = new XPathEvaluator;
            if (XalanCreateXPathEvaluator(&xh) != XALAN_XPATH_API_SUCCESS) { fprintf(stderr, "XalanCreateXPathEvaluator failed\n"); _exit(3); }
            esupport.reset(new XalanSourceTreeDOMSupport);
            eliaison.reset(new XalanSourceTreeParserLiaison(*esupport));
            esupport->setParserLiaison(eliaison.get());
            const std::string& x = g_inputs[g_seedXml];
            xercesc::MemBufInputSource src((const XMLByte*)x.data(), x.size(), "seed");
            edoc = eliaison->parseXMLStream(src);
        }
    }

    void callEv(const char* h, const char* op, const std::string& c) {
        emit(std::string("{\"e\":\"Call\",\"h\":\"") + h + "\",\"op\":\"" + op + "\",\"cls\":" + jstr(c) + ",\"d\":" + std::to_string(c == "seed" ? 0 : depth) + ",\"role\":\"" + role + "\"}\n");
    }
    void retEv(const char* h, const char* op, int status, bool chan, const std::string& msg, const std::string& exc = "") {
        char m[400]; size_t n = escInto(m, sizeof m, msg.data(), std::min<size_t>(msg.size(), 160)); m[n] = 0;
        emit(std::string("{\"e\":\"Return\",\"h\":\"") + h + "\",\"op\":\"" + op + "\",\"status\":" + std::to_string(status) +
             ",\"msgEmpty\":" + (msg.empty() ? "true" : "false") + ",\"chan\":" + (chan ? "true" : "false") +
             (exc.empty() ? "" : ",\"exception\":\"" + exc + "\"") + ",\"msg\":\"" + m + "\"}\n");
    }

    // ---- the Probe: a fixed known-good piece of work on the SAME object
    void probe(const char* h) {
        int status = -99; std::string out;
        try {
            if (!strcmp(h, "T")) {
                OutBuf ob; std::istringstream x(PROBE_XML), s(PROBE_XSL);
                XSLTInputSource xi(&x), si(&s);
                status = xt->transform(xi, si, &ob, outWrite, outFlush);
                out = ob.s;
            } else if (!strcmp(h, "C")) {
                char* data = nullptr;
                status = XalanTransformToData((g_data + "/probe.xml").c_str(), (g_data + "/probe.xsl").c_str(), &data, ch);
                if (status == 0 && data) { out = data; XalanFreeData(data); }
            } else if (!strcmp(h, "E")) {
                const XalanDOMString e(PROBE_EXPR);
                xercesc::MemBufInputSource src((const XMLByte*)PROBE_XML, strlen(PROBE_XML), "probe");
                XalanSourceTreeDOMSupport sup; XalanSourceTreeParserLiaison lia(sup); sup.setParserLiaison(&lia);
                XalanDocument* d = lia.parseXMLStream(src);
                const XObjectPtr r = ev->evaluate(sup, d, e.c_str());
                out = toUtf8(r->str(ev->getExecutionContext())); status = 0;
            } else {
                int r = -1;
                status = XalanEvaluateXPathExpressionAsBoolean(xh, PROBE_BOOL, nullptr, PROBE_XML, &r);
                out = std::to_string(r);
            }
        } catch (...) { status = -98; out = "exception"; }
        emit(std::string("{\"e\":\"Probe\",\"h\":\"") + h + "\",\"status\":" + std::to_string(status) + ",\"out\":" + jstr(out) + "}\n");
    }

    // one API call returning a status (message through getMsg); f may throw
    //   throwing = the C++ API reports errors by documented exceptions (XPathEvaluator, liaison)
    template <class F, class M>
    int call(const char* h, const char* op, const std::string& c, bool chan, bool throwing, F f, M getMsg, bool doProbe = true) {
        if (aborted) return -1000;
        callEv(h, op, c);
        int status = 0; std::string msg, exc;
        try { status = f(); if (chan) msg = getMsg(); }
        catch (...) {
            bool reported = false;
            if (throwing) { try { Caught k = classifyException(); status = k.status; msg = k.msg; exc = k.type; reported = true; } catch (...) {} }
            if (!reported) {
                // an exception escaped from an entry point that reports by status (or one of an undocumented type)
                std::string n;
                try { throw; } catch (...) { n = escapedName(); }
                char d[300]; snprintf(d, sizeof d, "%.250s", n.c_str());
                abortEvent("exception", d, 1);
                aborted = true;
                return -1000;
            }
        }
        retEv(h, op, status, chan, msg, exc);
        if (doProbe) probe(h);
        return status;
    }
    std::string tmsg() { const char* m = xt->getLastError(); return m ? m : ""; }
    std::string cmsg() { const char* m = XalanGetLastError(ch); return m ? m : ""; }
    static std::string nomsg() { return ""; }

    std::string file(const std::string& bytes, const char* name) {
        const std::string p = g_data + "/" + name + "." + std::to_string((long)getpid());
        int fd = open(p.c_str(), O_WRONLY | O_CREAT | O_TRUNC, 0644);
        if (fd >= 0) { size_t o = 0; while (o < bytes.size()) { ssize_t w = ::write(fd, bytes.data() + o, bytes.size() - o); if (w <= 0) break; o += (size_t)w; } close(fd); }
        return p;
    }

    void run(const J& c) {
        cls = c.str("cls"); role = c.str("role"); depth = (long)c.num("d", 0); aborted = false;
        const std::string scen = c.str("scen");
        const std::string& in = g_inputs[(size_t)c.num("in")];
        const std::string& sx = g_inputs[g_seedXml];
        const std::string& ss = g_inputs[g_seedXsl];
        const bool isXml = role == "xml";
        const std::string& xml = isXml ? in : sx;                     // the source document of this execution
        const std::string& xsl = role == "xsl" ? in : ss;             // the stylesheet of this execution
        const std::string xmlCls = isXml ? cls : "seed", xslCls = role == "xsl" ? cls : "seed";
        auto T = [this] { return tmsg(); };
        auto C = [this] { return cmsg(); };

        if (scen == "stream") {
            std::istringstream x(xml), s(xsl); std::ostringstream os;
            XSLTInputSource xi(&x), si(&s); XSLTResultTarget rt(os);
            call("T", "transformStream", cls, true, false, [&] { return xt->transform(xi, si, rt); }, T);
        } else if (scen == "callback") {
            std::istringstream x(xml), s(xsl); OutBuf ob;
            XSLTInputSource xi(&x), si(&s);
            call("T", "transformCallback", cls, true, false, [&] { return xt->transform(xi, si, &ob, outWrite, outFlush); }, T);
        } else if (scen == "file") {
            const std::string fx = file(xml, "in.xml"), fs = file(xsl, "in.xsl"), fo = g_data + "/out." + std::to_string((long)getpid());
            XSLTInputSource xi(fx.c_str()), si(fs.c_str()); XSLTResultTarget rt(fo.c_str());
            call("T", "transformFile", cls, true, false, [&] { return xt->transform(xi, si, rt); }, T);
        } else if (scen == "prebuilt" || scen == "prebuiltXerces") {
            const bool xerces = scen == "prebuiltXerces";
            const XalanCompiledStylesheet* cs = nullptr; const XalanParsedSource* ps = nullptr;
            std::istringstream x(xml), s(xsl);
            XSLTInputSource xi(&x), si(&s);
            int a, b;
            if (isXml) {      // the input under test first
                a = call("T", xerces ? "parseSourceXerces" : "parseSource", xmlCls, true, false, [&] { return xt->parseSource(xi, ps, xerces); }, T);
                b = a == 0 ? call("T", "compileStylesheet", xslCls, true, false, [&] { return xt->compileStylesheet(si, cs); }, T) : -1;
            } else {
                b = call("T", "compileStylesheet", xslCls, true, false, [&] { return xt->compileStylesheet(si, cs); }, T);
                a = b == 0 ? call("T", xerces ? "parseSourceXerces" : "parseSource", xmlCls, true, false, [&] { return xt->parseSource(xi, ps, xerces); }, T) : -1;
            }
            if (a == 0 && b == 0 && ps && cs) {
                std::ostringstream os; XSLTResultTarget rt(os);
                call("T", "transformPrebuilt", cls, true, false, [&] { return xt->transform(*ps, cs, rt); }, T);
            }
            if (cs) call("T", "destroyStylesheet", "seed", true, false, [&] { return xt->destroyStylesheet(cs); }, T, false);
            if (ps) call("T", "destroyParsedSource", "seed", true, false, [&] { return xt->destroyParsedSource(ps); }, T, false);
        } else if (scen == "parsedStream") {       // parsed source + stylesheet as a stream
            const XalanParsedSource* ps = nullptr;
            std::istringstream x(xml), s(xsl);
            XSLTInputSource xi(&x), si(&s);
            const int a = call("T", "parseSource", xmlCls, true, false, [&] { return xt->parseSource(xi, ps, false); }, T);
            if (a == 0 && ps) {
                std::ostringstream os; XSLTResultTarget rt(os);
                call("T", "transformParsed", cls, true, false, [&] { return xt->transform(*ps, si, rt); }, T);
            }
            if (ps) call("T", "destroyParsedSource", "seed", true, false, [&] { return xt->destroyParsedSource(ps); }, T, false);
        } else if (scen == "param" || scen == "paramChar") {
            // the input is a top-level parameter expression: evaluated by the next transformation
            const XalanDOMString name("p"), expr(utf16(in));
            if (scen == "param") call("T", "setStylesheetParam", cls, true, false, [&] { xt->setStylesheetParam(name, expr); return 0; }, T, false);
            else call("T", "setStylesheetParam", cls, true, false, [&] { xt->setStylesheetParam("p", in.c_str()); return 0; }, T, false);
            std::istringstream x(sx), s(g_inputs[g_paramXsl]); std::ostringstream os;
            XSLTInputSource xi(&x), si(&s); XSLTResultTarget rt(os);
            call("T", "transformWithParam", cls, true, false, [&] { return xt->transform(xi, si, rt); }, T, false);
            aborted = false;     // the parameter must be withdrawn whatever happened
            call("T", "clearStylesheetParams", "seed", true, false, [&] { xt->clearStylesheetParams(); return 0; }, T);
        } else if (scen == "capiData" || scen == "capiFile" || scen == "capiHandler") {
            const std::string fx = file(xml, "cin.xml"), fs = file(xsl, "cin.xsl"), fo = g_data + "/cout." + std::to_string((long)getpid());
            if (scen == "capiData") {
                char* data = nullptr;
                call("C", "XalanTransformToData", cls, true, false, [&] { return XalanTransformToData(fx.c_str(), fs.c_str(), &data, ch); }, C);
                if (data) XalanFreeData(data);
            } else if (scen == "capiFile") {
                call("C", "XalanTransformToFile", cls, true, false, [&] { return XalanTransformToFile(fx.c_str(), fs.c_str(), fo.c_str(), ch); }, C);
            } else {
                OutBuf ob;
                call("C", "XalanTransformToHandler", cls, true, false, [&] { return XalanTransformToHandler(fx.c_str(), fs.c_str(), ch, &ob, outWrite, outFlush); }, C);
            }
        } else if (scen == "capiPrebuilt" || scen == "capiPrebuiltFile") {
            const bool files = scen == "capiPrebuiltFile";
            XalanCSSHandle css = nullptr; XalanPSHandle psh = nullptr;
            const std::string fx = files ? file(xml, "cin.xml") : "", fs = files ? file(xsl, "cin.xsl") : "";
            auto comp = [&] { return files ? call("C", "XalanCompileStylesheet", xslCls, true, false, [&] { return XalanCompileStylesheet(fs.c_str(), ch, &css); }, C)
                                           : call("C", "XalanCompileStylesheetFromStream", xslCls, true, false, [&] { return XalanCompileStylesheetFromStream(xsl.data(), xsl.size(), ch, &css); }, C); };
            auto pars = [&] { return files ? call("C", "XalanParseSource", xmlCls, true, false, [&] { return XalanParseSource(fx.c_str(), ch, &psh); }, C)
                                           : call("C", "XalanParseSourceFromStream", xmlCls, true, false, [&] { return XalanParseSourceFromStream(xml.data(), xml.size(), ch, &psh); }, C); };
            int a, b;
            if (isXml) { a = pars(); b = a == 0 ? comp() : -1; } else { b = comp(); a = b == 0 ? pars() : -1; }
            if (a == 0 && b == 0 && css && psh) {
                char* data = nullptr;
                call("C", "XalanTransformToDataPrebuilt", cls, true, false, [&] { return XalanTransformToDataPrebuilt(psh, css, &data, ch); }, C);
                if (data) XalanFreeData(data);
            }
            if (css) call("C", "XalanDestroyCompiledStylesheet", "seed", true, false, [&] { return XalanDestroyCompiledStylesheet(css, ch); }, C, false);
            if (psh) call("C", "XalanDestroyParsedSource", "seed", true, false, [&] { return XalanDestroyParsedSource(psh, ch); }, C, false);
        } else if (scen == "capiParam") {
            const std::string fx = file(sx, "cin.xml"), fs = file(g_inputs[g_paramXsl], "cin.xsl");
            call("C", "XalanSetStylesheetParam", cls, true, false, [&] { XalanSetStylesheetParam("p", in.c_str(), ch); return 0; }, C, false);
            char* data = nullptr;
            call("C", "XalanTransformToData", cls, true, false, [&] { return XalanTransformToData(fx.c_str(), fs.c_str(), &data, ch); }, C, false);
            if (data) XalanFreeData(data);
            aborted = false;
            call("C", "XalanClearStylesheetParams", "seed", true, false, [&] { XalanClearStylesheetParams(ch); return 0; }, C);
        } else if (scen == "evaluate" || scen == "selectNodeList" || scen == "selectSingleNode" || scen == "createXPath") {
            const XalanDOMString expr(utf16(in));
            XalanNode* ctx = edoc;
            if (scen == "evaluate") {
                call("E", "evaluate", cls, true, true, [&] {
                    const XObjectPtr r = ev->evaluate(*esupport, ctx, expr.c_str());
                    if (!r.null()) { XalanDOMString s; s = r->str(ev->getExecutionContext()); (void)r->num(ev->getExecutionContext()); (void)r->boolean(ev->getExecutionContext()); }
                    return 0; }, nomsg);
            } else if (scen == "selectNodeList") {
                call("E", "selectNodeList", cls, true, true, [&] { NodeRefList l; ev->selectNodeList(l, *esupport, ctx, expr.c_str()); (void)l.getLength(); return 0; }, nomsg);
            } else if (scen == "selectSingleNode") {
                call("E", "selectSingleNode", cls, true, true, [&] { (void)ev->selectSingleNode(*esupport, ctx, expr.c_str()); return 0; }, nomsg);
            } else {
                XPath* xp = nullptr;
                const int a = call("E", "createXPath", cls, true, true, [&] { xp = ev->createXPath(expr.c_str()); return 0; }, nomsg);
                if (a == 0 && xp) {
                    call("E", "evaluateXPath", cls, true, true, [&] {
                        const XObjectPtr r = ev->evaluate(*esupport, ctx, *xp);
                        if (!r.null()) { XalanDOMString s; s = r->str(ev->getExecutionContext()); }
                        return 0; }, nomsg);
                }
                if (xp) call("E", "destroyXPath", "seed", true, true, [&] { return ev->destroyXPath(xp) ? 0 : 1; }, nomsg, false);
            }
        } else if (scen == "evalDoc" || scen == "evalDocXerces") {
            // the input is the DOCUMENT: parsed through the liaison an XPathEvaluator client uses, then the seed expression
            const XalanDOMString expr(utf16(g_seedExpr));
            xercesc::MemBufInputSource src((const XMLByte*)in.data(), in.size(), "input");
            if (scen == "evalDoc") {
                XalanSourceTreeDOMSupport sup; XalanSourceTreeParserLiaison lia(sup); sup.setParserLiaison(&lia);
                XalanDocument* d = nullptr;
                const int a = call("E", "parseXMLStream", cls, true, true, [&] { d = lia.parseXMLStream(src); return 0; }, nomsg);
                if (a == 0 && d) call("E", "evaluate", cls, true, true, [&] {
                    const XObjectPtr r = ev->evaluate(sup, d, expr.c_str());
                    if (!r.null()) { XalanDOMString s; s = r->str(ev->getExecutionContext()); }
                    return 0; }, nomsg);
            } else {
                XercesParserLiaison lia; XercesDOMSupport sup(lia);
                XalanDocument* d = nullptr;
                const int a = call("E", "parseXMLStreamXerces", cls, true, true, [&] { d = lia.parseXMLStream(src); return 0; }, nomsg);
                if (a == 0 && d) call("E", "evaluate", cls, true, true, [&] {
                    const XObjectPtr r = ev->evaluate(sup, d, expr.c_str());
                    if (!r.null()) { XalanDOMString s; s = r->str(ev->getExecutionContext()); }
                    return 0; }, nomsg);
            }
        } else if (scen == "xcExpr" || scen == "xcExprUtf8" || scen == "xcExprSjis" || scen == "xcExprEucJp" || scen == "xcExprLatin1") {
            XalanXPathHandle xp = nullptr; int r = -1;
            // the encoding the expression's bytes are in (all inputs of these scenarios are ASCII, which the three agree on)
            const char* enc = scen == "xcExprUtf8" ? "UTF-8" : scen == "xcExprSjis" ? "Shift_JIS" : scen == "xcExprEucJp" ? "EUC-JP" : scen == "xcExprLatin1" ? "ISO-8859-1" : nullptr;
            const int a = call("X", "XalanCreateXPath", cls, false, false, [&] { return XalanCreateXPath(xh, in.c_str(), enc, &xp); }, nomsg);
            if (a == 0 && xp) call("X", "XalanEvaluateXPathAsBoolean", cls, false, false, [&] { return XalanEvaluateXPathAsBoolean(xh, xp, sx.c_str(), &r); }, nomsg);
            if (xp) call("X", "XalanDestroyXPath", "seed", false, false, [&] { return XalanDestroyXPath(xh, xp); }, nomsg, false);
        } else if (scen == "xcOneShot") {
            int r = -1;
            if (isXml) call("X", "XalanEvaluateXPathExpressionAsBoolean", cls, false, false, [&] { return XalanEvaluateXPathExpressionAsBoolean(xh, g_seedExpr.c_str(), nullptr, in.c_str(), &r); }, nomsg);
            else call("X", "XalanEvaluateXPathExpressionAsBoolean", cls, false, false, [&] { return XalanEvaluateXPathExpressionAsBoolean(xh, in.c_str(), nullptr, sx.c_str(), &r); }, nomsg);
        } else {
            fprintf(stderr, "unknown scenario %s\n", scen.c_str()); _exit(2);
        }
    }
};

static void leakCheck() {
#if C03_ASAN
    const int leaks = __lsan_do_recoverable_leak_check();
    static char buf[30000];
    size_t n = (size_t)snprintf(buf, sizeof buf, "{\"e\":\"LeakCheck\",\"clean\":%s,\"report\":\"", leaks ? "false" : "true");
    if (leaks) n += newStderr(buf + n, sizeof buf - n - 16, 9000);
    buf[n++] = '"'; buf[n++] = '}'; buf[n++] = '\n';
    emit(buf, n);
#endif
}

static void cpuLimit(long seconds) {
    struct itimerval it; memset(&it, 0, sizeof it);
    it.it_value.tv_sec = seconds;
    setitimer(ITIMER_PROF, &it, nullptr);
}

static void runChild(const std::vector<J>& cases, size_t from, size_t to) {
    installHandlers();
    Child ch;
    ch.init(cases[from].str("grp"));
    { char t[64]; newStderr(t, sizeof t, 0); }
    for (size_t n = from; n < to; ++n) {
        const J& c = cases[n];
        g_sh->inflight = (long)n;
        cpuLimit(c.num("timeout", g_timeout));      // CPU seconds of this process: independent of the load of the machine
        { const off_t end = lseek(g_errfd, 0, SEEK_END); if (end > 0) g_errPos = end; }     // reports of this execution only
        emit("{\"e\":\"Reset\",\"case\":" + std::to_string(c.num("id")) + ",\"scen\":" + jstr(c.str("scen")) + ",\"cls\":" + jstr(c.str("cls")) +
             ",\"role\":" + jstr(c.str("role")) + ",\"d\":" + std::to_string(c.num("d", 0)) + ",\"in\":" + std::to_string(c.num("in")) + "}\n");
        ch.run(c);
        cpuLimit(0);
        if (c.boolean("leak", g_leakDefault) || n + 1 == to) leakCheck();      // always before the child ends
        g_sh->done = (long)n + 1;
        if (n + 1 < to) emit("{\"e\":\"Exit\",\"normal\":true,\"how\":\"continue\",\"code\":0,\"signal\":0}\n");
    }
    _exit(0);      // the parent writes the last Exit
}

// ----------------------------------------------------------------------------------- the parent
int main(int argc, char** argv) {
    if (argc < 6) { fprintf(stderr, "usage: %s cases.ndjson inputs.ndjson outdir jobs datadir\n", argv[0]); return 2; }
    {   // address-space randomisation off (re-exec once) and a fixed stack limit: where a deep recursion runs out of
        // stack must not depend on the environment of the run
        const int pers = personality(0xffffffff);
        if (pers != -1 && !(pers & ADDR_NO_RANDOMIZE) && !getenv("XV_C03_REEXEC")) {
            setenv("XV_C03_REEXEC", "1", 1);
            struct rlimit rl; if (getrlimit(RLIMIT_STACK, &rl) == 0) { rl.rlim_cur = 8u << 20; if (rl.rlim_max != RLIM_INFINITY && rl.rlim_cur > rl.rlim_max) rl.rlim_cur = rl.rlim_max; setrlimit(RLIMIT_STACK, &rl); }
            if (personality(pers | ADDR_NO_RANDOMIZE) != -1) execv("/proc/self/exe", argv);
        }
    }
    g_data = argv[5];
    const std::string outdir = argv[3];
    const int jobs = std::max(1, std::min(atoi(argv[4]), 64));
    { void* warm[4]; backtrace(warm, 4); }
    {
        auto lines = readLines(argv[2]);
        for (auto& l : lines) { J j = parseJson(l); size_t i = (size_t)j.num("i"); if (g_inputs.size() <= i) g_inputs.resize(i + 1); g_inputs[i] = unhex(j.str("hex")); }
    }
    std::vector<J> cases;
    {
        auto lines = readLines(argv[1]);
        for (auto& l : lines) {
            J j = parseJson(l);
            if (j.boolean("config")) {
                g_seedXml = j.num("seedXml"); g_seedXsl = j.num("seedXsl"); g_paramXsl = j.num("paramXsl"); g_seedExpr = j.str("seedExpr");
                g_timeout = j.num("timeout", 30); g_batch = j.num("batch", 25); g_leakDefault = j.boolean("leak", true);
            } else cases.push_back(std::move(j));
        }
    }
    { std::ofstream(g_data + "/probe.xml") << PROBE_XML; std::ofstream(g_data + "/probe.xsl") << PROBE_XSL; }

    // work units: runs of consecutive cases of one group, at most g_batch long; after an abnormal end the rest of the
    // unit goes on in a new child
    struct Unit { size_t from, to; };
    std::vector<Unit> units;
    for (size_t i = 0; i < cases.size();) {
        size_t j = i + 1;
        while (j < cases.size() && j - i < (size_t)g_batch && cases[j].str("grp") == cases[i].str("grp") && !cases[i].boolean("solo") && !cases[j].boolean("solo")) ++j;
        units.push_back({ i, j }); i = j;
    }
    struct Slot { pid_t pid; Unit u; Shared* sh; time_t started; long lastDone; time_t lastProgress; };
    std::vector<Slot> slots;
    size_t nextUnit = 0, finished = 0;
    std::vector<Unit> pending;       // remainders after a crash
    auto start = [&](Unit u) {
        Shared* sh = (Shared*)mmap(nullptr, sizeof(Shared), PROT_READ | PROT_WRITE, MAP_SHARED | MAP_ANONYMOUS, -1, 0);
        sh->inflight = (long)u.from; sh->done = (long)u.from;
        char path[600], epath[600];
        snprintf(path, sizeof path, "%s/%08zu.nd", outdir.c_str(), u.from);
        snprintf(epath, sizeof epath, "%s/%08zu.err", outdir.c_str(), u.from);
        fflush(nullptr);
        pid_t p = fork();
        if (p < 0) { perror("fork"); exit(2); }
        if (p == 0) {
            g_fd = open(path, O_WRONLY | O_CREAT | O_TRUNC | O_APPEND, 0644);
            g_errfd = open(epath, O_RDWR | O_CREAT | O_TRUNC | O_APPEND, 0644);
            if (g_fd < 0 || g_errfd < 0) _exit(2);
            dup2(g_errfd, 2);
            g_sh = sh;
            runChild(cases, u.from, u.to);
            _exit(0);
        }
        slots.push_back({ p, u, sh, time(nullptr), (long)u.from, time(nullptr) });
    };
    while (nextUnit < units.size() || !pending.empty() || !slots.empty()) {
        while ((int)slots.size() < jobs && (!pending.empty() || nextUnit < units.size())) {
            if (!pending.empty()) { Unit u = pending.back(); pending.pop_back(); start(u); }
            else start(units[nextUnit++]);
        }
        int status = 0;
        pid_t p = waitpid(-1, &status, WNOHANG);
        if (p <= 0) {
            // hard wall-clock time-out (a child that sleeps or deadlocks consumes no CPU): 30 x the CPU limit + 120 s without progress
            const time_t now = time(nullptr);
            for (auto& s : slots) {
                if (s.sh->done != s.lastDone) { s.lastDone = s.sh->done; s.lastProgress = now; }
                const size_t infl = (size_t)s.sh->inflight;
                const long lim = (infl < cases.size() ? cases[infl].num("timeout", g_timeout) : g_timeout) * 30 + 120;
                if (now - s.lastProgress > lim) { kill(s.pid, SIGKILL); s.lastProgress = now; }
            }
            usleep(5000);
            continue;
        }
        size_t k = 0;
        while (k < slots.size() && slots[k].pid != p) ++k;
        if (k == slots.size()) continue;
        Slot s = slots[k];
        slots.erase(slots.begin() + (long)k);
        const bool normal = WIFEXITED(status) && WEXITSTATUS(status) == 0;
        const size_t done = (size_t)s.sh->done, infl = (size_t)s.sh->inflight;
        munmap(s.sh, sizeof(Shared));
        static char path[600], epath[600], ev[9000], raw[3000];
        snprintf(path, sizeof path, "%s/%08zu.nd", outdir.c_str(), s.u.from);
        snprintf(epath, sizeof epath, "%s/%08zu.err", outdir.c_str(), s.u.from);
        int n = snprintf(ev, sizeof ev, "{\"e\":\"Exit\",\"normal\":%s,\"how\":\"process\",\"code\":%d,\"signal\":%d,\"stderr\":\"", normal ? "true" : "false",
                         WIFEXITED(status) ? WEXITSTATUS(status) : -1, WIFSIGNALED(status) ? WTERMSIG(status) : 0);
        if (!normal) {      // the end of the child's stderr (a sanitizer report that reached no Abort event)
            int efd = open(epath, O_RDONLY);
            if (efd >= 0) {
                off_t end = lseek(efd, 0, SEEK_END);
                off_t from = end > (off_t)sizeof raw ? end - (off_t)sizeof raw : 0;
                ssize_t r = pread(efd, raw, sizeof raw, from);
                if (r > 0) n += (int)escInto(ev + n, sizeof ev - (size_t)n - 8, raw, (size_t)r);
                close(efd);
            }
        }
        n += snprintf(ev + n, sizeof ev - (size_t)n, "\"}\n");
        int fd = open(path, O_WRONLY | O_APPEND);
        if (fd >= 0) { (void)!::write(fd, ev, (size_t)n); close(fd); }
        if (!getenv("XV_C03_KEEPERR")) unlink(epath);
        if (normal && done == s.u.to) { finished += s.u.to - s.u.from; continue; }
        if (WIFEXITED(status) && (WEXITSTATUS(status) == 2 || WEXITSTATUS(status) == 3)) { fprintf(stderr, "harness child failed (exit %d) at case %zu\n", WEXITSTATUS(status), infl); return 2; }
        // abnormal end: the case in flight is over (its execution ends with the Abort / Exit events); go on after it
        finished += infl + 1 - s.u.from;
        if (infl + 1 < s.u.to) pending.push_back({ infl + 1, s.u.to });
    }
    printf("%zu\n", finished);
    fflush(nullptr);
    _exit(0);
}
