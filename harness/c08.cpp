// C08 conformance harness: one REAL transformation per case through XalanTransformer into a std::ostringstream, so that
// StylesheetRoot::setupFormatterListener (xsl:output attributes + transformer overrides -> serializer), the HTML
// auto-switch of XSLTEngineImpl::flushPending and the serializers themselves are on the path.  The bytes are returned
// untouched (hex); decoding and parsing is done by independent parsers on the Python side.
// usage: xv_c08 cases.ndjson > out.ndjson
//   case : {"id":N,"xsl":"<xsl:stylesheet ...>","xml":"<x/>",
//           "setIndent":int (absent = not called),"setEncoding":"..." (absent/"" = not called),
//           "omitMeta":"default"|"no"|"yes","escapeURLs":"default"|"no"|"yes"}
//   event: {"e":"Done","id":N,"status":s,"msg":"...","warn":"...","hex":"<bytes>"}
#include "common.hpp"
#include <sstream>
#include <xalanc/XSLT/XSLTInputSource.hpp>
#include <xalanc/XSLT/XSLTResultTarget.hpp>
#include <xalanc/XalanTransformer/XalanTransformer.hpp>

using namespace xv;

static std::string hexOf(const std::string& s) {
    static const char* d = "0123456789abcdef";
    std::string o; o.reserve(s.size() * 2);
    for (unsigned char c : s) { o += d[c >> 4]; o += d[c & 15]; }
    return o;
}

int main(int argc, char** argv) {
    if (argc < 2) { fprintf(stderr, "usage: %s cases.ndjson\n", argv[0]); return 2; }
    Platform platform;
    XalanTransformer::initialize();
    {
        auto lines = readLines(argv[1]);
        for (auto& line : lines) {
            J c = parseJson(line);
            const long long id = c.num("id");
            int status = 0; std::string msg;
            std::ostringstream out, warn;
            try {
                XalanTransformer xt;
                xt.setWarningStream(&warn);
                if (c.has("setIndent")) xt.setIndent(int(c.num("setIndent")));
                const std::string enc = c.str("setEncoding");
                if (!enc.empty()) xt.setOutputEncoding(fromUtf8(enc));
                const std::string om = c.str("omitMeta", "default");
                if (om == "no") xt.setOmitMETATag(XalanTransformer::eOmitMETATagNo);
                else if (om == "yes") xt.setOmitMETATag(XalanTransformer::eOmitMETATagYes);
                const std::string eu = c.str("escapeURLs", "default");
                if (eu == "no") xt.setEscapeURLs(XalanTransformer::eEscapeURLsNo);
                else if (eu == "yes") xt.setEscapeURLs(XalanTransformer::eEscapeURLsYes);
                std::istringstream xsl(c.str("xsl")), xml(c.str("xml", "<x/>"));
                XSLTInputSource xslIn(&xsl), xmlIn(&xml);
                XSLTResultTarget target(out);
                status = xt.transform(xmlIn, xslIn, target);
                if (status != 0) msg = xt.getLastError();
            } catch (const XSLException& e) { status = -100; msg = excMessage(e);
            } catch (const std::exception& e) { status = -101; msg = std::string("std::exception ") + e.what();
            } catch (...) { status = -102; msg = "unknown exception"; }
            std::string done = "{\"e\":\"Done\",\"id\":" + std::to_string(id) + ",\"status\":" + std::to_string(status) +
                               ",\"msg\":" + jstr(msg) + ",\"warn\":" + jstr(warn.str()) + ",\"hex\":\"" + hexOf(out.str()) + "\"}\n";
            fputs(done.c_str(), stdout);
            fflush(stdout);
        }
    }
    XalanTransformer::terminate();
    return 0;
}
