// C12: replay operation histories on the real MutableNodeRefList over real nodes and record the
// list after every operation.  usage: xv_c12 cases.ndjson > trace.ndjson
#include "common.hpp"
#include <xalanc/XPath/MutableNodeRefList.hpp>
#include <xalanc/XPath/XObjectFactoryDefault.hpp>
#include <xalanc/XPath/XPathEnvSupportDefault.hpp>
#include <xalanc/XPath/XPathExecutionContextDefault.hpp>
#include <xalanc/XPath/XPathEvaluator.hpp>

using namespace xv;

static std::string listJson(const MutableNodeRefList& l, const NodeIds& ids) {
    std::string o = "[";
    for (NodeRefListBase::size_type i = 0; i < l.getLength(); ++i) { if (i) o += ","; o += ids.ref(l.item(i)); }
    return o + "]";
}
static const char* flagOf(const MutableNodeRefList& l) {
    return l.getDocumentOrder() ? "doc" : l.getReverseDocumentOrder() ? "rev" : "unknown";
}
static void setFlag(MutableNodeRefList& l, const std::string& f) {
    if (f == "doc") l.setDocumentOrder(); else if (f == "rev") l.setReverseDocumentOrder(); else l.setUnknownOrder();
}

template <class DocsT>
static void runCase(const J& c, DocsT& docs, DOMSupport& support, size_t caseNo) {
    NodeIds ids;
    for (auto& x : c.at("docs").a) ids.addDocument(docs.parse(x.s));
    XPathEnvSupportDefault env;
    XObjectFactoryDefault factory;
    XPathExecutionContextDefault ctx(env, support, factory);
    MutableNodeRefList list(XalanMemMgrs::getDefaultXercesMemMgr());
    printf("{\"e\":\"Reset\",\"case\":%zu,\"kind\":%s}\n", caseNo, jstr(c.str("kind")).c_str());
    for (auto& op : c.at("ops").a) {
        const std::string o = op.str("op");
        std::string args;
        if (o == "addNode" || o == "addInOrder") {
            const J& n = op.at("n");
            XalanNode* node = ids.node((int)n.a[0].n, (int)n.a[1].n);
            if (o == "addNode") list.addNode(node); else list.addNodeInDocOrder(node, ctx);
            args = ",\"n\":" + ids.ref(node);
        } else if (o == "addAll") {
            MutableNodeRefList src(XalanMemMgrs::getDefaultXercesMemMgr());
            for (auto& n : op.at("src").a) src.addNode(ids.node((int)n.a[0].n, (int)n.a[1].n));
            setFlag(src, op.str("sflag"));
            list.addNodesInDocOrder(src, ctx);
            args = ",\"src\":" + listJson(src, ids) + ",\"sflag\":" + jstr(op.str("sflag"));
        } else if (o == "clear") list.clear();
        else if (o == "reverse") list.reverse();
        else if (o == "setFlag") { setFlag(list, op.str("f")); args = ",\"f\":" + jstr(op.str("f")); }
        else { fprintf(stderr, "unknown op %s\n", o.c_str()); exit(2); }
        printf("{\"e\":\"Op\",\"op\":%s%s,\"list\":%s,\"flag\":\"%s\"}\n", jstr(o).c_str(), args.c_str(), listJson(list, ids).c_str(), flagOf(list));
    }
}

int main(int argc, char** argv) {
    if (argc < 2) { fprintf(stderr, "usage: %s cases.ndjson\n", argv[0]); return 2; }
    Platform platform;
    XPathEvaluator::initialize();
    {
        auto lines = readLines(argv[1]);
        size_t k = 0;
        for (auto& line : lines) {
            J c = parseJson(line);
            ++k;
            const std::string kind = c.str("kind");
            try {
                if (kind == "native") { NativeDocs d; runCase(c, d, d.support, k); }
                else if (kind == "xerces-built") { XercesDocs d(true); runCase(c, d, d.support, k); }
                else if (kind == "xerces-lazy") {
                    // not thread-safe AND not built: the only combination in which the wrapper nodes carry no index
                    // (XercesDocumentWrapper: m_mappingMode = threadSafe ? false : !buildWrapper), so that document
                    // order is decided by the structural DOMServices::isNodeAfter
                    XercesDocs d(false, false); runCase(c, d, d.support, k);
                }
                else { fprintf(stderr, "unknown kind %s\n", kind.c_str()); return 2; }
            } catch (const XSLException& e) {
                printf("{\"e\":\"Error\",\"msg\":%s}\n", jstr(excMessage(e)).c_str());
            }
        }
    }
    XPathEvaluator::terminate();
    return 0;
}
