// C07 - compiled stylesheets and parsed sources can be shared by concurrent threads.
//
// Schedule-independent race detection (DESIGN.md "### C07"):
//   * transformer A lives on an ARENA MemoryManager (one mmap region, bump allocator); XalanTransformer::initialize,
//     A itself, the compiled stylesheet and the parsed source are all built inside it          -> Build(o)
//   * the region is mprotect-ed read-only                                                       -> Freeze(o)
//   * N threads, each with its own XalanTransformer on the default manager, transform concurrently with A's
//     compiled stylesheet and parsed source                                                     -> Start(t) ... Done(t, outHash)
//   * every store into the region faults; the SIGSEGV handler records {thread, object, locks, frames}, opens
//     the page, single-steps the one instruction (TF) and closes the page again in the SIGTRAP handler, so that
//     EVERY post-freeze store of every thread is seen, independent of the schedule           -> Write(t, o, locks)
//   * `locks` = number of mutexes the faulting thread holds: pthread_mutex_lock/trylock/unlock are interposed
//     in this executable (Xerces' XMLMutex = std::mutex ends there); the store into the mutex' own state word
//     (it lives in the arena, too) happens inside the interposed call and is exempt
//   * the sequential reference output comes from a forked child that never sees the arena    -> Seq(outHash)
//
// usage: xv_c07 <native|xerces-wrapper|xerces-parse> <stylesheet> <source> <threads> <iterations> [serial]
#ifndef _GNU_SOURCE
#define _GNU_SOURCE
#endif
#include <atomic>
#include <cxxabi.h>
#include <dlfcn.h>
#include <link.h>
#include <execinfo.h>
#include <new>
#include <pthread.h>
#include <signal.h>
#include <sstream>
#include <sys/mman.h>
#include <sys/wait.h>
#include <ucontext.h>
#include <unistd.h>

#include "common.hpp"

#include <xercesc/framework/LocalFileInputSource.hpp>
#include <xercesc/framework/MemoryManager.hpp>
#include <xercesc/parsers/XercesDOMParser.hpp>
#include <xercesc/util/OutOfMemoryException.hpp>

#include <xalanc/XSLT/XSLTInputSource.hpp>
#include <xalanc/XSLT/XSLTResultTarget.hpp>
#include <xalanc/XalanTransformer/XalanTransformer.hpp>
#include <xalanc/XalanTransformer/XercesDOMWrapperParsedSource.hpp>

using namespace xalanc;

// ----------------------------------------------------------------------------- mutex interposition
static __thread volatile int t_locks = 0;     // mutexes held by this thread
static __thread volatile int t_inMutex = 0;   // inside an interposed mutex operation
static __thread int t_id = 0;        // 0 = main thread, 1..N workers
static __thread volatile int t_canary = 0;    // the harness' own probe store (self-check of the observation)

typedef int (*mutex_fn)(pthread_mutex_t*);
static mutex_fn real_lock, real_trylock, real_unlock;
static void resolveMutexFns() {
    if (!real_lock) real_lock = (mutex_fn)dlsym(RTLD_NEXT, "pthread_mutex_lock");
    if (!real_trylock) real_trylock = (mutex_fn)dlsym(RTLD_NEXT, "pthread_mutex_trylock");
    if (!real_unlock) real_unlock = (mutex_fn)dlsym(RTLD_NEXT, "pthread_mutex_unlock");
}
static std::atomic<long> g_lockCalls(0);

// A mutex that lives inside the arena (Xerces' XMLMutex of the thread-safe string pool is `new (manager) std::mutex`)
// is replaced by a shadow mutex outside of it: the lock call's store into the mutex' own state word is not a store of
// Xalan's into shared data, and would otherwise cost two signals per lock operation.  Should a store into the arena
// happen inside an interposed call all the same, t_inMutex marks it as exempt in the fault handler.
static char* g_base = nullptr;
static const size_t g_cap = size_t(1) << 30;
// libxalan-c's own writable static data (.got.plt .data .bss: the PF_W PT_LOAD segment minus its RELRO part), page-aligned
static char* g_sbase = nullptr; static char* g_send = nullptr; static char* g_libBase = nullptr;
static inline bool inArena(const char* p)  { return g_base && p >= g_base && p < g_base + g_cap; }
static inline bool inStatic(const char* p) { return g_sbase && p >= g_sbase && p < g_send; }
static const int NSHADOW = 1 << 12;
static std::atomic<uintptr_t> g_shadowKey[NSHADOW];
static pthread_mutex_t g_shadow[NSHADOW];
static std::atomic<long> g_shadowed(0);
static void initShadows() {
    pthread_mutexattr_t a; pthread_mutexattr_init(&a); pthread_mutexattr_settype(&a, PTHREAD_MUTEX_RECURSIVE);
    for (int i = 0; i < NSHADOW; ++i) pthread_mutex_init(&g_shadow[i], &a);
    pthread_mutexattr_destroy(&a);
}
static inline pthread_mutex_t* shadowOf(pthread_mutex_t* m) {
    char* p = (char*)m;
    if (!inArena(p) && !inStatic(p)) return m;
    uintptr_t key = (uintptr_t)p;
    unsigned i = unsigned((key >> 3) * 0x9E3779B1u) & (NSHADOW - 1);
    for (int probe = 0; probe < NSHADOW; ++probe, i = (i + 1) & (NSHADOW - 1)) {
        uintptr_t cur = g_shadowKey[i].load();
        if (cur == key) return &g_shadow[i];
        if (cur == 0) {
            uintptr_t exp = 0;
            if (g_shadowKey[i].compare_exchange_strong(exp, key)) { g_shadowed.fetch_add(1); return &g_shadow[i]; }
            if (exp == key) return &g_shadow[i];
        }
    }
    return m;   // table full: fall back to the real word (exempted through t_inMutex)
}

extern "C" int pthread_mutex_lock(pthread_mutex_t* m) {
    if (!real_lock) resolveMutexFns();
    t_inMutex = t_inMutex + 1;
    int r = real_lock(shadowOf(m));
    t_inMutex = t_inMutex - 1;
    if (r == 0) { t_locks = t_locks + 1; g_lockCalls.fetch_add(1, std::memory_order_relaxed); }
    return r;
}
extern "C" int pthread_mutex_trylock(pthread_mutex_t* m) {
    if (!real_trylock) resolveMutexFns();
    t_inMutex = t_inMutex + 1;
    int r = real_trylock(shadowOf(m));
    t_inMutex = t_inMutex - 1;
    if (r == 0) t_locks = t_locks + 1;
    return r;
}
extern "C" int pthread_mutex_unlock(pthread_mutex_t* m) {
    if (!real_unlock) resolveMutexFns();
    t_inMutex = t_inMutex + 1;
    int r = real_unlock(shadowOf(m));
    t_inMutex = t_inMutex - 1;
    if (r == 0 && t_locks > 0) t_locks = t_locks - 1;
    return r;
}

// ------------------------------------------------------------------------------------------- arena
static std::atomic<size_t> g_top(0);
static std::atomic<int> g_frozen(0);
static std::atomic<long> g_postFreezeAllocs(0);

// object boundaries inside the arena (offsets), filled while building
enum { O_TABLES, O_TRANSFORMER, O_STYLESHEET, O_SOURCE, O_FRESH, O_STATIC, O_COUNT };
static const char* const g_objName[O_COUNT] = { "tables", "transformer", "stylesheet", "source", "fresh", "static" };
static size_t g_objEnd[O_COUNT];   // exclusive end offset of each object; O_FRESH = everything allocated after Freeze

static int objectOf(size_t off) {
    for (int i = 0; i < O_FRESH; ++i) if (off < g_objEnd[i]) return i;
    return O_FRESH;
}

class ArenaManager : public xercesc::MemoryManager {
public:
    void* allocate(XMLSize_t n) override {
        size_t a = (size_t(n) + 15) & ~size_t(15);
        if (a == 0) a = 16;
        size_t off = g_top.fetch_add(a);
        if (off + a > g_cap) throw xercesc::OutOfMemoryException();
        if (g_frozen.load(std::memory_order_relaxed)) g_postFreezeAllocs.fetch_add(1, std::memory_order_relaxed);
        return g_base + off;
    }
    void deallocate(void*) override {}
    xercesc::MemoryManager* getExceptionMemoryManager() override { return xercesc::XMLPlatformUtils::fgMemoryManager; }
};

// ------------------------------------------------------------------------------------ event record
enum { EV_START = 1, EV_WRITE, EV_DONE, EV_MUTEXWORD };
static const int MAXFR = 40;
struct Rec {
    std::atomic<int> ready;
    int type, thread, locks, obj, nfr, rc, atomic;
    size_t off;
    unsigned long long hash; size_t len;
    void* fr[MAXFR];
    char err[200];
};
static const int MAXREC = 1 << 15;
static Rec* g_rec;
static std::atomic<int> g_nrec(0);
static std::atomic<long> g_faults(0), g_mutexWordFaults(0), g_dropped(0);

static Rec* newRec() {
    int i = g_nrec.fetch_add(1);
    if (i >= MAXREC) { g_dropped.fetch_add(1); return nullptr; }
    return &g_rec[i];
}

// dedupe: one Write record per (call-site chain, object, lock state)
static const int DEDUP = 1 << 16;
static std::atomic<unsigned long long> g_seen[DEDUP];
static bool firstTime(unsigned long long key) {
    if (key == 0) key = 1;
    unsigned i = unsigned(key * 0x9E3779B97F4A7C15ull >> 48) & (DEDUP - 1);
    for (int probe = 0; probe < DEDUP; ++probe, i = (i + 1) & (DEDUP - 1)) {
        unsigned long long cur = g_seen[i].load();
        if (cur == key) return false;
        if (cur == 0) {
            unsigned long long exp = 0;
            if (g_seen[i].compare_exchange_strong(exp, key)) return true;
            if (exp == key) return false;
        }
    }
    return false;
}

// ----------------------------------------------------------------------------------- fault handling
static const int MAXOPEN = 8;
static __thread char* t_open[MAXOPEN];
static __thread int t_nopen = 0;
static struct sigaction g_oldSegv;

static void reportEvents();   // prints what was recorded so far
static std::atomic<int> g_dying(0);

static void dieSegv(int sig, siginfo_t* si) {
    // a genuine crash (of the library under test): report what was observed up to here, then let it happen again
    if (g_dying.exchange(1)) { for (;;) pause(); }
    char buf[128]; int n = snprintf(buf, sizeof buf, "xv_c07: genuine SIGSEGV at %p (thread %d)\n", si->si_addr, t_id);
    if (write(2, buf, n)) {}
    if (g_frozen.exchange(0)) {
        mprotect(g_base, g_cap, PROT_READ | PROT_WRITE);
        if (g_sbase) mprotect(g_sbase, g_send - g_sbase, PROT_READ | PROT_WRITE);
        reportEvents();
        printf("{\"e\":\"Crash\",\"signal\":%d,\"thread\":%d}\n", sig, t_id);
        fflush(stdout);
    }
    struct sigaction dfl; memset(&dfl, 0, sizeof dfl); dfl.sa_handler = SIG_DFL;
    sigaction(SIGSEGV, &dfl, nullptr);
}

static void onSegv(int sig, siginfo_t* si, void* ucv) {
    ucontext_t* uc = (ucontext_t*)ucv;
    char* addr = (char*)si->si_addr;
    const bool isStatic = inStatic(addr);
    if (!g_frozen.load() || !(inArena(addr) || isStatic) || t_nopen >= MAXOPEN) { dieSegv(sig, si); return; }
    int savedErrno = errno;
    char* page = (char*)(uintptr_t(addr) & ~uintptr_t(4095));
    mprotect(page, 4096, PROT_READ | PROT_WRITE);
    t_open[t_nopen++] = page;
    uc->uc_mcontext.gregs[REG_EFL] |= 0x100;   // single-step: SIGTRAP after this instruction
    g_faults.fetch_add(1, std::memory_order_relaxed);
    if (t_inMutex > 0) {
        g_mutexWordFaults.fetch_add(1, std::memory_order_relaxed);
        errno = savedErrno;
        return;   // the mutex' own state word, written by the lock/unlock call itself
    }
    if (t_canary) { errno = savedErrno; return; }
    void* rip = (void*)uc->uc_mcontext.gregs[REG_RIP];
    size_t off = isStatic ? size_t(addr - g_libBase) : size_t(addr - g_base);   // static: link-time address inside libxalan-c.so
    int obj = isStatic ? int(O_STATIC) : objectOf(off);
    int locks = t_locks;
    // LOCK-prefixed read-modify-write or xchg with memory: an atomic operation, not a data race
    int atomic = 0;
    {
        const unsigned char* ip = (const unsigned char*)rip;
        int k = 0;
        for (; k < 4; ++k) {
            unsigned char b = ip[k];
            if (b == 0xF0) { atomic = 1; break; }
            if (!(b == 0x66 || b == 0x67 || b == 0x2E || b == 0x36 || b == 0x3E || b == 0x26 || b == 0x64 || b == 0x65 || b == 0xF2 || b == 0xF3)) break;
        }
        if (!atomic) { if ((ip[k] & 0xF0) == 0x40) ++k; if (ip[k] == 0x86 || ip[k] == 0x87) atomic = 1; }
    }
    void* fr[MAXFR]; int nfr = 0;
    // a store under a mutex is accepted by the rule whatever its call site: unwind the stack only the first time this
    // instruction stores into this object under a lock (the unwinder costs more than the two signals)
    bool unwind = true;
    if (locks > 0 || atomic) {
        unsigned long long k0 = ((unsigned long long)(uintptr_t)rip * 1099511628211ull) ^ (unsigned long long)(obj + 1) ^ 0x5bd1e995ull;
        unwind = firstTime(k0);
        if (!unwind) { errno = savedErrno; return; }
    }
    void* raw[MAXFR + 8];
    int n = backtrace(raw, MAXFR + 8);
    int first = -1;
    for (int i = 0; i < n; ++i) if (raw[i] == rip) { first = i; break; }
    if (first < 0) { fr[nfr++] = rip; first = n; }   // unwinder could not cross the signal frame: keep the pc
    for (int i = first; i < n && nfr < MAXFR; ++i) fr[nfr++] = raw[i];
    unsigned long long key = 1469598103934665603ull;
    for (int i = 0; i < nfr; ++i) { key ^= (unsigned long long)(uintptr_t)fr[i]; key *= 1099511628211ull; }
    key ^= (unsigned long long)(obj * 2 + (locks > 0 ? 1 : 0)); key *= 1099511628211ull;
    if (firstTime(key)) {
        Rec* r = newRec();
        if (r) {
            r->type = EV_WRITE; r->thread = t_id; r->locks = locks; r->obj = obj; r->off = off; r->nfr = nfr; r->atomic = atomic;
            memcpy(r->fr, fr, sizeof(void*) * nfr);
            r->ready.store(1);
        }
    }
    errno = savedErrno;
}

static void onTrap(int, siginfo_t*, void* ucv) {
    ucontext_t* uc = (ucontext_t*)ucv;
    int savedErrno = errno;
    for (int i = 0; i < t_nopen; ++i) mprotect(t_open[i], 4096, PROT_READ);
    t_nopen = 0;
    uc->uc_mcontext.gregs[REG_EFL] &= ~0x100ll;
    errno = savedErrno;
}

static void installHandlers() {
    void* warm[4]; backtrace(warm, 4);   // loads libgcc's unwinder now, not inside the handler
    struct sigaction sa; memset(&sa, 0, sizeof sa);
    sa.sa_sigaction = onSegv; sa.sa_flags = SA_SIGINFO; sigemptyset(&sa.sa_mask);
    sigaction(SIGSEGV, &sa, &g_oldSegv);
    struct sigaction st; memset(&st, 0, sizeof st);
    st.sa_sigaction = onTrap; st.sa_flags = SA_SIGINFO; sigemptyset(&st.sa_mask);
    sigaction(SIGTRAP, &st, nullptr);
}

// ------------------------------------------------------------------------------------ symbolisation
static std::string simplify(const char* mangled) {
    int status = 0;
    char* d = abi::__cxa_demangle(mangled, nullptr, nullptr, &status);
    std::string s = (status == 0 && d) ? d : mangled;
    free(d);
    // drop template arguments
    std::string o; int depth = 0;
    for (size_t i = 0; i < s.size(); ++i) {
        char c = s[i];
        if (c == '<' && !(o.size() >= 8 && o.compare(o.size() - 8, 8, "operator") == 0)) { ++depth; continue; }
        if (c == '>' && depth > 0) { --depth; continue; }
        if (depth == 0) o += c;
    }
    // cut the parameter list
    size_t p = 0;
    for (;;) {
        p = o.find('(', p);
        if (p == std::string::npos) break;
        if (o.compare(p, 21, "(anonymous namespace)") == 0) { p += 21; continue; }
        if (p >= 8 && o.compare(p - 8, 8, "operator") == 0) { p += 2; continue; }
        o.erase(p); break;
    }
    // drop a leading return type
    size_t sp = o.rfind(' ');
    if (sp != std::string::npos && o.find("operator") == std::string::npos) o = o.substr(sp + 1);
    // xalanc_1_12:: -> xalanc::, xercesc_3_2:: -> xercesc::
    for (const char* ns : { "xalanc_", "xercesc_" }) {
        size_t q = 0;
        while ((q = o.find(ns, q)) != std::string::npos) {
            size_t e = o.find("::", q);
            if (e == std::string::npos) break;
            o.replace(q, e - q, std::string(ns, strlen(ns) - 1));
            q += 1;
        }
    }
    return o;
}

static const char* moduleOf(const char* fname) {
    if (!fname) return "?";
    if (strstr(fname, "libxalan-c")) return "xalan";
    if (strstr(fname, "libxalanMsg")) return "xalan";
    if (strstr(fname, "libxerces-c")) return "xerces";
    if (strstr(fname, "libc.so")) return "libc";
    if (strstr(fname, "libstdc++")) return "libstdc++";
    if (strstr(fname, "libicu")) return "icu";
    if (strstr(fname, "xv_c07")) return "harness";
    return "other";
}

struct Sym { std::string name, mod; };
static Sym symbolise(void* pc, bool isReturnAddress) {
    Dl_info di; memset(&di, 0, sizeof di);
    void* a = isReturnAddress ? (void*)((char*)pc - 1) : pc;
    Sym s;
    if (dladdr(a, &di)) {
        s.mod = moduleOf(di.dli_fname);
        if (di.dli_sname) s.name = simplify(di.dli_sname);
    } else s.mod = "?";
    return s;
}

// ---------------------------------------------------------------------------------------- hashing
static unsigned long long fnv(const std::string& s) {
    unsigned long long h = 1469598103934665603ull;
    for (unsigned char c : s) { h ^= c; h *= 1099511628211ull; }
    return h;
}
static std::string hex(unsigned long long h) { char b[24]; snprintf(b, sizeof b, "%016llx", h); return b; }

// ------------------------------------------------------------------------------ building the inputs
struct Inputs {
    const XalanCompiledStylesheet* ss = nullptr;
    const XalanParsedSource* src = nullptr;
};

// Xerces DOM for the wrapper kind: parsed on the default manager (outside the arena): Xerces' own nodes write
// on read (DOMCharacterDataImpl::getNodeValue re-terminates its buffer) - not Xalan's code
static xercesc::XercesDOMParser* parseXercesDom(const char* path) {
    xercesc::XercesDOMParser* p = new xercesc::XercesDOMParser();
    p->setDoNamespaces(true);
    p->setCreateEntityReferenceNodes(false);
    p->setIncludeIgnorableWhitespace(true);
    p->parse(path);
    return p;
}

// builds stylesheet + source of the given kind with transformer `xf` (whose manager is `mm`)
static bool buildInputs(XalanTransformer& xf, xercesc::MemoryManager& mm, const std::string& kind, const char* xsl,
                        const char* xml, Inputs& in, std::string& err, void (*mark)(int)) {
    {
        XSLTInputSource ssrc(xsl, mm);
        if (xf.compileStylesheet(ssrc, in.ss) != 0) { err = std::string("compileStylesheet: ") + xf.getLastError(); return false; }
    }
    if (mark) mark(O_STYLESHEET);
    if (kind == "native" || kind == "xerces-parse") {
        XSLTInputSource xsrc(xml, mm);
        if (xf.parseSource(xsrc, in.src, kind == "xerces-parse") != 0) { err = std::string("parseSource: ") + xf.getLastError(); return false; }
    } else if (kind == "xerces-wrapper") {
        xercesc::XercesDOMParser* p = parseXercesDom(xml);   // default manager, never freed (process exits)
        const xercesc::DOMDocument* dom = p->getDocument();
        if (!dom || !dom->getDocumentElement()) { err = "xerces parse failed"; return false; }
        XercesParserLiaison* liaison = new (mm.allocate(sizeof(XercesParserLiaison))) XercesParserLiaison(mm);
        XercesDOMSupport* support = new (mm.allocate(sizeof(XercesDOMSupport))) XercesDOMSupport(*liaison);
        XalanDOMString uri(mm);
        {
            // same URI normalisation as parseSource uses: file URL of the source
            XSLTInputSource tmp(xml, mm);
            if (tmp.getSystemId()) uri = tmp.getSystemId();
        }
        in.src = new (mm.allocate(sizeof(XercesDOMWrapperParsedSource))) XercesDOMWrapperParsedSource(dom, *liaison, *support, uri, mm);
    } else { err = "unknown kind " + kind; return false; }
    if (mark) mark(O_SOURCE);
    return true;
}

static void markEnd(int obj) { g_objEnd[obj] = g_top.load(); }

// ----------------------------------------------------------------------------------------- workers
static pthread_barrier_t g_barrier;
static bool g_serial = false;
static Inputs g_in;
static int g_iters = 1;

static void* worker(void* arg) {
    t_id = int(intptr_t(arg));
    if (!g_serial) pthread_barrier_wait(&g_barrier);
    {
        Rec* r = newRec();
        if (r) { r->type = EV_START; r->thread = t_id; r->ready.store(1); }
    }
    int rc = -99; std::string err, out;
    auto done = [&]() {
        Rec* r = newRec();
        if (r) {
            r->type = EV_DONE; r->thread = t_id; r->rc = rc; r->hash = fnv(out); r->len = out.size();
            snprintf(r->err, sizeof r->err, "%s", err.c_str());
            r->ready.store(1);
        }
    };
    {
        XalanTransformer xf;   // own transformer, default manager (constructed and destroyed between Start and Done)
        for (int it = 0; it < g_iters; ++it) {
            std::ostringstream os, ws;
            xf.setWarningStream(&ws);      // what this transformation reports (xsl:message, warnings) is part of its outcome
            rc = -99; err.clear();
            try {
                rc = xf.transform(*g_in.src, g_in.ss, XSLTResultTarget(os));
                if (rc != 0) err = xf.getLastError();
            } catch (...) { rc = -98; err = "exception escaped XalanTransformer::transform"; }
            out = os.str() + "\n--reported--\n" + ws.str();
            if (it + 1 < g_iters) {
                done();
                Rec* s = newRec();
                if (s) { s->type = EV_START; s->thread = t_id; s->ready.store(1); }
            }
        }
    }
    done();
    return nullptr;
}

// --------------------------------------------------------------------------- sequential reference
// forked before anything of Xalan is initialised in this process: own initialisation, own compiled
// stylesheet, own parsed source of the same kind, default memory manager, one thread
static bool sequentialReference(const std::string& kind, const char* xsl, const char* xml, std::string& line) {
    int fd[2];
    if (pipe(fd) != 0) return false;
    fflush(stdout);
    pid_t pid = fork();
    if (pid < 0) return false;
    if (pid == 0) {
        close(fd[0]);
        std::string msg;
        try {
            xercesc::XMLPlatformUtils::Initialize();
            XalanTransformer::initialize();
            {
                XalanTransformer xf;
                Inputs in; std::string err;
                xercesc::MemoryManager& mm = *xercesc::XMLPlatformUtils::fgMemoryManager;
                if (!buildInputs(xf, mm, kind, xsl, xml, in, err, nullptr)) msg = "{\"e\":\"Seq\",\"rc\":-1,\"outHash\":\"build-failed\",\"len\":0,\"err\":" + xv::jstr(err) + "}";
                else {
                    std::ostringstream os, ws;
                    xf.setWarningStream(&ws);
                    int rc = xf.transform(*in.src, in.ss, XSLTResultTarget(os));
                    std::string out = os.str() + "\n--reported--\n" + ws.str();
                    msg = "{\"e\":\"Seq\",\"rc\":" + std::to_string(rc) + ",\"outHash\":\"" + hex(fnv(out)) + "\",\"len\":" + std::to_string(out.size());
                    if (rc != 0) msg += ",\"err\":" + xv::jstr(xf.getLastError());
                    const char* dump = getenv("XV_C07_DUMP");
                    if (dump) { std::ofstream f(dump); f << out; }
                    msg += "}";
                }
            }
        } catch (...) { msg = "{\"e\":\"Seq\",\"rc\":-2,\"outHash\":\"exception\",\"len\":0}"; }
        if (write(fd[1], msg.data(), msg.size())) {}
        close(fd[1]);
        _exit(0);
    }
    close(fd[1]);
    char buf[4096]; ssize_t n;
    while ((n = read(fd[0], buf, sizeof buf)) > 0) line.append(buf, n);
    close(fd[0]);
    int st = 0; waitpid(pid, &st, 0);
    return WIFEXITED(st) && WEXITSTATUS(st) == 0 && !line.empty();
}

static long g_writesReported = 0;
static void reportEvents() {
    int n = std::min(g_nrec.load(), MAXREC);
    long writes = 0;
    for (int i = 0; i < n; ++i) {
        Rec& r = g_rec[i];
        if (!r.ready.load()) continue;
        if (r.type == EV_START) printf("{\"e\":\"Start\",\"thread\":%d}\n", r.thread);
        else if (r.type == EV_DONE) {
            printf("{\"e\":\"Done\",\"thread\":%d,\"rc\":%d,\"outHash\":\"%s\",\"len\":%zu", r.thread, r.rc, hex(r.hash).c_str(), r.len);
            if (r.err[0]) printf(",\"err\":%s", xv::jstr(r.err).c_str());
            printf("}\n");
        } else if (r.type == EV_WRITE) {
            ++writes;
            // frames: innermost first; `site` = innermost frame of any module, `frames` = the xalanc:: functions on the stack
            std::string frames, site, mod;
            int shown = 0;
            for (int k = 0; k < r.nfr; ++k) {
                Sym s = symbolise(r.fr[k], k > 0);
                if (k == 0) { site = s.name.empty() ? "?" : s.name; mod = s.mod; }
                if (s.mod == "harness") break;       // the worker function: end of the library part of the stack
                if (s.name.compare(0, 8, "xalanc::") == 0 && shown < 12) {
                    if (shown++) frames += ",";
                    frames += xv::jstr(s.name.substr(8));
                }
            }
            printf("{\"e\":\"Write\",\"thread\":%d,\"region\":\"%s\",\"obj\":\"%s\",\"off\":%zu,\"locks\":%d,\"atomic\":%s,\"mod\":\"%s\",\"site\":%s,\"frames\":[%s]}\n",
                   r.thread, r.obj == O_STATIC ? "static" : "arena", g_objName[r.obj], r.off, r.locks, r.atomic ? "true" : "false", mod.c_str(), xv::jstr(site).c_str(), frames.c_str());
        }
    }
    g_writesReported = writes;
}

// ------------------------------------------------------------------------------ library static data
static int phdrCallback(struct dl_phdr_info* info, size_t, void*) {
    const char* name = info->dlpi_name;
    if (!name || !strstr(name, "libxalan-c.so")) return 0;
    char* lo = nullptr; char* hi = nullptr; char* relroEnd = nullptr;
    for (int i = 0; i < info->dlpi_phnum; ++i) {
        const ElfW(Phdr)& ph = info->dlpi_phdr[i];
        char* a = (char*)info->dlpi_addr + ph.p_vaddr;
        if (ph.p_type == PT_LOAD && (ph.p_flags & PF_W)) { lo = a; hi = a + ph.p_memsz; }
        if (ph.p_type == PT_GNU_RELRO) relroEnd = a + ph.p_memsz;
    }
    if (!lo) return 0;
    char* start = (relroEnd && relroEnd > lo && relroEnd <= hi) ? relroEnd : lo;   // RELRO is read-only already
    g_libBase = (char*)info->dlpi_addr;
    g_sbase = (char*)(uintptr_t(start) & ~uintptr_t(4095));
    g_send = (char*)((uintptr_t(hi) + 4095) & ~uintptr_t(4095));
    return 1;
}

// -------------------------------------------------------------------------------------------- main
static std::string base(const char* p) { const char* s = strrchr(p, '/'); return s ? s + 1 : p; }

int main(int argc, char** argv) {
    if (argc < 6) { fprintf(stderr, "usage: %s <native|xerces-wrapper|xerces-parse> <xsl> <xml> <threads> <iters>\n", argv[0]); return 2; }
    std::string kind = argv[1]; const char* xsl = argv[2]; const char* xml = argv[3];
    int nthreads = atoi(argv[4]); g_iters = atoi(argv[5]);
    if (nthreads < 1 || nthreads > 64 || g_iters < 1) { fprintf(stderr, "bad thread/iteration count\n"); return 2; }
    g_serial = argc > 6 && std::string(argv[6]) == "serial";
    const bool noFreeze = getenv("XV_C07_NOFREEZE") != nullptr;   // diagnosis only: same run without the observation
    const bool noStatic = getenv("XV_C07_NOSTATIC") != nullptr;   // diagnosis only: arena observation alone
    if (!getenv("LD_BIND_NOW")) {
        // .got.plt of libxalan-c.so lies in the watched static pages: have the loader fill it before main, not lazily
        setenv("LD_BIND_NOW", "1", 1);
        execv("/proc/self/exe", argv);
        perror("execv"); return 2;
    }
    if (!noStatic) {
        dl_iterate_phdr(phdrCallback, nullptr);
        if (!g_sbase) { fprintf(stderr, "xv_c07: writable segment of libxalan-c.so not found\n"); return 4; }
    }
    resolveMutexFns();
    initShadows();

    printf("{\"e\":\"Reset\",\"kind\":%s,\"xsl\":%s,\"xml\":%s,\"threads\":%d,\"iters\":%d,\"schedule\":\"%s\"}\n", xv::jstr(kind).c_str(),
           xv::jstr(base(xsl)).c_str(), xv::jstr(base(xml)).c_str(), nthreads, g_iters, g_serial ? "serial" : "concurrent");
    std::string seq;
    if (!sequentialReference(kind, xsl, xml, seq)) { fprintf(stderr, "sequential reference run failed\n"); return 3; }
    printf("%s\n", seq.c_str());

    g_base = (char*)mmap(nullptr, g_cap, PROT_READ | PROT_WRITE, MAP_PRIVATE | MAP_ANONYMOUS | MAP_NORESERVE, -1, 0);
    if (g_base == MAP_FAILED) { perror("mmap"); return 2; }
    g_rec = (Rec*)mmap(nullptr, sizeof(Rec) * MAXREC, PROT_READ | PROT_WRITE, MAP_PRIVATE | MAP_ANONYMOUS | MAP_NORESERVE, -1, 0);
    if (g_rec == MAP_FAILED) { perror("mmap"); return 2; }
    static ArenaManager arena;

    // ---- Build: process-wide tables, transformer A, stylesheet, source - all inside the arena
    xercesc::XMLPlatformUtils::Initialize();
    XalanTransformer::initialize(arena);
    markEnd(O_TABLES);
    XalanTransformer* A = new (arena.allocate(sizeof(XalanTransformer))) XalanTransformer(arena);
    markEnd(O_TRANSFORMER);
    std::string err;
    if (!buildInputs(*A, arena, kind, xsl, xml, g_in, err, markEnd)) { fprintf(stderr, "build failed: %s\n", err.c_str()); return 3; }
    for (int o = 0; o < O_FRESH; ++o) printf("{\"e\":\"Build\",\"obj\":\"%s\",\"bytes\":%zu}\n", g_objName[o], g_objEnd[o] - (o ? g_objEnd[o - 1] : 0));
    // "fresh" = what the shared objects' memory manager will hand out from now on (lazily created parts of them)
    printf("{\"e\":\"Build\",\"obj\":\"fresh\",\"bytes\":%zu}\n", g_cap - g_top.load());
    // "static" = libxalan-c's own .data/.bss (process-wide, shared by every thread whatever it shares on purpose)
    printf("{\"e\":\"Build\",\"obj\":\"static\",\"bytes\":%zu}\n", size_t(g_send - g_sbase));

    // ---- Freeze
    installHandlers();
    size_t frozenBytes = g_top.load();
    if (!noFreeze) {
        if (mprotect(g_base, g_cap, PROT_READ) != 0) { perror("mprotect"); return 2; }
        if (g_sbase && mprotect(g_sbase, g_send - g_sbase, PROT_READ) != 0) { perror("mprotect static"); return 2; }
        g_frozen.store(1);
    }
    for (int o = 0; o < O_COUNT; ++o) printf("{\"e\":\"Freeze\",\"obj\":\"%s\"}\n", g_objName[o]);
    if (!noFreeze) {
        // self-check: a probe store into the frozen region must be seen, and the mutex interposition must be alive
        long before = g_faults.load();
        t_canary = 1;
        *(volatile char*)(g_base + g_objEnd[O_TRANSFORMER] - 1) = *(volatile char*)(g_base + g_objEnd[O_TRANSFORMER] - 1);
        if (g_sbase) { *(volatile char*)(g_send - 1) = *(volatile char*)(g_send - 1); }
        t_canary = 0;
        if (g_faults.load() != before + 1 + (g_sbase ? 1 : 0) || g_lockCalls.load() == 0) {
            fprintf(stderr, "xv_c07: observation self-check failed (faults %ld -> %ld, lock calls %ld)\n", before, g_faults.load(), g_lockCalls.load());
            return 4;
        }
    }

    // ---- threads
    pthread_barrier_init(&g_barrier, nullptr, nthreads);
    std::vector<pthread_t> th(nthreads);
    if (g_serial) {
        // one thread after the other: the stores into the frozen region are seen all the same
        for (int i = 0; i < nthreads; ++i) { pthread_create(&th[i], nullptr, worker, (void*)(intptr_t)(i + 1)); pthread_join(th[i], nullptr); }
    } else {
        for (int i = 0; i < nthreads; ++i) pthread_create(&th[i], nullptr, worker, (void*)(intptr_t)(i + 1));
        for (int i = 0; i < nthreads; ++i) pthread_join(th[i], nullptr);
    }

    // ---- thaw (nothing is destroyed: the process ends here) and report
    g_frozen.store(0);
    mprotect(g_base, g_cap, PROT_READ | PROT_WRITE);
    if (g_sbase) mprotect(g_sbase, g_send - g_sbase, PROT_READ | PROT_WRITE);
    reportEvents();
    long writes = g_writesReported;
    printf("{\"e\":\"Join\",\"faults\":%ld,\"mutexWordFaults\":%ld,\"writeSites\":%ld,\"postFreezeAllocs\":%ld,\"lockCalls\":%ld,\"shadowedMutexes\":%ld,\"frozenBytes\":%zu,\"dropped\":%ld}\n",
           g_faults.load(), g_mutexWordFaults.load(), writes, g_postFreezeAllocs.load(), g_lockCalls.load(), g_shadowed.load(), frozenBytes, g_dropped.load());
    fflush(stdout);
    _exit(0);
}
