// C05 harness: runs ONE input (stylesheet S, document D, parameters P) through a list of forms
// cfg = [src, ss, out, api] with the real API of each form:
//   api = cpp  XalanTransformer (all transform overloads, parseSource, compileStylesheet, XercesDOMWrapperParsedSource,
//              XalanDocumentBuilder fed by SAX2 events, XalanTransformerOutputStream handlers, FormatterToXercesDOM,
//              FormatterToSourceTree)
//   api = c    XalanCAPI.h (XalanTransformToFile / ToData / ToHandler, ...Prebuilt, XalanParseSource[FromStream],
//              XalanCompileStylesheet, XalanSetStylesheetParam[Number])
//   api = cli  the Xalan command-line program built from the same working tree (fork/exec)
// usage: xv_c05 cases.ndjson /path/to/Xalan > trace.ndjson
//   case: {"id":N,"dir":"/abs","xml":"in.xml","xsl":"main.xsl","sparam":["ps","v"],"nparam":["pn","2.5"],
//          "cfgs":[{"src":..,"ss":..,"out":..,"api":..,"via":"file"|"stream","short":k,"xml":"other.xml","xsl":"other.xsl","ctrl":"tag"}]}
//          (xml / xsl / ctrl: control experiments - the form run on a variant of the document / stylesheet)
// events: {"e":"Reset","id":N}
//         {"e":"Run","id":N,"k":i,"cfg":{src,ss,out,api},"via":..,"short":k,"ctrl":..,"status":s,"msg":"..",
//          "bytes":"hex" | "tree":[...], "wlog":[n,...,-1]}         (wlog: handler calls; -1 = flush handler)
#include "common.hpp"
#include <sys/types.h>
#include <sys/wait.h>
#include <fcntl.h>
#include <unistd.h>
#include <strstream>

#include <xercesc/dom/DOM.hpp>
#include <xercesc/parsers/XercesDOMParser.hpp>
#include <xercesc/sax/ErrorHandler.hpp>
#include <xercesc/sax/SAXParseException.hpp>
#include <xercesc/sax2/Attributes.hpp>
#include <xercesc/sax2/ContentHandler.hpp>
#include <xercesc/sax2/LexicalHandler.hpp>
#include <xercesc/sax2/SAX2XMLReader.hpp>
#include <xercesc/sax2/XMLReaderFactory.hpp>
#include <xercesc/framework/LocalFileInputSource.hpp>
#include <xercesc/util/XMLUni.hpp>

#include <xalanc/PlatformSupport/URISupport.hpp>
#include <xalanc/PlatformSupport/XalanOutputStreamPrintWriter.hpp>
#include <xalanc/XSLT/XSLTInputSource.hpp>
#include <xalanc/XSLT/XSLTResultTarget.hpp>
#include <xalanc/XalanSourceTree/FormatterToSourceTree.hpp>
#include <xalanc/XalanSourceTree/XalanSourceTreeDocument.hpp>
#include <xalanc/XercesParserLiaison/FormatterToXercesDOM.hpp>
#include <xalanc/XalanTransformer/XalanCAPI.h>
#include <xalanc/XalanTransformer/XalanCompiledStylesheet.hpp>
#include <xalanc/XalanTransformer/XalanDocumentBuilder.hpp>
#include <xalanc/XalanTransformer/XalanParsedSource.hpp>
#include <xalanc/XalanTransformer/XalanTransformer.hpp>
#include <xalanc/XalanTransformer/XalanTransformerOutputStream.hpp>
#include <xalanc/XalanTransformer/XercesDOMWrapperParsedSource.hpp>

using namespace xv;
namespace xc = xercesc;

// ------------------------------------------------------------------------------------------- helpers
static std::string readFile(const std::string& p, bool* ok = nullptr) {
    std::ifstream f(p, std::ios::binary);
    if (ok) *ok = bool(f);
    std::ostringstream s; s << f.rdbuf(); return s.str();
}
static std::string hex(const std::string& b) {
    static const char* d = "0123456789abcdef"; std::string o; o.reserve(b.size() * 2);
    for (unsigned char c : b) { o += d[c >> 4]; o += d[c & 15]; }
    return o;
}
static std::string xs(const XMLCh* s) { return s ? toUtf8(s, xc::XMLString::stringLen(s)) : std::string(); }

struct Cfg { std::string src, ss, out, api, via, xml, xsl, ctrl; long long shortAt = 0; };
struct Case { long long id; std::string dir, xml, xsl, sname, sval, nname, nval; };
struct Outcome {
    int status = 0; std::string msg; bool isTree = false; std::string bytes, tree; std::vector<long long> wlog; bool hasLog = false;
};

// ---- handler target -------------------------------------------------------------------------------
struct Sink { std::string data; std::vector<long long> log; long long shortAt = 0; long long calls = 0; };
extern "C" {
static CallbackSizeType outHandler(const char* buf, CallbackSizeType n, void* h) {
    Sink* s = static_cast<Sink*>(h);
    s->log.push_back((long long)n);
    ++s->calls;
    if (s->shortAt && s->calls == s->shortAt) {           // accept all but the last byte, report it
        if (n > 0) s->data.append(buf, n - 1);
        return n > 0 ? n - 1 : n + 1;
    }
    s->data.append(buf, n);
    return n;
}
static void flushHandler(void* h) { static_cast<Sink*>(h)->log.push_back(-1); }
}

// ---- result trees ----------------------------------------------------------------------------------
static void walkXerces(const xc::DOMNode* parent, std::string& o) {
    bool first = true;
    for (const xc::DOMNode* c = parent->getFirstChild(); c; c = c->getNextSibling()) {
        std::string n;
        switch (c->getNodeType()) {
        case xc::DOMNode::ELEMENT_NODE: {
            n = "{\"k\":\"elem\",\"qn\":" + jstr(xs(c->getNodeName())) + ",\"ns\":" + jstr(xs(c->getNamespaceURI())) + ",\"a\":[";
            const xc::DOMNamedNodeMap* m = c->getAttributes();
            for (XMLSize_t i = 0; m && i < m->getLength(); ++i) {
                const xc::DOMNode* a = m->item(i);
                if (i) n += ",";
                n += "[" + jstr(xs(a->getNodeName())) + "," + jstr(xs(a->getNamespaceURI())) + "," + jstr(xs(a->getNodeValue())) + "]";
            }
            n += "],\"c\":["; walkXerces(c, n); n += "]}";
            break; }
        case xc::DOMNode::TEXT_NODE: case xc::DOMNode::CDATA_SECTION_NODE:
            n = "{\"k\":\"text\",\"v\":" + jstr(xs(c->getNodeValue())) + "}"; break;
        case xc::DOMNode::COMMENT_NODE:
            n = "{\"k\":\"comment\",\"v\":" + jstr(xs(c->getNodeValue())) + "}"; break;
        case xc::DOMNode::PROCESSING_INSTRUCTION_NODE:
            n = "{\"k\":\"pi\",\"l\":" + jstr(xs(c->getNodeName())) + ",\"v\":" + jstr(xs(c->getNodeValue())) + "}"; break;
        case xc::DOMNode::DOCUMENT_TYPE_NODE: continue;
        default:
            n = "{\"k\":\"other\",\"v\":" + jstr(std::to_string((int)c->getNodeType())) + "}"; break;
        }
        if (!first) o += ",";
        first = false; o += n;
    }
}
static void walkXalan(const XalanNode* parent, std::string& o) {
    bool first = true;
    for (const XalanNode* c = parent->getFirstChild(); c; c = c->getNextSibling()) {
        std::string n;
        switch (c->getNodeType()) {
        case XalanNode::ELEMENT_NODE: {
            n = "{\"k\":\"elem\",\"qn\":" + jstr(toUtf8(c->getNodeName())) + ",\"ns\":" + jstr(toUtf8(c->getNamespaceURI())) + ",\"a\":[";
            const XalanNamedNodeMap* m = c->getAttributes();
            bool fa = true;
            for (XalanSize_t i = 0; m && i < m->getLength(); ++i) {
                const XalanNode* a = m->item(i);
                const std::string an = toUtf8(a->getNodeName());
                if (an == "xmlns:xml") continue;          // the implicit declaration the source tree puts on the document element
                if (!fa) n += ",";
                fa = false;
                n += "[" + jstr(an) + "," + jstr(toUtf8(a->getNamespaceURI())) + "," + jstr(toUtf8(a->getNodeValue())) + "]";
            }
            n += "],\"c\":["; walkXalan(c, n); n += "]}";
            break; }
        case XalanNode::TEXT_NODE: case XalanNode::CDATA_SECTION_NODE:
            n = "{\"k\":\"text\",\"v\":" + jstr(toUtf8(c->getNodeValue())) + "}"; break;
        case XalanNode::COMMENT_NODE:
            n = "{\"k\":\"comment\",\"v\":" + jstr(toUtf8(c->getNodeValue())) + "}"; break;
        case XalanNode::PROCESSING_INSTRUCTION_NODE:
            n = "{\"k\":\"pi\",\"l\":" + jstr(toUtf8(c->getNodeName())) + ",\"v\":" + jstr(toUtf8(c->getNodeValue())) + "}"; break;
        case XalanNode::DOCUMENT_TYPE_NODE: continue;
        default:
            n = "{\"k\":\"other\",\"v\":" + jstr(std::to_string((int)c->getNodeType())) + "}"; break;
        }
        if (!first) o += ",";
        first = false; o += n;
    }
}

// ---- input sources -----------------------------------------------------------------------------------
static XalanDOMString fileURL(const std::string& path) {
    XalanDOMString in(path.c_str()), out;
    URISupport::getURLStringFromString(in, out);
    return out;
}
// an XSLTInputSource for `path`: a file name, or a std::istream that is given the file's URL as system id
struct Input {
    std::unique_ptr<std::ifstream> stream; std::unique_ptr<XSLTInputSource> is; XalanDOMString url;
    Input(const std::string& path, const std::string& via) {
        if (via == "stream") {
            stream.reset(new std::ifstream(path, std::ios::binary));
            is.reset(new XSLTInputSource(stream.get()));
            url = fileURL(path);
            is->setSystemId(url.c_str());
        } else {
            is.reset(new XSLTInputSource(path.c_str()));
        }
    }
};

struct ThrowingErrors : public xc::ErrorHandler {
    void warning(const xc::SAXParseException&) override {}
    void error(const xc::SAXParseException& e) override { throw xc::SAXParseException(e); }
    void fatalError(const xc::SAXParseException& e) override { throw xc::SAXParseException(e); }
    void resetErrors() override {}
};

// forwards SAX2 events to the document builder; every characters() call of two or more units is delivered in two calls
struct SplittingHandler : public xc::ContentHandler {
    xc::ContentHandler* to; explicit SplittingHandler(xc::ContentHandler* t) : to(t) {}
    void characters(const XMLCh* const c, const XMLSize_t n) override {
        if (n < 2) { to->characters(c, n); return; }
        XMLSize_t h = n / 2;
        if (c[h - 1] >= 0xD800 && c[h - 1] < 0xDC00) ++h;       // keep surrogate pairs together
        if (h >= n) { to->characters(c, n); return; }
        to->characters(c, h); to->characters(c + h, n - h);
    }
    void endDocument() override { to->endDocument(); }
    void endElement(const XMLCh* const u, const XMLCh* const l, const XMLCh* const q) override { to->endElement(u, l, q); }
    void ignorableWhitespace(const XMLCh* const c, const XMLSize_t n) override { to->ignorableWhitespace(c, n); }
    void processingInstruction(const XMLCh* const t, const XMLCh* const d) override { to->processingInstruction(t, d); }
    void setDocumentLocator(const xc::Locator* const l) override { to->setDocumentLocator(l); }
    void startDocument() override { to->startDocument(); }
    void startElement(const XMLCh* const u, const XMLCh* const l, const XMLCh* const q, const xc::Attributes& a) override { to->startElement(u, l, q, a); }
    void startPrefixMapping(const XMLCh* const p, const XMLCh* const u) override { to->startPrefixMapping(p, u); }
    void endPrefixMapping(const XMLCh* const p) override { to->endPrefixMapping(p); }
    void skippedEntity(const XMLCh* const n) override { to->skippedEntity(n); }
};

// ------------------------------------------------------------------------------------------- C++ API
static void setParamsCpp(XalanTransformer& xt, const Case& c) {
    if (!c.sname.empty()) xt.setStylesheetParam(fromUtf8(c.sname), fromUtf8("'" + c.sval + "'"));
    if (!c.nname.empty()) xt.setStylesheetParam(fromUtf8(c.nname), strtod(c.nval.c_str(), nullptr));
}

static Outcome runCpp(const Case& c, const Cfg& g, const std::string& outPath) {
    Outcome r;
    const std::string xmlPath = c.dir + "/" + (g.xml.empty() ? c.xml : g.xml), xslPath = c.dir + "/" + (g.xsl.empty() ? c.xsl : g.xsl);
    XalanTransformer xt;
    std::ostringstream warn; xt.setWarningStream(&warn);
    setParamsCpp(xt, c);

    // ---- the source
    std::unique_ptr<Input> srcIn;                       // file / stream forms, and what parseSource reads
    const XalanParsedSource* parsed = nullptr;          // every pre-parsed form
    xc::XercesDOMParser domParser;
    ThrowingErrors errs;
    std::unique_ptr<XercesParserLiaison> wLiaison; std::unique_ptr<XercesDOMSupport> wSupport;
    std::unique_ptr<XercesDOMWrapperParsedSource> wrapper;
    int st = 0;
    if (g.src == "file") srcIn.reset(new Input(xmlPath, "file"));
    else if (g.src == "stream") srcIn.reset(new Input(xmlPath, "stream"));
    else if (g.src == "parsedNative" || g.src == "parsedXerces") {
        srcIn.reset(new Input(xmlPath, g.via));
        st = xt.parseSource(*srcIn->is, parsed, g.src == "parsedXerces");
        if (st != 0) { r.status = st; r.msg = std::string("parseSource: ") + xt.getLastError(); return r; }
    } else if (g.src == "wrappedXercesDOM") {
        domParser.setDoNamespaces(true);                 // Xalan needs a namespace-aware DOM
        domParser.setCreateEntityReferenceNodes(false);  // XPath-normal form: entity references expanded
        domParser.setErrorHandler(&errs);
        xc::LocalFileInputSource lf(fromUtf8(xmlPath).c_str());
        domParser.parse(lf);
        wLiaison.reset(new XercesParserLiaison); wSupport.reset(new XercesDOMSupport(*wLiaison));
        wrapper.reset(new XercesDOMWrapperParsedSource(domParser.getDocument(), *wLiaison, *wSupport, fileURL(xmlPath)));
        parsed = wrapper.get();
    } else if (g.src == "builderSAX") {
        XalanDocumentBuilder* b = xt.createDocumentBuilder(fileURL(xmlPath));
        std::unique_ptr<xc::SAX2XMLReader> rd(xc::XMLReaderFactory::createXMLReader());
        rd->setFeature(xc::XMLUni::fgSAX2CoreNameSpaces, true);
        rd->setFeature(xc::XMLUni::fgSAX2CoreNameSpacePrefixes, true);   // xmlns attributes are attributes of the source tree
        rd->setFeature(xc::XMLUni::fgSAX2CoreValidation, false);
        rd->setFeature(xc::XMLUni::fgXercesDynamic, false);
        rd->setFeature(xc::XMLUni::fgXercesSchema, false);
        SplittingHandler split(b->getContentHandler());
        rd->setContentHandler(&split);
        rd->setLexicalHandler(b->getLexicalHandler());
        rd->setDTDHandler(b->getDTDHandler());
        rd->setErrorHandler(&errs);
        xc::LocalFileInputSource lf(fromUtf8(xmlPath).c_str());
        rd->parse(lf);
        parsed = b;
    }

    // ---- the stylesheet
    std::unique_ptr<Input> ssIn; const XalanCompiledStylesheet* css = nullptr;
    if (g.ss != "PI") ssIn.reset(new Input(xslPath, g.via));
    if (g.ss == "compiled") {
        st = xt.compileStylesheet(*ssIn->is, css);
        if (st != 0) { r.status = st; r.msg = std::string("compileStylesheet: ") + xt.getLastError(); return r; }
    }

    // ---- the target
    Sink sink; sink.shortAt = g.shortAt;
    std::ostringstream os;
    std::unique_ptr<xc::DOMDocument> xdoc;
    std::unique_ptr<FormatterToXercesDOM> toDom;
    XalanSourceTreeDOMSupport tSupport; XalanSourceTreeParserLiaison tLiaison(tSupport); tSupport.setParserLiaison(&tLiaison);
    XalanSourceTreeDocument* tdoc = nullptr;
    std::unique_ptr<FormatterToSourceTree> toTree;
    std::unique_ptr<XSLTResultTarget> target;
    MemoryManager& mm = xt.getMemoryManager();
    if (g.out == "file") target.reset(new XSLTResultTarget(outPath.c_str(), mm));
    else if (g.out == "stream") target.reset(new XSLTResultTarget(os, mm));
    else if (g.out == "xercesDOM") {
        xdoc.reset(xc::DOMImplementation::getImplementation()->createDocument());
        toDom.reset(new FormatterToXercesDOM(xdoc.get(), 0));
        target.reset(new XSLTResultTarget(*toDom, mm));
    } else if (g.out == "sourceTree") {
        tdoc = tLiaison.createXalanSourceTreeDocument();
        toTree.reset(new FormatterToSourceTree(mm, tdoc));
        target.reset(new XSLTResultTarget(*toTree, mm));
    }

    // ---- the call: the overload the form names; handler targets use the handler overloads where the class has one
    if (g.out == "callback") {
        r.hasLog = true;
        const bool direct = !parsed;
        if (direct && g.ss == "inputSource") st = xt.transform(*srcIn->is, *ssIn->is, &sink, outHandler, flushHandler);
        else if (direct && g.ss == "PI") st = xt.transform(*srcIn->is, &sink, outHandler, flushHandler);
        else if (parsed && g.ss == "compiled") st = xt.transform(*parsed, css, &sink, outHandler, flushHandler);
        else {
            // no overload: build the same target the overloads build
            XalanTransformerOutputStream tos(mm, &sink, outHandler, flushHandler);
            XalanOutputStreamPrintWriter pw(tos);
            XSLTResultTarget t(&pw, mm);
            if (direct) st = xt.transform(*srcIn->is, css, t);
            else if (g.ss == "inputSource") st = xt.transform(*parsed, *ssIn->is, t);
            else st = xt.transform(*parsed, t);
        }
        r.bytes = sink.data; r.wlog = sink.log;
    } else if (!parsed) {
        if (g.ss == "inputSource") st = xt.transform(*srcIn->is, *ssIn->is, *target);
        else if (g.ss == "compiled") st = xt.transform(*srcIn->is, css, *target);
        else st = xt.transform(*srcIn->is, *target);
    } else {
        if (g.ss == "inputSource") st = xt.transform(*parsed, *ssIn->is, *target);
        else if (g.ss == "compiled") st = xt.transform(*parsed, css, *target);
        else st = xt.transform(*parsed, *target);
    }
    r.status = st;
    if (st != 0) r.msg = xt.getLastError();
    if (g.out == "file") { target.reset(); bool ok; r.bytes = readFile(outPath, &ok); if (!ok && st == 0) { r.status = -200; r.msg = "no output file"; } }
    else if (g.out == "stream") r.bytes = os.str();
    else if (g.out == "xercesDOM") { r.isTree = true; if (st == 0) walkXerces(xdoc.get(), r.tree); }
    else if (g.out == "sourceTree") { r.isTree = true; if (st == 0) walkXalan(tdoc, r.tree); }
    return r;
}

// --------------------------------------------------------------------------------------------- C API
static Outcome runC(const Case& c, const Cfg& g, const std::string& outPath) {
    Outcome r;
    const std::string xmlPath = c.dir + "/" + (g.xml.empty() ? c.xml : g.xml), xslPath = c.dir + "/" + (g.xsl.empty() ? c.xsl : g.xsl);
    XalanHandle h = CreateXalanTransformer();
    static_cast<XalanTransformer*>(h)->setWarningStream(nullptr);
    if (!c.sname.empty()) XalanSetStylesheetParam(c.sname.c_str(), ("'" + c.sval + "'").c_str(), h);
    if (!c.nname.empty()) XalanSetStylesheetParamNumber(c.nname.c_str(), strtod(c.nval.c_str(), nullptr), h);
    Sink sink; sink.shortAt = g.shortAt;
    int st = 0; const char* step = "";
    XalanPSHandle ps = nullptr; XalanCSSHandle css = nullptr;
    std::string mem;
    if (g.src == "file") {
        const char* xsl = g.ss == "PI" ? nullptr : xslPath.c_str();
        if (g.out == "file") st = XalanTransformToFile(xmlPath.c_str(), xsl, outPath.c_str(), h);
        else if (g.out == "cData") {
            char* data = nullptr;
            st = XalanTransformToData(xmlPath.c_str(), xsl, &data, h);
            if (st == 0 && data) { r.bytes = data; XalanFreeData(data); }
        } else {
            r.hasLog = true;
            st = XalanTransformToHandler(xmlPath.c_str(), xsl, h, &sink, outHandler, flushHandler);
        }
    } else {
        if (g.src == "stream") { mem = readFile(xmlPath); step = "XalanParseSourceFromStream"; st = XalanParseSourceFromStream(mem.data(), (unsigned long)mem.size(), h, &ps); }
        else { step = "XalanParseSource"; st = XalanParseSource(xmlPath.c_str(), h, &ps); }
        if (st == 0) { step = "XalanCompileStylesheet"; st = XalanCompileStylesheet(xslPath.c_str(), h, &css); }
        if (st == 0) {
            step = "";
            if (g.out == "file") st = XalanTransformToFilePrebuilt(ps, css, outPath.c_str(), h);
            else if (g.out == "cData") {
                char* data = nullptr;
                st = XalanTransformToDataPrebuilt(ps, css, &data, h);
                if (st == 0 && data) { r.bytes = data; XalanFreeData(data); }
            } else {
                r.hasLog = true;
                st = XalanTransformToHandlerPrebuilt(ps, css, h, &sink, outHandler, flushHandler);
            }
        }
    }
    r.status = st;
    if (st != 0) { const char* m = XalanGetLastError(h); r.msg = std::string(step) + (*step ? ": " : "") + (m ? m : ""); }
    if (g.out == "callback") { r.bytes = sink.data; r.wlog = sink.log; }
    if (css) XalanDestroyCompiledStylesheet(css, h);
    if (ps) XalanDestroyParsedSource(ps, h);
    DeleteXalanTransformer(h);
    if (g.out == "file") { bool ok; r.bytes = readFile(outPath, &ok); if (!ok && st == 0) { r.status = -200; r.msg = "no output file"; } }
    return r;
}

// ----------------------------------------------------------------------------------------------- CLI
static Outcome runCli(const Case& c, const Cfg& g, const std::string& outPath, const std::string& exe) {
    Outcome r;
    const std::string xmlPath = c.dir + "/" + (g.xml.empty() ? c.xml : g.xml), xslPath = c.dir + "/" + (g.xsl.empty() ? c.xsl : g.xsl);
    std::vector<std::string> a = { exe };
    if (!c.sname.empty()) { a.push_back("-p"); a.push_back(c.sname); a.push_back("'" + c.sval + "'"); }
    if (!c.nname.empty()) { a.push_back("-p"); a.push_back(c.nname); a.push_back(c.nval); }
    if (g.ss == "PI") a.push_back("-a");
    if (g.src == "parsedNative") a.push_back("-t");        // timing mode: parseSource + compileStylesheet + transform(parsed, compiled)
    const std::string stdoutPath = outPath + ".stdout", stderrPath = outPath + ".stderr";
    if (g.out == "file") { a.push_back("-o"); a.push_back(outPath); }
    a.push_back(g.src == "stream" ? "-" : xmlPath);
    if (g.ss != "PI") a.push_back(xslPath);
    std::vector<char*> argv; for (auto& s : a) argv.push_back(const_cast<char*>(s.c_str())); argv.push_back(nullptr);
    fflush(stdout);
    int ws = 0;
    for (int attempt = 0; attempt < 5; ++attempt) {          // 127 = exec / dynamic loader failure: retry, then give up as an infrastructure error
        pid_t pid = fork();
        if (pid == 0) {
            int in = open(g.src == "stream" ? xmlPath.c_str() : "/dev/null", O_RDONLY);
            int out = open(stdoutPath.c_str(), O_WRONLY | O_CREAT | O_TRUNC, 0644);
            int err = open(stderrPath.c_str(), O_WRONLY | O_CREAT | O_TRUNC, 0644);
            dup2(in, 0); dup2(out, 1); dup2(err, 2);
            execv(exe.c_str(), argv.data());
            _exit(127);
        }
        ws = 0; waitpid(pid, &ws, 0);
        if (!(WIFEXITED(ws) && WEXITSTATUS(ws) == 127)) break;
        usleep(300000);
    }
    if (WIFEXITED(ws)) r.status = WEXITSTATUS(ws); else r.status = -1000 - WTERMSIG(ws);
    r.msg = readFile(stderrPath);
    if (r.status == 127) { fprintf(stderr, "cannot exec %s\n", exe.c_str()); exit(2); }
    if (g.out == "file") { bool ok; r.bytes = readFile(outPath, &ok); if (!ok && r.status == 0) { r.status = -200; r.msg = "no output file"; } }
    else r.bytes = readFile(stdoutPath);
    unlink(stdoutPath.c_str()); unlink(stderrPath.c_str());
    return r;
}

int main(int argc, char** argv) {
    if (argc < 3) { fprintf(stderr, "usage: %s cases.ndjson /path/to/Xalan\n", argv[0]); return 2; }
    const std::string exe = argv[2];
    if (XalanInitialize() != 0) { fprintf(stderr, "XalanInitialize failed\n"); return 2; }   // the C API's initializer (Xerces + Xalan)
    {
        auto lines = readLines(argv[1]);
        for (auto& line : lines) {
            J j = parseJson(line);
            Case c; c.id = j.num("id"); c.dir = j.str("dir"); c.xml = j.str("xml", "in.xml"); c.xsl = j.str("xsl", "main.xsl");
            if (const J* p = j.get("sparam")) { c.sname = p->a.at(0).s; c.sval = p->a.at(1).s; }
            if (const J* p = j.get("nparam")) { c.nname = p->a.at(0).s; c.nval = p->a.at(1).s; }
            printf("{\"e\":\"Reset\",\"id\":%lld}\n", c.id);
            const J& cfgs = j.at("cfgs");
            for (size_t k = 0; k < cfgs.a.size(); ++k) {
                const J& q = cfgs.a[k];
                Cfg g; g.src = q.str("src"); g.ss = q.str("ss"); g.out = q.str("out"); g.api = q.str("api"); g.via = q.str("via", "file");
                g.xml = q.str("xml"); g.xsl = q.str("xsl"); g.ctrl = q.str("ctrl"); g.shortAt = q.num("short");
                const std::string outPath = c.dir + "/out-" + std::to_string(k);
                unlink(outPath.c_str());
                Outcome r;
                try {
                    if (g.api == "cpp") r = runCpp(c, g, outPath);
                    else if (g.api == "c") r = runC(c, g, outPath);
                    else r = runCli(c, g, outPath, exe);
                } catch (const XSLException& e) { r.status = -100; r.msg = "XSLException: " + excMessage(e);
                } catch (const xc::SAXParseException& e) { r.status = -101; r.msg = "SAXParseException: " + xs(e.getMessage());
                } catch (const xc::SAXException& e) { r.status = -102; r.msg = "SAXException: " + xs(e.getMessage());
                } catch (const xc::XMLException& e) { r.status = -103; r.msg = "XMLException: " + xs(e.getMessage());
                } catch (const xc::DOMException& e) { r.status = -104; r.msg = "DOMException: " + xs(e.getMessage());
                } catch (const XalanDOMException& e) { r.status = -105; r.msg = "XalanDOMException " + std::to_string((int)e.getExceptionCode());
                } catch (const std::exception& e) { r.status = -106; r.msg = std::string("std::exception ") + e.what();
                } catch (...) { r.status = -107; r.msg = "unknown exception"; }
                unlink(outPath.c_str());
                std::string o = "{\"e\":\"Run\",\"id\":" + std::to_string(c.id) + ",\"k\":" + std::to_string(k) +
                    ",\"cfg\":{\"src\":" + jstr(g.src) + ",\"ss\":" + jstr(g.ss) + ",\"out\":" + jstr(g.out) + ",\"api\":" + jstr(g.api) + "}" +
                    ",\"via\":" + jstr(g.via) + ",\"short\":" + std::to_string(g.shortAt) + ",\"ctrl\":" + jstr(g.ctrl) +
                    ",\"status\":" + std::to_string(r.status) + ",\"msg\":" + jstr(r.msg.substr(0, 400));
                if (r.isTree) o += ",\"tree\":[" + r.tree + "]"; else o += ",\"bytes\":\"" + hex(r.bytes) + "\"";
                o += ",\"wlog\":[";
                for (size_t i = 0; i < r.wlog.size(); ++i) { if (i) o += ","; o += std::to_string(r.wlog[i]); }
                o += "]}\n";
                fputs(o.c_str(), stdout);
                fflush(stdout);
            }
        }
    }
    XalanTerminate(0);
    return 0;
}
