// C14 harness (copy of the recording part of xslt.cpp): every case is transformed twice with the same compiled
// stylesheet and parsed source - once into a recording FormatterListener (the RAW result-tree events, before any
// serializer: element QNames and the attribute lists the engine emitted, xmlns / xmlns:p attributes included) and
// once through the real XML serializer into a std::ostringstream (re-parsed by the props script with expat).
// usage: xv_c14 cases.ndjson > trace.ndjson
//   case: {"id":N,"dir":"/abs/case/dir"}   (main.xsl, in.xml)
// events: {"e":"Reset","id":N} {"e":"Done","id":N,"status":s,"msg":"..","warn":"..","tree":[...],"status2":s,"xml":"..."}
#include "common.hpp"
#include "proj.hpp"
#include <sstream>
#include <xalanc/PlatformSupport/FormatterListener.hpp>
#include <xalanc/PlatformSupport/AttributeListImpl.hpp>
#include <xalanc/XSLT/ElemTemplateElement.hpp>
#include <xalanc/XSLT/ElemTemplate.hpp>
#include <xalanc/XSLT/StylesheetExecutionContext.hpp>
#include <xalanc/XSLT/StylesheetConstructionContext.hpp>
#include <xalanc/XSLT/XSLTInputSource.hpp>
#include <xalanc/XSLT/XSLTResultTarget.hpp>
#include <xalanc/XalanTransformer/XalanCompiledStylesheet.hpp>
#include <xalanc/XalanTransformer/XalanParsedSource.hpp>
#include <xalanc/XalanTransformer/XalanTransformer.hpp>
#include <xercesc/sax/AttributeList.hpp>
#include <xalanc/XalanSourceTree/XalanSourceTreeDOMSupport.hpp>
#include <xalanc/XalanSourceTree/XalanSourceTreeParserLiaison.hpp>
#include <xalanc/XPath/XObjectFactoryDefault.hpp>
#include <xalanc/XPath/XPathFactoryDefault.hpp>
#include <xalanc/XPath/XPathFactoryBlock.hpp>
#include <xalanc/XSLT/XSLTEngineImpl.hpp>
#include <xalanc/XSLT/XSLTProcessorEnvSupportDefault.hpp>
#include <xalanc/XSLT/StylesheetConstructionContextDefault.hpp>
#include <xalanc/XSLT/StylesheetExecutionContextDefault.hpp>
#include <xalanc/XSLT/StylesheetRoot.hpp>
#include <xalanc/XSLT/ProblemListener.hpp>
#include <xalanc/XMLSupport/FormatterToXML.hpp>
#include <xalanc/PlatformSupport/XalanOutputStreamPrintWriter.hpp>
#include <xalanc/PlatformSupport/XalanStdOutputStream.hpp>

using namespace xv;

// ---- result tree recorder ------------------------------------------------------------------------
struct Recorder : public FormatterListener {
    struct N { std::string kind, name; std::vector<std::pair<std::string, std::string>> attrs; std::string text; std::vector<N> kids; };
    N root; std::vector<N*> stack; bool sawEndDoc = false; int startDocs = 0;
    Recorder() : FormatterListener(OUTPUT_METHOD_NONE) { root.kind = "root"; stack.push_back(&root); }
    void addText(const std::string& kind, const XMLCh* c, size_type n) {
        N& p = *stack.back();
        if (!p.kids.empty() && p.kids.back().kind == kind) { p.kids.back().text += toUtf8(c, n); return; }
        N t; t.kind = kind; t.text = toUtf8(c, n); p.kids.push_back(t);
    }
    void setDocumentLocator(const Locator* const) override {}
    void startDocument() override { ++startDocs; }
    void endDocument() override { sawEndDoc = true; }
    void startElement(const XMLCh* const name, AttributeListType& attrs) override {
        N e; e.kind = "elem"; e.name = toUtf8(name, length(name));
        for (XalanSize_t i = 0; i < attrs.getLength(); ++i)
            e.attrs.emplace_back(toUtf8(attrs.getName(i), length(attrs.getName(i))), toUtf8(attrs.getValue(i), length(attrs.getValue(i))));
        N& p = *stack.back(); p.kids.push_back(e); stack.push_back(&p.kids.back());
    }
    void endElement(const XMLCh* const) override { if (stack.size() > 1) stack.pop_back(); }
    void characters(const XMLCh* const c, const size_type n) override { if (n) addText("text", c, n); }
    void charactersRaw(const XMLCh* const c, const size_type n) override { if (n) addText("raw", c, n); }
    void entityReference(const XMLCh* const name) override { N t; t.kind = "entref"; t.name = toUtf8(name, length(name)); stack.back()->kids.push_back(t); }
    void ignorableWhitespace(const XMLCh* const c, const size_type n) override { if (n) addText("text", c, n); }
    void processingInstruction(const XMLCh* const target, const XMLCh* const data) override {
        N t; t.kind = "pi"; t.name = toUtf8(target, length(target)); t.text = toUtf8(data, length(data)); stack.back()->kids.push_back(t); }
    void resetDocument() override {}
    void comment(const XMLCh* const data) override { N t; t.kind = "comment"; t.text = toUtf8(data, length(data)); stack.back()->kids.push_back(t); }
    void cdata(const XMLCh* const c, const size_type n) override { if (n) addText("text", c, n); }

    static void json(const N& n, std::string& o) {
        if (n.kind == "elem") {
            o += "{\"k\":\"elem\",\"qn\":" + jstr(n.name) + ",\"a\":[";
            for (size_t i = 0; i < n.attrs.size(); ++i) { if (i) o += ","; o += "[" + jstr(n.attrs[i].first) + "," + jstr(n.attrs[i].second) + "]"; }
            o += "],\"c\":[";
            for (size_t i = 0; i < n.kids.size(); ++i) { if (i) o += ","; json(n.kids[i], o); }
            o += "]}";
        } else if (n.kind == "pi") o += "{\"k\":\"pi\",\"l\":" + jstr(n.name) + ",\"v\":" + jstr(n.text) + "}";
        else if (n.kind == "entref") o += "{\"k\":\"entref\",\"l\":" + jstr(n.name) + "}";
        else o += "{\"k\":" + jstr(n.kind) + ",\"v\":" + jstr(n.text) + "}";
    }
    std::string treeJson() const { std::string o = "["; for (size_t i = 0; i < root.kids.size(); ++i) { if (i) o += ","; json(root.kids[i], o); } return o + "]"; }
};

// ---- the XSLT processor driven through its own interface, REUSED after a transformation that failed ------------------------
// (XalanTransformer makes a new XSLTEngineImpl for every transformation; the processor interface documents reset() for reuse.)
// One engine and one execution context: the stylesheet `poison` is run first on the case's source - it ends with
// xsl:message terminate="yes" while result elements with namespace declarations are open -, then reset(), then the case itself
// twice (recorded events, serialised bytes) exactly as in the XalanTransformer mode.
struct SilentProblems : public ProblemListener {
    void setPrintWriter(PrintWriter*) override {}
    void problem(eSource, eClassification, const XalanDOMString&, const Locator*, const XalanNode*) override {}
    void problem(eSource, eClassification, const XalanNode*, const ElemTemplateElement*, const XalanDOMString&, const XalanDOMChar*, XalanFileLoc, XalanFileLoc) override {}
    void problem(eSource, eClassification, const XalanDOMString&, const XalanNode*) override {}
};

static void engineCase(const J& c, Recorder& rec, std::ostringstream& xml, int& status, int& status2, std::string& msg, std::string& phase, bool& poisoned) {
    MemoryManager& mm = XalanMemMgrs::getDefaultXercesMemMgr();
    const std::string dir = c.str("dir");
    XalanSourceTreeDOMSupport domSupport;
    XalanSourceTreeParserLiaison liaison(domSupport, mm);
    domSupport.setParserLiaison(&liaison);
    XSLTProcessorEnvSupportDefault envSupport(mm);
    XObjectFactoryDefault xobjectFactory(mm);
    XPathFactoryDefault xpathFactory(mm);
    XSLTEngineImpl processor(mm, liaison, envSupport, domSupport, xobjectFactory, xpathFactory);
    envSupport.setProcessor(&processor);
    SilentProblems problems;
    processor.setProblemListener(&problems);
    XPathFactoryBlock stylesheetXPathFactory(mm);
    StylesheetConstructionContextDefault cctx(mm, processor, stylesheetXPathFactory);
    StylesheetExecutionContextDefault ectx(mm, processor, envSupport, domSupport, xobjectFactory);
    liaison.setExecutionContext(ectx);
    const std::string xmlPath = dir + "/" + c.str("xml", "in.xml"), xslPath = dir + "/" + c.str("xsl", "main.xsl");
    phase = "poison";
    {
        const StylesheetRoot* ps = processor.processStylesheet(XalanDOMString(c.str("poison").c_str()), cctx);
        if (ps != 0) {
            ectx.setStylesheetRoot(ps);
            XalanDocument* doc = liaison.parseXMLStream(XSLTInputSource(xmlPath.c_str()));
            Recorder waste;
            XSLTResultTarget target(waste);
            XSLTInputSource src(doc);
            try { processor.process(src, target, ectx); } catch (const XSLException&) { poisoned = true; } catch (...) { poisoned = true; }
        }
    }
    // the documented way to use the objects again
    ectx.reset();
    processor.reset();
    phase = "compile";
    const StylesheetRoot* ss = processor.processStylesheet(XalanDOMString(xslPath.c_str()), cctx);
    if (ss == 0) { status = -2; msg = "stylesheet did not compile"; return; }
    XalanDocument* doc = liaison.parseXMLStream(XSLTInputSource(xmlPath.c_str()));
    phase = "transform";
    {
        ectx.setStylesheetRoot(ss);
        XSLTResultTarget target(rec);
        XSLTInputSource src(doc);
        processor.process(src, target, ectx);
        status = 0;
    }
    ectx.reset();
    processor.reset();
    phase = "serialize";
    {
        ectx.setStylesheetRoot(ss);
        XSLTResultTarget target(xml);
        XSLTInputSource src(doc);
        processor.process(src, target, ectx);
        status2 = 0;
    }
}

int main(int argc, char** argv) {
    if (argc < 2) { fprintf(stderr, "usage: %s cases.ndjson\n", argv[0]); return 2; }
    Platform platform;
    XalanTransformer::initialize();
    {
        auto lines = readLines(argv[1]);
        std::unique_ptr<XalanTransformer> shared;
        for (auto& line : lines) {
            J c = parseJson(line);
            const long long id = c.num("id");
            const std::string dir = c.str("dir");
            std::unique_ptr<XalanTransformer> own;
            XalanTransformer* xt;
            if (c.boolean("reuse")) { if (!shared) shared.reset(new XalanTransformer); xt = shared.get(); }
            else { own.reset(new XalanTransformer); xt = own.get(); }
            std::ostringstream warn;
            xt->setWarningStream(&warn);
            printf("{\"e\":\"Reset\",\"id\":%lld}\n", id);
            NodeIds ids;
            Recorder rec;
            std::ostringstream xml; int status2 = -1;
            int status = 0; std::string msg; std::string phase = "parse";
            const XalanParsedSource* src = nullptr; const XalanCompiledStylesheet* ss = nullptr;
            bool poisoned = false;
            try {
                if (c.boolean("engine")) {
                    status = -1;
                    engineCase(c, rec, xml, status, status2, msg, phase, poisoned);
                    if (!poisoned) { status = -103; msg = "the poisoning transformation did not fail"; }
                } else {
                const std::string xmlPath = dir + "/" + c.str("xml", "in.xml"), xslPath = dir + "/" + c.str("xsl", "main.xsl");
                status = xt->parseSource(XSLTInputSource(xmlPath.c_str()), src, c.boolean("xercesdom"));
                if (status == 0) {
                    ids.addDocument(src->getDocument());
                    phase = "compile";
                    status = xt->compileStylesheet(XSLTInputSource(xslPath.c_str()), ss);
                }
                if (status == 0) {
                    phase = "transform";
                    if (const J* ps = c.get("params")) for (auto& kv : ps->o) xt->setStylesheetParam(fromUtf8(kv.first), fromUtf8(kv.second.s));
                    XSLTResultTarget target(rec);
                    status = xt->transform(*src, ss, target);
                    if (status == 0) {
                        phase = "serialize";
                        XSLTResultTarget target2(xml);
                        status2 = xt->transform(*src, ss, target2);
                        if (status2 != 0) msg = xt->getLastError();
                    }
                    xt->clearStylesheetParams();
                }
                if (status != 0) msg = xt->getLastError();
                }
            } catch (const XSLException& e) { status = -100; msg = excMessage(e);
            } catch (const std::exception& e) { status = -101; msg = std::string("std::exception ") + e.what();
            } catch (...) { status = -102; msg = "unknown exception"; }
            std::string done = "{\"e\":\"Done\",\"id\":" + std::to_string(id) + ",\"status\":" + std::to_string(status) + ",\"phase\":" + jstr(phase) +
                               ",\"msg\":" + jstr(msg) + ",\"warn\":" + jstr(warn.str()) + ",\"enddoc\":" + (rec.sawEndDoc ? "true" : "false") + ",\"tree\":" + rec.treeJson() + ",\"status2\":" + std::to_string(status2) + ",\"xml\":" + jstr(xml.str()) + "}\n";
            fputs(done.c_str(), stdout);
            fflush(stdout);
            if (ss) xt->destroyStylesheet(ss);
            if (src) xt->destroyParsedSource(src);
        }
    }
    XalanTransformer::terminate();
    return 0;
}
