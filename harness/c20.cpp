// C20: replay operation histories on the REAL Xalan containers and string class and record, after
// every operation, what a user of the class can observe.  usage: xv_c20 cases.ndjson > trace.ndjson
//
//   case : {"c":"map"|"set"|"vector"|"list"|"deque"|"string"|"pool", "p":{parameters}, "ops":[{"op":...},...]}
//   trace: {"e":"Reset","case":k}  {"e":"Op","c":..,"op":"new",...}  {"e":"Op","c":..,"op":..,args..,"res":..,observation..}
//          {"e":"Abort","case":k,"status":s}   when the real code crashed / was stopped by a sanitizer / hung
//
// Cases run in forked children, a batch per child; the child reports its progress through shared memory, so
// that when a history kills it (sanitizer abort, signal, time-out) that history alone is re-run in its own
// child with unbuffered output (its events up to the fatal operation, then an Abort event) and the batch resumes
// behind it: every other history still runs.
#include "common.hpp"
#include <algorithm>
#include <csignal>
#include <set>
#include <stdexcept>
#include <sys/mman.h>
#include <sys/wait.h>
#include <unistd.h>

#include <xalanc/Include/XalanVector.hpp>
#include <xalanc/Include/XalanList.hpp>
#include <xalanc/Include/XalanDeque.hpp>
#include <xalanc/Include/XalanMap.hpp>
#include <xalanc/Include/XalanSet.hpp>
#include <xalanc/PlatformSupport/XalanDOMStringPool.hpp>

using namespace xv;

// ------------------------------------------------------------------ instrumented element type
// Counts constructions / destructions and checks object lifetimes by address: constructing over a
// live object, destroying / reading / assigning to something that is not a live object are `bad`.
struct Counted {
    int v;
    static long live, bad;
    static std::set<const void*>& alive() { static std::set<const void*>* s = new std::set<const void*>; return *s; }
    bool isAlive() const { return alive().count(this) != 0; }
    void reg() { if (!alive().insert(this).second) ++bad; ++live; }
    Counted() : v(0) { reg(); }
    explicit Counted(int x) : v(x) { reg(); }
    Counted(const Counted& o) : v(o.v) { if (!o.isAlive()) ++bad; reg(); }
    Counted& operator=(const Counted& o) { if (!o.isAlive() || !isAlive()) ++bad; v = o.v; return *this; }
    ~Counted() { if (alive().erase(this) == 0) ++bad; else --live; v = -77; }
    bool operator==(const Counted& o) const { return v == o.v; }
    bool operator<(const Counted& o) const { return v < o.v; }
};
long Counted::live = 0;
long Counted::bad = 0;

// ------------------------------------------------------------------ colliding hash for the map
static size_t g_hashMod = 1000;
struct C20Hasher { size_t operator()(const int& k) const { return size_t(k) % g_hashMod; } };
struct C20KeyTraits { typedef C20Hasher Hasher; typedef std::equal_to<int> Comparator; };
typedef XalanMap<int, Counted, C20KeyTraits> MapT;
typedef XalanSet<int> SetT;
typedef XalanVector<Counted> VecT;
typedef XalanList<Counted> ListT;
typedef XalanDeque<Counted> DeqT;

static const size_t GUARD = 1000;   // no container in these histories gets anywhere near this; a traversal that
                                     // runs into it (corrupted links, wild size) is reported as the single item -2

// ------------------------------------------------------------------ output
static std::string g_out;
static bool g_unbuffered = false;
static void emit(const std::string& line) {
    if (g_unbuffered) { fwrite(line.data(), 1, line.size(), stdout); fputc('\n', stdout); fflush(stdout); }
    else { g_out += line; g_out += '\n'; }
}
static std::string num(long long x) { return std::to_string(x); }
static std::string seqJson(const std::vector<long long>& v) {
    std::string o = "[";
    for (size_t i = 0; i < v.size(); ++i) { if (i) o += ","; o += num(v[i]); }
    return o + "]";
}
static std::vector<long long> srcOf(const J& op, const char* key = "src") {
    std::vector<long long> r;
    if (const J* s = op.get(key)) for (auto& x : s->a) r.push_back(x.n);
    return r;
}
// the operation's own fields, echoed into the event (so that the trace is self-contained)
static std::string argsJson(const J& op) {
    std::string o;
    for (auto& kv : op.o) {
        if (kv.first == "op") continue;
        o += ",\"" + kv.first + "\":";
        if (kv.second.t == J::Arr) { std::vector<long long> v; for (auto& x : kv.second.a) v.push_back(x.n); o += seqJson(v); }
        else if (kv.second.t == J::Str) o += jstr(kv.second.s);
        else o += num(kv.second.n);
    }
    return o;
}
static MemoryManager& mm() { return XalanMemMgrs::getDefaultXercesMemMgr(); }

// ------------------------------------------------------------------ map
static std::string mapObs(const MapT& m, int nkeys) {
    std::vector<std::pair<long long, long long>> items;
    size_t n = 0;
    for (MapT::const_iterator it = m.begin(); it != m.end() && n < GUARD; ++it, ++n) items.push_back({(*it).first, (*it).second.v});
    if (n >= GUARD) items.assign(1, {-2, -2});
    std::sort(items.begin(), items.end());
    std::string o = "{\"size\":" + num((long long)m.size()) + ",\"empty\":" + (m.empty() ? "true" : "false") + ",\"items\":[";
    for (size_t i = 0; i < items.size(); ++i) { if (i) o += ","; o += "[" + num(items[i].first) + "," + num(items[i].second) + "]"; }
    o += "],\"finds\":[";
    for (int k = 0; k < nkeys; ++k) {
        if (k) o += ",";
        MapT::const_iterator it = m.find(k);
        o += (it == m.end()) ? "-1" : ((*it).first == k ? num((*it).second.v) : "-3");
    }
    return o + "]}";
}
static void runMap(const J& c) {
    const J& p = c.at("p");
    const double lf = double(p.num("lfNum", 3)) / double(p.num("lfDen", 4));
    const size_t minB = size_t(p.num("minBuckets", 29)), thr = size_t(p.num("thr", 50));
    g_hashMod = size_t(p.num("hashMod", 1000));
    const int nkeys = int(p.num("nkeys", 4));
    {
        MapT a(mm(), lf, minB, thr), b(mm(), lf, minB, thr);
        MapT* ms[3] = {nullptr, &a, &b};
        auto state = [&]() { return "\"obs\":[" + mapObs(a, nkeys) + "," + mapObs(b, nkeys) + "],\"live\":" + num(Counted::live) + ",\"bad\":" + num(Counted::bad); };
        emit("{\"e\":\"Op\",\"c\":\"map\",\"op\":\"new\",\"res\":0," + state() + "}");
        for (auto& op : c.at("ops").a) {
            const std::string o = op.str("op");
            const int w = int(op.num("w", 1)), k = int(op.num("k")), v = int(op.num("v"));
            MapT& m = *ms[w]; MapT& other = *ms[3 - w];
            long long res = 0; std::string extra;
            if (o == "insert") m.insert(k, Counted(v));
            else if (o == "index") res = m[k].v;
            else if (o == "put") { m[k] = Counted(v); res = m[k].v; }
            else if (o == "erase") res = (long long)m.erase(k);
            else if (o == "eraseIt") m.erase(m.find(k));
            else if (o == "find") { MapT::iterator it = m.find(k); res = it == m.end() ? -1 : ((*it).first == k ? (*it).second.v : -3); }
            else if (o == "clear") m.clear();
            else if (o == "swap") m.swap(other);
            else if (o == "assign") m = other;
            else if (o == "selfAssign") { MapT& alias = m; m = alias; }
            else if (o == "copy") { MapT t(m, mm()); extra = ",\"tmp\":" + mapObs(t, nkeys); }
            else { fprintf(stderr, "map: unknown op %s\n", o.c_str()); exit(2); }
            emit("{\"e\":\"Op\",\"c\":\"map\",\"op\":" + jstr(o) + argsJson(op) + ",\"res\":" + num(res) + extra + "," + state() + "}");
        }
    }
    emit("{\"e\":\"Op\",\"c\":\"map\",\"op\":\"destroy\",\"res\":0,\"live\":" + num(Counted::live) + ",\"bad\":" + num(Counted::bad) + "}");
}

// ------------------------------------------------------------------ set (default hash, default map parameters)
static std::string setObs(const SetT& s, int nkeys) {
    std::vector<long long> items;
    size_t n = 0;
    for (SetT::const_iterator it = s.begin(); it != s.end() && n < GUARD; ++it, ++n) items.push_back(*it);
    if (n >= GUARD) items.assign(1, -2);
    std::sort(items.begin(), items.end());
    std::vector<long long> finds;
    for (int k = 0; k < nkeys; ++k) finds.push_back((long long)s.count(k));
    return "{\"size\":" + num((long long)s.size()) + ",\"items\":" + seqJson(items) + ",\"finds\":" + seqJson(finds) + "}";
}
static void runSet(const J& c) {
    const int nkeys = int(c.at("p").num("nkeys", 8));
    SetT s(mm());
    emit("{\"e\":\"Op\",\"c\":\"set\",\"op\":\"new\",\"res\":0,\"obs\":" + setObs(s, nkeys) + "}");
    for (auto& op : c.at("ops").a) {
        const std::string o = op.str("op");
        const int k = int(op.num("k"));
        long long res = 0; std::string extra;
        if (o == "insert") s.insert(k);
        else if (o == "erase") res = (long long)s.erase(k);
        else if (o == "count") res = (long long)s.count(k);
        else if (o == "clear") s.clear();
        else if (o == "copy") { SetT t(s, mm()); extra = ",\"tmp\":" + setObs(t, nkeys); }
        else { fprintf(stderr, "set: unknown op %s\n", o.c_str()); exit(2); }
        emit("{\"e\":\"Op\",\"c\":\"set\",\"op\":" + jstr(o) + argsJson(op) + ",\"res\":" + num(res) + extra + ",\"obs\":" + setObs(s, nkeys) + "}");
    }
}

// ------------------------------------------------------------------ vector
static std::vector<long long> vecItems(const VecT& v) {
    std::vector<long long> r;
    if (v.size() > GUARD) return {-2};
    for (VecT::const_iterator it = v.begin(); it != v.end(); ++it) r.push_back(it->v);
    return r;
}
static void fill(VecT& t, const std::vector<long long>& src) { for (long long x : src) t.push_back(Counted(int(x))); }
static std::string vecObs(const VecT& v) {
    const bool sane = v.size() <= GUARD;
    return "\"obs\":{\"items\":" + seqJson(vecItems(v)) + ",\"size\":" + num(sane ? (long long)v.size() : -2) + ",\"empty\":" + (v.empty() ? "true" : "false") +
           ",\"cap\":" + num((long long)v.capacity()) + ",\"front\":" + num(sane && !v.empty() ? v.front().v : 0) + ",\"back\":" + num(sane && !v.empty() ? v.back().v : 0) +
           ",\"live\":" + num(Counted::live) + ",\"bad\":" + num(Counted::bad) + "}";
}
static void runVector(const J& c) {
    {
        VecT v(mm());
        emit("{\"e\":\"Op\",\"c\":\"vector\",\"op\":\"new\",\"res\":0,\"other\":[]," + vecObs(v) + "}");
        for (auto& op : c.at("ops").a) {
            const std::string o = op.str("op");
            const size_t pos = size_t(op.num("pos")), n = size_t(op.num("n")), i = size_t(op.num("i"));
            const int val = int(op.num("v"));
            const std::vector<long long> src = srcOf(op);
            std::string res = "0", other = "[]";
            if (o == "pushBack") v.push_back(Counted(val));
            else if (o == "pushBackSelf") v.push_back(v[i]);
            else if (o == "popBack") v.pop_back();
            else if (o == "insert") { VecT::iterator it = v.insert(v.begin() + pos, Counted(val)); res = num(it->v == val ? (long long)(it - v.begin()) : -9); }
            else if (o == "insertN") v.insert(v.begin() + pos, n, Counted(val));
            else if (o == "insertRange") { VecT t(mm()); fill(t, src); v.insert(v.begin() + pos, t.begin(), t.end()); }
            else if (o == "insertSelf") { if (n == 1) v.insert(v.begin() + pos, v[i]); else v.insert(v.begin() + pos, n, v[i]); }
            else if (o == "erase") { VecT::iterator it = v.erase(v.begin() + pos); res = num((long long)(it - v.begin())); }
            else if (o == "eraseRange") { VecT::iterator it = v.erase(v.begin() + size_t(op.num("first")), v.begin() + size_t(op.num("last"))); res = num((long long)(it - v.begin())); }
            else if (o == "resize") v.resize(n);
            else if (o == "resizeV") v.resize(n, Counted(val));
            else if (o == "resizeSelf") v.resize(n, v[i]);
            else if (o == "reserve") v.reserve(n);
            else if (o == "clear") v.clear();
            else if (o == "swap") { VecT t(mm()); fill(t, src); v.swap(t); other = seqJson(vecItems(t)); }
            else if (o == "assign") { VecT t(mm()); fill(t, src); v = t; }
            else if (o == "selfAssign") { VecT& alias = v; v = alias; }
            else if (o == "assignRange") { VecT t(mm()); fill(t, src); v.assign(t.begin(), t.end()); }
            else if (o == "copy") { VecT t(v, mm()); other = seqJson(vecItems(t)); }
            else if (o == "at") { try { res = num(v.at(i).v); } catch (const std::out_of_range&) { res = "-1"; } }
            else if (o == "cmp") { VecT t(mm()); fill(t, src); res = num(2 * (v == t ? 1 : 0) + (v < t ? 1 : 0)); }
            else { fprintf(stderr, "vector: unknown op %s\n", o.c_str()); exit(2); }
            emit("{\"e\":\"Op\",\"c\":\"vector\",\"op\":" + jstr(o) + argsJson(op) + ",\"res\":" + res + ",\"other\":" + other + "," + vecObs(v) + "}");
        }
    }
    emit("{\"e\":\"Op\",\"c\":\"vector\",\"op\":\"destroy\",\"res\":0,\"live\":" + num(Counted::live) + ",\"bad\":" + num(Counted::bad) + "}");
}

// ------------------------------------------------------------------ list
static std::vector<long long> listItems(ListT& l) {
    std::vector<long long> r; size_t n = 0;
    for (ListT::iterator it = l.begin(); it != l.end() && n < GUARD; ++it, ++n) r.push_back((*it).v);
    if (n >= GUARD) r.assign(1, -2);
    return r;
}
static std::vector<long long> listRItems(ListT& l) {
    std::vector<long long> r; size_t n = 0;
    for (ListT::reverse_iterator it = l.rbegin(); it != l.rend() && n < GUARD; ++it, ++n) r.push_back((*it).v);
    if (n >= GUARD) r.assign(1, -2);
    return r;
}
static ListT::iterator listAt(ListT& l, size_t pos) { ListT::iterator it = l.begin(); while (pos-- > 0) ++it; return it; }
static void fill(ListT& t, const std::vector<long long>& src) { for (long long x : src) t.push_back(Counted(int(x))); }
static std::string listObs(ListT& l) {
    const bool e = l.empty();
    return "\"obs\":{\"items\":" + seqJson(listItems(l)) + ",\"ritems\":" + seqJson(listRItems(l)) + ",\"size\":" + num((long long)l.size()) + ",\"empty\":" + (e ? "true" : "false") +
           ",\"front\":" + num(e ? 0 : l.front().v) + ",\"back\":" + num(e ? 0 : l.back().v) + ",\"live\":" + num(Counted::live) + ",\"bad\":" + num(Counted::bad) + "}";
}
static void runList(const J& c) {
    {
        ListT l(mm());
        emit("{\"e\":\"Op\",\"c\":\"list\",\"op\":\"new\",\"res\":0,\"other\":[]," + listObs(l) + "}");
        for (auto& op : c.at("ops").a) {
            const std::string o = op.str("op");
            const size_t pos = size_t(op.num("pos")), i = size_t(op.num("i")), first = size_t(op.num("first")), last = size_t(op.num("last"));
            const int val = int(op.num("v"));
            const std::vector<long long> src = srcOf(op);
            long long res = 0; std::string other = "[]";
            if (o == "pushBack") l.push_back(Counted(val));
            else if (o == "pushFront") l.push_front(Counted(val));
            else if (o == "popBack") l.pop_back();
            else if (o == "popFront") l.pop_front();
            else if (o == "insert") { ListT::iterator it = l.insert(listAt(l, pos), Counted(val)); res = (*it).v; }
            else if (o == "erase") l.erase(listAt(l, pos));
            else if (o == "clear") l.clear();
            else if (o == "swap") { ListT t(mm()); fill(t, src); l.swap(t); other = seqJson(listItems(t)); }
            else if (o == "spliceOne") { ListT t(mm()); fill(t, src); l.splice(listAt(l, pos), t, listAt(t, i)); other = seqJson(listItems(t)); }
            else if (o == "spliceRange") { ListT t(mm()); fill(t, src); l.splice(listAt(l, pos), t, listAt(t, first), listAt(t, last)); other = seqJson(listItems(t)); }
            else if (o == "spliceOneSelf") l.splice(listAt(l, pos), l, listAt(l, i));
            else if (o == "spliceRangeSelf") l.splice(listAt(l, pos), l, listAt(l, first), listAt(l, last));
            else { fprintf(stderr, "list: unknown op %s\n", o.c_str()); exit(2); }
            emit("{\"e\":\"Op\",\"c\":\"list\",\"op\":" + jstr(o) + argsJson(op) + ",\"res\":" + num(res) + ",\"other\":" + other + "," + listObs(l) + "}");
        }
    }
    emit("{\"e\":\"Op\",\"c\":\"list\",\"op\":\"destroy\",\"res\":0,\"live\":" + num(Counted::live) + ",\"bad\":" + num(Counted::bad) + "}");
}

// ------------------------------------------------------------------ deque
static void fill(DeqT& t, const std::vector<long long>& src) { for (long long x : src) t.push_back(Counted(int(x))); }
static std::vector<long long> deqIndex(DeqT& d) { std::vector<long long> r; const size_t n = d.size(); if (n >= GUARD) return {-2}; for (size_t i = 0; i < n; ++i) r.push_back(d[i].v); return r; }
static std::vector<long long> deqIter(DeqT& d) { std::vector<long long> r; size_t n = 0; for (DeqT::iterator it = d.begin(); it != d.end() && n < GUARD; ++it, ++n) r.push_back((*it).v); if (n >= GUARD) r.assign(1, -2); return r; }
static std::vector<long long> deqRIter(const DeqT& d) { std::vector<long long> r; size_t n = 0; for (DeqT::const_reverse_iterator it = d.rbegin(); it != d.rend() && n < GUARD; ++it, ++n) r.push_back((*it).v); if (n >= GUARD) r.assign(1, -2); return r; }
static std::string deqObs(DeqT& d) {
    const bool e = d.empty();
    return "\"obs\":{\"items\":" + seqJson(deqIndex(d)) + ",\"iter\":" + seqJson(deqIter(d)) + ",\"ritems\":" + seqJson(deqRIter(d)) + ",\"size\":" + num((long long)d.size()) +
           ",\"empty\":" + (e ? "true" : "false") + ",\"back\":" + num(e ? 0 : d.back().v) + ",\"live\":" + num(Counted::live) + ",\"bad\":" + num(Counted::bad) + "}";
}
static void runDeque(const J& c) {
    const size_t bs = size_t(c.at("p").num("blockSize", 2));
    {
        DeqT d(mm(), 0, bs);
        emit("{\"e\":\"Op\",\"c\":\"deque\",\"op\":\"new\",\"res\":0,\"other\":[]," + deqObs(d) + "}");
        for (auto& op : c.at("ops").a) {
            const std::string o = op.str("op");
            const std::vector<long long> src = srcOf(op);
            std::string other = "[]";
            if (o == "pushBack") d.push_back(Counted(int(op.num("v"))));
            else if (o == "popBack") d.pop_back();
            else if (o == "resize") d.resize(size_t(op.num("n")));
            else if (o == "clear") d.clear();
            else if (o == "swap") { DeqT t(mm(), 0, op.boolean("wide", false) ? bs + 1 : bs); fill(t, src); d.swap(t); other = seqJson(deqIndex(t)); }
            else if (o == "assign") { DeqT t(mm(), 0, bs); fill(t, src); d = t; }
            else if (o == "selfAssign") { DeqT& alias = d; d = alias; }
            else if (o == "copy") { DeqT t(d, mm()); other = seqJson(deqIndex(t)); }
            else { fprintf(stderr, "deque: unknown op %s\n", o.c_str()); exit(2); }
            emit("{\"e\":\"Op\",\"c\":\"deque\",\"op\":" + jstr(o) + argsJson(op) + ",\"res\":0,\"other\":" + other + "," + deqObs(d) + "}");
        }
    }
    emit("{\"e\":\"Op\",\"c\":\"deque\",\"op\":\"destroy\",\"res\":0,\"live\":" + num(Counted::live) + ",\"bad\":" + num(Counted::bad) + "}");
}

// ------------------------------------------------------------------ string
typedef XalanDOMString::size_type SZ;
static std::vector<XalanDOMChar> unitsOf(const std::vector<long long>& src) {
    std::vector<XalanDOMChar> u; for (long long x : src) u.push_back(XalanDOMChar(x)); u.push_back(0); return u;
}
struct StrObs { std::vector<long long> units; long long len, term; };
static StrObs observe(const XalanDOMString& s) {
    StrObs o; const size_t n = size_t(s.length());
    if (n > GUARD) { o.units = {-2}; o.len = -2; o.term = -2; return o; }
    const XalanDOMChar* p = s.c_str();
    for (size_t i = 0; i < n; ++i) o.units.push_back(p[i]);
    o.len = (long long)n; o.term = p[n];
    return o;
}
static std::string strObs(const XalanDOMString& s) {
    const StrObs o = observe(s);
    return "\"obs\":{\"units\":" + seqJson(o.units) + ",\"len\":" + num(o.len) + ",\"empty\":" + (s.empty() ? "true" : "false") + ",\"term\":" + num(o.term) +
           ",\"cap\":" + num((long long)s.capacity()) + "}";
}
static std::string otherJson(const XalanDOMString& t) {
    const StrObs o = observe(t);
    return "\"other\":" + seqJson(o.units) + ",\"otherLen\":" + num(o.len) + ",\"otherTerm\":" + num(o.term);
}
static int sign(int x) { return x < 0 ? -1 : x > 0 ? 1 : 0; }
static void runString(const J& c) {
    XalanDOMString s(mm());
    emit("{\"e\":\"Op\",\"c\":\"string\",\"op\":\"new\",\"res\":0,\"other\":[],\"otherLen\":0,\"otherTerm\":0," + strObs(s) + "}");
    for (auto& op : c.at("ops").a) {
        const std::string o = op.str("op");
        const SZ pos = SZ(op.num("pos")), pos2 = SZ(op.num("pos2")), i = SZ(op.num("i"));
        const SZ n = op.num("n") < 0 ? XalanDOMString::npos : SZ(op.num("n"));
        const XalanDOMChar ch = XalanDOMChar(op.num("ch"));
        const std::vector<XalanDOMChar> u = unitsOf(srcOf(op));
        XalanDOMString t(&u[0], mm());
        long long res = 0; std::string other = "\"other\":[],\"otherLen\":0,\"otherTerm\":0";
        if (o == "append") s.append(t);
        else if (o == "appendSelf") s.append(s);
        else if (o == "appendSub") s.append(t, pos, n);
        else if (o == "appendSubSelf") s.append(s, pos, n);
        else if (o == "appendPtr") s.append(&u[0], n);
        else if (o == "appendN") s.append(n, ch);
        else if (o == "pushBack") s.push_back(ch);
        else if (o == "insert") s.insert(pos, t);
        else if (o == "insertSelf") s.insert(pos, s);
        else if (o == "insertSub") s.insert(pos, t, pos2, n);
        else if (o == "insertSubSelf") s.insert(pos, s, pos2, n);
        else if (o == "insertRangeSelf") s.insert(s.begin() + pos, s.begin() + pos2, s.begin() + pos2 + n);
        else if (o == "insertN") s.insert(pos, n, ch);
        else if (o == "insertIt") { XalanDOMString::iterator it = s.insert(s.begin() + pos, ch); res = (long long)(it - s.begin()); }
        else if (o == "erase") s.erase(pos, n);
        else if (o == "eraseIt") { XalanDOMString::iterator it = s.erase(s.begin() + pos); res = (long long)(it - s.begin()); }
        else if (o == "eraseRange") { XalanDOMString::iterator it = s.erase(s.begin() + SZ(op.num("first")), s.begin() + SZ(op.num("last"))); res = (long long)(it - s.begin()); }
        else if (o == "assign") s = t;
        else if (o == "selfAssign") { XalanDOMString& alias = s; s = alias; }
        else if (o == "assignSub") s.assign(t, pos, n);
        else if (o == "assignSubSelf") s.assign(s, pos, n);
        else if (o == "assignPtr") s.assign(&u[0]);
        else if (o == "assignN") s.assign(n, ch);
        else if (o == "resize") s.resize(n);
        else if (o == "resizeC") s.resize(n, ch);
        else if (o == "substr") { const std::vector<XalanDOMChar> ou = unitsOf(srcOf(op, "out")); XalanDOMString out(&ou[0], mm()); s.substr(out, pos, n); other = otherJson(out); }
        else if (o == "substrSelf") s.substr(s, pos, n);
        else if (o == "swap") { s.swap(t); other = otherJson(t); }
        else if (o == "clear") s.clear();
        else if (o == "reserve") s.reserve(n);
        else if (o == "copy") { XalanDOMString cp(s, mm()); other = otherJson(cp); }
        else if (o == "copySub") { XalanDOMString cp(s, mm(), pos, n); other = otherJson(cp); }
        else if (o == "compare") res = sign(s.compare(t));
        else if (o == "equals") res = XalanDOMString::equals(s, t) ? 1 : 0;
        else if (o == "at") { try { res = s.at(i); } catch (const std::out_of_range&) { res = -1; } }
        else { fprintf(stderr, "string: unknown op %s\n", o.c_str()); exit(2); }
        emit("{\"e\":\"Op\",\"c\":\"string\",\"op\":" + jstr(o) + argsJson(op) + ",\"res\":" + num(res) + "," + other + "," + strObs(s) + "}");
    }
}

// ------------------------------------------------------------------ driver
// ------------------------------------------------------------------ string pool (XalanDOMStringPool over XalanDOMStringHashTable)
// a pooled string is identified by the order in which the pool first handed out its address (0 = the shared empty string)
static std::string seqSeqJson(const std::vector<std::vector<long long>>& v) {
    std::string o = "[";
    for (size_t i = 0; i < v.size(); ++i) { if (i) o += ","; o += seqJson(v[i]); }
    return o + "]";
}
static void runPool(const J& c) {
    const J& p = c.at("p");
    XalanDOMStringPool pool(mm(), XalanDOMStringPool::block_size_type(p.num("block", 32)), size_t(p.num("buckets", 101)), size_t(p.num("bucketSize", 15)));
    std::vector<const XalanDOMString*> handed;
    auto idOf = [&](const XalanDOMString* q, bool add) -> long long {
        if (q == nullptr) return -1;
        if (q->empty()) return 0;
        for (size_t i = 0; i < handed.size(); ++i) if (handed[i] == q) return (long long)i + 1;
        if (!add) return -2;            // an address the pool never handed out
        handed.push_back(q); return (long long)handed.size();
    };
    auto obs = [&]() {
        std::vector<std::vector<long long>> all;
        for (const XalanDOMString* q : handed) all.push_back(observe(*q).units);
        return "\"obs\":{\"size\":" + num((long long)pool.size()) + ",\"table\":" + num((long long)pool.getHashTable().size()) + ",\"strings\":" + seqSeqJson(all) + "}";
    };
    emit("{\"e\":\"Op\",\"c\":\"pool\",\"op\":\"new\",\"res\":0,\"got\":[]," + obs() + "}");
    for (auto& op : c.at("ops").a) {
        const std::string o = op.str("op");
        const std::vector<XalanDOMChar> u = unitsOf(srcOf(op));
        const SZ n = SZ(u.size() - 1);
        long long res = 0; std::vector<long long> got;
        if (o == "get") { const XalanDOMString t(&u[0], mm(), n); const XalanDOMString& r = pool.get(t); res = idOf(&r, true); got = observe(r).units; }
        else if (o == "getz") { const XalanDOMString& r = pool.get(&u[0]); res = idOf(&r, true); got = observe(r).units; }
        else if (o == "getn") { const XalanDOMString& r = pool.get(&u[0], n); res = idOf(&r, true); got = observe(r).units; }
        else if (o == "find") { const XalanDOMString t(&u[0], mm(), n); const XalanDOMString* r = pool.getHashTable().find(t); res = idOf(r, false); if (r) got = observe(*r).units; }
        else if (o == "clear") { pool.clear(); handed.clear(); }
        else { fprintf(stderr, "pool: unknown op %s\n", o.c_str()); exit(2); }
        emit("{\"e\":\"Op\",\"c\":\"pool\",\"op\":" + jstr(o) + argsJson(op) + ",\"res\":" + num(res) + ",\"got\":" + seqJson(got) + "," + obs() + "}");
    }
}

static void runCase(const J& c, size_t caseNo) {
    emit("{\"e\":\"Reset\",\"case\":" + num((long long)caseNo) + "}");
    Counted::live = 0; Counted::bad = 0; Counted::alive().clear();
    const std::string kind = c.str("c");
    if (kind == "map") runMap(c);
    else if (kind == "set") runSet(c);
    else if (kind == "vector") runVector(c);
    else if (kind == "list") runList(c);
    else if (kind == "deque") runDeque(c);
    else if (kind == "string") runString(c);
    else if (kind == "pool") runPool(c);
    else { fprintf(stderr, "unknown container %s\n", kind.c_str()); exit(2); }
}

static volatile size_t* g_progress = nullptr;   // shared with the children: number of cases completed so far

// run cases [from, to) in a child; returns the child's wait status (0 = clean).  In unbuffered mode (one isolated
// history) the child's stderr is captured and the first sanitizer diagnostic is returned in *why.
static int runChild(const std::vector<std::string>& lines, size_t from, size_t to, bool unbuffered, std::string* why = nullptr) {
    fflush(stdout); fflush(stderr);
    int fds[2] = {-1, -1};
    if (unbuffered && pipe(fds) != 0) { perror("pipe"); exit(2); }
    const pid_t pid = fork();
    if (pid < 0) { perror("fork"); exit(2); }
    if (pid == 0) {
        if (unbuffered) { close(fds[0]); dup2(fds[1], 2); close(fds[1]); }
        g_unbuffered = unbuffered;
        for (size_t k = from; k < to; ++k) {
            alarm(15);                 // per history: an endless traversal of a corrupted structure is a violation, not a hang
            runCase(parseJson(lines[k]), k + 1);
            if (!g_unbuffered) {       // a case's events are written only when the case is complete
                size_t off = 0;
                while (off < g_out.size()) { ssize_t w = write(1, g_out.data() + off, g_out.size() - off); if (w <= 0) _exit(3); off += size_t(w); }
                g_out.clear();
                *g_progress = k + 1;
            }
        }
        _exit(0);
    }
    if (unbuffered) {
        close(fds[1]);
        std::string err; char buf[4096]; ssize_t r;
        while ((r = read(fds[0], buf, sizeof buf)) > 0) if (err.size() < (1u << 20)) err.append(buf, size_t(r));
        close(fds[0]);
        if (why) {
            size_t at = err.find("ERROR: AddressSanitizer");
            if (at == std::string::npos) at = err.find("runtime error:");
            if (at != std::string::npos) { *why = err.substr(at, err.find('\n', at) - at).substr(0, 200); }
        }
    }
    int st = 0;
    if (waitpid(pid, &st, 0) < 0) { perror("waitpid"); exit(2); }
    return st;
}

int main(int argc, char** argv) {
    if (argc < 2) { fprintf(stderr, "usage: %s cases.ndjson [batch]\n", argv[0]); return 2; }
    Platform platform;
    const std::vector<std::string> lines = readLines(argv[1]);
    const size_t batch = argc > 2 ? size_t(atol(argv[2])) : 500;
    g_progress = static_cast<volatile size_t*>(mmap(nullptr, sizeof(size_t), PROT_READ | PROT_WRITE, MAP_SHARED | MAP_ANONYMOUS, -1, 0));
    if (g_progress == MAP_FAILED) { perror("mmap"); return 2; }
    size_t aborted = 0, k = 0;
    while (k < lines.size()) {
        const size_t to = std::min(lines.size(), k + batch);
        *g_progress = k;
        if (runChild(lines, k, to, false) == 0) { k = to; continue; }
        const size_t culprit = *g_progress;            // the first case the child did not complete
        if (culprit >= to) { k = to; continue; }
        std::string why;
        const int st = runChild(lines, culprit, culprit + 1, true, &why);
        if (st != 0) {
            ++aborted;
            if (why.empty()) why = WIFSIGNALED(st) ? (WTERMSIG(st) == SIGALRM ? "time-out (endless loop)" : "killed by signal") : "abnormal exit";
            printf("{\"e\":\"Abort\",\"case\":%zu,\"status\":%d,\"why\":%s}\n", culprit + 1, WIFSIGNALED(st) ? 1000 + WTERMSIG(st) : WEXITSTATUS(st), jstr(why).c_str());
            fflush(stdout);
        }
        k = culprit + 1;
    }
    fprintf(stderr, "c20: %zu cases, %zu aborted\n", lines.size(), aborted);
    fflush(stdout); fflush(stderr);
    _exit(0);   // skip the library's static destructors (XPath was never initialised in this process)
}
