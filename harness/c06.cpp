// C06: replay API histories on ONE XalanTransformer and record status / output / error-message emptiness of every
// call; every distinct (stylesheet, source, params, functions) tuple is also run once on a newly constructed
// transformer (event "Fresh").  The comparison is done by TLC (spec/trace/Trace_C06.tla), not here.
// usage: xv_c06 cases.ndjson > trace.ndjson
//   line 1 of the case file: {"pool":{"ss":{name:text},"src":{name:text},"vals":{name:{form,text|num}},"fns":{name:{ns,name}}}}
//   other lines            : {"id":n,"ops":[{"op":"Compile","ss":"S2"},{"op":"Transform","ss":{"k":"h","h":1},"src":{"k":"i","d":"D1"}},...]}
#include "common.hpp"
#include <set>
#include <cmath>
#include <xalanc/XalanTransformer/XalanTransformer.hpp>
#include <xalanc/XalanTransformer/XalanCompiledStylesheet.hpp>
#include <xalanc/XalanTransformer/XalanParsedSource.hpp>
#include <xalanc/XPath/Function.hpp>
#include <xalanc/XPath/XObjectFactory.hpp>
#include <xalanc/XSLT/XSLTInputSource.hpp>
#include <xalanc/XSLT/XSLTResultTarget.hpp>

using namespace xv;

// ext:f(x) = 2 * number(x) + 1
class FunctionF : public Function {
public:
    virtual XObjectPtr execute(XPathExecutionContext& ctx, XalanNode* context, const XObjectArgVectorType& args, const Locator* locator) const {
        if (args.size() != 1) generalError(ctx, context, locator);
        return ctx.getXObjectFactory().createNumber(2 * args[0]->num(ctx) + 1);
    }
    using Function::execute;
    virtual FunctionF* clone(MemoryManager& m) const { return XalanCopyConstruct(m, *this); }
protected:
    const XalanDOMString& getError(XalanDOMString& r) const { r.assign("f() accepts one argument"); return r; }
};

struct Val { std::string form, text; double num = 0; };
struct Fn { std::string ns, name; bool global = false; };
struct Pool {
    std::map<std::string, std::string> ss, src;
    std::map<std::string, Val> vals;
    std::map<std::string, Fn> fns;
    std::string base;   // directory holding <name>.xsl copies of the stylesheets: their system ids (document('') re-reads them)
};
static Pool pool;

// bytes -> JSON string, every byte >= 0x80 as \u00XX (the trace compares byte strings, whatever the encoding)
static std::string jbytes(const std::string& s) {
    std::string o = "\"";
    for (unsigned char c : s) {
        if (c == '"') o += "\\\""; else if (c == '\\') o += "\\\\"; else if (c == '\n') o += "\\n"; else if (c == '\r') o += "\\r"; else if (c == '\t') o += "\\t";
        else if (c < 0x20 || c >= 0x7f) { char b[8]; snprintf(b, sizeof b, "\\u%04x", c); o += b; } else o += char(c);
    }
    return o + "\"";
}

static const std::string& text(const std::map<std::string, std::string>& m, const std::string& k) {
    auto it = m.find(k);
    if (it == m.end()) { fprintf(stderr, "unknown document %s\n", k.c_str()); exit(2); }
    return it->second;
}

// a stylesheet is always handed over as a stream; the system id only names it
struct SSInput {
    std::istringstream in;
    XSLTInputSource src;
    SSInput(const std::string& name) : in(text(pool.ss, name)), src(&in) {
        if (!pool.base.empty()) src.setSystemId(XalanDOMString(("file://" + pool.base + "/" + name + ".xsl").c_str()).c_str());
    }
};

static void setParam(XalanTransformer& t, const std::string& k, const std::string& v) {
    auto it = pool.vals.find(v);
    if (it == pool.vals.end()) { fprintf(stderr, "unknown value %s\n", v.c_str()); exit(2); }
    const Val& val = it->second;
    if (val.form == "expr") t.setStylesheetParam(k.c_str(), val.text.c_str());
    else if (val.form == "num") t.setStylesheetParam(k.c_str(), val.num);
    else if (val.form == "obj") t.setStylesheetParam(XalanDOMString(k.c_str()), t.getXObjectFactory().createString(XalanDOMString(val.text.c_str())));
    else { fprintf(stderr, "unknown value form %s\n", val.form.c_str()); exit(2); }
}
static void installFn(XalanTransformer& t, const std::string& f) {
    const Fn& fn = pool.fns.at(f);
    if (fn.global) XalanTransformer::installExternalFunctionGlobal(XalanDOMString(fn.ns.c_str()), XalanDOMString(fn.name.c_str()), FunctionF());
    else t.installExternalFunction(XalanDOMString(fn.ns.c_str()), XalanDOMString(fn.name.c_str()), FunctionF());
}
static void uninstallFn(XalanTransformer& t, const std::string& f) {
    const Fn& fn = pool.fns.at(f);
    if (fn.global) XalanTransformer::uninstallExternalFunctionGlobal(XalanDOMString(fn.ns.c_str()), XalanDOMString(fn.name.c_str()));
    else t.uninstallExternalFunction(XalanDOMString(fn.ns.c_str()), XalanDOMString(fn.name.c_str()));
}

typedef std::map<std::string, std::string> Params;   // name -> value name ("none" = unset), total over the names seen
typedef std::map<std::string, bool> Fns;

static std::string paramsJson(const Params& p) {
    std::string o = "{"; bool first = true;
    for (auto& kv : p) { if (!first) o += ","; first = false; o += jstr(kv.first) + ":" + jstr(kv.second); }
    return o + "}";
}
static std::string fnsJson(const Fns& f) {
    std::string o = "{"; bool first = true;
    for (auto& kv : f) { if (!first) o += ","; first = false; o += jstr(kv.first) + ":" + (kv.second ? "true" : "false"); }
    return o + "}";
}
static const char* tf(bool b) { return b ? "true" : "false"; }
static bool errEmpty(const XalanTransformer& t) { const char* e = t.getLastError(); return e == nullptr || *e == 0; }

#if defined(XALAN_VERIF_HAS_RESIDUE)
// optional hook H1 (hooks/H1-residue.patch): logical sizes of the execution context's stacks / caches / counters
static std::string residueJson(const XalanTransformer& t) {
    XalanVector<unsigned long> v;
    t.verifResidue(v);
    std::string o = ",\"residue\":[";
    for (size_t i = 0; i < v.size(); ++i) { if (i) o += ","; o += std::to_string(v[i]); }
    return o + "]";
}
#else
static std::string residueJson(const XalanTransformer&) { return ""; }
#endif

struct Outcome { int status; std::string out; bool errEmpty; std::string msg; };

// the same call on a newly constructed transformer.  The result is cached, but every 8th use of a tuple runs the
// real code again (the newest result is the one logged), so that "what a fresh transformer returns" is itself
// observed repeatedly over the life of the process: the props script hands all distinct Fresh events to TLC in
// one extra execution, where two different answers for one tuple are rejected.
struct FreshEntry { Outcome o; unsigned uses; };
static std::map<std::string, FreshEntry> freshCache;
static Outcome runFresh(const std::string& ss, const std::string& src, const Params& params, const Fns& fns) {
    Outcome o;
    XalanTransformer t;
    t.setWarningStream(0);
    for (auto& kv : params) if (kv.second != "none") setParam(t, kv.first, kv.second);
    for (auto& kv : fns) if (kv.second && !pool.fns.at(kv.first).global) installFn(t, kv.first);   // the global ones are installed (process-wide) right now
    std::istringstream xml(text(pool.src, src));
    SSInput xsl(ss);
    std::ostringstream out;
    XSLTInputSource xmlIn(&xml);
    o.status = t.transform(xmlIn, xsl.src, XSLTResultTarget(&out));
    o.out = out.str();
    o.errEmpty = errEmpty(t);
    o.msg = t.getLastError();
    return o;
}
static const Outcome& fresh(const std::string& ss, const std::string& src, const Params& params, const Fns& fns) {
    const std::string key = ss + "|" + src + "|" + paramsJson(params) + "|" + fnsJson(fns);
    auto it = freshCache.find(key);
    if (it == freshCache.end()) it = freshCache.emplace(key, FreshEntry{runFresh(ss, src, params, fns), 0}).first;
    else if (++it->second.uses % 8 == 0) it->second.o = runFresh(ss, src, params, fns);
    return it->second.o;
}

static void runCase(const J& c) {
    XalanTransformer t;
    t.setWarningStream(0);
    Params params; Fns fns;
    for (auto& kv : pool.fns) fns[kv.first] = false;
    params["p"] = "none";
    std::map<long long, const XalanCompiledStylesheet*> hss; std::map<long long, std::string> hssDoc;
    std::map<long long, const XalanParsedSource*> hsrc; std::map<long long, std::string> hsrcDoc;
    long long nss = 0, nsrc = 0;
    std::set<std::string> emitted;
    printf("{\"e\":\"Reset\",\"case\":%lld}\n", c.num("id"));
#if defined(XALAN_VERIF_HAS_RESIDUE)
    printf("{\"e\":\"New\"%s}\n", residueJson(t).c_str());    // residue of the newly constructed transformer
#endif
    for (auto& op : c.at("ops").a) {
        const std::string o = op.str("op");
        std::string args;
        int status = 0; bool hasStatus = false;
        if (o == "Compile") {
            const std::string d = op.str("ss");
            SSInput in(d);
            const XalanCompiledStylesheet* h = 0;
            status = t.compileStylesheet(in.src, h); hasStatus = true;
            args = ",\"ss\":" + jstr(d);
            if (status == 0) { hss[++nss] = h; hssDoc[nss] = d; args += ",\"h\":" + std::to_string(nss); }
        } else if (o == "Parse") {
            const std::string d = op.str("src");
            std::istringstream in(text(pool.src, d));
            const XalanParsedSource* h = 0;
            status = t.parseSource(XSLTInputSource(&in), h); hasStatus = true;
            args = ",\"src\":" + jstr(d);
            if (status == 0) { hsrc[++nsrc] = h; hsrcDoc[nsrc] = d; args += ",\"h\":" + std::to_string(nsrc); }
        } else if (o == "SetParam") {
            setParam(t, op.str("k"), op.str("v"));
            params[op.str("k")] = op.str("v");
            args = ",\"k\":" + jstr(op.str("k")) + ",\"v\":" + jstr(op.str("v"));
        } else if (o == "ClearParams") {
            t.clearStylesheetParams();
            for (auto& kv : params) kv.second = "none";
        } else if (o == "InstallFn") {
            installFn(t, op.str("f")); fns[op.str("f")] = true; args = ",\"f\":" + jstr(op.str("f"));
        } else if (o == "UninstallFn") {
            uninstallFn(t, op.str("f")); fns[op.str("f")] = false; args = ",\"f\":" + jstr(op.str("f"));
        } else if (o == "DestroySS") {
            const long long h = op.num("h");
            if (!hss.count(h)) { fprintf(stderr, "case %lld: DestroySS of a handle that is not live\n", c.num("id")); exit(2); }
            status = t.destroyStylesheet(hss[h]); hasStatus = true; hss.erase(h);
            args = ",\"h\":" + std::to_string(h);
        } else if (o == "DestroySrc") {
            const long long h = op.num("h");
            if (!hsrc.count(h)) { fprintf(stderr, "case %lld: DestroySrc of a handle that is not live\n", c.num("id")); exit(2); }
            status = t.destroyParsedSource(hsrc[h]); hasStatus = true; hsrc.erase(h);
            args = ",\"h\":" + std::to_string(h);
        } else if (o == "Transform") {
            const J& ss = op.at("ss"); const J& src = op.at("src");
            const bool ssH = ss.str("k") == "h", srcH = src.str("k") == "h";
            if ((ssH && !hss.count(ss.num("h"))) || (srcH && !hsrc.count(src.num("h")))) {
                fprintf(stderr, "case %lld: Transform with a handle that is not live\n", c.num("id")); exit(2);
            }
            const std::string ssDoc = ssH ? hssDoc[ss.num("h")] : ss.str("d");
            const std::string srcDoc = srcH ? hsrcDoc[src.num("h")] : src.str("d");
            // what a newly created transformer returns for the same inputs (logged before the call under test)
            const Outcome& fr = fresh(ssDoc, srcDoc, params, fns);
            const std::string fkey = ssDoc + "|" + srcDoc + "|" + paramsJson(params) + "|" + fnsJson(fns);
            if (emitted.insert(fkey).second)
                printf("{\"e\":\"Fresh\",\"ss\":%s,\"src\":%s,\"params\":%s,\"fns\":%s,\"status\":%d,\"out\":%s,\"errEmpty\":%s,\"msg\":%s}\n",
                       jstr(ssDoc).c_str(), jstr(srcDoc).c_str(), paramsJson(params).c_str(), fnsJson(fns).c_str(), fr.status,
                       jbytes(fr.out).c_str(), tf(fr.errEmpty), jbytes(fr.msg).c_str());
            SSInput xsl(ssDoc);
            std::istringstream xml(srcH ? std::string() : text(pool.src, srcDoc));
            std::ostringstream out;
            XSLTResultTarget target(&out);
            if (ssH && srcH) status = t.transform(*hsrc[src.num("h")], hss[ss.num("h")], target);
            else if (ssH) status = t.transform(XSLTInputSource(&xml), hss[ss.num("h")], target);
            else if (srcH) status = t.transform(*hsrc[src.num("h")], xsl.src, target);
            else status = t.transform(XSLTInputSource(&xml), xsl.src, target);
            hasStatus = true;
            args = std::string(",\"ss\":") + (ssH ? "{\"k\":\"h\",\"h\":" + std::to_string(ss.num("h")) + "}" : "{\"k\":\"i\",\"d\":" + jstr(ssDoc) + "}")
                 + ",\"src\":" + (srcH ? "{\"k\":\"h\",\"h\":" + std::to_string(src.num("h")) + "}" : "{\"k\":\"i\",\"d\":" + jstr(srcDoc) + "}")
                 + ",\"out\":" + jbytes(out.str()) + ",\"msg\":" + jbytes(t.getLastError());
        } else { fprintf(stderr, "unknown op %s\n", o.c_str()); exit(2); }
        printf("{\"e\":%s%s", jstr(o).c_str(), args.c_str());
        if (hasStatus) printf(",\"status\":%d", status);
        printf(",\"errEmpty\":%s%s}\n", tf(errEmpty(t)), residueJson(t).c_str());
        fflush(stdout);
    }
    for (auto& kv : fns) if (kv.second && pool.fns.at(kv.first).global) uninstallFn(t, kv.first);    // the process-wide table is empty again for the next case
    // the transformer is destroyed here with whatever handles are still live (ASan sees double frees / leaks of the protocol)
}

int main(int argc, char** argv) {
    if (argc < 2) { fprintf(stderr, "usage: %s cases.ndjson\n", argv[0]); return 2; }
    std::cerr.rdbuf(nullptr);   // the default parser error handler of the library prints to std::cerr
    Platform platform;
    XalanTransformer::initialize();
    {
        auto lines = readLines(argv[1]);
        if (lines.empty()) { fprintf(stderr, "empty case file\n"); return 2; }
        J head = parseJson(lines[0]);
        const J& p = head.at("pool");
        for (auto& kv : p.at("ss").o) pool.ss[kv.first] = kv.second.s;
        for (auto& kv : p.at("src").o) pool.src[kv.first] = kv.second.s;
        for (auto& kv : p.at("vals").o) { Val v; v.form = kv.second.str("form"); v.text = kv.second.str("text"); v.num = (double)kv.second.num("num"); if (kv.second.str("sign") == "-") v.num = -v.num; pool.vals[kv.first] = v; }
        pool.base = p.str("base");
        for (auto& kv : p.at("fns").o) { Fn f; f.ns = kv.second.str("ns"); f.name = kv.second.str("name"); f.global = kv.second.str("scope") == "global"; pool.fns[kv.first] = f; }
        for (size_t i = 1; i < lines.size(); ++i) {
            J c = parseJson(lines[i]);
            runCase(c);
        }
    }
    XalanTransformer::terminate();
    return 0;
}
