// Shared pieces of the conformance harness: a tiny JSON reader/writer, Xalan start-up, document
// loading (native source tree and Xerces-DOM wrapper) and the node <-> id projection of XDM.tla.
#pragma once
#include <cassert>
#include <cstdint>
#include <cstdio>
#include <cstdlib>
#include <cstring>
#include <fstream>
#include <iostream>
#include <map>
#include <memory>
#include <sstream>
#include <string>
#include <unordered_map>
#include <vector>

#include <xercesc/util/PlatformUtils.hpp>
#include <xercesc/framework/MemBufInputSource.hpp>

#include <xalanc/Include/PlatformDefinitions.hpp>
#include <xalanc/XalanDOM/XalanDocument.hpp>
#include <xalanc/XalanDOM/XalanNode.hpp>
#include <xalanc/XalanDOM/XalanNamedNodeMap.hpp>
#include <xalanc/XalanDOM/XalanDOMString.hpp>
#include <xalanc/PlatformSupport/DOMStringHelper.hpp>
#include <xalanc/PlatformSupport/XSLException.hpp>
#include <xalanc/DOMSupport/DOMServices.hpp>
#include <xalanc/XalanSourceTree/XalanSourceTreeDOMSupport.hpp>
#include <xalanc/XalanSourceTree/XalanSourceTreeInit.hpp>
#include <xalanc/XalanSourceTree/XalanSourceTreeParserLiaison.hpp>
#include <xalanc/XercesParserLiaison/XercesDOMSupport.hpp>
#include <xalanc/XercesParserLiaison/XercesParserLiaison.hpp>

namespace xv {

using namespace xalanc;

// ------------------------------------------------------------------------------------------ JSON
struct J {
    enum T { Null, Bool, Num, Str, Arr, Obj } t = Null;
    bool b = false;
    long long n = 0;
    std::string s;
    std::vector<J> a;
    std::vector<std::pair<std::string, J>> o;

    const J* get(const char* k) const {
        for (auto& kv : o) if (kv.first == k) return &kv.second;
        return nullptr;
    }
    const J& at(const char* k) const {
        const J* p = get(k);
        if (!p) { fprintf(stderr, "json: missing key %s\n", k); exit(2); }
        return *p;
    }
    bool has(const char* k) const { return get(k) != nullptr; }
    std::string str(const char* k, const char* d = "") const { const J* p = get(k); return p && p->t == Str ? p->s : std::string(d); }
    long long num(const char* k, long long d = 0) const { const J* p = get(k); return p && p->t == Num ? p->n : d; }
    bool boolean(const char* k, bool d = false) const { const J* p = get(k); return p && p->t == Bool ? p->b : d; }
};

class JParser {
    const char* p; const char* e;
    void ws() { while (p < e && (*p == ' ' || *p == '\t' || *p == '\n' || *p == '\r')) ++p; }
    [[noreturn]] void fail(const char* m) { fprintf(stderr, "json parse error: %s near '%.20s'\n", m, p); exit(2); }
    static void utf8(std::string& out, unsigned cp) {
        if (cp < 0x80) out += char(cp);
        else if (cp < 0x800) { out += char(0xC0 | (cp >> 6)); out += char(0x80 | (cp & 0x3F)); }
        else if (cp < 0x10000) { out += char(0xE0 | (cp >> 12)); out += char(0x80 | ((cp >> 6) & 0x3F)); out += char(0x80 | (cp & 0x3F)); }
        else { out += char(0xF0 | (cp >> 18)); out += char(0x80 | ((cp >> 12) & 0x3F)); out += char(0x80 | ((cp >> 6) & 0x3F)); out += char(0x80 | (cp & 0x3F)); }
    }
    unsigned hex4() { unsigned v = 0; for (int i = 0; i < 4; ++i) { char c = *p++; v = v * 16 + (c <= '9' ? c - '0' : (c | 32) - 'a' + 10); } return v; }
public:
    JParser(const std::string& s) : p(s.data()), e(s.data() + s.size()) {}
    J parse() {
        ws(); J j;
        if (p >= e) fail("eof");
        if (*p == '{') { ++p; j.t = J::Obj; ws(); if (*p == '}') { ++p; return j; }
            for (;;) { ws(); J k = parse(); ws(); if (*p != ':') fail(":"); ++p; J v = parse(); j.o.emplace_back(k.s, std::move(v)); ws();
                if (*p == ',') { ++p; continue; } if (*p == '}') { ++p; break; } fail("obj"); } }
        else if (*p == '[') { ++p; j.t = J::Arr; ws(); if (*p == ']') { ++p; return j; }
            for (;;) { j.a.push_back(parse()); ws(); if (*p == ',') { ++p; continue; } if (*p == ']') { ++p; break; } fail("arr"); } }
        else if (*p == '"') { ++p; j.t = J::Str;
            while (p < e && *p != '"') { if (*p == '\\') { ++p; char c = *p++;
                    switch (c) { case 'n': j.s += '\n'; break; case 't': j.s += '\t'; break; case 'r': j.s += '\r'; break; case 'b': j.s += '\b'; break; case 'f': j.s += '\f'; break;
                        case 'u': { unsigned cp = hex4(); if (cp >= 0xD800 && cp < 0xDC00 && p + 1 < e && p[0] == '\\' && p[1] == 'u') { p += 2; unsigned lo = hex4(); cp = 0x10000 + ((cp - 0xD800) << 10) + (lo - 0xDC00); } utf8(j.s, cp); break; }
                        default: j.s += c; } }
                else j.s += *p++; }
            ++p; }
        else if (*p == 't') { p += 4; j.t = J::Bool; j.b = true; }
        else if (*p == 'f') { p += 5; j.t = J::Bool; j.b = false; }
        else if (*p == 'n') { p += 4; }
        else { j.t = J::Num; char* end; j.n = strtoll(p, &end, 10); if (end == p) fail("num"); p = end; }
        return j;
    }
};

inline J parseJson(const std::string& s) { return JParser(s).parse(); }

inline std::string jstr(const std::string& s) {  // s is UTF-8
    std::string o = "\"";
    for (unsigned char c : s) {
        if (c == '"') o += "\\\""; else if (c == '\\') o += "\\\\"; else if (c == '\n') o += "\\n"; else if (c == '\r') o += "\\r"; else if (c == '\t') o += "\\t";
        else if (c < 0x20) { char b[8]; snprintf(b, sizeof b, "\\u%04x", c); o += b; } else o += char(c);
    }
    return o + "\"";
}

inline std::vector<std::string> readLines(const char* path) {
    std::vector<std::string> v; std::ifstream f(path); std::string l;
    if (!f) { fprintf(stderr, "cannot open %s\n", path); exit(2); }
    while (std::getline(f, l)) if (!l.empty()) v.push_back(l);
    return v;
}

// ---------------------------------------------------------------------------------- strings
inline std::string toUtf8(const XalanDOMChar* s, size_t n) {
    std::string o;
    for (size_t i = 0; i < n; ++i) {
        unsigned cp = s[i];
        if (cp >= 0xD800 && cp < 0xDC00 && i + 1 < n && s[i + 1] >= 0xDC00 && s[i + 1] < 0xE000) { cp = 0x10000 + ((cp - 0xD800) << 10) + (s[i + 1] - 0xDC00); ++i; }
        if (cp < 0x80) o += char(cp);
        else if (cp < 0x800) { o += char(0xC0 | (cp >> 6)); o += char(0x80 | (cp & 0x3F)); }
        else if (cp < 0x10000) { o += char(0xE0 | (cp >> 12)); o += char(0x80 | ((cp >> 6) & 0x3F)); o += char(0x80 | (cp & 0x3F)); }
        else { o += char(0xF0 | (cp >> 18)); o += char(0x80 | ((cp >> 12) & 0x3F)); o += char(0x80 | ((cp >> 6) & 0x3F)); o += char(0x80 | (cp & 0x3F)); }
    }
    return o;
}
inline std::string toUtf8(const XalanDOMString& s) { return toUtf8(s.c_str(), s.length()); }

inline XalanDOMString fromUtf8(const std::string& u) {
    XalanDOMString r;
    size_t i = 0;
    while (i < u.size()) {
        unsigned char c = u[i]; unsigned cp; int len;
        if (c < 0x80) { cp = c; len = 1; } else if ((c >> 5) == 6) { cp = c & 0x1F; len = 2; } else if ((c >> 4) == 14) { cp = c & 0x0F; len = 3; } else { cp = c & 0x07; len = 4; }
        for (int k = 1; k < len && i + k < u.size(); ++k) cp = (cp << 6) | (u[i + k] & 0x3F);
        i += len;
        if (cp >= 0x10000) { cp -= 0x10000; r.push_back(XalanDOMChar(0xD800 + (cp >> 10))); r.push_back(XalanDOMChar(0xDC00 + (cp & 0x3FF))); }
        else r.push_back(XalanDOMChar(cp));
    }
    return r;
}

// code-point array "[104,105]" of a UTF-16 string (the spec's strings are sequences of code points)
inline std::string cpArray(const XalanDOMChar* s, size_t n) {
    std::string o = "[";
    bool first = true;
    for (size_t i = 0; i < n; ++i) {
        unsigned cp = s[i];
        if (cp >= 0xD800 && cp < 0xDC00 && i + 1 < n && s[i + 1] >= 0xDC00 && s[i + 1] < 0xE000) { cp = 0x10000 + ((cp - 0xD800) << 10) + (s[i + 1] - 0xDC00); ++i; }
        if (!first) o += ","; first = false;
        o += std::to_string(cp);
    }
    return o + "]";
}
inline std::string cpArray(const XalanDOMString& s) { return cpArray(s.c_str(), s.length()); }

// ------------------------------------------------------------------------------ Xalan start-up
struct Platform {
    Platform() { xercesc::XMLPlatformUtils::Initialize(); }
    ~Platform() { xercesc::XMLPlatformUtils::Terminate(); }
};

inline std::string excMessage(const XSLException& e) {
    XalanDOMString m; e.defaultFormat(m); return toUtf8(m);
}

// --------------------------------------------------------------------- node <-> id projection
inline bool isNsDecl(const XalanNode* a) {
    const XalanDOMString& n = a->getNodeName();
    static const XalanDOMChar x[] = { 'x', 'm', 'l', 'n', 's', 0 };
    if (n.length() == 5 && equals(n, x)) return true;
    return n.length() > 5 && startsWith(n, x) && n[5] == ':';
}

struct NodeIds {
    std::unordered_map<const XalanNode*, std::pair<int, int>> id;   // node -> (doc, id)
    std::vector<std::vector<XalanNode*>> nodes;                     // [doc][id] (1-based; [0] unused)

    int addDocument(XalanNode* root) {
        nodes.emplace_back(); std::vector<XalanNode*>& v = nodes.back(); v.push_back(nullptr);
        int d = (int)nodes.size();
        walk(root, d, v);
        return d;
    }
    void walk(XalanNode* n, int d, std::vector<XalanNode*>& v) {
        v.push_back(n); id[n] = { d, (int)v.size() - 1 };
        if (n->getNodeType() == XalanNode::ELEMENT_NODE) {
            const XalanNamedNodeMap* m = n->getAttributes();
            if (m) for (XalanSize_t i = 0; i < m->getLength(); ++i) {
                XalanNode* a = m->item(i);
                if (isNsDecl(a)) continue;
                v.push_back(a); id[a] = { d, (int)v.size() - 1 };
            }
        }
        for (XalanNode* c = n->getFirstChild(); c; c = c->getNextSibling())
            if (c->getNodeType() != XalanNode::DOCUMENT_TYPE_NODE) walk(c, d, v);      // a Xerces tree keeps the document type as a child; the data model has no such node
    }
    XalanNode* node(int d, int i) const { return nodes.at(d - 1).at(i); }
    // "[d,i]"; namespace-declaration attributes (Xalan's namespace nodes) are "[d,-owner]"
    std::string ref(const XalanNode* n) const {
        auto it = id.find(n);
        if (it != id.end()) return "[" + std::to_string(it->second.first) + "," + std::to_string(it->second.second) + "]";
        if (n && n->getNodeType() == XalanNode::ATTRIBUTE_NODE) {
            const XalanNode* owner = DOMServices::getParentOfNode(*n);
            auto jt = id.find(owner);
            if (jt != id.end()) return "[" + std::to_string(jt->second.first) + "," + std::to_string(-jt->second.second) + "]";
        }
        return "[0,0]";
    }
};

// ----------------------------------------------------------------------------- document loading
struct NativeDocs {
    XalanSourceTreeInit init;
    XalanSourceTreeDOMSupport support;
    XalanSourceTreeParserLiaison liaison;
    NativeDocs() : liaison(support) { support.setParserLiaison(&liaison); }
    XalanDocument* parse(const std::string& xml) {
        xercesc::MemBufInputSource src((const XMLByte*)xml.data(), xml.size(), "mem");
        return liaison.parseXMLStream(src);
    }
};

struct XercesDocs {
    XercesParserLiaison liaison;
    XercesDOMSupport support;
    XercesDocs(bool buildWrapper, bool threadSafe = true, bool buildMaps = true) : support(liaison) {
        liaison.setBuildWrapperNodes(buildWrapper);
        liaison.setThreadSafe(threadSafe);
        liaison.setBuildMaps(buildMaps);
    }
    XalanDocument* parse(const std::string& xml) {
        xercesc::MemBufInputSource src((const XMLByte*)xml.data(), xml.size(), "mem");
        return liaison.parseXMLStream(src);
    }
};

}  // namespace xv
