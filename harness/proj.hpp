// Projection of XPath values to the tagged records of XPathSem.tla.
#pragma once
#include "common.hpp"
#include <cmath>
#include <xalanc/XPath/NodeRefListBase.hpp>
#include <xalanc/XPath/XObject.hpp>
#include <xalanc/XPath/XPathExecutionContext.hpp>

namespace xv {

inline std::string numJson(double x) {
    char buf[160];
    if (std::isnan(x)) return "{\"k\":\"nan\",\"neg\":false,\"m\":0}";
    if (std::isinf(x)) { snprintf(buf, sizeof buf, "{\"k\":\"inf\",\"neg\":%s,\"m\":0}", x < 0 ? "true" : "false"); return buf; }
    double a = std::fabs(x) * 8.0;
    if (a < 33554432.0 && a == std::floor(a)) {
        snprintf(buf, sizeof buf, "{\"k\":\"fin\",\"neg\":%s,\"m\":%ld}", std::signbit(x) ? "true" : "false", (long)a);
        return buf;
    }
    // outside the modelled domain: tagged so that it can never equal a modelled number
    snprintf(buf, sizeof buf, "{\"k\":\"oth\",\"neg\":%s,\"m\":0}", std::signbit(x) ? "true" : "false");
    return buf;
}

inline std::string nodesJson(const NodeRefListBase& l, const NodeIds& ids) {
    std::string o = "[";
    for (NodeRefListBase::size_type i = 0; i < l.getLength(); ++i) {
        if (i) o += ",";
        std::string r = ids.ref(l.item(i));           // "[d,i]"
        r.insert(r.size() - 1, ",0");
        o += r;
    }
    return o + "]";
}


// node references with on-demand registration of documents not seen before (document(), result tree fragments)
inline std::string nodeRefAuto(const XalanNode* n, NodeIds& ids) {
    if (n == nullptr) return "[0,0,0]";
    if (ids.id.find(n) == ids.id.end()) {
        const XalanNode* top = n;
        if (top->getNodeType() == XalanNode::ATTRIBUTE_NODE) { const XalanNode* o = DOMServices::getParentOfNode(*top); if (o) top = o; }
        while (const XalanNode* p = DOMServices::getParentOfNode(*top)) top = p;
        if (ids.id.find(top) == ids.id.end()) ids.addDocument(const_cast<XalanNode*>(top));
    }
    std::string r = ids.ref(n);
    r.insert(r.size() - 1, ",0");
    return r;
}
inline std::string nodesJsonAuto(const NodeRefListBase& l, NodeIds& ids) {
    std::string o = "[";
    for (NodeRefListBase::size_type i = 0; i < l.getLength(); ++i) { if (i) o += ","; o += nodeRefAuto(l.item(i), ids); }
    return o + "]";
}
inline std::string valueJson(const XObjectPtr& r, XPathExecutionContext& ctx, NodeIds& ids) {
    if (r.null()) return "{\"t\":\"null\",\"v\":0}";
    switch (r->getType()) {
    case XObject::eTypeBoolean: return std::string("{\"t\":\"bool\",\"v\":") + (r->boolean(ctx) ? "true" : "false") + "}";
    case XObject::eTypeNumber: return "{\"t\":\"num\",\"v\":" + numJson(r->num(ctx)) + "}";
    case XObject::eTypeString: return "{\"t\":\"str\",\"v\":" + cpArray(r->str(ctx)) + "}";
    case XObject::eTypeNodeSet: return "{\"t\":\"ns\",\"v\":" + nodesJsonAuto(r->nodeset(), ids) + "}";
    case XObject::eTypeResultTreeFrag: return "{\"t\":\"rtf\",\"v\":" + cpArray(r->str(ctx)) + "}";
    default: return "{\"t\":\"other\",\"v\":" + std::to_string((int)r->getType()) + "}";
    }
}

}  // namespace xv
