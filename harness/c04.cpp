// C04: feed result-tree event scripts into the XML serializers of the library and record the bytes.
//   which = "new"    : the product of XalanXMLSerializerFactory::create (what StylesheetRoot::setupFormatterListener /
//                      StylesheetExecutionContextDefault::createFormatterToXML give XalanTransformer)
//   which = "legacy" : FormatterToXML (the older transcoder-based serializer, still a public class and the base of FormatterToHTML)
//   which = "e2e"    : XalanTransformer::transform(source, stylesheet with xsl:output, std::ostringstream)
// Both direct variants write through a recording xalanc::Writer (every flush of the serializer's staging buffer is one
// write() call: its length is logged, and whether it starts in the middle of a UTF-8 sequence / surrogate pair) into a
// recording XalanOutputStream (the transcoding stage; collects the bytes the result target would receive).
// usage: xv_c04 cases.ndjson > results.ndjson
//   case  : {"id":N,"enc":"UTF-8","ver":"1.0","decl":true,"which":["new","legacy","e2e"],"script":[node...],"xsl":"..","xml":".."}
//   node  : {"k":"S","n":str,"a":[[str,str]...]} {"k":"T","v":str} {"k":"D","v":str} (text of a cdata-section element)
//           {"k":"C","v":str} {"k":"P","n":str,"v":str} {"k":"E","n":str};   str = [[codepoint,count]...] (run-length coded)
//   result: {"e":"Serialize","id":N,"which":w,"status":"ok"|"error","msg":"..","hex":"..","chunks":[len...],"splits":n}
#include "common.hpp"
#include <sstream>
#include <csignal>
#include <sys/time.h>
#include <unistd.h>
#include <xercesc/sax/SAXException.hpp>
#include <xalanc/PlatformSupport/AttributeListImpl.hpp>
#include <xalanc/PlatformSupport/FormatterListener.hpp>
#include <xalanc/PlatformSupport/Writer.hpp>
#include <xalanc/PlatformSupport/XalanOutputStream.hpp>
#include <xalanc/XMLSupport/FormatterToXML.hpp>
#include <xalanc/XMLSupport/XalanXMLSerializerFactory.hpp>
#include <xalanc/XSLT/XSLTInputSource.hpp>
#include <xalanc/XSLT/XSLTResultTarget.hpp>
#include <xalanc/XalanTransformer/XalanTransformer.hpp>

using namespace xv;

// ---- the byte sink: what a XalanStdOutputStream / XalanFileOutputStream would be -------------------
struct RecordingStream : public XalanOutputStream {
    std::string bytes;
    RecordingStream(MemoryManager& m) : XalanOutputStream(m) {}
protected:
    void writeData(const char* b, size_type n) override { bytes.append(b, n); }
    void doFlush() override {}
};

// ---- the Writer the serializers flush into ---------------------------------------------------------
struct RecordingWriter : public Writer {
    RecordingStream& stream;
    std::vector<size_t> chunks;
    size_t splits = 0;
    bool prevHigh = false;
    RecordingWriter(RecordingStream& s) : stream(s) {}
    void close() override {}
    void flush() override { stream.flush(); }
    XalanOutputStream* getStream() override { return &stream; }
    const XalanOutputStream* getStream() const override { return &stream; }
    void write(const char* s, size_t off = 0, size_t len = npos) override {
        if (len == npos) len = strlen(s + off);
        chunks.push_back(len);
        if (len > 0 && (static_cast<unsigned char>(s[off]) & 0xC0) == 0x80) ++splits;   // starts with a UTF-8 continuation byte
        stream.write(s + off, XalanOutputStream::size_type(len));
    }
    void write(const XalanDOMChar* s, XalanDOMString::size_type off = 0, XalanDOMString::size_type len = XalanDOMString::npos) override {
        if (len == XalanDOMString::npos) len = length(s + off);
        chunks.push_back(len);
        if (len > 0) {
            const XalanDOMChar f = s[off], l = s[off + len - 1];
            if (prevHigh && f >= 0xDC00 && f <= 0xDFFF) ++splits;                       // a surrogate pair straddles two flushes
            prevHigh = l >= 0xD800 && l <= 0xDBFF;
        }
        stream.write(s + off, len);
    }
    void write(XalanDOMChar c) override { write(&c, 0, 1); }
    void write(const XalanDOMString& s, XalanDOMString::size_type off = 0, XalanDOMString::size_type len = XalanDOMString::npos) override {
        write(s.c_str(), off, len == XalanDOMString::npos ? s.length() - off : len);
    }
};

// ---- strings ---------------------------------------------------------------------------------------
// exact-size heap copy (no terminator) so that a read past the end is visible to ASan
struct Exact {
    XalanDOMChar* p; size_t n;
    Exact(const std::vector<XalanDOMChar>& v) : p(new XalanDOMChar[v.size() ? v.size() : 1]), n(v.size()) { if (n) memcpy(p, v.data(), n * sizeof(XalanDOMChar)); }
    ~Exact() { delete[] p; }
};

static std::vector<XalanDOMChar> units(const J& rle, bool terminate) {
    std::vector<XalanDOMChar> v;
    for (auto& r : rle.a) {
        const unsigned cp = (unsigned)r.a[0].n; const long long cnt = r.a[1].n;
        for (long long i = 0; i < cnt; ++i) {
            if (cp >= 0x10000) { v.push_back(XalanDOMChar(0xD800 + ((cp - 0x10000) >> 10))); v.push_back(XalanDOMChar(0xDC00 + ((cp - 0x10000) & 0x3FF))); }
            else v.push_back(XalanDOMChar(cp));
        }
    }
    if (terminate) v.push_back(0);
    return v;
}

static std::string hexOf(const std::string& b) {
    static const char* d = "0123456789abcdef";
    std::string o; o.reserve(b.size() * 2);
    for (unsigned char c : b) { o += d[c >> 4]; o += d[c & 15]; }
    return o;
}

static void feed(FormatterListener& fl, const J& script, MemoryManager& mm) {
    fl.startDocument();
    for (auto& n : script.a) {
        const std::string k = n.str("k");
        if (k == "S") {
            AttributeListImpl attrs(mm);
            static const XalanDOMChar cdataType[] = { 'C', 'D', 'A', 'T', 'A', 0 };
            std::vector<std::vector<XalanDOMChar>> keep;
            for (auto& a : n.at("a").a) {
                keep.push_back(units(a.a[0], true)); keep.push_back(units(a.a[1], true));
                attrs.addAttribute(keep[keep.size() - 2].data(), cdataType, keep[keep.size() - 1].data());
            }
            const auto name = units(n.at("n"), true);
            fl.startElement(name.data(), attrs);
        } else if (k == "E") {
            const auto name = units(n.at("n"), true);
            fl.endElement(name.data());
        } else if (k == "T" || k == "D") {
            const Exact e(units(n.at("v"), false));
            if (k == "T") fl.characters(e.p, FormatterListener::size_type(e.n)); else fl.cdata(e.p, FormatterListener::size_type(e.n));
        } else if (k == "C") {
            const auto v = units(n.at("v"), true);
            fl.comment(v.data());
        } else if (k == "P") {
            const auto t = units(n.at("n"), true), v = units(n.at("v"), true);
            fl.processingInstruction(t.data(), v.data());
        } else { fprintf(stderr, "unknown node kind %s\n", k.c_str()); exit(2); }
    }
    fl.endDocument();
}

static void emit(long long id, const char* which, bool ok, const std::string& msg, const std::string& bytes, const RecordingWriter* w) {
    std::string o = "{\"e\":\"Serialize\",\"id\":" + std::to_string(id) + ",\"which\":\"" + which + "\",\"status\":\"" + (ok ? "ok" : "error") +
                    "\",\"msg\":" + jstr(msg) + ",\"hex\":\"" + hexOf(bytes) + "\",\"chunks\":[";
    if (w) for (size_t i = 0; i < w->chunks.size(); ++i) { if (i) o += ","; o += std::to_string(w->chunks[i]); }
    o += "],\"splits\":" + std::to_string(w ? w->splits : 0) + "}\n";
    fputs(o.c_str(), stdout); fflush(stdout);
}

static void direct(const J& c, bool legacy) {
    MemoryManager& mm = XalanMemMgrs::getDefaultXercesMemMgr();
    const long long id = c.num("id");
    RecordingStream stream(mm);
    RecordingWriter writer(stream);
    const XalanDOMString enc(fromUtf8(c.str("enc"))), ver(fromUtf8(c.str("ver"))), empty;
    const bool decl = c.boolean("decl", true);
    bool ok = true; std::string msg;
    FormatterListener* fl = 0;
    try {
        // the arguments StylesheetRoot::setupFormatterListener passes: version, doIndent=false, indent, encoding, media type,
        // doctype-system, doctype-public, !omit-xml-declaration, standalone
        // "indent": true selects the indenting instantiations of the factory (one per encoding family x version); the cases that ask
        // for it have a single element with text / attribute content only, where indentation adds nothing
        const bool doIndent = c.boolean("indent", false);
        if (legacy) fl = FormatterToXML::create(mm, writer, ver, doIndent, doIndent ? 2 : 0, enc, empty, empty, empty, decl, empty);
        else fl = XalanXMLSerializerFactory::create(mm, writer, ver, doIndent, doIndent ? 2 : 0, enc, empty, empty, empty, decl, empty);
        feed(*fl, c.at("script"), mm);
    } catch (const xercesc::SAXException& e) { ok = false; msg = "SAXException: " + toUtf8(e.getMessage(), length(e.getMessage())); }
    catch (const XSLException& e) { ok = false; msg = "XSLException: " + excMessage(e); }
    catch (const xercesc::XMLException& e) { ok = false; msg = "XMLException: " + toUtf8(e.getMessage(), length(e.getMessage())); }
    catch (const std::exception& e) { ok = false; msg = std::string("std::exception: ") + e.what(); }
    catch (...) { ok = false; msg = "unknown exception"; }
    if (fl) { try { XalanDestroy(mm, *fl); } catch (...) {} }
    emit(id, legacy ? "legacy" : "new", ok, msg, stream.bytes, &writer);
}

static void endToEnd(const J& c, XalanTransformer& xt) {
    std::istringstream xml(c.str("xml")), xsl(c.str("xsl"));
    std::ostringstream out;
    XSLTInputSource src(xml), sty(xsl);
    XSLTResultTarget target(out);
    int rc = -1; std::string msg;
    try { rc = xt.transform(src, sty, target); if (rc != 0) msg = xt.getLastError(); }
    catch (...) { msg = "exception escaped XalanTransformer::transform"; }
    emit(c.num("id"), "e2e", rc == 0, msg, out.str(), 0);
}

// a case that does not finish within 2 s of CPU time is reported as a hang (exit code 3); the driver restarts after it
static void onHang(int) { static const char m[] = "HANG: case exceeded its CPU budget\n"; ssize_t r = write(2, m, sizeof m - 1); (void)r; _exit(3); }
static void budget(int seconds) {
    struct itimerval t; memset(&t, 0, sizeof t); t.it_value.tv_sec = seconds;
    setitimer(ITIMER_VIRTUAL, &t, 0);
}

int main(int argc, char** argv) {
    if (argc < 2) { fprintf(stderr, "usage: %s cases.ndjson\n", argv[0]); return 2; }
    signal(SIGVTALRM, onHang);
    Platform platform;
    XalanTransformer::initialize();
    {
        XalanTransformer xt;
        for (auto& line : readLines(argv[1])) {
            const J c = parseJson(line);
            for (auto& w : c.at("which").a) {
                budget(2);
                if (w.s == "new") direct(c, false);
                else if (w.s == "legacy") direct(c, true);
                else if (w.s == "e2e") endToEnd(c, xt);
            }
        }
    }
    budget(0);
    XalanTransformer::terminate();
    return 0;
}
