// C18: number <-> string conversions.  Every case is run on the REAL conversion code
//   DoubleSupport::toDouble, NumberToDOMString(double), DOMStringHelper::NumberToCharacters (via
//   XObject::string), DoubleSupport::round/floor/ceiling, and - through XPathEvaluator - the XPath
//   functions number(), string(), round(), floor(), ceiling() and numeric literals,
// and one ndjson event {"e":"Conv","dir":...} per case is written.  Expected values are NOT computed here.
//
// usage: xv_c18 cases.ndjson [noxpath] > trace.ndjson
// Every case runs in its own forked child; when the child dies (signal, sanitizer abort, time-out) the
// parent writes the event of that case with a "crash" field instead.
#include "common.hpp"
#include <cmath>
#include <cerrno>
#include <csignal>
#include <sys/resource.h>
#include <sys/wait.h>
#include <unistd.h>
#include <xercesc/sax/AttributeList.hpp>
#include <xercesc/sax/Locator.hpp>
#include <xalanc/PlatformSupport/DoubleSupport.hpp>
#include <xalanc/PlatformSupport/FormatterListener.hpp>
#include <xalanc/XPath/XObject.hpp>
#include <xalanc/XPath/XPathEvaluator.hpp>

using namespace xv;

// ------------------------------------------------------------------------------------- helpers
static std::string w4(double d) {          // IEEE-754 bits as four 16-bit words, most significant first
    uint64_t b; memcpy(&b, &d, 8);
    char buf[64];
    snprintf(buf, sizeof buf, "[%u,%u,%u,%u]", unsigned(b >> 48) & 0xFFFF, unsigned(b >> 32) & 0xFFFF, unsigned(b >> 16) & 0xFFFF, unsigned(b) & 0xFFFF);
    return buf;
}
static double fromHex(const std::string& h) {
    uint64_t b = strtoull(h.c_str(), nullptr, 16); double d; memcpy(&d, &b, 8); return d;
}
static XalanDOMString fromCps(const J& arr) {
    XalanDOMString r;
    for (auto& x : arr.a) {
        unsigned cp = (unsigned)x.n;
        if (cp >= 0x10000) { cp -= 0x10000; r.push_back(XalanDOMChar(0xD800 + (cp >> 10))); r.push_back(XalanDOMChar(0xDC00 + (cp & 0x3FF))); }
        else r.push_back(XalanDOMChar(cp));
    }
    return r;
}
static std::string cpsJson(const J& arr) {
    std::string o = "[";
    for (size_t i = 0; i < arr.a.size(); ++i) { if (i) o += ","; o += std::to_string(arr.a[i].n); }
    return o + "]";
}

// records what a number -> characters conversion hands to a FormatterListener
struct RecListener : public FormatterListener {
    XalanDOMString got;
    RecListener() : FormatterListener(OUTPUT_METHOD_TEXT) {}
    void charactersRaw(const XMLCh* const, const size_type) override {}
    void comment(const XMLCh* const) override {}
    void cdata(const XMLCh* const, const size_type) override {}
    void entityReference(const XMLCh* const) override {}
    void characters(const XMLCh* const chars, const size_type length) override { got.append(chars, length); }
    void endDocument() override {}
    void endElement(const XMLCh* const) override {}
    void ignorableWhitespace(const XMLCh* const, const size_type) override {}
    void processingInstruction(const XMLCh* const, const XMLCh* const) override {}
    void resetDocument() override {}
    void setDocumentLocator(const xercesc::Locator* const) override {}
    void startDocument() override {}
    void startElement(const XMLCh* const, xercesc::AttributeList&) override {}
};

struct Env {
    NativeDocs docs;
    XalanDocument* doc;
    bool xpath;
    MemoryManager& mm;
    XPathEvaluator ev;
    Env(bool xp) : doc(nullptr), xpath(xp), mm(XalanMemMgrs::getDefaultXercesMemMgr()) { doc = docs.parse("<a/>"); }

    // evaluates an XPath expression; false when the expression is rejected
    bool eval(const XalanDOMString& expr, XalanDOMString& str, double* num) {
        try {
            const XObjectPtr r = ev.evaluate(docs.support, doc, expr.c_str());
            if (r.null()) return false;
            if (num) *num = r->num();
            str = r->str();
            return true;
        } catch (const XSLException&) {
            return false;
        } catch (const xercesc::XMLException&) {
            return false;
        }
    }
};

static bool quoteFor(const XalanDOMString& s, XalanDOMChar& q) {
    bool a = false, d = false;
    for (XalanDOMString::size_type i = 0; i < s.length(); ++i) { if (s[i] == '\'') a = true; if (s[i] == '"') d = true; }
    if (!a) { q = '\''; return true; }
    if (!d) { q = '"'; return true; }
    return false;
}
static XalanDOMString lit(const char* pre, const XalanDOMString& s, XalanDOMChar q, const char* post) {
    XalanDOMString e(pre);
    e.push_back(q); e.append(s); e.push_back(q);
    e.append(post);
    return e;
}
// a guard only (decides whether the extra observation "as a literal in the expression" is made at all)
static bool looksLikeLiteral(const XalanDOMString& s) {
    bool digit = false; int dots = 0;
    for (XalanDOMString::size_type i = 0; i < s.length(); ++i) {
        if (s[i] >= '0' && s[i] <= '9') digit = true; else if (s[i] == '.') ++dots; else return false;
    }
    return digit && dots <= 1;
}
static std::string numToChars(double d) {
    RecListener l;
    XObject::string(d, l, &FormatterListener::characters);
    return cpArray(l.got);
}

// ------------------------------------------------------------------------------------- cases
static std::string runCase(const J& c, Env& env) {
    const std::string dir = c.str("dir");
    std::string o = "{\"e\":\"Conv\",\"dir\":" + jstr(dir);
    if (dir == "sn") {
        const XalanDOMString s = fromCps(c.at("in"));
        o += ",\"in\":" + cpsJson(c.at("in"));
        const double d = DoubleSupport::toDouble(s, env.mm);
        o += ",\"bits\":" + w4(d);
        XalanDOMString out;
        NumberToDOMString(d, out);
        o += ",\"out\":" + cpArray(out);
        o += ",\"bits2\":" + w4(DoubleSupport::toDouble(out, env.mm));
        o += ",\"outc\":" + numToChars(d);
        XalanDOMChar q;
        if (env.xpath && quoteFor(s, q)) {
            XalanDOMString r; double n = 0;
            if (env.eval(lit("number(", s, q, ")"), r, &n)) o += ",\"outx\":" + cpArray(r) + ",\"bitsx\":" + w4(n);
            if (env.eval(lit("string(number(", s, q, "))"), r, nullptr)) o += ",\"outs\":" + cpArray(r);
            if (looksLikeLiteral(s)) {
                XalanDOMString e("string("); e.append(s); e.append(")");
                if (env.eval(e, r, nullptr)) o += ",\"outl\":" + cpArray(r);
            }
        }
    } else if (dir == "ns") {
        const double d = fromHex(c.str("bits"));
        o += ",\"bits\":" + w4(d);
        XalanDOMString out;
        NumberToDOMString(d, out);
        o += ",\"out\":" + cpArray(out);
        o += ",\"bits2\":" + w4(DoubleSupport::toDouble(out, env.mm));
        o += ",\"outc\":" + numToChars(d);
    } else if (dir == "round" || dir == "floor" || dir == "ceiling") {
        double d; XalanDOMString argExpr;
        if (c.has("arg")) {
            const std::string a = c.str("arg");
            o += ",\"arg\":" + jstr(a);
            if (a == "pinf") { d = DoubleSupport::getPositiveInfinity(); argExpr = XalanDOMString("1 div 0"); }
            else if (a == "ninf") { d = DoubleSupport::getNegativeInfinity(); argExpr = XalanDOMString("-1 div 0"); }
            else if (a == "nzero") { d = -0.0; argExpr = XalanDOMString("-0"); }
            else { d = 0.0; argExpr = XalanDOMString("0"); }
        } else {
            const XalanDOMString s = fromCps(c.at("in"));
            o += ",\"in\":" + cpsJson(c.at("in"));
            d = DoubleSupport::toDouble(s, env.mm);
            XalanDOMChar q;
            if (quoteFor(s, q)) argExpr = lit("number(", s, q, ")");
        }
        o += ",\"bits\":" + w4(d);
        const double r = dir == "round" ? DoubleSupport::round(d) : dir == "floor" ? DoubleSupport::floor(d) : DoubleSupport::ceiling(d);
        o += ",\"rbits\":" + w4(r);
        XalanDOMString out;
        NumberToDOMString(r, out);
        o += ",\"out\":" + cpArray(out);
        if (env.xpath && !argExpr.empty()) {
            XalanDOMString call(dir.c_str()); call.append("("); call.append(argExpr); call.append(")");
            XalanDOMString res; double n = 0;
            if (env.eval(call, res, &n)) o += ",\"outx\":" + cpArray(res) + ",\"bitsx\":" + w4(n);
            XalanDOMString inv("string(1 div "); inv.append(call); inv.append(")");
            if (env.eval(inv, res, nullptr)) o += ",\"inv\":" + cpArray(res);
        }
    } else {
        fprintf(stderr, "unknown dir %s\n", dir.c_str()); _exit(97);
    }
    return o + "}\n";
}

// the essentials of the sanitizer report of a dead child (log files $C18_SANLOG/{asan,ubsan}.<pid>; pids are reused,
// so the report is read - and removed - as soon as the child is gone)
static std::string sanReport(pid_t pid) {
    const char* dir = getenv("C18_SANLOG");
    if (!dir) return "";
    std::string out;
    for (const char* kind : { "asan", "ubsan" }) {
        const std::string path = std::string(dir) + "/" + kind + "." + std::to_string((long)pid);
        {
            std::ifstream f(path);
            if (!f) continue;
            std::string line;
            while (std::getline(f, line) && out.size() < 1500) {
                if (line.find("ERROR:") != std::string::npos || line.find("SUMMARY:") != std::string::npos || line.find("runtime error:") != std::string::npos ||
                    line.find("NumberTo") != std::string::npos || line.find(" #1 ") != std::string::npos || line.find("WRITE of") != std::string::npos)
                    out += line.substr(0, 220) + " | ";
            }
        }
        unlink(path.c_str());
    }
    for (char& c : out) if ((unsigned char)c < 0x20 || (unsigned char)c > 0x7e) c = '?';
    return out;
}

// what the parent prints for a case whose child died
static std::string crashEvent(const J& c, const std::string& how, pid_t pid) {
    std::string o = "{\"e\":\"Conv\",\"dir\":" + jstr(c.str("dir"));
    if (c.has("in")) o += ",\"in\":" + cpsJson(c.at("in"));
    if (c.has("arg")) o += ",\"arg\":" + jstr(c.str("arg"));
    if (c.has("bits")) o += ",\"bits\":" + w4(fromHex(c.str("bits")));
    return o + ",\"crash\":" + jstr(how) + ",\"report\":" + jstr(sanReport(pid)) + "}\n";
}
static void writeAll(int fd, const std::string& s) {
    size_t off = 0;
    while (off < s.size()) {
        const ssize_t n = write(fd, s.data() + off, s.size() - off);
        if (n < 0 && errno == EINTR) continue;
        if (n <= 0) _exit(3);
        off += (size_t)n;
    }
}
static bool wellFormedLine(const std::string& l) {
    static const char pre[] = "{\"e\":\"Conv\",\"dir\":\"";
    if (l.size() < sizeof pre || l.compare(0, sizeof pre - 1, pre) != 0 || l.back() != '}') return false;
    for (unsigned char c : l) if (c < 0x20 || c > 0x7e) return false;
    return true;
}

int main(int argc, char** argv) {
    if (argc < 2) { fprintf(stderr, "usage: %s cases.ndjson [noxpath]\n", argv[0]); return 2; }
    const bool xpath = !(argc > 2 && std::string(argv[2]) == "noxpath");
    struct rlimit rl = { 0, 0 };
    setrlimit(RLIMIT_CORE, &rl);
    std::vector<J> cases;
    for (auto& line : readLines(argv[1])) cases.push_back(parseJson(line));
    Platform platform;
    XPathEvaluator::initialize();
    int rc = 0;
    // Every case runs in its own forked child (the parent has initialised the library and the evaluation
    // environment once; a child inherits them).  A conversion that overruns a stack buffer may or may not die, and
    // may corrupt whatever runs after it, so nothing that runs after a case shares its process: the child sends its
    // one event line through a pipe; a child that does not exit normally with exactly one well-formed line is a
    // "crash" of that case.
    Env env(xpath);
    std::string outbuf;
    for (size_t k = 0; k < cases.size(); ++k) {
        int fds[2];
        if (pipe(fds) != 0) { perror("pipe"); return 2; }
        pid_t pid = fork();
        for (int tries = 0; pid < 0 && errno == EAGAIN && tries < 100; ++tries) { usleep(100000); pid = fork(); }   // a busy machine
        if (pid < 0) { perror("fork"); return 2; }
        if (pid == 0) {
            close(fds[0]);
            alarm(60);
            writeAll(fds[1], runCase(cases[k], env));
            _exit(0);
        }
        close(fds[1]);
        std::string data;
        char buf[65536];
        for (;;) {
            const ssize_t n = read(fds[0], buf, sizeof buf);
            if (n > 0) data.append(buf, (size_t)n); else if (n == 0 || errno != EINTR) break;
        }
        close(fds[0]);
        int st = 0;
        if (waitpid(pid, &st, 0) < 0) { perror("waitpid"); return 2; }
        // (no exit status of a child is trusted to mean anything but "this case did not finish": a child whose stack
        // was overrun can end up anywhere, including in an exit path)
        const bool normal = WIFEXITED(st) && WEXITSTATUS(st) == 0;
        const std::string want = "{\"e\":\"Conv\",\"dir\":" + jstr(cases[k].str("dir"));
        const bool oneLine = !data.empty() && data.back() == '\n' && data.find('\n') == data.size() - 1;
        if (normal && oneLine && wellFormedLine(data.substr(0, data.size() - 1)) && data.compare(0, want.size(), want) == 0) {
            outbuf += data;
        } else {
            std::string how;
            if (WIFSIGNALED(st)) {
                const int sg = WTERMSIG(st);
                how = sg == SIGSEGV ? "SIGSEGV" : sg == SIGABRT ? "SIGABRT" : sg == SIGALRM ? "TIMEOUT" : sg == SIGBUS ? "SIGBUS" : sg == SIGFPE ? "SIGFPE" : "signal:" + std::to_string(sg);
            } else if (!normal) how = "exit:" + std::to_string(WEXITSTATUS(st));
            else how = "garbled-output";
            outbuf += crashEvent(cases[k], how, pid);
        }
        if (outbuf.size() > (1u << 20)) { writeAll(1, outbuf); outbuf.clear(); }
    }
    writeAll(1, outbuf);
    XPathEvaluator::terminate();
    return rc;
}
