// XPath-level conformance harness: evaluates expressions / match patterns on real documents through
// the low-level XPath API (XPathProcessorImpl + XPath::execute / getMatchScore) and records the
// projected result of every case.
// usage: xv_xp cases.ndjson > results.ndjson
//   line 1: {"docs":[xml...], "kind":"native"|"xerces-built"|"xerces-lazy"}
//   then   : {"id":N,"mode":"eval"|"bool"|"num"|"str"|"chars"|"nodelist"|"match","doc":d,"ctx":i,"pos":p,"size":s,
//             "text":"...","vars":{name:{"t":..,"v":..}},"ns":{prefix:uri}}
#include "common.hpp"
#include <sys/time.h>
#include <signal.h>
#include <unistd.h>
#include <string.h>
#include "proj.hpp"
#include <cmath>
#include <xalanc/PlatformSupport/DoubleSupport.hpp>
#include <xalanc/PlatformSupport/FormatterListener.hpp>
#include <xalanc/XPath/MutableNodeRefList.hpp>
#include <xalanc/XPath/XObject.hpp>
#include <xalanc/XPath/XObjectFactoryDefault.hpp>
#include <xalanc/XPath/XPath.hpp>
#include <xalanc/XPath/XPathConstructionContextDefault.hpp>
#include <xalanc/XPath/XPathEnvSupportDefault.hpp>
#include <xalanc/XPath/XPathEvaluator.hpp>
#include <xalanc/XPath/XPathExecutionContextDefault.hpp>
#include <xalanc/XPath/XPathProcessorImpl.hpp>
#include <xalanc/XPath/XalanQName.hpp>
#include <xalanc/XalanTransformer/XalanTransformer.hpp>

using namespace xv;

struct MapResolver : public PrefixResolver {
    std::map<std::string, XalanDOMString> m;
    XalanDOMString empty;
    const XalanDOMString* getNamespaceForPrefix(const XalanDOMString& p) const override {
        auto it = m.find(toUtf8(p));
        return it == m.end() ? nullptr : &it->second;
    }
    const XalanDOMString& getURI() const override { return empty; }
};

struct VarCtx : public XPathExecutionContextDefault {
    std::map<std::string, XObjectPtr> vars;
    VarCtx(XPathEnvSupport& e, DOMSupport& d, XObjectFactory& f) : XPathExecutionContextDefault(e, d, f) {}
    const XObjectPtr getVariable(const XalanQName& name, const Locator* locator = 0) override {
        auto it = vars.find(toUtf8(name.getLocalPart()));
        if (it != vars.end()) return it->second;
        return XPathExecutionContextDefault::getVariable(name, locator);
    }
};

struct CharsCollector : public FormatterListener {
    XalanDOMString text;
    CharsCollector() : FormatterListener(OUTPUT_METHOD_NONE) {}
    void setDocumentLocator(const Locator* const) override {}
    void startDocument() override {}
    void endDocument() override {}
    void startElement(const XMLCh* const, AttributeListType&) override {}
    void endElement(const XMLCh* const) override {}
    void characters(const XMLCh* const c, const size_type n) override { text.append(c, n); }
    void charactersRaw(const XMLCh* const c, const size_type n) override { text.append(c, n); }
    void entityReference(const XMLCh* const) override {}
    void ignorableWhitespace(const XMLCh* const, const size_type) override {}
    void processingInstruction(const XMLCh* const, const XMLCh* const) override {}
    void resetDocument() override {}
    void comment(const XMLCh* const) override {}
    void cdata(const XMLCh* const c, const size_type n) override { text.append(c, n); }
};

// a case that does not finish within its CPU budget is a hang: say so on stderr and leave (exit code 3); the driver reports the
// first case without a result as a violation ("never returned")
static void onHang(int) { static const char m[] = "HANG: evaluation exceeded its CPU budget (20 s)\n"; ssize_t r = write(2, m, sizeof m - 1); (void)r; _exit(3); }
static void budget(int seconds) {
    struct itimerval t; memset(&t, 0, sizeof t); t.it_value.tv_sec = seconds;
    setitimer(ITIMER_VIRTUAL, &t, 0);
}

int main(int argc, char** argv) {
    if (argc < 2) { fprintf(stderr, "usage: %s cases.ndjson\n", argv[0]); return 2; }
    signal(SIGVTALRM, onHang);
    setvbuf(stdout, nullptr, _IOLBF, 0);  // one result per line reaches the file even if a later case kills the process
    Platform platform;
    XalanTransformer::initialize();      // installs the XSLT function table as well
    {
        auto lines = readLines(argv[1]);
        J head = parseJson(lines.at(0));
        const std::string kind = head.str("kind", "native");
        std::unique_ptr<NativeDocs> nat;
        std::unique_ptr<XercesDocs> xer;
        DOMSupport* support;
        NodeIds ids;
        if (kind == "native") { nat.reset(new NativeDocs); support = &nat->support; }
        else { xer.reset(new XercesDocs(kind == "xerces-built")); support = &xer->support; }
        for (auto& x : head.at("docs").a) ids.addDocument(nat ? nat->parse(x.s) : xer->parse(x.s));

        MemoryManager& mm = XalanMemMgrs::getDefaultXercesMemMgr();
        // ONE object factory for all cases of the run, as in a transformation: value objects released by one evaluation are recycled
        // by the next (a recycled object must not remember anything of its previous life)
        // ... and ONE execution context, as in a transformation, where it lives until the next reset: the value objects a case binds to its
        // variables are released when the case ends and recycled by the next one (a reset would empty the factory's caches).  After an
        // evaluation that failed the context is replaced, as a transformation ends there.
        XObjectFactoryDefault factory;
        std::unique_ptr<XPathEnvSupportDefault> envp;
        std::unique_ptr<VarCtx> ctxp;
        for (size_t li = 1; li < lines.size(); ++li) {
            J c = parseJson(lines[li]);
            budget(20);
            const long long id = c.num("id");
            const std::string mode = c.str("mode", "eval");
            std::string out = "{\"e\":\"Res\",\"id\":" + std::to_string(id);
            if (!ctxp) { envp.reset(new XPathEnvSupportDefault); ctxp.reset(new VarCtx(*envp, *support, factory)); }
            VarCtx& ctx = *ctxp;
            bool failed = false;
            try {
                XPathConstructionContextDefault cctx;
                MapResolver res;
                if (const J* ns = c.get("ns")) for (auto& kv : ns->o) res.m[kv.first] = fromUtf8(kv.second.s);
                XalanNode* node = ids.node((int)c.num("doc"), (int)c.num("ctx"));
                if (const J* cur = c.get("cur")) ctx.pushCurrentNode(ids.node((int)cur->a[0].n, (int)cur->a[1].n));
                else ctx.pushCurrentNode(node);
                if (const J* vars = c.get("vars")) for (auto& kv : vars->o) {
                    const J& v = kv.second; const std::string t = v.str("t");
                    if (t == "num") {
                        const J& n = v.at("v"); const std::string k = n.str("k"); double x;
                        if (k == "nan") x = DoubleSupport::getNaN();
                        else if (k == "inf") x = n.boolean("neg") ? DoubleSupport::getNegativeInfinity() : DoubleSupport::getPositiveInfinity();
                        else { x = double(n.num("m")) / 8.0; if (n.boolean("neg")) x = -x; }
                        ctx.vars[kv.first] = factory.createNumber(x);
                    } else if (t == "str") {
                        XalanDOMString s; for (auto& cp : v.at("v").a) { if (cp.n >= 0x10000) { unsigned u = (unsigned)cp.n - 0x10000; s.push_back(XalanDOMChar(0xD800 + (u >> 10))); s.push_back(XalanDOMChar(0xDC00 + (u & 0x3FF))); } else s.push_back(XalanDOMChar(cp.n)); }
                        ctx.vars[kv.first] = factory.createString(s);
                    } else if (t == "bool") ctx.vars[kv.first] = factory.createBoolean(v.boolean("v"));
                    else if (t == "ns") {
                        XPathExecutionContext::BorrowReturnMutableNodeRefList l(ctx);
                        for (auto& n : v.at("v").a) l->addNode(ids.node((int)n.a[0].n, (int)n.a[1].n));
                        l->setDocumentOrder();
                        ctx.vars[kv.first] = factory.createNodeSet(l);
                    }
                }
                XPath xpath(mm);
                XPathProcessorImpl proc(mm);
                const XalanDOMString text = fromUtf8(c.str("text"));
                if (mode == "match") {
                    proc.initMatchPattern(xpath, cctx, text, res);
                    // every node of the context document: which ones match?
                    const int d = (int)c.num("doc");
                    out += ",\"matched\":[";
                    bool first = true;
                    for (size_t i = 1; i < ids.nodes[d - 1].size(); ++i) {
                        XalanNode* n = ids.nodes[d - 1][i];
                        XPathExecutionContext::CurrentNodePushAndPop cn(ctx, n);
                        if (xpath.getMatchScore(n, res, ctx) != XPath::eMatchScoreNone) { if (!first) out += ","; first = false; out += "[" + std::to_string(d) + "," + std::to_string(i) + ",0]"; }
                    }
                    out += "]";
                    // what the stylesheet files the pattern under (XPath::getTargetData): per alternative the key string,
                    // the node kind it is filed for and the default priority in eighths
                    XPath::TargetDataVectorType td(mm);
                    xpath.getTargetData(td);
                    out += ",\"targets\":[";
                    for (XPath::TargetDataVectorType::size_type k = 0; k < td.size(); ++k) {
                        if (k) out += ",";
                        const char* ty = td[k].getTargetType() == XPath::TargetData::eAttribute ? "attr" : td[k].getTargetType() == XPath::TargetData::eElement ? "elem" :
                                         td[k].getTargetType() == XPath::TargetData::eAny ? "any" : "other";
                        out += "{\"s\":" + cpArray(XalanDOMString(td[k].getString(), mm)) + ",\"t\":\"" + ty + "\",\"p8\":" +
                               std::to_string((int)(XPath::getMatchScoreValue(td[k].getDefaultPriority()) * 8.0)) + "}";
                    }
                    out += "]";
                } else {
                    proc.initXPath(xpath, cctx, text, res);
                    // context node list of the requested size with the context node at the requested position
                    MutableNodeRefList cl(mm);
                    const int pos = (int)c.num("pos", 1), size = (int)c.num("size", 1), d = (int)c.num("doc");
                    {
                        size_t filler = 1;
                        for (int k = 1; k <= size; ++k) {
                            if (k == pos) { cl.addNode(node); continue; }
                            while (ids.nodes[d - 1][filler] == node) filler = filler % (ids.nodes[d - 1].size() - 1) + 1;
                            cl.addNode(ids.nodes[d - 1][filler]);        // fillers may repeat; only position/size are observable
                            filler = filler % (ids.nodes[d - 1].size() - 1) + 1;
                        }
                    }
                    if (mode == "eval") {
                        const XObjectPtr r(xpath.execute(node, res, cl, ctx));
                        switch (r->getType()) {
                        case XObject::eTypeBoolean: out += std::string(",\"res\":{\"t\":\"bool\",\"v\":") + (r->boolean(ctx) ? "true" : "false") + "}"; break;
                        case XObject::eTypeNumber: out += ",\"res\":{\"t\":\"num\",\"v\":" + numJson(r->num(ctx)) + "}"; break;
                        case XObject::eTypeString: out += ",\"res\":{\"t\":\"str\",\"v\":" + cpArray(r->str(ctx)) + "}"; break;
                        case XObject::eTypeNodeSet: out += ",\"res\":{\"t\":\"ns\",\"v\":" + nodesJson(r->nodeset(), ids) + "}"; break;
                        case XObject::eTypeResultTreeFrag: out += ",\"res\":{\"t\":\"rtf\",\"v\":" + cpArray(r->str(ctx)) + "}"; break;
                        default: out += ",\"res\":{\"t\":\"other\",\"v\":" + std::to_string((int)r->getType()) + "}"; break;
                        }
                    } else if (mode == "bool") { bool b = false; xpath.execute(node, res, cl, ctx, b); out += std::string(",\"res\":{\"t\":\"bool\",\"v\":") + (b ? "true" : "false") + "}"; }
                    else if (mode == "num") { double x = 0; xpath.execute(node, res, cl, ctx, x); out += ",\"res\":{\"t\":\"num\",\"v\":" + numJson(x) + "}"; }
                    else if (mode == "str") { XalanDOMString s; s.push_back('P'); s.push_back('R'); s.push_back('E');   /* the result must be APPENDED */ xpath.execute(node, res, cl, ctx, s); out += ",\"res\":{\"t\":\"str\",\"v\":" + cpArray(s) + "}"; }
                    else if (mode == "chars") { CharsCollector cc; xpath.execute(node, res, cl, ctx, cc, &FormatterListener::characters); out += ",\"res\":{\"t\":\"str\",\"v\":" + cpArray(cc.text) + "}"; }
                    else if (mode == "nodelist") {
                        MutableNodeRefList l(mm);
                        const XObjectPtr r(xpath.execute(node, res, cl, ctx, l));
                        if (r.null()) out += ",\"res\":{\"t\":\"ns\",\"v\":" + nodesJson(l, ids) + "}";
                        else out += ",\"res\":{\"t\":\"ns\",\"v\":" + nodesJson(r->nodeset(), ids) + "}";
                    }
                    else { fprintf(stderr, "unknown mode %s\n", mode.c_str()); return 2; }
                }
            } catch (const XSLException& e) {
                out += ",\"error\":" + jstr(excMessage(e)); failed = true;
            } catch (const std::exception& e) {
                out += ",\"error\":" + jstr(std::string("std::exception ") + e.what()); failed = true;
            } catch (...) {
                out += ",\"error\":\"unknown exception\""; failed = true;
            }
            ctx.vars.clear();
            if (failed) { ctxp.reset(); envp.reset(); }
            else ctx.popCurrentNode();
            out += "}\n";
            fputs(out.c_str(), stdout);
        }
    }
    XalanTransformer::terminate();
    return 0;
}
