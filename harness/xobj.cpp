// C11, object level: replays create / ask / return / reset histories (exported from MC_ObjectFactory, or random) on a real
// XObjectFactoryDefault and records what the objects answer.  Tokens as in spec/system/ObjectTokens.tla.
#include "common.hpp"
#include "proj.hpp"
#include <xalanc/XPath/XObjectFactoryDefault.hpp>
#include <xalanc/XPath/XPathEnvSupportDefault.hpp>
#include <xalanc/XPath/XPathExecutionContextDefault.hpp>
#include <xalanc/XalanSourceTree/XalanSourceTreeDOMSupport.hpp>
#include <xalanc/XalanSourceTree/XalanSourceTreeParserLiaison.hpp>
#include <xalanc/XalanSourceTree/XalanSourceTreeInit.hpp>
#include <xalanc/XalanTransformer/XalanTransformer.hpp>
#include <xercesc/framework/MemBufInputSource.hpp>
using namespace xv;

static double numOf(const std::string& t) {
    if (t == "0") return 0.0; if (t == "Z") return -0.0; if (t == "1h") return 1.5; if (t == "B") return 123456789.0; if (t == "2") return 2.0;
    if (t == "NaN") return DoubleSupport::getNaN();
    fprintf(stderr, "unknown number token %s\n", t.c_str()); exit(2);
}
static std::string tokOfNum(double x) {
    if (DoubleSupport::isNaN(x)) return "NaN";
    if (x == 0.0) return std::signbit(x) ? "Z" : "0";
    if (x == 1.5) return "1h"; if (x == 123456789.0) return "B"; if (x == 2.0) return "2";
    char b[64]; snprintf(b, sizeof b, "?%.17g", x); return b;
}
static std::string strOf(const std::string& t) { return t == "B" ? "123456789" : t; }
static std::string tokOfStr(const std::string& s) { return s == "123456789" ? "B" : s; }

int main(int argc, char** argv) {
    if (argc < 2) { fprintf(stderr, "usage: %s cases.ndjson\n", argv[0]); return 2; }
    Platform platform;
    XalanTransformer::initialize();
    {
        // elements whose string-values are the string tokens: <r><e/><e>2</e><e>x</e><e>0</e><e>123456789</e><e>NaN</e><e>1.5</e></r>
        const char* xml = "<r><e></e><e>2</e><e>x</e><e>0</e><e>123456789</e><e>NaN</e><e>1.5</e></r>";
        XalanSourceTreeDOMSupport support;
        XalanSourceTreeParserLiaison liaison(support);
        support.setParserLiaison(&liaison);
        xercesc::MemBufInputSource in((const XMLByte*)xml, strlen(xml), "doc");
        XalanDocument* doc = liaison.parseXMLStream(in);
        std::map<std::string, XalanNode*> nodeOf;
        for (XalanNode* c = doc->getDocumentElement()->getFirstChild(); c; c = c->getNextSibling()) {
            XalanDOMString s; DOMServices::getNodeData(*c, s);
            nodeOf[tokOfStr(toUtf8(s))] = c;
        }
        auto lines = readLines(argv[1]);
        for (auto& line : lines) {
            J c = parseJson(line);
            printf("{\"e\":\"Reset\",\"case\":%lld}\n", c.num("id"));
            XPathEnvSupportDefault env;
            XObjectFactoryDefault factory;
            XPathExecutionContextDefault ctx(env, support, factory);
            std::map<long long, XObjectPtr> held;          // model id -> object
            std::map<const XObject*, long long> ident;     // object address -> stable id of the real object
            long long nextIdent = 1;
            for (auto& op : c.at("ops").a) {
                const std::string o = op.str("op");
                if (o == "create") {
                    const std::string kind = op.str("kind");
                    XObjectPtr p;
                    std::string val;
                    if (kind == "num") { p = factory.createNumber(numOf(op.str("val"))); val = jstr(op.str("val")); }
                    else if (kind == "str") { p = factory.createString(fromUtf8(strOf(op.str("val")))); val = jstr(op.str("val")); }
                    else {
                        const J& v = op.at("val");
                        XPathExecutionContext::BorrowReturnMutableNodeRefList l(ctx);
                        const long long n = v.num("n");
                        if (n >= 1) l->addNode(nodeOf.at(v.str("first")));
                        if (n >= 2) l->addNode(nodeOf.at("x"));               // a second node, later in the document
                        l->setDocumentOrder();
                        p = factory.createNodeSet(l);
                        val = "{\"first\":" + jstr(v.str("first")) + ",\"n\":" + std::to_string(n) + "}";
                    }
                    held[op.num("id")] = p;
                    if (!ident.count(p.get())) ident[p.get()] = nextIdent++;
                    printf("{\"e\":\"create\",\"id\":%lld,\"kind\":%s,\"val\":%s,\"real\":%lld}\n", op.num("id"), jstr(kind).c_str(), val.c_str(), ident[p.get()]);
                } else if (o == "ask") {
                    const XObjectPtr& p = held.at(op.num("id"));
                    const std::string how = op.str("how");
                    std::string ans;
                    if (how == "str") ans = jstr(tokOfStr(toUtf8(p->str(ctx))));
                    else if (how == "num") ans = jstr(tokOfNum(p->num(ctx)));
                    else ans = p->boolean(ctx) ? "true" : "false";
                    printf("{\"e\":\"ask\",\"id\":%lld,\"how\":%s,\"ans\":%s}\n", op.num("id"), jstr(how).c_str(), ans.c_str());
                } else if (o == "return") {
                    held.erase(op.num("id"));
                    printf("{\"e\":\"return\",\"id\":%lld}\n", op.num("id"));
                } else if (o == "reset") {
                    held.clear(); factory.reset(); ident.clear();
                    printf("{\"e\":\"reset\"}\n");
                } else { fprintf(stderr, "unknown op %s\n", o.c_str()); return 2; }
            }
            held.clear();
            fflush(stdout);
        }
    }
    XalanTransformer::terminate();
    return 0;
}
