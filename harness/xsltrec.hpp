// Result-tree recorder (FormatterListener) and trace listener shared by the XSLT-level harnesses.
#pragma once
#include "common.hpp"
#include "proj.hpp"
#include <sstream>
#include <xalanc/PlatformSupport/FormatterListener.hpp>
#include <xalanc/PlatformSupport/AttributeListImpl.hpp>
#include <xalanc/XSLT/ElemTemplateElement.hpp>
#include <xalanc/XSLT/ElemTemplate.hpp>
#include <xalanc/XSLT/GenerateEvent.hpp>
#include <xalanc/XSLT/SelectionEvent.hpp>
#include <xalanc/XSLT/StylesheetExecutionContext.hpp>
#include <xalanc/XSLT/StylesheetConstructionContext.hpp>
#include <xalanc/XSLT/TraceListener.hpp>
#include <xalanc/XSLT/TracerEvent.hpp>
#include <xalanc/XSLT/XSLTInputSource.hpp>
#include <xalanc/XSLT/XSLTResultTarget.hpp>
#include <xalanc/XalanTransformer/XalanCompiledStylesheet.hpp>
#include <xalanc/XalanTransformer/XalanParsedSource.hpp>
#include <xalanc/XalanTransformer/XalanTransformer.hpp>
#include <xercesc/sax/AttributeList.hpp>


using namespace xv;

// ---- result tree recorder ------------------------------------------------------------------------
struct Recorder : public FormatterListener {
    struct N { std::string kind, name; std::vector<std::pair<std::string, std::string>> attrs; std::string text; std::vector<N> kids; };
    N root; std::vector<N*> stack; bool sawEndDoc = false; int startDocs = 0;
    Recorder() : FormatterListener(OUTPUT_METHOD_NONE) { root.kind = "root"; stack.push_back(&root); }
    void addText(const std::string& kind, const XMLCh* c, size_type n) {
        N& p = *stack.back();
        if (!p.kids.empty() && p.kids.back().kind == kind) { p.kids.back().text += toUtf8(c, n); return; }
        N t; t.kind = kind; t.text = toUtf8(c, n); p.kids.push_back(t);
    }
    void setDocumentLocator(const Locator* const) override {}
    void startDocument() override { ++startDocs; }
    void endDocument() override { sawEndDoc = true; }
    void startElement(const XMLCh* const name, AttributeListType& attrs) override {
        N e; e.kind = "elem"; e.name = toUtf8(name, length(name));
        for (XalanSize_t i = 0; i < attrs.getLength(); ++i)
            e.attrs.emplace_back(toUtf8(attrs.getName(i), length(attrs.getName(i))), toUtf8(attrs.getValue(i), length(attrs.getValue(i))));
        N& p = *stack.back(); p.kids.push_back(e); stack.push_back(&p.kids.back());
    }
    void endElement(const XMLCh* const) override { if (stack.size() > 1) stack.pop_back(); }
    void characters(const XMLCh* const c, const size_type n) override { if (n) addText("text", c, n); }
    void charactersRaw(const XMLCh* const c, const size_type n) override { if (n) addText("raw", c, n); }
    void entityReference(const XMLCh* const name) override { N t; t.kind = "entref"; t.name = toUtf8(name, length(name)); stack.back()->kids.push_back(t); }
    void ignorableWhitespace(const XMLCh* const c, const size_type n) override { if (n) addText("text", c, n); }
    void processingInstruction(const XMLCh* const target, const XMLCh* const data) override {
        N t; t.kind = "pi"; t.name = toUtf8(target, length(target)); t.text = toUtf8(data, length(data)); stack.back()->kids.push_back(t); }
    void resetDocument() override {}
    void comment(const XMLCh* const data) override { N t; t.kind = "comment"; t.text = toUtf8(data, length(data)); stack.back()->kids.push_back(t); }
    void cdata(const XMLCh* const c, const size_type n) override { if (n) addText("text", c, n); }

    static void json(const N& n, std::string& o) {
        if (n.kind == "elem") {
            o += "{\"k\":\"elem\",\"qn\":" + jstr(n.name) + ",\"a\":[";
            for (size_t i = 0; i < n.attrs.size(); ++i) { if (i) o += ","; o += "[" + jstr(n.attrs[i].first) + "," + jstr(n.attrs[i].second) + "]"; }
            o += "],\"c\":[";
            for (size_t i = 0; i < n.kids.size(); ++i) { if (i) o += ","; json(n.kids[i], o); }
            o += "]}";
        } else if (n.kind == "pi") o += "{\"k\":\"pi\",\"l\":" + jstr(n.name) + ",\"v\":" + jstr(n.text) + "}";
        else if (n.kind == "entref") o += "{\"k\":\"entref\",\"l\":" + jstr(n.name) + "}";
        else o += "{\"k\":" + jstr(n.kind) + ",\"v\":" + jstr(n.text) + "}";
    }
    std::string treeJson() const { std::string o = "["; for (size_t i = 0; i < root.kids.size(); ++i) { if (i) o += ","; json(root.kids[i], o); } return o + "]"; }
};

// ---- trace listener -------------------------------------------------------------------------------
struct Tracer : public TraceListener {
    NodeIds& ids; std::string mode; bool select; std::string out;
    Tracer(NodeIds& i, const std::string& m, bool s) : ids(i), mode(m), select(s) {}
    void trace(const TracerEvent& ev) override {
        if (mode == "none") return;
        const ElemTemplateElement& el = ev.m_styleNode;
        const int tok = el.getXSLToken();
        if (mode == "templates" && tok != StylesheetConstructionContext::ELEMNAME_TEMPLATE) return;
        const XalanNode* n = ev.m_executionContext.getCurrentNode();
        out += "{\"e\":\"T\",\"el\":" + jstr(toUtf8(el.getElementName())) + ",\"line\":" + std::to_string((long)el.getLineNumber()) +
               ",\"col\":" + std::to_string((long)el.getColumnNumber()) + ",\"node\":" + nodeRefAuto(n, ids) + "}\n";
    }
    void selected(const SelectionEvent& ev) override {
        if (!select) return;
        const ElemTemplateElement& el = ev.m_styleNode;
        StylesheetExecutionContext& ctx = const_cast<StylesheetExecutionContext&>(ev.m_executionContext);
        std::string val;
        switch (ev.m_type) {
        case SelectionEvent::eBoolean: val = std::string("{\"t\":\"bool\",\"v\":") + (ev.m_boolean ? "true" : "false") + "}"; break;
        case SelectionEvent::eNodeSet: val = "{\"t\":\"ns\",\"v\":" + nodesJsonAuto(*ev.m_nodeList, ids) + "}"; break;
        case SelectionEvent::eUnknown: val = valueJson(ev.m_selection, ctx, ids); break;
        default: val = "{\"t\":\"none\",\"v\":0}"; break;
        }
        out += "{\"e\":\"S\",\"el\":" + jstr(toUtf8(el.getElementName())) + ",\"line\":" + std::to_string((long)el.getLineNumber()) +
               ",\"attr\":" + jstr(toUtf8(ev.m_attributeName)) + ",\"node\":" + nodeRefAuto(ev.m_sourceNode, ids) + ",\"val\":" + val;
        if (ev.m_type == SelectionEvent::eNodeSet || (ev.m_type == SelectionEvent::eUnknown && !ev.m_selection.null() && ev.m_selection->getType() == XObject::eTypeNodeSet)) {
            // delivered order is part of the observation
        }
        out += "}\n";
    }
    void generated(const GenerateEvent&) override {}
};

