// XSLT-level conformance harness: runs transformations through XalanTransformer with a recording
// FormatterListener as result target (raw result-tree events, before any serializer) and an optional
// TraceListener (instruction / selection events with exact source nodes).
// usage: xv_xslt cases.ndjson > trace.ndjson
//   case: {"id":N,"dir":"/abs/case/dir","xsl":"main.xsl","xml":"in.xml","params":{name:"expr"},
//          "trace":"none"|"templates"|"all","select":true|false,"reuse":false}
// events: {"e":"Reset","id":N}  {"e":"T",...}  {"e":"S",...}  {"e":"Done","id":N,"status":s,"msg":"..","tree":[...]}
#include <sys/time.h>
#include <signal.h>
#include <unistd.h>
#include <string.h>
#include "xsltrec.hpp"
#include <map>
#include <xalanc/XSLT/VariablesStack.hpp>
#include <xalanc/XPath/XalanQName.hpp>

// hook H2: every operation of the engine's variable stack, as {"e":"VS",...} events ("vstack":true in the case)
static std::string g_vs;
static std::map<unsigned long, unsigned long> g_vsElems;      // stylesheet element address -> small id (0 = none)
static unsigned long vsElem(unsigned long p) { if (p == 0) return 0; auto it = g_vsElems.find(p); if (it != g_vsElems.end()) return it->second; const unsigned long k = g_vsElems.size() + 1; g_vsElems[p] = k; return k; }
static void vsObserver(const char* op, const XalanQName* name, unsigned long a, unsigned long b, unsigned long c, unsigned long size) {
    std::string n;
    if (name != nullptr) { n = toUtf8(name->getNamespace()); if (!n.empty()) n += "|"; n += toUtf8(name->getLocalPart()); }
    g_vs += "{\"e\":\"VS\",\"op\":\"" + std::string(op) + "\",\"n\":" + jstr(n) + ",\"a\":" + std::to_string((std::string(op) == "ef" || std::string(op) == "var") ? vsElem(a) : a) + ",\"b\":" + std::to_string(b) +
            ",\"c\":" + std::to_string(c) + ",\"size\":" + std::to_string(size) + "}\n";
}

// a transformation that does not finish within its CPU budget is a hang: say so on stderr and leave (exit code 3); the driver
// reports the case without a Done event as a violation
static void onHang(int) { static const char m[] = "HANG: transformation exceeded its CPU budget (60 s)\n"; ssize_t r = write(2, m, sizeof m - 1); (void)r; fflush(stdout); _exit(3); }
static void budget(int seconds) {
    struct itimerval t; memset(&t, 0, sizeof t); t.it_value.tv_sec = seconds;
    setitimer(ITIMER_VIRTUAL, &t, 0);
}

int main(int argc, char** argv) {
    if (argc < 2) { fprintf(stderr, "usage: %s cases.ndjson\n", argv[0]); return 2; }
    signal(SIGVTALRM, onHang);
    Platform platform;
    XalanTransformer::initialize();
    {
        auto lines = readLines(argv[1]);
        std::unique_ptr<XalanTransformer> shared;
        for (auto& line : lines) {
            J c = parseJson(line);
            budget(60);
            const long long id = c.num("id");
            const std::string dir = c.str("dir");
            std::unique_ptr<XalanTransformer> own;
            XalanTransformer* xt;
            if (c.boolean("reuse")) { if (!shared) shared.reset(new XalanTransformer); xt = shared.get(); }
            else { own.reset(new XalanTransformer); xt = own.get(); }
            std::ostringstream warn;
            xt->setWarningStream(&warn);
            printf("{\"e\":\"Reset\",\"id\":%lld}\n", id);
            NodeIds ids;
            Recorder rec;
            Tracer tracer(ids, c.str("trace", "none"), c.boolean("select"));
            int status = 0; std::string msg; std::string phase = "parse";
            const XalanParsedSource* src = nullptr; const XalanCompiledStylesheet* ss = nullptr;
            try {
                const std::string xmlPath = dir + "/" + c.str("xml", "in.xml"), xslPath = dir + "/" + c.str("xsl", "main.xsl");
                status = xt->parseSource(XSLTInputSource(xmlPath.c_str()), src, c.boolean("xercesdom"));
                if (status == 0) {
                    ids.addDocument(src->getDocument());
                    phase = "compile";
                    status = xt->compileStylesheet(XSLTInputSource(xslPath.c_str()), ss);
                }
                if (status == 0) {
                    phase = "transform";
                    if (const J* ps = c.get("params")) for (auto& kv : ps->o) xt->setStylesheetParam(fromUtf8(kv.first), fromUtf8(kv.second.s));
                    if (tracer.mode != "none" || tracer.select) xt->addTraceListener(&tracer);
                    XSLTResultTarget target(rec);
                    g_vs.clear(); g_vsElems.clear();
                    if (c.boolean("vstack")) VariablesStack::s_verifObserver = &vsObserver;
                    status = xt->transform(*src, ss, target);
                    VariablesStack::s_verifObserver = nullptr;
                    if (tracer.mode != "none" || tracer.select) xt->removeTraceListener(&tracer);
                    xt->clearStylesheetParams();
                }
                if (status != 0) msg = xt->getLastError();
            } catch (const XSLException& e) { status = -100; msg = excMessage(e);
            } catch (const std::exception& e) { status = -101; msg = std::string("std::exception ") + e.what();
            } catch (...) { status = -102; msg = "unknown exception"; }
            fputs(tracer.out.c_str(), stdout);
            fputs(g_vs.c_str(), stdout);
            std::string done = "{\"e\":\"Done\",\"id\":" + std::to_string(id) + ",\"status\":" + std::to_string(status) + ",\"phase\":" + jstr(phase) +
                               ",\"msg\":" + jstr(msg) + ",\"warn\":" + jstr(warn.str()) + ",\"enddoc\":" + (rec.sawEndDoc ? "true" : "false") + ",\"tree\":" + rec.treeJson() + "}\n";
            fputs(done.c_str(), stdout);
            fflush(stdout);
            if (ss) xt->destroyStylesheet(ss);
            if (src) xt->destroyParsedSource(src);
        }
    }
    XalanTransformer::terminate();
    return 0;
}
