// XSLT-level harness driving XSLTEngineImpl DIRECTLY (as TestXSLT/process.cpp does), so that processor flags that
// XalanTransformer does not expose can be set: "quiet": false selects the conflict-REPORTING template lookup path.
// usage: xv_xsltd cases.ndjson > trace.ndjson      (same case and event format as xslt.cpp)
#include <sys/time.h>
#include <signal.h>
#include <unistd.h>
#include <string.h>
#include "xsltrec.hpp"
#include <xalanc/XPath/XObjectFactoryDefault.hpp>
#include <xalanc/XPath/XPathFactoryBlock.hpp>
#include <xalanc/XPath/XPathFactoryDefault.hpp>
#include <xalanc/XSLT/StylesheetConstructionContextDefault.hpp>
#include <xalanc/XSLT/StylesheetExecutionContextDefault.hpp>
#include <xalanc/XSLT/StylesheetRoot.hpp>
#include <xalanc/XSLT/XSLTEngineImpl.hpp>
#include <xalanc/XSLT/XSLTProcessorEnvSupportDefault.hpp>
#include <xalanc/XSLT/ProblemListenerDefault.hpp>

struct QuietProblems : public ProblemListener {
    std::string text;
    void setPrintWriter(PrintWriter*) override {}
    void problem(eSource, eClassification, const XalanDOMString& msg, const Locator*, const XalanNode*) override { text += toUtf8(msg) + "\n"; }
    void problem(eSource, eClassification, const XalanNode*, const ElemTemplateElement*, const XalanDOMString& msg, const XalanDOMChar*, XalanFileLoc, XalanFileLoc) override { text += toUtf8(msg) + "\n"; }
    void problem(eSource, eClassification, const XalanDOMString& msg, const XalanNode*) override { text += toUtf8(msg) + "\n"; }
};

// a transformation that does not finish within its CPU budget is a hang: say so on stderr and leave (exit code 3); the driver
// reports the case without a Done event as a violation
static void onHang(int) { static const char m[] = "HANG: transformation exceeded its CPU budget (60 s)\n"; ssize_t r = write(2, m, sizeof m - 1); (void)r; fflush(stdout); _exit(3); }
static void budget(int seconds) {
    struct itimerval t; memset(&t, 0, sizeof t); t.it_value.tv_sec = seconds;
    setitimer(ITIMER_VIRTUAL, &t, 0);
}

int main(int argc, char** argv) {
    if (argc < 2) { fprintf(stderr, "usage: %s cases.ndjson\n", argv[0]); return 2; }
    signal(SIGVTALRM, onHang);
    Platform platform;
    XalanTransformer::initialize();
    {
        auto lines = readLines(argv[1]);
        for (auto& line : lines) {
            J c = parseJson(line);
            budget(60);
            const long long id = c.num("id");
            const std::string dir = c.str("dir");
            printf("{\"e\":\"Reset\",\"id\":%lld}\n", id);
            NodeIds ids;
            Recorder rec;
            Tracer tracer(ids, c.str("trace", "none"), c.boolean("select"));
            QuietProblems problems;
            int status = 0; std::string msg;
            try {
                MemoryManager& mm = XalanMemMgrs::getDefaultXercesMemMgr();
                XalanSourceTreeDOMSupport domSupport;
                XalanSourceTreeParserLiaison liaison(domSupport, mm);
                domSupport.setParserLiaison(&liaison);
                XSLTProcessorEnvSupportDefault envSupport(mm);
                XObjectFactoryDefault xobjectFactory(mm);
                XPathFactoryDefault xpathFactory(mm);
                XSLTEngineImpl processor(mm, liaison, envSupport, domSupport, xobjectFactory, xpathFactory);
                envSupport.setProcessor(&processor);
                processor.setProblemListener(&problems);
                XPathFactoryBlock stylesheetXPathFactory(mm);
                StylesheetConstructionContextDefault cctx(mm, processor, stylesheetXPathFactory);
                processor.setQuietConflictWarnings(c.boolean("quiet", true));
                StylesheetExecutionContextDefault ectx(mm, processor, envSupport, domSupport, xobjectFactory);
                liaison.setExecutionContext(ectx);
                const std::string xmlPath = dir + "/" + c.str("xml", "in.xml"), xslPath = dir + "/" + c.str("xsl", "main.xsl");
                const StylesheetRoot* ss = processor.processStylesheet(XalanDOMString(xslPath.c_str()), cctx);
                if (ss == 0) { status = -2; msg = "stylesheet did not compile"; }
                else {
                    ectx.setStylesheetRoot(ss);
                    XalanDocument* doc = liaison.parseXMLStream(XSLTInputSource(xmlPath.c_str()));
                    ids.addDocument(doc);
                    if (tracer.mode != "none" || tracer.select) { processor.setTraceSelects(tracer.select); processor.addTraceListener(&tracer); }
                    XSLTResultTarget target(rec);
                    XSLTInputSource src(doc);
                    processor.process(src, target, ectx);
                }
            } catch (const XSLException& e) { status = -100; msg = excMessage(e);
            } catch (const std::exception& e) { status = -101; msg = std::string("std::exception ") + e.what();
            } catch (...) { status = -102; msg = "unknown exception"; }
            fputs(tracer.out.c_str(), stdout);
            std::string done = "{\"e\":\"Done\",\"id\":" + std::to_string(id) + ",\"status\":" + std::to_string(status) + ",\"phase\":\"direct\"" +
                               ",\"msg\":" + jstr(msg) + ",\"warn\":" + jstr(problems.text) + ",\"enddoc\":" + (rec.sawEndDoc ? "true" : "false") + ",\"tree\":" + rec.treeJson() + "}\n";
            fputs(done.c_str(), stdout);
            fflush(stdout);
        }
    }
    XalanTransformer::terminate();
    return 0;
}
