// C19: fault enumeration over the pluggable MemoryManager of XalanTransformer.
//
//   xv_c19 <cases.ndjson> <outdir> <jobs> <mode> <datadir>      mode = "inited" | "raw"
//
// cases.ndjson: one line per execution: {"scenario":name,"k":failing request (0 = none),"steps":[...]}
// Every execution runs in a forked CHILD (std::terminate / SIGSEGV / sanitizer abort of one execution must not
// stop the sweep).  In mode "inited" the parent has called XalanTransformer::initialize(init manager) before
// forking; in mode "raw" only Xerces is initialised and the steps themselves call initialize/terminate.
//
// The child gives a recording manager (manager 1) to the library and writes one ndjson event per action of
// spec/system/MemMgr.tla with write(2) to <outdir>/<n>.nd: Reset, Call, Mem (compressed run of Alloc/Free of
// manager 1: [1,lo,hi] = Alloc of the blocks lo..hi, [0,id,...] = Free of these blocks in this order, id 0 = a
// pointer manager 1 never handed out), Fail, ApiReturn, DestroyTransformer, Shutdown, DiscardManager, Probe,
// Terminate (std::terminate or a fatal signal, with the call stack), Done.  The parent appends Exit.
// The harness decides nothing: all verdicts are made by spec/trace/Trace_C19.tla.
#include "common.hpp"

#include <csignal>
#include <cxxabi.h>
#include <dlfcn.h>
#include <execinfo.h>
#include <fcntl.h>
#include <sys/mman.h>
#include <sys/personality.h>
#include <sys/stat.h>
#include <sys/types.h>
#include <sys/wait.h>
#include <unistd.h>
#include <exception>
#include <set>
#include <typeinfo>

#include <xercesc/framework/MemoryManager.hpp>
#include <xercesc/sax/SAXException.hpp>
#include <xercesc/util/OutOfMemoryException.hpp>
#include <xercesc/util/XMLException.hpp>

#include <xalanc/XalanTransformer/XalanCompiledStylesheet.hpp>
#include <xalanc/XalanTransformer/XalanParsedSource.hpp>
#include <xalanc/XalanTransformer/XalanTransformer.hpp>
#include <xalanc/XSLT/XSLTInputSource.hpp>
#include <xalanc/XSLT/XSLTResultTarget.hpp>

#if defined(__SANITIZE_ADDRESS__)
#include <sanitizer/asan_interface.h>
#define C19_POISON(p, n) ASAN_POISON_MEMORY_REGION(p, n)
#define C19_UNPOISON(p, n) ASAN_UNPOISON_MEMORY_REGION(p, n)
#else
#define C19_POISON(p, n) ((void)0)
#define C19_UNPOISON(p, n) ((void)0)
#endif

using namespace xv;

// Block addresses must not depend on the state of the C heap (pointer-keyed containers of the library would make
// the allocation order vary from run to run): the recording manager carves its blocks out of a private arena at a
// fixed address, never re-uses memory, keeps a red zone between blocks and (ASan build) poisons red zones and
// returned blocks, so that overruns and use-after-free of the supplied manager's blocks are still reported.
static char*  g_arena = nullptr;
static size_t g_arenaSize = 0, g_arenaUsed = 0;
static void arenaInit() {
    g_arenaSize = (size_t)1 << 27;
    void* want = (void*)0x600000000000ULL;
    void* p = mmap(want, g_arenaSize, PROT_READ | PROT_WRITE, MAP_PRIVATE | MAP_ANONYMOUS | MAP_NORESERVE | MAP_FIXED_NOREPLACE, -1, 0);
    if (p == MAP_FAILED) p = mmap(nullptr, g_arenaSize, PROT_READ | PROT_WRITE, MAP_PRIVATE | MAP_ANONYMOUS | MAP_NORESERVE, -1, 0);
    if (p == MAP_FAILED) { perror("mmap arena"); _exit(2); }
    g_arena = (char*)p;
    C19_POISON(g_arena, g_arenaSize);
}
static void* arenaAlloc(size_t n) {
    const size_t need = ((n ? n : 1) + 15) / 16 * 16 + 32;     // payload + red zone
    if (g_arenaUsed + need > g_arenaSize) return nullptr;
    char* p = g_arena + g_arenaUsed + 32;
    g_arenaUsed += need;
    C19_UNPOISON(p, n ? n : 1);
    memset(p, 0xCD, n ? n : 1);       // fresh arena pages are zero: never hand out memory that looks initialised
    return p;
}
static bool g_keepFreed = false;     // case option "keepFreed": returned blocks keep their content (as with most allocators), so
                                     // that e.g. a second destruction of an object gets as far as handing its blocks back again
static void arenaFree(void* p, size_t n) {
#if !defined(__SANITIZE_ADDRESS__)
    if (!g_keepFreed) memset(p, 0xDD, n ? n : 1);              // make a later use of the block visible
#endif
    C19_POISON(p, n ? n : 1);
}

// ------------------------------------------------------------------------------- event output
static int g_fd = 1;
static std::string g_data = ".";      // directory of the input files named by the cases

static void emit(const char* s, size_t n) {
    while (n) { ssize_t w = ::write(g_fd, s, n); if (w <= 0) return; s += w; n -= (size_t)w; }
}
static void emit(const std::string& s) { emit(s.data(), s.size()); }

// pending run-compressed Alloc/Free stream of manager 1 (static storage: must survive into signal handlers)
static char   g_mem[1 << 16];
static size_t g_memLen = 0;
static int    g_runs = 0;          // runs in the pending Mem event
static int    g_runKind = -1;      // -1 none, 1 alloc run, 0 free run
static long   g_runLo = 0, g_runHi = 0;

static void memAppend(const char* s) { size_t n = strlen(s); if (g_memLen + n < sizeof g_mem) { memcpy(g_mem + g_memLen, s, n); g_memLen += n; } }
static void closeRun() {
    char b[64];
    if (g_runKind == 1) { snprintf(b, sizeof b, "%s[1,%ld,%ld]", g_runs ? "," : "", g_runLo, g_runHi); memAppend(b); ++g_runs; }
    else if (g_runKind == 0) { memAppend("]"); ++g_runs; }
    g_runKind = -1;
}
// write the pending Mem event (async-signal-safe apart from snprintf)
static void flushMem() {
    closeRun();
    if (g_runs) {
        emit("{\"e\":\"Mem\",\"ops\":[", 18); emit(g_mem, g_memLen); emit("]}\n", 3);
    }
    g_memLen = 0; g_runs = 0;
}
static const int MAX_RUNS_PER_EVENT = 200;
static void noteAlloc(long id) {
    if (g_runKind == 1 && g_runHi + 1 == id) { g_runHi = id; return; }
    closeRun();
    if (g_runs >= MAX_RUNS_PER_EVENT || g_memLen > sizeof g_mem - 4096) flushMem();
    g_runKind = 1; g_runLo = g_runHi = id;
}
static void noteFree(long id) {
    char b[32];
    if (g_runKind != 0) {
        closeRun();
        if (g_runs >= MAX_RUNS_PER_EVENT || g_memLen > sizeof g_mem - 4096) flushMem();
        snprintf(b, sizeof b, "%s[0", g_runs ? "," : ""); memAppend(b); g_runKind = 0;
    } else if (g_memLen > sizeof g_mem - 4096) { flushMem(); memAppend("[0"); g_runKind = 0; }
    snprintf(b, sizeof b, ",%ld", id); memAppend(b);
}

// call stack as JSON array of (mangled) symbol names / module+offset; no malloc
static size_t framesJson(char* out, size_t cap, int skip) {
    void* addr[48];
    int n = backtrace(addr, 48);
    size_t len = 0;
    out[len++] = '[';
    bool first = true;
    for (int i = skip; i < n && len + 300 < cap; ++i) {
        Dl_info di;
        char one[280];
        if (dladdr(addr[i], &di) && di.dli_sname) snprintf(one, sizeof one, "%.260s", di.dli_sname);
        else if (di.dli_fname) { const char* b = strrchr(di.dli_fname, '/'); snprintf(one, sizeof one, "%.100s+0x%lx", b ? b + 1 : di.dli_fname, (unsigned long)((char*)addr[i] - (char*)di.dli_fbase)); }
        else snprintf(one, sizeof one, "?");
        len += (size_t)snprintf(out + len, cap - len, "%s\"%s\"", first ? "" : ",", one);
        first = false;
    }
    out[len++] = ']'; out[len] = 0;
    return len;
}

static void evFrames(const char* head, int skip) {     // head = event without closing brace
    static char buf[20000];
    size_t n = (size_t)snprintf(buf, sizeof buf, "%s,\"frames\":", head);
    n += framesJson(buf + n, sizeof buf - n - 4, skip);
    buf[n++] = '}'; buf[n++] = '\n';
    emit(buf, n);
}

// ------------------------------------------------------------------------- recording manager
class RecordingManager : public xercesc::MemoryManager {
public:
    explicit RecordingManager(bool logged) : m_logged(logged) {}
    ~RecordingManager() { discard(); }

    long failAt = 0;       // the failAt-th request throws (0 = never)
    long requests = 0;     // allocate() calls so far
    long nextId = 0;
    bool failedYet = false;

    xercesc::MemoryManager* getExceptionMemoryManager() override { return this; }

    void* allocate(XMLSize_t size) override {
        ++requests;
        if (failAt && requests == failAt) {
            failedYet = true;
            if (m_logged) {
                flushMem();
                char h[96]; snprintf(h, sizeof h, "{\"e\":\"Fail\",\"k\":%ld,\"size\":%lu", requests, (unsigned long)size);
                evFrames(h, 2);
            }
            throw xercesc::OutOfMemoryException();
        }
        if (m_logged && size >= 256 && big.size() < 4000) big.push_back(requests);
        void* p = m_logged ? arenaAlloc(size) : malloc(size ? size : 1);
        if (!p) { static const char m[] = "harness: real out of memory\n"; (void)!::write(2, m, sizeof m - 1); _exit(2); }
        const long id = ++nextId;
        m_live[p] = id;
        if (m_logged) m_size[p] = size;
        m_freed.erase(p);
        if (m_logged) noteAlloc(id);
        return p;
    }

    void deallocate(void* p) override {
        if (!p) return;                           // Xerces convention: deallocate(0) is a no-op
        auto it = m_live.find(p);
        if (it != m_live.end()) {
            const long id = it->second;
            m_live.erase(it);
            m_freed[p] = id;
            if (m_logged) { noteFree(id); arenaFree(p, m_size[p]); }
            else free(p);
            return;
        }
        auto jt = m_freed.find(p);                // not live: a second free of a block, or a foreign pointer
        const long id = jt != m_freed.end() ? jt->second : 0;
        if (m_logged) {
            noteFree(id);
            flushMem();
            char h[96]; snprintf(h, sizeof h, "{\"e\":\"Note\",\"what\":\"%s\",\"id\":%ld", id ? "free of a block that is not live" : "free of a pointer this manager never returned", id);
            evFrames(h, 2);
        }
        // the pointer is not passed on to free()
    }

    size_t outstanding() const { return m_live.size(); }
    // returned blocks (plain build, not keepFreed) were filled with 0xDD and are never handed out again: a block whose fill is damaged
    // was written to by the library after it had returned it.  The lowest such block id, 0 if none; n: how many.
    long touched(long& n) const {
        long first = 0; n = 0;
#if !defined(__SANITIZE_ADDRESS__)
        if (!m_logged || g_keepFreed) return 0;
        for (auto& kv : m_freed) {
            auto st = m_size.find(kv.first);
            const size_t sz = st == m_size.end() ? 0 : st->second;
            const unsigned char* b = (const unsigned char*)kv.first;
            for (size_t i = 0; i < sz; ++i) if (b[i] != 0xDD) { ++n; if (!first || kv.second < first) first = kv.second; break; }
        }
#endif
        return first;
    }
    std::vector<long> big;                        // ordinals of the requests of >= 256 bytes (blocks of arenas, deques, vectors that grow)
    size_t discard() {                            // the documented recovery model: drop everything still outstanding
        const size_t n = m_live.size();
        for (auto& kv : m_live) { if (m_logged) arenaFree(kv.first, m_size[kv.first]); else free(kv.first); }
        m_live.clear(); m_freed.clear();
        return n;
    }

private:
    bool m_logged;
    std::unordered_map<void*, long> m_live, m_freed;
    std::unordered_map<void*, size_t> m_size;
};

// ------------------------------------------------------------------- terminate / fatal signals
static void onTerminate() {
    flushMem();
    char h[400];
    const char* tn = "none";
    std::type_info* t = abi::__cxa_current_exception_type();
    if (t) tn = t->name();
    snprintf(h, sizeof h, "{\"e\":\"Terminate\",\"kind\":\"std::terminate\",\"exception\":\"%.200s\"", tn);
    evFrames(h, 1);
    _exit(70);
}
static void onSignal(int sig) {
    flushMem();
    const char* nm = sig == SIGSEGV ? "SIGSEGV" : sig == SIGABRT ? "SIGABRT" : sig == SIGBUS ? "SIGBUS" : sig == SIGFPE ? "SIGFPE" : sig == SIGILL ? "SIGILL" : sig == SIGALRM ? "SIGALRM(timeout)" : "signal";
    char h[200];
    snprintf(h, sizeof h, "{\"e\":\"Terminate\",\"kind\":\"%s\",\"exception\":\"none\"", nm);
    evFrames(h, 2);
    _exit(71);
}
static void installHandlers() {
    std::set_terminate(onTerminate);
    static char altstack[1 << 16];
    stack_t ss; ss.ss_sp = altstack; ss.ss_size = sizeof altstack; ss.ss_flags = 0;
    sigaltstack(&ss, nullptr);
    struct sigaction sa; memset(&sa, 0, sizeof sa);
    sa.sa_handler = onSignal; sa.sa_flags = SA_ONSTACK | SA_RESETHAND;
    sigemptyset(&sa.sa_mask);
    for (int s : { SIGSEGV, SIGABRT, SIGBUS, SIGFPE, SIGILL, SIGALRM }) sigaction(s, &sa, nullptr);
}

// ------------------------------------------------------------------------------------ the child
static const char* const PROBE_XML = "<doc><item n='2'>b</item><item n='1'>a</item></doc>";
static const char* const PROBE_XSL =
    "<xsl:stylesheet version='1.0' xmlns:xsl='http://www.w3.org/1999/XSL/Transform'>"
    "<xsl:output method='xml' omit-xml-declaration='yes'/>"
    "<xsl:key name='k' match='item' use='@n'/>"
    "<xsl:template match='/'><out n='{count(//item)}'><xsl:for-each select='doc/item'><xsl:sort select='@n' data-type='number'/>"
    "<i><xsl:value-of select='concat(@n, \":\", .)'/></i></xsl:for-each><k><xsl:value-of select='key(\"k\", \"2\")'/></k></out></xsl:template>"
    "</xsl:stylesheet>";

// the output file of file-to-file transformations: one fixed name (file names reach the library and influence
// the allocation sequence); concurrent children overwrite each other's output, which nobody reads
static std::string outFileName(const std::string& base) { return g_data + "/" + base; }

struct OutBuf { std::string s; };
static CallbackSizeType outWrite(const char* d, CallbackSizeType n, void* h) { static_cast<OutBuf*>(h)->s.append(d, n); return n; }
static void outFlush(void*) {}

static std::string exceptionName() {
    // classify the exception in flight (called inside catch (...))
    try { throw; }
    catch (const xercesc::OutOfMemoryException&) { return "OutOfMemoryException"; }
    catch (const XSLException&) { return "XSLException"; }
    catch (const xercesc::SAXException&) { return "SAXException"; }
    catch (const xercesc::XMLException&) { return "XMLException"; }
    catch (const XalanDOMException&) { return "XalanDOMException"; }
    catch (const std::bad_alloc&) { return "std::bad_alloc"; }
    catch (const std::exception&) { return "std::exception"; }
    catch (...) { return "unknown"; }
}

static void callEv(const std::string& api) { flushMem(); emit("{\"e\":\"Call\",\"api\":" + jstr(api) + "}\n"); }
static void retEv(const std::string& api, const char* status, int code, const std::string& exc, const std::string& msg = std::string()) {
    flushMem();
    emit("{\"e\":\"ApiReturn\",\"api\":" + jstr(api) + ",\"status\":\"" + status + "\",\"code\":" + std::to_string(code) +
         ",\"exception\":" + jstr(exc) + (msg.empty() ? std::string() : ",\"msg\":" + jstr(msg)) + "}\n");
}

struct Child {
    RecordingManager mgr{true};
    XalanTransformer* xt = nullptr;
    bool initedByMe = false;         // the steps called XalanTransformer::initialize(mgr)
    std::map<std::string, const XalanCompiledStylesheet*> sheets;
    std::map<std::string, const XalanParsedSource*> sources;
    std::vector<std::unique_ptr<std::istringstream>> streams;

    // run f as one API call; returns true if it returned normally with status 0
    template <class F> bool call(const std::string& api, F f) {
        callEv(api);
        int code = 0; std::string exc = "none"; const char* status = "ok";
        try { code = f(); if (code != 0) status = "error"; }
        catch (...) { status = "exception"; exc = exceptionName(); }
        // the reported error text (diagnostics only: shows WHERE a failing transformation failed)
        if (code != 0 && xt && exc == "none") { const char* m = xt->getLastError(); if (m) { std::string t = std::string(m).substr(0, 160); for (auto& ch : t) if ((unsigned char)ch >= 0x7f || (unsigned char)ch < 0x20) ch = ' '; exc = "none: " + t; } }
        retEv(api, status, code, exc.compare(0, 6, "none: ") == 0 ? "none" : exc, exc.compare(0, 6, "none: ") == 0 ? exc.substr(6) : std::string());
        return code == 0 && exc == "none";
    }

    XSLTInputSource* input(const J& spec, std::vector<std::unique_ptr<XSLTInputSource>>& keep) {
        // input sources are caller-side objects: they live on the default manager, not on manager 1
        if (spec.has("file")) keep.emplace_back(new XSLTInputSource((g_data + "/" + spec.str("file")).c_str()));
        else { streams.emplace_back(new std::istringstream(spec.str("text"))); keep.emplace_back(new XSLTInputSource(streams.back().get())); }
        return keep.back().get();
    }

    void step(const J& st) {
        const std::string api = st.str("api");
        if (api == "initialize") {
            if (call(api, [&] { XalanTransformer::initialize(mgr); return 0; })) initedByMe = true;
        } else if (api == "create") {
            call(api, [&] { xt = new XalanTransformer(mgr); return 0; });
        } else if (api == "compile") {
            std::vector<std::unique_ptr<XSLTInputSource>> keep;
            XSLTInputSource* in = input(st.at("xsl"), keep);
            const XalanCompiledStylesheet* cs = nullptr;
            call(api, [&] { return xt->compileStylesheet(*in, cs); });
            if (cs) sheets[st.str("as")] = cs;
        } else if (api == "parse") {
            std::vector<std::unique_ptr<XSLTInputSource>> keep;
            XSLTInputSource* in = input(st.at("xml"), keep);
            const XalanParsedSource* ps = nullptr;
            const bool xerces = st.boolean("xerces");
            call(api, [&] { return xt->parseSource(*in, ps, xerces); });
            if (ps) sources[st.str("as")] = ps;
        } else if (api == "transform") {
            std::vector<std::unique_ptr<XSLTInputSource>> keep;
            const J& src = st.at("src"); const J& xsl = st.at("xsl");
            const XalanParsedSource* ps = src.has("parsed") ? sources[src.str("parsed")] : nullptr;
            const XalanCompiledStylesheet* cs = xsl.has("compiled") ? sheets[xsl.str("compiled")] : nullptr;
            if ((src.has("parsed") && !ps) || (xsl.has("compiled") && !cs)) return;      // an earlier step failed
            XSLTInputSource* sin = ps ? nullptr : input(src, keep);
            XSLTInputSource* xin = (cs || xsl.has("pi")) ? nullptr : input(xsl, keep);
            const std::string out = st.str("out", "stream");
            std::ostringstream os; OutBuf ob;
            std::unique_ptr<XSLTResultTarget> target;
            if (out == "file") target.reset(new XSLTResultTarget(outFileName(st.str("outfile")).c_str()));
            else if (out == "stream") target.reset(new XSLTResultTarget(os));
            call(api, [&]() -> int {
                if (out == "callback") {
                    if (ps && cs) return xt->transform(*ps, cs, &ob, outWrite, outFlush);
                    if (!ps && xin) return xt->transform(*sin, *xin, &ob, outWrite, outFlush);
                    return xt->transform(*sin, &ob, outWrite, outFlush);
                }
                if (ps && cs) return xt->transform(*ps, cs, *target);
                if (ps && xin) return xt->transform(*ps, *xin, *target);
                if (ps) return xt->transform(*ps, *target);
                if (cs) return xt->transform(*sin, cs, *target);
                if (xin) return xt->transform(*sin, *xin, *target);
                return xt->transform(*sin, *target);
            });
        } else if (api == "destroyStylesheet") {
            auto it = sheets.find(st.str("ref"));
            if (it != sheets.end() && it->second) { const XalanCompiledStylesheet* cs = it->second; sheets.erase(it); call(api, [&] { return xt->destroyStylesheet(cs); }); }
        } else if (api == "destroyParsedSource") {
            auto it = sources.find(st.str("ref"));
            if (it != sources.end() && it->second) { const XalanParsedSource* ps = it->second; sources.erase(it); call(api, [&] { return xt->destroyParsedSource(ps); }); }
        } else if (api == "setParam") {
            call(api, [&] { xt->setStylesheetParam(st.str("name").c_str(), st.str("expr").c_str()); return 0; });
        } else if (api == "destroy") {
            destroy();
        } else if (api == "terminate") {
            shutdown();
        } else { fprintf(stderr, "unknown step %s\n", api.c_str()); _exit(2); }
    }

    void destroy() {
        if (!xt) return;
        callEv("destroy");
        XalanTransformer* t = xt; xt = nullptr;
        delete t;                                   // a throwing destructor ends in std::terminate (logged)
        flushMem();
        emit("{\"e\":\"DestroyTransformer\"}\n");
    }
    void shutdown() {
        if (!initedByMe) return;
        callEv("terminate");
        XalanTransformer::terminate();
        initedByMe = false;
        flushMem();
        emit("{\"e\":\"Shutdown\"}\n");
    }
};

static void probe(bool processInited) {
    // a fresh manager, (if needed) a fresh process-level initialisation, a fresh transformer, a fixed transformation
    RecordingManager m2(false);
    int code = -99; std::string exc = "none"; OutBuf ob;
    try {
        if (!processInited) XalanTransformer::initialize(m2);
        {
            XalanTransformer t(m2);
            std::istringstream x(PROBE_XML), s(PROBE_XSL);
            XSLTInputSource xi(&x), si(&s);
            code = t.transform(xi, si, &ob, outWrite, outFlush);
        }
        if (!processInited) XalanTransformer::terminate();
    } catch (...) { exc = exceptionName(); }
    const size_t left = m2.outstanding();
    emit("{\"e\":\"Probe\",\"code\":" + std::to_string(code) + ",\"exception\":" + jstr(exc) + ",\"out\":" + jstr(ob.s) +
         ",\"outstanding\":" + std::to_string(left) + "}\n");
}

static void runChild(const J& c, bool parentInited, const char* flavour) {
    installHandlers();
    alarm(60);
    Child ch;
    const long k = (long)c.num("k");
    ch.mgr.failAt = k;
    g_keepFreed = c.boolean("keepFreed");
    emit("{\"e\":\"Reset\",\"scenario\":" + jstr(c.str("scenario")) + ",\"k\":" + std::to_string(k) + ",\"build\":\"" + flavour +
         "\"}\n{\"e\":\"Start\",\"failAt\":" + std::to_string(k) + ",\"procInit\":" + (parentInited ? "true" : "false") + "}\n");
    for (auto& st : c.at("steps").a) {
        const std::string api = st.str("api");
        const bool cleanup = api == "destroy" || api == "terminate";
        // after the injected failure has surfaced only the clean-up steps are executed
        if (ch.mgr.failedYet && !cleanup) continue;
        if (!ch.xt && !cleanup && api != "create" && api != "initialize") continue;
        ch.step(st);
    }
    ch.destroy();
    ch.shutdown();
    flushMem();
    long ntouched = 0; const long firstTouched = ch.mgr.touched(ntouched);
    const size_t reclaimed = ch.mgr.discard();
    std::string big;
    if (k == 0) { big = ",\"big\":["; for (size_t i = 0; i < ch.mgr.big.size(); ++i) big += (i ? "," : "") + std::to_string(ch.mgr.big[i]); big += "]"; }
    emit("{\"e\":\"DiscardManager\",\"reclaimed\":" + std::to_string(reclaimed) + ",\"requests\":" + std::to_string(ch.mgr.requests) +
         ",\"touched\":" + std::to_string(ntouched) + ",\"firstTouched\":" + std::to_string(firstTouched) + big + "}\n");
    probe(parentInited);
    emit("{\"e\":\"Done\"}\n");
    _exit(0);
}

// ----------------------------------------------------------------------------------- the parent
int main(int argc, char** argv) {
    if (argc < 6) { fprintf(stderr, "usage: %s cases.ndjson outdir jobs inited|raw datadir\n", argv[0]); return 2; }
    {   // address-space randomisation off (re-exec once): pointer-keyed containers must iterate the same way in every run
        const int pers = personality(0xffffffff);
        if (pers != -1 && !(pers & ADDR_NO_RANDOMIZE) && !getenv("XV_C19_REEXEC")) {
            setenv("XV_C19_REEXEC", "1", 1);
            if (personality(pers | ADDR_NO_RANDOMIZE) != -1) execv("/proc/self/exe", argv);
        }
    }
    g_data = argv[5];
    arenaInit();
    const std::string outdir = argv[2];
    const int jobs = std::max(1, atoi(argv[3]));
    const bool inited = std::string(argv[4]) == "inited";
#if defined(__SANITIZE_ADDRESS__)
    const char* flavour = "asan";
#else
    const char* flavour = "hooks";
#endif
    { void* warm[4]; backtrace(warm, 4); }                 // load the unwinder now, not inside a handler
    auto lines = readLines(argv[1]);
    std::vector<J> cases; cases.reserve(lines.size());
    for (auto& l : lines) cases.push_back(parseJson(l));

    Platform platform;
    RecordingManager initMgr(false);
    if (inited) XalanTransformer::initialize(initMgr);

    // The scheduling loop performs no heap operation between forks, so that every child starts from the same heap
    // state whatever the order in which earlier children finished (part of keeping the sweep reproducible).
    static pid_t  pids[256];
    static size_t idx[256];
    static char   errbuf[1600], evbuf[4200];
    const int maxJobs = std::min(jobs, 256);
    int nrunning = 0;
    size_t next = 0, finished = 0;
    const char* od = outdir.c_str();
    auto reap = [&]() {
        int status = 0;
        pid_t p = wait(&status);
        if (p <= 0) return;
        int slot = -1;
        for (int i = 0; i < nrunning; ++i) if (pids[i] == p) { slot = i; break; }
        if (slot < 0) return;
        const size_t n = idx[slot];
        pids[slot] = pids[nrunning - 1]; idx[slot] = idx[nrunning - 1]; --nrunning; ++finished;
        char path[600], epath[600];
        snprintf(path, sizeof path, "%s/%zu.nd", od, n);
        snprintf(epath, sizeof epath, "%s/%zu.err", od, n);
        // the beginning of the child's stderr (sanitizer reports), JSON-escaped
        size_t el = 0;
        { int efd = open(epath, O_RDONLY); if (efd >= 0) { ssize_t r = read(efd, errbuf, 1500); if (r > 0) el = (size_t)r; close(efd); } }
        size_t o = (size_t)snprintf(evbuf, sizeof evbuf, "{\"e\":\"Exit\",\"code\":%d,\"signal\":%d,\"stderr\":\"",
                                    WIFEXITED(status) ? WEXITSTATUS(status) : -1, WIFSIGNALED(status) ? WTERMSIG(status) : 0);
        for (size_t i = 0; i < el && o + 8 < sizeof evbuf - 8; ++i) {
            unsigned char ch = (unsigned char)errbuf[i];
            if (ch == '"' || ch == '\\') { evbuf[o++] = '\\'; evbuf[o++] = (char)ch; }
            else if (ch == '\n') { evbuf[o++] = '\\'; evbuf[o++] = 'n'; }
            else if (ch < 0x20 || ch >= 0x7f) evbuf[o++] = '?';
            else evbuf[o++] = (char)ch;
        }
        evbuf[o++] = '"'; evbuf[o++] = '}'; evbuf[o++] = '\n';
        int fd = open(path, O_WRONLY | O_APPEND);
        if (fd >= 0) { (void)!::write(fd, evbuf, o); close(fd); }
        unlink(epath);
    };
    while (next < cases.size() || nrunning > 0) {
        while (next < cases.size() && nrunning < maxJobs) {
            const size_t n = next++;
            char path[600], epath[600];
            snprintf(path, sizeof path, "%s/%zu.nd", od, n);
            snprintf(epath, sizeof epath, "%s/%zu.err", od, n);
            pid_t p = fork();
            if (p < 0) { perror("fork"); return 2; }
            if (p == 0) {
                g_fd = open(path, O_WRONLY | O_CREAT | O_TRUNC | O_APPEND, 0644);
                int efd = open(epath, O_WRONLY | O_CREAT | O_TRUNC, 0644);
                if (g_fd < 0 || efd < 0) _exit(2);
                dup2(efd, 2);
                runChild(cases[n], inited, flavour);
                _exit(0);
            }
            pids[nrunning] = p; idx[nrunning] = n; ++nrunning;
        }
        reap();
    }
    if (inited) {
        XalanTransformer::terminate();
        if (initMgr.outstanding() != 0) fprintf(stderr, "note: %zu blocks of the init manager outstanding after terminate()\n", initMgr.outstanding());
    }
    printf("%zu\n", finished);
    fflush(nullptr);
    // leave without running the library's static destructors: in raw mode Xalan was never initialised in this process
    _exit(0);
}
