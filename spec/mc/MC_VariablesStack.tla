-------------------------- MODULE MC_VariablesStack --------------------------
(* Does the variable stack (VariablesStackImpl), driven the way the engine drives it, implement the scoping   *)
(* rules of XSLT 1.0 section 11?                                                                               *)
(*   - a template sees: its declared parameters (the passed value if the caller passed one of that name, else   *)
(*     the default), the variables declared before the reference in the enclosing elements of the same          *)
(*     template, and otherwise the top-level variable; a passed value the template does not declare is ignored  *)
(*     (11.6), and nothing of the caller's bindings is visible in the callee.                                   *)
(* The PROGRAM is not fixed: TLC chooses, step by step, what the stylesheet does next (a reference, a variable,  *)
(* an element with children, xsl:call-template or xsl:apply-templates with any subset of with-params to any      *)
(* templates), so every program up to the bounds is covered.  The engine's protocol is transcribed from          *)
(* ElemCallTemplate / ElemApplyTemplates (getFirstChildElemToExecute / getNextChildElemToExecute / endElement),  *)
(* ElemTemplateElement::beginExecuteChildren / endExecuteChildren, ElemParam::startElement, ElemVariable.         *)
(* Each template's static shape (declared parameters, whether it declares variables) is chosen in Init.           *)
EXTENDS VariablesStackImpl, FiniteSets, TLC

CONSTANTS NT,          \* templates 1..NT
          MaxCtl,      \* nesting of activations / elements
          MaxSeq,      \* number of calls / variable declarations in one behaviour
          Repaired     \* TRUE: the tree as it is; FALSE: before repair 46a849f (the counterexample must come back)

Names == {"x", "y"}
DeclOrder(S) == SelectSeq(<<"x", "y">>, LAMBDA n : n \in S)
G(n) == [k |-> "global", c |-> 0, n |-> n]

VARIABLES tinfo, stack, ctl, seq, ok, last
vars == <<tinfo, stack, ctl, seq, ok, last>>

Top == ctl[Len(ctl)]
EnvOf(f) == f.env
Bind(env, n, v) == [m \in (DOMAIN env) \cup {n} |-> IF m = n THEN v ELSE env[m]]
InBody == Len(ctl) > 0 /\ ((Top.k = "tmpl" /\ Top.todo = <<>>) \/ Top.k = "block")
ReplaceTop(f) == [ctl EXCEPT ![Len(ctl)] = f]
AbsValue(n) == IF n \in DOMAIN Top.env THEN Top.env[n] ELSE G(n)

Init == /\ tinfo \in [1..NT -> [decl : SUBSET Names, hasVars : BOOLEAN]]
        /\ stack = <<[t |-> "cm"]>>
        /\ ctl = <<>>
        /\ seq = 0 /\ ok = TRUE /\ last = "init"

(* the root rule: template 1 applied to the root node without parameters *)
TemplateStart(s, t) == IF tinfo[t].decl # {} \/ tinfo[t].hasVars THEN PushElementFrame(s, t, TRUE) ELSE s
TmplFrame(t, via, passed) ==
  [k |-> "tmpl", t |-> t, frame |-> (tinfo[t].decl # {} \/ tinfo[t].hasVars), via |-> via,
   todo |-> DeclOrder(tinfo[t].decl), env |-> <<>>, passed |-> passed, hasVars |-> tinfo[t].hasVars, e |-> t]

Start == /\ ctl = <<>> /\ last = "init"
         /\ stack' = TemplateStart(PushContextMarker(stack), 1)
         /\ ctl' = <<TmplFrame(1, "call", <<>>)>>
         /\ last' = "start" /\ UNCHANGED <<tinfo, seq, ok>>

(* xsl:param n: ElemParam::startElement -> getParamVariable(n) = findEntry(n, fIsParam = true); bound to the passed *)
(* value if there is one, else ElemVariable pushes the default                                                    *)
ParamStep ==
  /\ Len(ctl) > 0 /\ Top.k = "tmpl" /\ Top.todo # <<>>
  /\ LET n == Head(Top.todo)
         r == Find(stack, n, TRUE)
         dflt == [k |-> "default", c |-> Top.t, n |-> n]
         implV == IF r.idx # 0 THEN r.s[r.idx].v ELSE dflt
         absV == IF \E i \in 1..Len(Top.passed) : Top.passed[i].n = n
                 THEN Top.passed[CHOOSE i \in 1..Len(Top.passed) : Top.passed[i].n = n].v ELSE dflt
     IN /\ stack' = IF r.idx # 0 THEN r.s ELSE PushVariable(stack, n, dflt, Top.e, TRUE)
        /\ ctl' = ReplaceTop([Top EXCEPT !.todo = Tail(@), !.env = Bind(@, n, absV)])
        /\ ok' = (ok /\ implV = absV)
        /\ last' = "param"
  /\ UNCHANGED <<tinfo, seq>>

(* $n *)
Ref(n) ==
  /\ InBody
  /\ LET r == Find(stack, n, FALSE)
         implV == IF r.idx # 0 THEN r.s[r.idx].v ELSE G(n)
     IN /\ stack' = r.s
        /\ ok' = (ok /\ implV = AbsValue(n))
  /\ last' = "ref" /\ UNCHANGED <<tinfo, ctl, seq>>

(* xsl:variable n as a child of the current element (no shadowing of a local binding: an error in XSLT 11.5) *)
DeclVar(n) ==
  /\ InBody /\ Top.hasVars /\ n \notin DOMAIN Top.env /\ seq < MaxSeq
  /\ LET v == [k |-> "var", c |-> seq, n |-> n] IN
     /\ stack' = PushVariable(stack, n, v, Top.e, Top.k = "tmpl")
     /\ ctl' = ReplaceTop([Top EXCEPT !.env = Bind(@, n, v)])
  /\ seq' = seq + 1 /\ last' = "var" /\ UNCHANGED <<tinfo, ok>>

(* an element with children (xsl:if, a literal result element, one pass of xsl:for-each ...) *)
OpenBlock(hv) ==
  /\ InBody /\ Len(ctl) < MaxCtl
  /\ LET e == 100 + Len(ctl) IN
     /\ stack' = IF hv THEN PushElementFrame(stack, e, FALSE) ELSE stack
     /\ ctl' = Append(ctl, [k |-> "block", e |-> e, hasVars |-> hv, env |-> Top.env])
  /\ last' = "open" /\ UNCHANGED <<tinfo, seq, ok>>
CloseBlock ==
  /\ Len(ctl) > 0 /\ Top.k = "block"
  /\ stack' = IF Top.hasVars THEN PopElementFrame(stack, Repaired) ELSE stack
  /\ ctl' = SubSeq(ctl, 1, Len(ctl) - 1)
  /\ last' = "close" /\ UNCHANGED <<tinfo, seq, ok>>

Passed(P) == [i \in 1..Len(DeclOrder(P)) |-> [n |-> DeclOrder(P)[i], v |-> [k |-> "passed", c |-> seq, n |-> DeclOrder(P)[i]]]]

(* xsl:call-template name=t with with-params P: the values are computed in the caller's frame (beginParams), then *)
(* pushContextMarker, endParams = pushParams, then the template                                                  *)
Call(t, P) ==
  /\ InBody /\ Len(ctl) < MaxCtl /\ seq < MaxSeq
  /\ stack' = TemplateStart(PushParams(PushContextMarker(stack), Passed(P)), t)
  /\ ctl' = Append(ctl, TmplFrame(t, "call", Passed(P)))
  /\ seq' = seq + 1 /\ last' = "call" /\ UNCHANGED <<tinfo, ok>>

(* xsl:apply-templates selecting Len(ts) nodes whose rules are ts[1], ts[2], ...: ONE marker and ONE set of        *)
(* parameter entries for all of them                                                                              *)
Apply(ts, P) ==
  /\ InBody /\ Len(ctl) + 1 < MaxCtl /\ seq < MaxSeq
  /\ stack' = PushParams(PushContextMarker(stack), Passed(P))
  /\ ctl' = Append(ctl, [k |-> "apply", ts |-> ts, passed |-> Passed(P)])
  /\ seq' = seq + 1 /\ last' = "apply" /\ UNCHANGED <<tinfo, ok>>
ApplyNext ==
  /\ Len(ctl) > 0 /\ Top.k = "apply" /\ Top.ts # <<>>
  /\ stack' = TemplateStart(stack, Head(Top.ts))
  /\ ctl' = Append(ReplaceTop([Top EXCEPT !.ts = Tail(@)]), TmplFrame(Head(Top.ts), "apply", Top.passed))
  /\ last' = "next" /\ UNCHANGED <<tinfo, seq, ok>>
EndApply ==
  /\ Len(ctl) > 0 /\ Top.k = "apply" /\ Top.ts = <<>>
  /\ stack' = PopContextMarker(stack)
  /\ ctl' = SubSeq(ctl, 1, Len(ctl) - 1)
  /\ last' = "endapply" /\ UNCHANGED <<tinfo, seq, ok>>

(* the end of a template: endExecuteChildren pops its frame; xsl:call-template's endElement pops the marker *)
EndTemplate ==
  /\ Len(ctl) > 0 /\ Top.k = "tmpl" /\ Top.todo = <<>>
  /\ LET s1 == IF Top.frame THEN PopElementFrame(stack, Repaired) ELSE stack IN
     stack' = IF Top.via = "call" THEN PopContextMarker(s1) ELSE s1
  /\ ctl' = SubSeq(ctl, 1, Len(ctl) - 1)
  /\ last' = "end" /\ UNCHANGED <<tinfo, seq, ok>>

Next == \/ Start \/ ParamStep \/ CloseBlock \/ ApplyNext \/ EndApply \/ EndTemplate
        \/ \E n \in Names : Ref(n) \/ DeclVar(n)
        \/ \E hv \in BOOLEAN : OpenBlock(hv)
        \/ \E t \in 1..NT, P \in SUBSET Names : Call(t, P)
        \/ \E t1, t2 \in 1..NT, P \in SUBSET Names : Apply(<<t1, t2>>, P) \/ Apply(<<t1>>, P)
Spec == Init /\ [][Next]_vars

(* every parameter binding and every reference yields the value lexical scoping defines *)
ScopingHolds == ok
(* when everything has ended the stack is what it was *)
Balanced == (ctl = <<>> /\ last # "init") => stack = <<[t |-> "cm"]>>
(* a reference never changes the stack *)
RefIsPure == [][last' = "ref" => stack' = stack]_vars
=============================================================================
