------------------------------ MODULE MC_MemMgr ------------------------------
(* Bounded model of the memory-manager contract (MemMgr.tla): NBlocks block addresses (re-used     *)
(* after a Free), at most MaxReq requests, every placement of the one refused request (FailAt in    *)
(* 0..MaxReq, 0 = none), both ways of providing the process-level data (on this manager / on        *)
(* another one).  Checks that the guards are consistent (invariants below), that the contract      *)
(* never gets stuck short of the final state whatever request is refused (deadlock check; the      *)
(* final state stutters), that the run-compressed operators used by trace validation agree with    *)
(* the single-step ones, and (POSTCONDITION, -workers 1) that every action was actually taken,     *)
(* a request was refused inside every kind of call, and an execution completed after it.           *)
(* It is also the generator of call histories: `hist` (hidden by the VIEW) is the shortest         *)
(* sequence of calls reaching each state; `tlc -dump` writes them out.                             *)
EXTENDS MemMgr, TLC

CONSTANTS NBlocks, MaxReq, MaxCalls
VARIABLES s, hist

Blocks == 1..NBlocks
vars == <<s, hist>>
View == s

Init == /\ \E k \in 0..MaxReq, e \in BOOLEAN : s = Start(k, e)
        /\ hist = <<>>
        /\ \A i \in 10..30 : TLCSet(i, 0)

Mark(i) == TLCSet(i, TLCGet(i) + 1)

Next ==
  \/ /\ \E c \in CallKinds : Call_Enabled(s, c) /\ s' = Call_Do(s, c) /\ hist' = Append(hist, c) /\ Mark(10)
  \/ /\ \E b \in Blocks : Alloc_Enabled(s, b) /\ s' = Alloc_Do(s, b) /\ Mark(11)
     /\ UNCHANGED hist
  \/ /\ Fail_Enabled(s, s.nreq + 1) /\ s' = Fail_Do(s) /\ UNCHANGED hist
     /\ Mark(CASE s.call = "initialize" -> 20 [] s.call = "create" -> 21 [] s.call = "use" -> 22
               [] s.call = "destroy" -> 23 [] s.call = "terminate" -> 24)
  \/ /\ \E b \in Blocks : Free_Enabled(s, b) /\ s' = Free_Do(s, b) /\ Mark(IF s.failed THEN 13 ELSE 12)
     /\ UNCHANGED hist
  \/ /\ \E r \in Statuses : Return_Enabled(s, r) /\ s' = Return_Do(s, r) /\ Mark(IF r = "ok" THEN 14 ELSE 15)
     /\ UNCHANGED hist
  \/ Destroy_Enabled(s) /\ s' = Destroy_Do(s) /\ Mark(16) /\ UNCHANGED hist
  \/ Shutdown_Enabled(s) /\ s' = Shutdown_Do(s) /\ Mark(17) /\ UNCHANGED hist
  \/ /\ \E n \in 0..NBlocks : Discard_Enabled(s, n) /\ s' = Discard_Do(s) /\ Mark(IF n > 0 THEN 19 ELSE 18)
     /\ UNCHANGED hist
  \/ Probe_Enabled(s, TRUE) /\ s' = Probe_Do(s) /\ Mark(IF s.failed THEN 26 ELSE 25) /\ UNCHANGED hist
  \/ Exit_Enabled(s, TRUE) /\ s' = Exit_Do(s) /\ Mark(27) /\ UNCHANGED hist
  \/ s.done /\ UNCHANGED vars                       \* the final state stutters (so that deadlock = stuck)

Spec == Init /\ [][Next]_vars

(* generator of call histories: no refused request, hist NOT hidden (no VIEW), first element = how the  *)
(* process-level data is provided *)
GenInit == /\ \E e \in BOOLEAN : s = Start(0, e) /\ hist = <<IF e THEN "inited" ELSE "raw">>
           /\ \A i \in 10..30 : TLCSet(i, 0)
GenSpec == GenInit /\ [][Next]_vars
Bound == s.nreq <= MaxReq /\ Len(hist) <= MaxCalls

(* ---- properties --------------------------------------------------------------------------- *)
Inv == /\ TypeOK(s, Blocks) /\ Balanced(s) /\ DiscardedIsEmpty(s) /\ FailureIsOneShot(s)
       /\ (s.done => s.probe = "ok" /\ s.mgr = "discarded")

(* the next-state relation of MemMgr is exactly what this model steps through *)
StepIsContract == [][NextRel(s, s', Blocks, NBlocks)]_s

(* run-compressed operators = iterated single steps *)
RunLemma ==
  /\ \A lo, hi \in Blocks : lo <= hi =>
        LET e == AllocEach(s, lo, hi) IN
        /\ AllocRun_Enabled(s, lo, hi) <=> e.ok
        /\ e.ok => AllocRun_Do(s, lo, hi) = e.st
  /\ \A q \in UNION {[1..n -> Blocks] : n \in 1..2} :
        LET e == FreeEach(s, q, 1) IN
        /\ FreeRun_Enabled(s, q) <=> e.ok
        /\ e.ok => FreeRun_Do(s, q) = e.st

(* vacuity guard: all the interesting things happened somewhere in the explored graph *)
AllTaken == \A i \in (10..27) : TLCGet(i) > 0
=============================================================================
