----------------------------- MODULE MC_KeyTable -----------------------------
(* Model-checks KeyTableImpl (Xalan's key tables: the pre-order walk with its attribute loop, the per-     *)
(* document lazily built table holding ALL declarations, the look-up with its "unknown key" / empty /      *)
(* list outcomes and FunctionKey's loop over a node-set argument) against the definition of XSLT 12.2,     *)
(* for EVERY document shape of <= N nodes (root, elements, attributes, other children), a second fixed      *)
(* document, every subset of nodes matched by the first declaration, use expressions from a pool giving 0,  *)
(* 1 or 2 values per node (with repetitions), an optional second declaration (same name / other name /      *)
(* declared but matching nothing), and every order of building the two tables.                              *)
(*   WalkOk    : the walk tests every node of the document exactly once, in document order                  *)
(*   Refines   : every key() call in every table state returns the definition's nodes in document order;    *)
(*               an undeclared name is "unknown key" (or an empty set when the argument is an empty set)     *)
(*   Lazy      : a table, once built, is never rebuilt or changed, and equals Build of its document         *)
(* `Shapes` exports the shapes (walk-branch signatures) for replay on real documents.                       *)
EXTENDS KeyTableImpl, TLC
CONSTANTS N
VARIABLES docs, decls, tables

vars == <<docs, decls, tables>>

Kinds == {"elem", "attr", "other"}
(* node i >= 2 continues the pre-order: an attribute follows its element or a sibling attribute; a child's  *)
(* parent is the previous node (not an attribute) or one of its ancestors                                   *)
RECURSIVE AncOrSelf(_, _)
AncOrSelf(T, i) == IF i = 0 THEN {} ELSE {i} \cup AncOrSelf(T, T.parent[i])
WellFormed(T) ==
  /\ T.kind[1] = "root" /\ T.parent[1] = 0
  /\ \A i \in 2..T.n :
       LET q == i - 1  base == IF T.kind[q] = "attr" THEN T.parent[q] ELSE q IN
       /\ T.kind[i] \in Kinds
       /\ T.parent[i] \in 1..(i - 1)
       /\ IF T.kind[i] = "attr"
          THEN T.kind[T.parent[i]] = "elem" /\ (T.parent[i] = q \/ (T.kind[q] = "attr" /\ T.parent[q] = T.parent[i]))
          ELSE T.parent[i] \in AncOrSelf(T, base) /\ T.kind[T.parent[i]] \in {"root", "elem"}
Extend(T) == {T2 \in {[n |-> T.n + 1, kind |-> Append(T.kind, k), parent |-> Append(T.parent, p)] : k \in Kinds, p \in 1..T.n} : WellFormed(T2)}
RECURSIVE TreesOf(_)
TreesOf(n) == IF n = 1 THEN {[n |-> 1, kind |-> <<"root">>, parent |-> <<0>>]} ELSE UNION {Extend(T) : T \in TreesOf(n - 1)}
Trees == UNION {TreesOf(n) : n \in 1..N}

Doc2 == [n |-> 4, kind |-> <<"root", "elem", "attr", "other">>, parent |-> <<0, 1, 2, 2>>]

UsePool(T) == { [i \in 1..T.n |-> <<"a">>],
                [i \in 1..T.n |-> IF i % 2 = 0 THEN <<"a">> ELSE <<"b">>],
                [i \in 1..T.n |-> <<"a", "b">>],
                [i \in 1..T.n |-> IF i % 3 = 0 THEN <<>> ELSE <<"b", "b">>],
                [i \in 1..T.n |-> IF i % 2 = 0 THEN <<"">> ELSE <<"a", "">>] }
Elems(T) == {i \in 1..T.n : T.kind[i] = "elem"}
Second(T) == { <<>>,
               <<[name |-> "k", match |-> <<1..T.n, 1..Doc2.n>>, use |-> <<[i \in 1..T.n |-> IF i % 2 = 0 THEN <<"a">> ELSE <<"b">>], [i \in 1..Doc2.n |-> <<"b">>]>>]>>,
               <<[name |-> "j", match |-> <<Elems(T), Elems(Doc2)>>, use |-> <<[i \in 1..T.n |-> <<"a">>], [i \in 1..Doc2.n |-> <<"a">>]>>]>>,
               <<[name |-> "j", match |-> <<{}, {}>>, use |-> <<[i \in 1..T.n |-> <<"a">>], [i \in 1..Doc2.n |-> <<"a">>]>>]>> }

Init == /\ \E T \in Trees : \E m \in SUBSET (1..T.n) : \E u \in UsePool(T) : \E s \in Second(T) :
             /\ docs = <<T, Doc2>>
             /\ decls = <<[name |-> "k", match |-> <<m, {2, 3}>>, use |-> <<u, [i \in 1..Doc2.n |-> <<"a", "b">>]>>]>> \o s
        /\ tables = <<NotBuilt, NotBuilt>>

Names == {"k", "j", "z"}
Refs == {<<>>, <<"a">>, <<"b">>, <<"">>, <<"c">>, <<"a", "b">>, <<"b", "a">>, <<"a", "a">>, <<"c", "b", "">>}
Call(d, name, refs) == KeyCall(tables, docs, decls, d, name, refs)
(* only the first call with a non-empty argument in a document changes the state (Refines looks at every call in every state) *)
Next == \E d \in 1..2, refs \in {<<>>, <<"a">>} : tables' = Call(d, "k", refs).tables /\ UNCHANGED <<docs, decls>>
Spec == Init /\ [][Next]_vars

Declared(name) == \E k \in 1..Len(decls) : decls[k].name = name
WalkOk == \A d \in 1..2 : Walk(docs[d]) = [i \in 1..docs[d].n |-> i]
Refines == \A d \in 1..2, name \in Names, refs \in Refs :
             LET r == Call(d, name, refs).r IN
             IF Declared(name) THEN r = Def(docs, decls, d, name, refs)
             ELSE r = Unknown \/ (refs = <<>> /\ r = <<>>)
Lazy == \A d \in 1..2 : IF tables[d].built THEN tables[d].tab = Build(docs, decls, d) ELSE tables[d] = NotBuilt
LazyStep == [][\A d \in 1..2 : tables[d].built => tables'[d] = tables[d]]_vars

(* ---- export: one document per walk-branch signature ------------------------------------------------------ *)
(* signature of a shape: per node kind, how the walk left it (first child / sibling / climbed k levels / end)  *)
RECURSIVE ClimbDepth(_, _, _)
ClimbDepth(T, start, pos) ==
  IF start = pos THEN 0
  ELSE IF NextSibling(T, pos) # Null THEN 0
  ELSE LET p == T.parent[pos] IN IF p = start \/ p = 0 THEN 1 ELSE 1 + ClimbDepth(T, start, p)
Leave(T, i) == IF FirstChild(T, i) # Null THEN <<"child">>
               ELSE IF i = 1 THEN <<"end-at-start">>
               ELSE IF NextSibling(T, i) # Null THEN <<"sibling">>
               ELSE <<"climb", ClimbDepth(T, 1, i), NextPos(T, 1, i) # Null>>
(* shapes that are XML documents: exactly one element child of the root *)
IsXmlShape(T) == Cardinality({i \in 1..T.n : T.parent[i] = 1 /\ T.kind[i] = "elem"}) = 1
InitShapes == /\ \E T \in {X \in Trees : IsXmlShape(X)} : docs = <<T, Doc2>>
              /\ decls = <<>> /\ tables = <<NotBuilt, NotBuilt>>
SpecShapes == InitShapes /\ [][FALSE]_vars
Signature(T) == {<<T.kind[i], Cardinality(AttrsOf(T, i)), Leave(T, i)>> : i \in {j \in 1..T.n : T.kind[j] # "attr"}}
ShapeView == Signature(docs[1])          \* VIEW: TLC keeps one document per signature
=============================================================================
