SPECIFICATION Spec
CONSTANTS
  Threads = {t1, t2}
  SourceKind = "native"
  HasIds = TRUE
  PrebuiltWrapper = TRUE
  PoolLocked = TRUE
  StaticScratch = TRUE
  MaxRuns = 1
INVARIANT RaceFree
