SPECIFICATION Spec
CONSTANT MaxNum = 5000
INVARIANT Inv
