------------------------------ MODULE MC_Vector ------------------------------
(* Bounded model: every history of <= MaxHist operations on one XalanVector (values 1..NVals,       *)
(* length <= MaxLen), VectorImpl as the transition function, Containers!VecApply as the property.   *)
(* Second operands (ranges, right-hand sides, swap partners) are literal sequences in the operation; *)
(* value arguments may be references to the vector's own elements (the ...Self operations).           *)
(* `hist` + VIEW + `tlc -dump` export one shortest history per (pre-state, operation).               *)
EXTENDS VectorImpl, TLC

CONSTANTS NVals, MaxLen, MaxHist, MaxSrc, MaxCap
VARIABLES v, prev, res, other, tags, hist, fin

Vals == 1..NVals
vars == <<v, prev, res, other, tags, hist, fin>>
LastOp == IF hist = <<>> THEN [op |-> "init"] ELSE hist[Len(hist)]
(* Exploration: a step either ADVANCES (fin' = FALSE: the successor is identified by the object     *)
(* state and the depth only, and is expanded further) or FINISHES (fin' = TRUE: the successor keeps   *)
(* the pre-state and the operation in its identity and is a leaf).  So every transition (pre-state,   *)
(* operation) of the implementation-shaped graph is generated, checked and exported once, while the   *)
(* search itself runs over the distinct object states.  The depth in the view keeps the set of         *)
(* explored states exact for any number of workers.                                                    *)
View == IF fin THEN <<v, prev, LastOp, TRUE>> ELSE <<v, Len(hist), FALSE>>

Srcs == UNION {[1..n -> Vals] : n \in 0..MaxSrc}
Pos == 0..MaxLen
Cnt == 0..2

Ops == [op : {"pushBack"}, v : Vals]
       \cup [op : {"pushBackSelf"}, i : Pos]
       \cup [op : {"popBack", "clear", "selfAssign", "copy"}]
       \cup [op : {"insert"}, pos : Pos, v : Vals]
       \cup [op : {"insertN"}, pos : Pos, n : Cnt, v : Vals]
       \cup [op : {"insertRange"}, pos : Pos, src : Srcs]
       \cup [op : {"insertSelf"}, pos : Pos, n : 1..2, i : Pos]
       \cup [op : {"erase"}, pos : Pos]
       \cup [op : {"eraseRange"}, first : Pos, last : Pos]
       \cup [op : {"resize", "reserve"}, n : 0..MaxCap]
       \cup [op : {"resizeV"}, n : 0..MaxLen, v : Vals]
       \cup [op : {"resizeSelf"}, n : 0..MaxLen, i : Pos]
       \cup [op : {"swap", "assign", "assignRange", "cmp"}, src : Srcs]
       \cup [op : {"at"}, i : 0..MaxLen]

Init == v = NewVec(0) /\ prev = NewVec(0) /\ res = 0 /\ other = <<>> /\ tags = {} /\ hist = <<>> /\ fin = FALSE

(* branches worth seeing in the exported histories *)
TagsOf(V, op, V2) ==
  (IF V2.alloc # V.alloc /\ V.alloc > 0 THEN {"realloc"} ELSE {})
  \cup (IF op.op \in {"insert", "insertN", "insertRange", "insertSelf"} /\ op.pos < V.size /\ V2.alloc = V.alloc /\ V2.size > V.size
        THEN {"insertInPlace"} ELSE {})
  \cup (IF op.op \in {"erase", "eraseRange"} /\ V2.size < V.size /\ V2.size > 0 THEN {"eraseShift"} ELSE {})
  \cup (IF op.op = "assign" /\ V.alloc >= Len(op.src) /\ V.alloc > 0 THEN {"assignInPlace"} ELSE {})
  \cup (IF RepairedPath(V, op) THEN {"repaired"} ELSE {})        \* runs through code repaired by a fix: commit
  \cup (IF V2.uaf THEN {"uaf"} ELSE {})

Do(op) ==
  /\ VecApply(Elems(v), op).ok
  /\ (op.op = "resize" => op.n <= MaxLen) /\ (op.op \in {"resize", "resizeV", "resizeSelf"} => op.n # v.size)
  /\ (op.op = "reserve" => op.n > v.alloc)
  /\ LET r == ImplApply(v, op) IN
       /\ v' = r.v /\ res' = r.res /\ other' = r.other /\ tags' = TagsOf(v, op, r.v)
  /\ prev' = v
  /\ hist' = Append(hist, op)

Next == /\ ~fin /\ Len(hist) < MaxHist
        /\ \E op \in Ops : /\ Do(op)
                            /\ \/ fin' = TRUE
                               \/ fin' = FALSE /\ Len(hist) + 1 < MaxHist /\ v'.size <= MaxLen
Spec == Init /\ [][Next]_vars
GenSpec == Spec                                 \* (no known deviation is left to be generated separately)

(* random long histories (tlc -simulate): only advancing steps *)
SimNext == ~fin /\ Len(hist) < MaxHist /\ \E op \in Ops : Do(op) /\ fin' = FALSE /\ v'.size <= MaxLen
SimSpec == Init /\ [][SimNext]_vars

(* ---- properties ---------------------------------------------------------------------------- *)
StepRefines ==
  LET op == hist'[Len(hist')]
      a == VecApply(Elems(prev'), op)
  IN /\ a.ok
     /\ Elems(v') = a.st
     /\ res' = a.res
     /\ VecOtherOK(Elems(prev'), op, other')
     /\ (op.op = "reserve" => v'.alloc >= op.n)
     /\ ~v'.uaf
Refinement == [][StepRefines]_vars              \* no exclusions: every transition of the transcribed algorithm

WellFormedInv == WellFormed(v)
=============================================================================
