----------------------------- MODULE MC_Numeral -----------------------------
(* Bounded models for Numeral.tla (C18).  One variable x, three specifications:                   *)
(*   StrSpec  every string of length <= MaxLen over the class alphabet (two digits, '.', '-',     *)
(*            '+', 'e', space, other): the DFA IsNumber accepts exactly the declaratively          *)
(*            written grammar; Canon of an accepted string is in the output grammar, is itself     *)
(*            a number, and is a fixed point.  `tlc -dump` of this run is also the string          *)
(*            generator of the conformance harness.                                               *)
(*   NumSpec  every numeral with <= 4 digits over {0,1,4,5,6,9}, scale -1..4, both signs: the      *)
(*            digit-sequence algorithms (Canon, Round/Floor/Ceiling, the binary expansion and the   *)
(*            IEEE encoding) agree with independent definitions in TLC integer arithmetic on the   *)
(*            value scaled by 10^4.                                                               *)
(*   GenSpec  enumerates the numerals of the conformance run: 1..MaxSig significant digits from    *)
(*            {0,1,5,9} x decimal exponent of the leading digit -LowE..MaxE x sign.                *)
EXTENDS Numeral, TLC

CONSTANTS MaxLen, MaxSig, LowE, MaxE      \* exponents -LowE..MaxE (a cfg file cannot say -45)
VARIABLE x

Alphabet == {48, 55, 46, 45, 43, 101, 32, 120}

(* ---- strings -------------------------------------------------------------------------------- *)
StrInit == x = [k |-> "str", s |-> <<>>]
StrNext == /\ Len(x.s) < MaxLen
           /\ \E c \in Alphabet : x' = [x EXCEPT !.s = Append(@, c)]
StrSpec == StrInit /\ [][StrNext]_x

DfaIsGrammar == IsNumber(x.s) = InGrammar(x.s)
CanonOfString ==
  IsNumber(x.s) =>
    LET c == CanonStr(x.s) IN
    /\ OutputGrammar(c) /\ OutNumeral(c)
    /\ IsNumber(c)
    /\ CanonStr(c) = c
    /\ SnExpect(x.s).k = "exact" /\ SnExpect(x.s).str = c
NonNumbersAreNaN == ~IsNumber(x.s) => SnExpect(x.s).str = StrNaN
(* the grammar of results: no string with these characters is a result unless it is canonical *)
OutputGrammarIsCanonical == OutNumeral(x.s) => (IsNumber(x.s) /\ CanonStr(x.s) = x.s)

(* ---- small numerals ------------------------------------------------------------------------- *)
Dig == {0, 1, 4, 5, 6, 9}
SmallNumerals == {[neg |-> ng, ds |-> d, sc |-> sc] :
                    ng \in BOOLEAN, d \in UNION {[1..k -> Dig] : k \in 1..4}, sc \in -1..4}
NumInit == x \in {[k |-> "num", n |-> n] : n \in SmallNumerals}
NumSpec == NumInit /\ [][UNCHANGED x]_x

S == 10000
RECURSIVE Pow(_, _)
Pow(b, k) == IF k = 0 THEN 1 ELSE b * Pow(b, k - 1)
RECURSIVE DigitsVal(_, _)
DigitsVal(d, j) == IF j = 0 THEN 0 ELSE 10 * DigitsVal(d, j - 1) + d[j]
IntOf(d) == DigitsVal(d, Len(d))
(* |value| * 10^4 and the signed value * 10^4, by integer arithmetic *)
AbsV(n) == IntOf(n.ds) * Pow(10, 4 - n.sc)
V(n)    == IF n.neg THEN -AbsV(n) ELSE AbsV(n)

(* the canonical string rendered from the integer value (independent of Norm/CanonN) *)
RECURSIVE IntDigits(_)
IntDigits(v) == IF v < 10 THEN <<v>> ELSE Append(IntDigits(v \div 10), v % 10)
RECURSIVE FracDigits(_, _)
FracDigits(f, k) == IF f = 0 THEN <<>> ELSE <<f \div Pow(10, k - 1)>> \o FracDigits(f % Pow(10, k - 1), k - 1)
Render(v) ==
  IF v = 0 THEN <<48>>
  ELSE LET a == IF v < 0 THEN -v ELSE v
           fd == FracDigits(a % S, 4)
       IN (IF v < 0 THEN <<45>> ELSE <<>>) \o Chars(IntDigits(a \div S))
          \o (IF fd = <<>> THEN <<>> ELSE <<46>> \o Chars(fd))

CanonIsTheValue ==
  LET c == Canon(x.n) IN
  /\ c = Render(V(x.n))
  /\ OutputGrammar(c) /\ IsNumber(c) /\ CanonStr(c) = c
  /\ V(Parse(c)) = V(x.n)

SignedInt(r) == IF r.neg THEN -IntOf(r.ip) ELSE IntOf(r.ip)
RoundingLaws ==
  LET m == Norm(x.n)
      v == V(x.n)
      f == SignedInt(FloorN(m))
      c == SignedInt(CeilN(m))
      r == SignedInt(RoundN(m))
  IN /\ f * S <= v /\ v < (f + 1) * S                      \* the largest integer not above v
     /\ (c - 1) * S < v /\ v <= c * S                      \* the smallest integer not below v
     /\ r * S <= v + S \div 2 /\ v + S \div 2 < (r + 1) * S \* round(v) = floor(v + 0.5)
     /\ (c - f) \in {0, 1} /\ r \in {f, c}
     \* negative zero exactly for -0.5 <= v < 0 (and for the numeral "-0")
     /\ ((RoundN(m).ip = <<>> /\ RoundN(m).neg) <=> (x.n.neg /\ v >= -(S \div 2)))
     /\ (~x.n.neg => (~RoundN(m).neg /\ ~FloorN(m).neg /\ ~CeilN(m).neg))
     /\ IsIntString(IntString(FloorN(m))) /\ IsIntString(IntString(CeilN(m))) /\ IsIntString(IntString(RoundN(m)))

(* value < 10^5 with a 4-digit fraction: it is a double iff 16 * fraction is an integer (21 bits), *)
(* and then the encoding decodes to the value                                                      *)
BinaryLaws ==
  LET m  == Norm(x.n)
      a  == AbsV(x.n)
      n16 == (a \div S) * 16 + ((a % S) * 16) \div S       \* |value| * 16 when that is an integer
  IN /\ IsExactDouble(m) <=> (a # 0 /\ ((a % S) * 16) % S = 0)
     /\ IsExactDouble(m) =>
          LET w  == BitsOf(m)
              e2 == BExp(w) - 1023
              sg == 1048576 + (w[1] % 16) * 65536 + w[2]    \* leading 21 bits of the significand
          IN /\ WellFormedBits(w) /\ BSign(w) = x.n.neg /\ w[3] = 0 /\ w[4] = 0
             /\ e2 <= 16 /\ e2 >= -4
             /\ n16 * Pow(2, 16 - e2) = sg
             /\ ~BIsNaN(w) /\ ~BIsInf(w) /\ ~BIsZero(w)

(* the limb-wise binary expansion of a fraction equals the digit-wise definition (first 24 bits);    *)
(* the fractions are the numeral's digits repeated three times, so that carries cross limb borders  *)
LimbLaw ==
  (x.n.sc = 0 /\ ~x.n.neg) =>            \* (once per digit sequence)
    LET d == x.n.ds \o x.n.ds \o <<9, 9, 9, 9, 9>> \o x.n.ds IN
    FracBitsR(d, 24, <<>>) = FracBitsRef(d, 24, <<>>)

RoundSigLaw ==       \* rounding an integer to 2 significant digits, against integer arithmetic
  LET m == Norm(x.n) IN
  (IsIntN(m) /\ ~IsZeroN(m)) =>
     LET v == IntOf(m.ip)
         u == Pow(10, IF Len(m.ip) > 2 THEN Len(m.ip) - 2 ELSE 0)
     IN IntOf(RoundSigInt(m.ip, 2)) = ((v + u \div 2) \div u) * u

(* ---- generator -------------------------------------------------------------------------------- *)
GDig == {0, 1, 5, 9}
SigSeqs == {d \in UNION {[1..k -> GDig] : k \in 1..MaxSig} : d[1] # 0 /\ d[Len(d)] # 0}
GenInit == x \in {[k |-> "gen", neg |-> ng, ds |-> d, e |-> e] : ng \in BOOLEAN, d \in SigSeqs, e \in -LowE..MaxE}
GenSpec == GenInit /\ [][UNCHANGED x]_x
(* the generated numeral as a Numeral record: leading digit at 10^e *)
GenNumeral == [neg |-> x.neg, ds |-> x.ds, sc |-> Len(x.ds) - 1 - x.e]
GenSane == LET m == Norm(GenNumeral) IN Mag(m) = x.e /\ SigDigits(m) = Len(x.ds) /\ InNormalRange(m)
=============================================================================
