--------------------------- MODULE MC_ApiProtocol ---------------------------
(* Bounded model around ApiProtocol.tla.  Two jobs:                                                          *)
(* 1. Guard the trace specification against vacuity.  The environment may produce ANY event sequence over a    *)
(*    small alphabet (calls on a valid / an invalid / an open class, returns with every status and message     *)
(*    flag, good and stale probes, leak checks, Abort, normal and abnormal Exit).  The step-wise acceptor      *)
(*    ApiProtocol!Ev_Enabled / Ev_Do (the one Trace_C03 runs) must accept exactly the sequences that have       *)
(*    P1-P4 as a property of the whole sequence (Good, written independently below) - invariant               *)
(*    AcceptorIsContract.  POSTCONDITION Covered: a Return with non-zero status was accepted, a Probe after    *)
(*    a failure was accepted, a complete execution was accepted, and every kind of violation was refused.      *)
(* 2. ENUMERATE the input classes: Cases is the set of case descriptors (class, role, kind, seed, i, d, v);    *)
(*    the check exports it (ExportCases) and tools/c03gen.py renders each descriptor to bytes.  The index      *)
(*    ranges come from the measured seeds ($C03_SEEDS: length, tags, attribute values, xsl: elements).         *)
(* Recursive templates / variables that do not terminate are PROGRAMS, not malformed input: excluded.          *)
EXTENDS ApiProtocol, TLC, Json, IOUtils, SequencesExt
CONSTANTS MaxLen
VARIABLES tr, s, ok

M == TLCGet(2)                       \* seed name -> [role, len, tags, starts, quotes, xslElems, xslInstr (, closers, openers)]
SeedsOf(r) == {n \in DOMAIN M : M[n].role = r}
DocSeeds  == SeedsOf("xml") \cup SeedsOf("xsl")

Case(cls, role, kind, seed, i, d, v) == [cls |-> cls, role |-> role, kind |-> kind, seed |-> seed, i |-> i, d |-> d, v |-> v]

CharVariants ==
  [illegalChar   |-> {"raw01", "raw0B", "raw1F", "ref1", "ref8"},
   brokenUtf8    |-> {"lone80", "overlongC0AF", "cutE282", "leadF8", "ff", "cutF09F"},
   loneSurrogate |-> {"rawHigh", "rawLow", "refD800", "refDFFF"},
   fffe          |-> {"rawFFFE", "rawFFFF", "refFFFE", "refFFFF"},
   nul           |-> {"raw", "ref0"}]
XmlEncodings == {"x-no-such-encoding", "UTF-99", "ebcdic-xx-yy", "utf 8"}
XmlVersions == {"1.01.01.0", "2.0", "1.", "x", "1.1", "1.7", "01.0", "-1.0", "1.0.0"}      \* the version of the XML declaration (the DOM builder and the SAX parser treat it differently)
WrongNs == {"http://www.w3.org/1999/XSL/Transform/", "http://www.w3.org/1999/XSL/transform", "http://www.w3.org/TR/WD-xsl", "urn:x",
            "http://www.w3.org/1999/XSL/Transform "}
UnknownElem == {"top", "body", "choose", "v2instruction", "v2top", "insideValueOf"}
Required == {"template:match", "value-of:select", "for-each:select", "if:test", "when:test", "with-param:name", "param:name", "variable:name",
             "key:name", "key:match", "key:use", "element:name", "attribute:name", "processing-instruction:name", "call-template:name",
             "copy-of:select", "import:href", "include:href", "namespace-alias:stylesheet-prefix", "attribute-set:name", "strip-space:elements",
             "preserve-space:elements", "stylesheet:version", "apply-imports:inTemplate"}
AvtBad == {"{", "}", "{{}", "{x", "x}", "a{1}}", "{'}", "{{{", "}{", "{1}{", "{concat('a','b'}"}
OutEncodings == {"x-no-such-encoding", "UTF-99", "", "utf 8", "EBCDIC-CP-ZZ"}
DeepV == [deepDocument |-> {"elements", "mixed", "attrs"}, deepTemplateBody |-> {"lre", "if", "forEach", "element", "variable"},
          deepParens |-> {"parens", "calls", "unaryMinus"}, deepPredicates |-> {"nested", "chained", "filter"},
          deepSteps |-> {"child", "descendant", "parent", "union", "or", "plus", "attrPred"}]
DeepRole(c) == IF c = "deepDocument" THEN "xml" ELSE IF c = "deepTemplateBody" THEN "xsl" ELSE "xpath"
(* magnitude classes of number literals: around the 101-byte conversion buffer (1e89 * 10), around 2^63 / 2^64 (integer  *)
(* fast paths), the largest doubles and the overflow to Infinity (1e308 digits, 400-digit numerals), denormals and       *)
(* underflow (1e-320, 1e-400), beyond the widest printf format (1e-36), long fractions                                    *)
Magnitudes == {"1e89", "1e90", "1e100", "2p63m1", "2p63", "2p64", "1e19", "1e21", "1e22", "1e308", "max", "1e309", "1em320", "1em400",
               "1em36", "int400", "frac400", "big.frac", "2p53p1", "half"}
FiniteBig == {"1e89", "1e90", "1e100", "2p63m1", "2p63", "2p64", "1e19", "1e21", "1e22", "1e308", "max", "2p53p1"}
NumContexts == {"plain", "string", "neg", "times10", "cmp", "floor", "round", "substring", "concat", "sum", "div", "pred", "strlen", "bool"}
NumPatterns == 0..7
NumFormats == 0..21
LongXml == {"elementName", "attributeName", "piTarget", "prefix", "attributeValue", "nsUri", "entityName", "comment"}
LongXsl == {"lreName", "variableName", "templateName", "modeName", "keyName", "elementAvt", "paramName", "attributeSetName", "piName", "lreAttr"}
LongXPath == {"nameTest", "prefixTest", "variableRef", "literal", "attrTest", "piLiteral"}
CdataLen == {1, 2, 3, 1022, 1023, 1024, 1025, 2047, 2048, 4096, 5000}
CdataTail == 0..5
CdataVia == {"literal", "valueOf", "copyOf", "text"}
Dangling == {"+", "-", "*", "and", "or", "=", "!=", "<", "|", "/", "//", "div", "mod", ",", "::", "@", "$", "(", "["}
Leading == {"=", "!=", "<", "|", ",", ")", "]", "div 2 div"}
Junk == {"#", "%", "^", "{", "}", "~", "`", ";", "\\", "?", "1a", "'", "\"", "!", "&"}
DoubleOps == {"=", "!=", "<", "|", "div", "mod", "and", "or", ","}
UndefVars == {"$x", "$x + 1", "count($x)", "//item[@n = $x]", "$p:x"}
NParamExprs == 14
NXPathOdd == 8

Cases ==
  LET PerDoc(F(_)) == UNION {F(n) : n \in DocSeeds}
      R(n) == M[n].role
  IN
     {Case("seed", M[n].role, "", n, 0, 0, "") : n \in DOMAIN M}
   \cup PerDoc(LAMBDA n : {Case("truncate", R(n), "", n, i, 0, "") : i \in 1..(M[n].len - 1)})
   \cup PerDoc(LAMBDA n : {Case(c, R(n), "", n, i, 0, "") : c \in {"dropTag", "dupTag"}, i \in 1..M[n].tags})
   \cup PerDoc(LAMBDA n : {Case("swapTag", R(n), "", n, i, 0, "") : i \in 1..(M[n].tags - 1)})
   \cup PerDoc(LAMBDA n : {Case("unclosedQuote", R(n), "", n, i, 0, "") : i \in 1..M[n].quotes})
   \cup UNION {PerDoc(LAMBDA n : {Case(c, R(n), "text", n, i, 0, v) : i \in 1..M[n].starts, v \in CharVariants[c]}) : c \in DOMAIN CharVariants}
   \cup UNION {PerDoc(LAMBDA n : {Case(c, R(n), "attr", n, i, 0, v) : i \in 1..M[n].quotes, v \in CharVariants[c]}) : c \in DOMAIN CharVariants}
   \cup PerDoc(LAMBDA n : {Case("unknownXmlEncoding", R(n), "", n, 0, 0, v) : v \in XmlEncodings})
   \cup PerDoc(LAMBDA n : {Case("xmlDeclVersion", R(n), "", n, 0, 0, v) : v \in XmlVersions})
   \cup {Case("wrongXslNamespaceRoot", "xsl", "", n, 0, 0, v) : n \in SeedsOf("xsl"), v \in WrongNs}
   \cup UNION {{Case("wrongXslNamespaceInner", "xsl", "", n, i, 0, "") : i \in 1..M[n].xslInstr} : n \in SeedsOf("xsl")}
   \cup UNION {{Case("unknownXslAttribute", "xsl", "", n, i, 0, "") : i \in 1..M[n].xslElems} : n \in SeedsOf("xsl")}
   \cup {Case("unknownXslElement", "xsl", "", "", 0, 0, v) : v \in UnknownElem}
   \cup {Case("missingRequiredAttribute", "xsl", "", "", 0, 0, v) : v \in Required}
   \cup {Case("avtUnbalanced", "xsl", "", "", 0, 0, v) : v \in AvtBad}
   \cup {Case("unknownOutputEncoding", "xsl", "", "", 0, 0, v) : v \in OutEncodings}
   \cup UNION {{Case(c, DeepRole(c), "", "", 0, d, v) : d \in Depths, v \in DeepV[c]} : c \in DOMAIN DeepV}
   \cup {Case("numberLiteral", "xpath", "", "", 0, 0, m \o "/" \o x) : m \in Magnitudes, x \in NumContexts}
   \cup {Case("numberFormat", "xsl", "", "", 0, 0, m \o "/" \o ToString(k)) : m \in Magnitudes, k \in NumPatterns}
   \cup {Case("numberValue", "xsl", "", "", 0, 0, m \o "/" \o ToString(k)) : m \in FiniteBig, k \in NumFormats}
   \cup {Case("longName", "xml", "", "", 0, 0, v) : v \in LongXml}
   \cup {Case("longName", "xsl", "", "", 0, 0, v) : v \in LongXsl}
   \cup {Case("longName", "xpath", "", "", 0, 0, v) : v \in LongXPath}
   \cup {Case("manyDecimalFormats", "xsl", "", "", n, 0, "") : n \in {1, 9, 10, 11, 12, 23}}      \* around the size of a formatter cache
   \cup {Case("manyDefaultCounts", "xsl", "", "", n, 0, "") : n \in {1, 24, 25, 26, 49, 50, 51, 52, 120}}   \* around the size of a run-time pattern cache
   \cup {Case("manyLiveStrings", "xsl", "", "", n, 0, v) : n \in {50, 99, 100, 101, 102, 103, 150, 400}, v \in {"scope", "recursion"}}   \* around the size of a string-buffer cache
   \cup {Case("dotSegmentHref", "xsl", "", "", i, 0, v) : i \in 1..3, v \in {".inc/common.xsl", ".lookup.xml", "...", "..x", "a/.b/c.xsl", "./.hidden"}}
   \cup {Case("cdataBracket", "xsl", "", "", 0, 0, ToString(n) \o "/" \o ToString(k) \o "/" \o via) : n \in CdataLen, k \in CdataTail, via \in CdataVia}
   \cup {Case("paramExpression", "param", "", "", i, 0, "") : i \in 1..NParamExprs}
   \cup UNION {{Case("nonExpression", "xpath", "dropClose", n, i, 0, "") : i \in 1..M[n].closers} : n \in SeedsOf("xpath")}
   \cup UNION {{Case("nonExpression", "xpath", "dropOpen", n, i, 0, "") : i \in 1..M[n].openers} : n \in SeedsOf("xpath")}
   \cup {Case("nonExpression", "xpath", "dangling", n, 0, 0, v) : n \in SeedsOf("xpath"), v \in Dangling}
   \cup {Case("nonExpression", "xpath", "leading", n, 0, 0, v) : n \in SeedsOf("xpath"), v \in Leading}
   \cup {Case("nonExpression", "xpath", "junk", n, 0, 0, v) : n \in SeedsOf("xpath"), v \in Junk}
   \cup {Case("nonExpression", "xpath", "unterminated", n, 0, 0, "") : n \in SeedsOf("xpath")}
   \cup {Case("nonExpression", "xpath", "doubleOp", "", 0, 0, v) : v \in DoubleOps}
   \cup {Case("nonExpression", "xpath", k, "", 0, 0, "") : k \in {"badAxis", "unknownFunction"}}
   \cup {Case("nonExpression", "xpath", "empty", "", 0, 0, ToString(k)) : k \in 0..12}
   \cup {Case("xpathIllegalChar", "xpath", "", "", i, 0, "") : i \in 1..NXPathOdd}
   \cup {Case("undefinedVariable", r, "", "", 0, 0, v) : r \in {"param", "xpath"}, v \in UndefVars}

(* every case has a class the protocol knows, and every class except the fuzzer's has cases *)
CasesSound == /\ \A c \in Cases : c.cls \in Classes
              /\ \A k \in Classes \ {"fuzz"} : \E c \in Cases : c.cls = k

(* ------------------------------------------------------------------------------ the vacuity guard *)
MOps(h) == IF h = "T" THEN {"transformStream", "setStylesheetParam", "clearStylesheetParams"} ELSE {"XalanCreateXPath"}
MClasses == {"seed", "truncate", "fuzz", "undefinedVariable"}          \* must succeed, must fail, open, fails when evaluated
MH == {"T", "X"}
Alphabet ==
       {[e |-> "Call", h |-> h, op |-> o, cls |-> c, d |-> 0] : h \in MH, o \in MOps("T") \cup MOps("X"), c \in MClasses}
  \cup {[e |-> "Return", h |-> h, op |-> o, status |-> x, msgEmpty |-> b] : h \in MH, o \in MOps("T") \cup MOps("X"), x \in {0, 0 - 1}, b \in BOOLEAN}
  \cup UNION {{[e |-> "Probe", h |-> h, status |-> x, out |-> o] : x \in {0, 0 - 1}, o \in {ProbeExpected(h), "stale"}} : h \in MH}
  \cup {[e |-> "LeakCheck", clean |-> b] : b \in BOOLEAN}
  \cup {[e |-> "Abort", why |-> "SIGSEGV"]}
  \cup {[e |-> "Exit", normal |-> b] : b \in BOOLEAN}

(* P1-P4 as a property of a whole finite sequence *)
PendingParam(t, i, h) ==
  \E j \in 1..(i - 1) : /\ t[j].e = "Return" /\ t[j].h = h /\ SetsParam(t[j].op)
                        /\ ~\E k \in (j + 1)..(i - 1) : t[k].e = "Return" /\ t[k].h = h /\ ClearsParam(t[k].op)
Good(t) ==
  \A i \in 1..Len(t) :
    LET e == t[i]
        afterCall == i > 1 /\ t[i - 1].e = "Call" IN
    /\ e.e # "Abort"                                                                                   \* P1
    /\ (i > 1 => t[i - 1].e # "Exit")                                                                  \* nothing after the end
    /\ (e.e = "Call" => ~afterCall /\ e.op \in OpsOf(e.h) /\ e.cls \in Classes)
    /\ (e.e # "Return" => ~afterCall)                                                                  \* P1: only its Return follows a Call
    /\ (e.e = "Return" =>
          /\ afterCall /\ t[i - 1].h = e.h /\ t[i - 1].op = e.op
          /\ (e.op \in DeferredOps => e.status = 0)
          /\ (e.op \notin DeferredOps /\ Verdict(t[i - 1].cls, t[i - 1].d) = "valid" => e.status = 0)          \* P3
          /\ (e.op \notin DeferredOps /\ Verdict(t[i - 1].cls, t[i - 1].d) = "invalid"
                 /\ ~(t[i - 1].cls \in DynamicErrorClasses /\ e.op \in CompileOps) => e.status # 0)
          /\ (e.status # 0 /\ HasMessageChannel(e.h) => ~e.msgEmpty))                                          \* P2
    /\ (e.e = "Probe" => e.status = 0 /\ e.out = ProbeExpected(e.h) /\ ~PendingParam(t, i, e.h))               \* P4
    /\ (e.e = "LeakCheck" => e.clean)
    /\ (e.e = "Exit" => e.normal)

Bump(k) == TLCSet(k, TLCGet(k) + 1)
Note(st, e, accepted) ==
  /\ (accepted /\ e.e = "Return" /\ e.status # 0 => Bump(10))
  /\ (accepted /\ e.e = "Probe" /\ st.failed => Bump(11))
  /\ (accepted /\ e.e = "Exit" /\ st.calls > 0 => Bump(12))
  /\ (~accepted /\ e.e = "Abort" => Bump(13))
  /\ (~accepted /\ e.e = "Exit" /\ st.phase = "InCall" => Bump(14))
  /\ (~accepted /\ e.e = "Return" /\ Return_Matches(st, e.h, e.op) /\ ~StatusFits(st, e.status) /\ e.status = 0 => Bump(15))
  /\ (~accepted /\ e.e = "Return" /\ Return_Matches(st, e.h, e.op) /\ ~StatusFits(st, e.status) /\ e.status # 0 => Bump(16))
  /\ (~accepted /\ e.e = "Return" /\ Return_Matches(st, e.h, e.op) /\ StatusFits(st, e.status) => Bump(17))
  /\ (~accepted /\ e.e = "Probe" /\ Probe_Possible(st, e.h) => Bump(18))
  /\ (~accepted /\ e.e = "LeakCheck" /\ st.phase = "Idle" => Bump(19))
  /\ (~accepted /\ e.e = "Exit" /\ st.phase = "Idle" => Bump(20))

Init == /\ TLCSet(2, JsonDeserialize(IOEnv.C03_SEEDS))
        /\ \A k \in 10..20 : TLCSet(k, 0)
        /\ tr = <<>> /\ s = Idle0 /\ ok = TRUE

Next == /\ ok /\ Len(tr) < MaxLen /\ s.phase # "Exited"
        /\ \E e \in Alphabet :
             LET a == Ev_Enabled(s, e) IN
             /\ Note(s, e, a)
             /\ tr' = Append(tr, e)
             /\ ok' = a
             /\ s' = IF a THEN Ev_Do(s, e) ELSE s

Spec == Init /\ [][Next]_<<tr, s, ok>>

AcceptorIsContract == ok <=> Good(tr)
TypeOK == s.phase \in {"Idle", "InCall", "Exited"} /\ s.params \subseteq Handles

Covered == \A k \in 10..20 : TLCGet(k) > 0
ExportCases == ndJsonSerialize(IOEnv.C03_CASES, SetToSeq(Cases))
Post == /\ Covered /\ CasesSound /\ ExportCases
=============================================================================
