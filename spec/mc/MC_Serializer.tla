---------------------------- MODULE MC_Serializer ----------------------------
(* Bounded models for C04's character-level rules.                                                     *)
(*   StrSpec  every string of length <= MaxLen over the class alphabet x context x option vector:       *)
(*            SpecSound    - a representable string IS serializable: the reference serializer's tokens   *)
(*                           parse back to it (the obligation of Serializer.tla can be met);             *)
(*            ImplConforms - the transcribed escaping rules of FormatterToXMLUnicode (SerializerImpl)    *)
(*                           meet the obligation on every string that triggers no named known deviation; *)
(*            KDsAreReal   - every named deviation does break the obligation on its witness;            *)
(*            LegacyConformsInv - the same for the transcription of the older FormatterToXML (second half   *)
(*                           of SerializerImpl), with its own named deviations.                           *)
(*   TokSpec  every token sequence of length <= MaxLen (literal / reference over the alphabet, CDATA     *)
(*            open / close): whatever parses is representable (Representable is not too strict).         *)
EXTENDS SerializerImpl

CONSTANTS MaxLen, MCEncodings, Alphabet
VARIABLE x

FullAlphabet == {97, LT, AMP, GT, QUOT, APOS, TAB, CR, LF, RSB, NEL, LSEP, 233, 8364, 128512, 55296, 56320, 1, 65534, DASH, QM, 127, 159, SP}
(* the characters that matter in sequences: "]]>", CR LF, a reference-only and an unencodable character *)
SeqAlphabet == {97, RSB, GT, CR, LF, 8364, NEL, TAB}
Opts == {[ver |-> v, enc |-> e] : v \in {V10, V11}, e \in MCEncodings}

StrInit == x \in {[ctx |-> c, o |-> o, s |-> <<>>] : c \in Contexts, o \in Opts}
StrNext == /\ Len(x.s) < MaxLen
           /\ \E c \in Alphabet :
                /\ ~(x.s # <<>> /\ IsHigh(x.s[Len(x.s)]) /\ IsLow(c))        \* that would be one supplementary character
                /\ x' = [x EXCEPT !.s = Append(@, c)]
StrSpec == StrInit /\ [][StrNext]_x

(* the caller's part of the contract for this context *)
Contract(ctx, p) == CASE ctx = "comment" -> CommentShape(Rle(p))
                      [] ctx = "pi" -> PIShape(Rle(p))
                      [] OTHER -> TRUE

SpecSound ==
  RepresentableStr(x.ctx, x.s, x.o) =>
    LET t == RefSer(x.ctx, x.s, x.o) IN Writable(t, x.o.enc) /\ Parse(x.ctx, t, x.o.ver) = x.s

ImplConforms ==
  (Contract(x.ctx, x.s) /\ ~AnyKD(x.ctx, x.s, x.o)) => Conforms(x.ctx, x.s, x.o)

LegacyConformsInv ==
  (Contract(x.ctx, x.s) /\ ~AnyLegacyKD(x.ctx, x.s, x.o)) => LegacyConforms(x.ctx, x.s, x.o)

Latin1 == [ver |-> V10, enc |-> "ISO-8859-1"]
Latin1v11 == [ver |-> V11, enc |-> "ISO-8859-1"]
Utf8 == [ver |-> V10, enc |-> "UTF-8"]
Utf8v11 == [ver |-> V11, enc |-> "UTF-8"]
Utf16 == [ver |-> V10, enc |-> "UTF-16"]
Ascii == [ver |-> V10, enc |-> "US-ASCII"]
Gb == [ver |-> V10, enc |-> "GB18030"]
Gbv11 == [ver |-> V11, enc |-> "GB18030"]
Real(kd(_, _, _), ctx, p, o) == kd(ctx, p, o) /\ ~Conforms(ctx, p, o)
RealL(kd(_, _, _), ctx, p, o) == kd(ctx, p, o) /\ ~LegacyConforms(ctx, p, o)
KDsAreRealDef ==
  /\ Real(KD_rawLineEndInCommentOrPI, "comment", <<97, CR>>, Utf8)
  /\ Real(KD_rawLineEndInCommentOrPI, "pi", <<LSEP>>, Utf8v11)
  /\ RealL(KD_legacyRawLineEndInCommentOrPI, "comment", <<97, CR>>, Utf8)
  /\ RealL(KD_legacyRawLineEndInCommentOrPI, "pi", <<NEL>>, Gbv11)
  /\ RealL(KD_legacyControlRawInCdataCommentPI, "cdata", <<1>>, Utf8)
  /\ RealL(KD_legacyControlRawInCdataCommentPI, "comment", <<97, 159>>, Latin1v11)
  /\ RealL(KD_legacyLoneSurrogateWritten, "text", <<97, 56320>>, Utf8)
  /\ RealL(KD_legacyLoneSurrogateWritten, "attr", <<56320>>, Latin1)
  /\ RealL(KD_legacyNonCharacterWritten, "text", <<65534>>, Utf8)
  /\ RealL(KD_legacyNonCharacterWritten, "cdata", <<65534>>, Latin1)
(* repaired classes stay repaired: the inputs that used to break the obligation now meet it *)
RepairedDef ==
  /\ Conforms("text", <<97, 56320>>, Utf8) /\ Conforms("attr", <<56320>>, Latin1) /\ Conforms("text", <<55296, 97>>, Utf16)
  /\ Conforms("text", <<65534>>, Utf8)
  /\ Conforms("cdata", <<97, CR, 97>>, Utf8) /\ Conforms("cdata", <<NEL>>, Utf8v11) /\ Conforms("cdata", <<CR>>, Utf8v11)
  /\ Conforms("comment", <<8364>>, Latin1) /\ Conforms("pi", <<97, 8364>>, Latin1)
  /\ Conforms("comment", <<TAB>>, Utf8v11) /\ Conforms("cdata", <<97, TAB>>, Latin1v11)
  /\ Conforms("cdata", <<97, 8364>>, Latin1) /\ Conforms("cdata", <<8364, RSB, RSB, GT>>, Latin1)
  /\ Conforms("cdata", <<1>>, Utf8v11) /\ Conforms("cdata", <<97, 159>>, Latin1v11)                   \* xml11RestrictedInCdataElementRejected
  (* the older serializer *)
  /\ LegacyConforms("attr", <<97, TAB, 97>>, Utf8) /\ LegacyConforms("text", <<CR>>, Latin1)          \* legacyXml10WhitespaceRejected
  /\ LegacyConforms("text", <<NEL>>, Utf8) /\ LegacyConforms("attr", <<LSEP>>, Ascii)                  \* legacyXml10NelLsepRejected
  /\ LegacyConforms("text", <<LSEP>>, Utf8v11) /\ LegacyConforms("attr", <<159>>, Latin1v11)           \* legacyXml11RestrictedRawInTextOrAttr
  /\ LegacyConforms("cdata", <<8364, 97>>, Latin1) /\ LegacyConforms("cdata", <<97, 128512>>, Latin1)
  /\ LegacyConforms("cdata", <<8364, RSB, RSB, GT>>, Latin1)                                          \* legacyCdataUnencodableMishandled
  /\ LegacyConforms("cdata", <<97, CR, LF>>, Utf8) /\ LegacyConforms("cdata", <<LSEP>>, Utf8v11)       \* legacyRawLineEndInCdataSection
  /\ LegacyConforms("comment", <<8364>>, Latin1) /\ LegacyConforms("pi", <<128512>>, Ascii)
  /\ LegacyConforms("comment", <<8364>>, Gb) /\ LegacySer("comment", <<8364>>, Gb) = <<Lit(8364)>>    \* legacyCharRefInCommentOrPI
ASSUME KDsAreReal == KDsAreRealDef
ASSUME Repaired == RepairedDef

(* ---- token sequences -------------------------------------------------------------------------------- *)
Tokens == {Lit(c) : c \in Alphabet} \cup {Ref(c) : c \in Alphabet} \cup {CDO, CDC}
TokInit == x \in {[ctx |-> c, o |-> o, s |-> <<>>] : c \in Contexts, o \in Opts}
TokNext == /\ Len(x.s) < MaxLen
           /\ \E t \in Tokens : x' = [x EXCEPT !.s = Append(@, t)]
TokSpec == TokInit /\ [][TokNext]_x
NoPair(p) == \A i \in 1..(Len(p) - 1) : ~(IsHigh(p[i]) /\ IsLow(p[i + 1]))
SpecComplete ==
  LET p == Parse(x.ctx, x.s, x.o.ver) IN
  (p # Bad /\ Writable(x.s, x.o.enc) /\ NoPair(p)) => RepresentableStr(x.ctx, p, x.o)
=============================================================================
