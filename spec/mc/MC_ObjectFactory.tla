-------------------------- MODULE MC_ObjectFactory --------------------------
(* Model-checks ObjectFactoryImpl against ValueObjects for every history of create / ask / return / reset within the bounds:         *)
(*   Honest     : every live object answers each conversion with the standard conversion of the value it was created with - also      *)
(*                when the answer comes out of a cache, also in an object that has had other values before                             *)
(*   CachesSane : no object is cached twice or cached while live                                                                       *)
(* With a seeded switch on, Honest must be violated (the configurations MC_ObjectFactory_keep / _skip expect that).                    *)
(* `hist` (hidden from the VIEW) is the shortest call history reaching each state: exported with -dump and replayed on the real        *)
(* XObjectFactoryDefault (harness/xobj.cpp), whose answers Trace_C11obj judges against ValueObjects alone.                              *)
EXTENDS ObjectFactoryImpl, ObjectTokens, TLC

CONSTANTS MaxLive, MaxHist
VARIABLES F, live, given, hist
vars == <<F, live, given, hist>>

NsVals == {[first |-> "", n |-> 0]} \cup {[first |-> s, n |-> 1] : s \in Strs} \cup {[first |-> "2", n |-> 2]}
ValsOf(kind) == CASE kind = "num" -> Nums [] kind = "str" -> Strs [] kind = "ns" -> NsVals

Init0 == F = New /\ live = {} /\ given = <<>> /\ hist = <<>>
DoCreate == \E kind \in {"num", "str", "ns"} : \E v \in ValsOf(kind) :
              /\ Cardinality(live) < MaxLive
              /\ LET r == Create(F, kind, v) IN
                   /\ F' = r.f /\ live' = live \cup {r.id}
                   /\ given' = [i \in DOMAIN given \cup {r.id} |-> IF i = r.id THEN [k |-> kind, val |-> v] ELSE given[i]]
                   /\ hist' = Append(hist, [op |-> "create", kind |-> kind, val |-> v, id |-> r.id])
DoAsk == \E id \in live, how \in {"str", "num", "bool"} :
           LET r == CASE how = "str" -> AskStr(F, id) [] how = "num" -> AskNum(F, id) [] how = "bool" -> AskBool(F, id) IN
           /\ F' = r.f /\ UNCHANGED <<live, given>>
           /\ hist' = Append(hist, [op |-> "ask", id |-> id, how |-> how])
DoReturn == \E id \in live : /\ F' = Return(F, id) /\ live' = live \ {id} /\ UNCHANGED given
                             /\ hist' = Append(hist, [op |-> "return", id |-> id])
DoReset == /\ live = {} /\ F.cache # New.cache /\ F' = Reset(F) /\ UNCHANGED <<live, given>>
           /\ hist' = Append(hist, [op |-> "reset"])
Next == Len(hist) < MaxHist /\ (DoCreate \/ DoAsk \/ DoReturn \/ DoReset)
Spec == Init0 /\ [][Next]_vars

GivenValue(id) == LET g == given[id] IN CASE g.k = "num" -> NumV(g.val) [] g.k = "str" -> StrV(g.val) [] g.k = "ns" -> NsV(g.val.first, g.val.n)
Honest == \A id \in live :
            /\ ValueOf(F.obj[id]) = GivenValue(id) \/ (F.obj[id].k = "num" /\ SkipSetOfEqualNumber)     \* (with the switch the stored value itself is stale)
            /\ AskStr(F, id).ans = AsStr(GivenValue(id))
            /\ AskNum(F, id).ans = AsNum(GivenValue(id))
            /\ AskBool(F, id).ans = AsBool(GivenValue(id))
            /\ AskNum(AskStr(F, id).f, id).ans = AsNum(GivenValue(id))          \* in either order
            /\ AskStr(AskNum(F, id).f, id).ans = AsStr(GivenValue(id))
CachesSane == /\ \A kind \in {"num", "str", "ns"} : \A i, j \in 1..Len(F.cache[kind]) : i # j => F.cache[kind][i] # F.cache[kind][j]
              /\ \A kind \in {"num", "str", "ns"} : \A i \in 1..Len(F.cache[kind]) : F.cache[kind][i] \notin live /\ F.obj[F.cache[kind][i]].k = kind
              /\ live \subseteq DOMAIN F.obj

View == <<F, live, given>>

=============================================================================
