----------------------------- MODULE MC_NsFixup -----------------------------
(* Bounded model: every nest of at most MaxInstr result-constructing instructions (nesting depth  *)
(* up to 3) over prefixes {none, p, q}, URIs {none, urn:u, urn:v}, the same prefix bound to        *)
(* different URIs at different depths, default namespace on/off, exclude-result-prefixes and       *)
(* namespace-alias on/off, attribute sets, xsl:copy / xsl:copy-of of source nodes with their own   *)
(* namespace nodes - executed by the transcribed algorithm (NsFixupImpl!Run) and judged by the     *)
(* abstract obligations (ResultTree!FaultsOf).  The algorithm is NOT correct everywhere: every     *)
(* fault must be explained by a named KD class the execution passed through (EveryFaultExplained),  *)
(* and every KD class is real - a minimal stylesheet breaks an obligation there (DeviationsAreReal).*)
(* One TLC state per nest: the nest grows by one instruction per step, always at the end of the    *)
(* body of an element on the rightmost path.                                                       *)
EXTENDS NsFixupImpl

CONSTANTS MaxInstr, Pools
VARIABLES ctx, body, n

U == "urn:u"
V == "urn:v"
W == "urn:w"

(* source document: children of <doc xmlns:s="urn:s"> *)
Src == [nsd |-> <<<<"s", "urn:s">>>>,
        kids |-> << [p |-> "p", l |-> "k", u |-> U, nsd |-> <<<<"p", U>>>>, a |-> <<[p |-> "p", l |-> "x", u |-> U, v |-> "s1"]>>, c |-> <<>>],
                    [p |-> "", l |-> "m", u |-> V, nsd |-> <<<<"", V>>, <<"q", U>>>>, a |-> <<>>,
                     c |-> <<[p |-> "", l |-> "k", u |-> "", nsd |-> <<<<"", "">>>>, a |-> <<>>, c |-> <<>>]>>],
                    [p |-> "", l |-> "k", u |-> "", nsd |-> <<>>, a |-> <<[p |-> "s", l |-> "x", u |-> "urn:s", v |-> "s1"]>>, c |-> <<>>] >>]

S1Set == [name |-> "s1", use |-> <<>>, attrs |-> <<[i |-> "attribute", p |-> "q", l |-> "x", hasNs |-> TRUE, ns |-> W, nsd |-> <<>>, v |-> "7"]>>]
Contexts ==
  << [nsd |-> <<<<"p", U>>, <<"q", V>>>>, excl |-> <<>>, alias |-> <<>>, sets |-> <<S1Set>>],
     [nsd |-> <<<<"p", U>>, <<"q", U>>, <<"", V>>>>, excl |-> <<"q">>, alias |-> <<>>, sets |-> <<S1Set>>],
     [nsd |-> <<<<"p", U>>, <<"q", V>>>>, excl |-> <<"p">>, alias |-> <<<<"p", "q">>>>, sets |-> <<S1Set>>],
     [nsd |-> <<<<"p", V>>, <<"q", V>>, <<"", U>>>>, excl |-> <<"">>, alias |-> <<>>, sets |-> <<S1Set>>] >>
NCtx == IF Pools >= 3 THEN 4 ELSE 3

Lre(p, nsd, excl, attrs, uas) == [i |-> "lre", p |-> p, l |-> "o", nsd |-> nsd, excl |-> excl, attrs |-> attrs, uas |-> uas, body |-> <<>>]
Elt(p, hasNs, ns) == [i |-> "element", p |-> p, l |-> "e", hasNs |-> hasNs, ns |-> ns, nsd |-> <<>>, uas |-> <<>>, body |-> <<>>]
Att(p, hasNs, ns, v) == [i |-> "attribute", p |-> p, l |-> "x", hasNs |-> hasNs, ns |-> ns, nsd |-> <<>>, v |-> v]

(* Pools = 1 (lite) / 2 (standard) / 3 (rich: xmlns, xml and undeclared prefixes, xmlns="", LRE-level exclusion) *)
LreNsd  == {<<>>, <<<<"p", V>>>>} \cup (IF Pools >= 2 THEN {<<<<"", U>>>>} ELSE {}) \cup (IF Pools >= 3 THEN {<<<<"", "">>>>, <<<<"q", U>>>>} ELSE {})
LreAtts == {<<>>} \cup (IF Pools >= 2 THEN {<<[p |-> "p", l |-> "x", v |-> "a"]>>} ELSE {})
ElemPool ==
       {Lre(p, d, <<>>, a, <<>>) : p \in {"", "p", "q"}, d \in LreNsd, a \in LreAtts}
  \cup {Lre("", <<>>, <<>>, <<[p |-> "q", l |-> "y", v |-> "b"]>>, <<"s1">>)}
  \cup (IF Pools >= 3 THEN {Lre(p, d, <<"p">>, <<>>, <<>>) : p \in {"", "q"}, d \in LreNsd} ELSE {})
  \cup {Elt(p, FALSE, "") : p \in {"", "p", "q"}}
  \cup {Elt(p, TRUE, ns) : p \in {"", "p"} \cup (IF Pools >= 2 THEN {"q"} ELSE {}), ns \in {U, ""} \cup (IF Pools >= 2 THEN {V} ELSE {})}
  \cup (IF Pools >= 3 THEN {Elt("xmlns", TRUE, U), Elt("z", TRUE, ""), Elt("z", TRUE, V), Elt("p", TRUE, W)} ELSE {})
  \cup {[i |-> "copy", node |-> k, uas |-> <<>>, body |-> <<>>] : k \in IF Pools >= 2 THEN 1..3 ELSE {2}}
  \cup {[i |-> "copy-of", node |-> k] : k \in IF Pools >= 2 THEN 1..2 ELSE {2}}
AttrPool ==
       {Att(p, FALSE, "", "1") : p \in {"p", "q"} \cup (IF Pools >= 2 THEN {""} ELSE {})}
  \cup {Att(p, TRUE, ns, "2") : p \in {"", "p", "q"}, ns \in {U, V} \cup (IF Pools >= 2 THEN {""} ELSE {})}
  \cup {[i |-> "copy-of-attr", node |-> 1, a |-> 1]} \cup (IF Pools >= 2 THEN {[i |-> "copyattr", node |-> 3, a |-> 1]} ELSE {})
  \cup (IF Pools >= 3 THEN {[i |-> "attribute", p |-> "xml", l |-> "lang", hasNs |-> TRUE, ns |-> U, nsd |-> <<>>, v |-> "2"],
                            [i |-> "attribute", p |-> "xmlns", l |-> "x", hasNs |-> TRUE, ns |-> V, nsd |-> <<>>, v |-> "2"],
                            [i |-> "attribute", p |-> "q", l |-> "x", hasNs |-> FALSE, ns |-> "", nsd |-> <<<<"q", W>>>>, v |-> "1"]} ELSE {})

(* ---- growing the nest along its rightmost path ---- *)
HasBody(x) == x.i \in {"lre", "element", "copy"}
RECURSIVE Depth(_)
Depth(b) == IF b = <<>> \/ ~HasBody(b[Len(b)]) THEN 0 ELSE 1 + Depth(b[Len(b)].body)
RECURSIVE BodyAt(_, _)
BodyAt(b, d) == IF d = 0 THEN b ELSE BodyAt(b[Len(b)].body, d - 1)
RECURSIVE AppendAt(_, _, _)
AppendAt(b, d, x) == IF d = 0 THEN Append(b, x) ELSE [b EXCEPT ![Len(b)] = [@ EXCEPT !.body = AppendAt(@, d - 1, x)]]
NoElemYet(b) == \A k \in 1..Len(b) : IsAttrInstr(b[k])

vars == <<ctx, body, n>>
Init == ctx \in 1..NCtx /\ body = <<>> /\ n = 0
Next == /\ n < MaxInstr
        /\ \E d \in 0..Depth(body) :
             \/ \E x \in ElemPool : d < 3 /\ body' = AppendAt(body, d, x)
             \/ \E x \in AttrPool : d > 0 /\ NoElemYet(BodyAt(body, d)) /\ body' = AppendAt(body, d, x)
        /\ n' = n + 1 /\ UNCHANGED ctx
Spec == Init /\ [][Next]_vars

Ss == [nsd |-> Contexts[ctx].nsd, excl |-> Contexts[ctx].excl, alias |-> Contexts[ctx].alias, sets |-> Contexts[ctx].sets, body |-> body]

(* ---- properties ---- *)
(* outside the named deviation classes the algorithm meets every obligation, and inside them every  *)
(* fault is one the class accounts for                                                             *)
EveryFaultExplained ==
  LET r == Run(Ss, Src)
      f == FaultsOf(Requested(Ss, Src), r.raw)
  IN ~r.err /\ f \subseteq Explained(r.tags)
ObligationsHoldOutsideKD ==
  LET r == Run(Ss, Src) IN r.tags = {} => FaultsOf(Requested(Ss, Src), r.raw) = {}

(* the known deviations are real: one minimal stylesheet per class on which the transcribed        *)
(* algorithm passes through the class and breaks an obligation the class accounts for              *)
NoCtx == [nsd |-> <<>>, excl |-> <<>>, alias |-> <<>>, sets |-> <<>>]
WithBody(c, b) == [nsd |-> c.nsd, excl |-> c.excl, alias |-> c.alias, sets |-> c.sets, body |-> b]
In(e, b) == [e EXCEPT !.body = b]
Witnesses ==
  { [tag |-> "attrListKeyedByQName",
     ss  |-> WithBody(NoCtx, <<In(Lre("", <<>>, <<>>, <<>>, <<>>), <<Att("p", TRUE, V, "1"), Att("q", TRUE, V, "2")>>)>>)],
    [tag |-> "staleExcludedPrefix",
     ss  |-> WithBody([NoCtx EXCEPT !.nsd = <<<<"p", U>>>>, !.excl = <<"p">>], <<In(Lre("", <<<<"p", V>>>>, <<>>, <<>>, <<>>), <<Att("p", FALSE, "", "1")>>)>>)] }
WitnessReal(w) == LET r == Run(w.ss, Src) IN w.tag \in r.tags /\ KDFaults(w.tag) \cap FaultsOf(Requested(w.ss, Src), r.raw) # {}
DeviationsAreReal == (n = 0 /\ ctx = 1) => /\ \A w \in Witnesses : WitnessReal(w)
                                          /\ {w.tag : w \in Witnesses} = KDTags
=============================================================================
