SPECIFICATION Spec
INVARIANT Inv
