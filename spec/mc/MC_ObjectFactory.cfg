SPECIFICATION Spec
CONSTANTS
  Nums <- MCNums
  Strs <- MCStrs
  NumOfStr <- MCNumOfStr
  StrOfNum <- MCStrOfNum
  TruthOfNum <- MCTruth
  SameNumber <- MCSame
  Marker = "B"
  Zero = "0"
  EmptyStr = ""
  CacheMax = 2
  KeepNumberWithoutString = FALSE
  SkipSetOfEqualNumber = FALSE
  MaxLive = 2
  MaxHist = 5
INVARIANT Honest
INVARIANT CachesSane
VIEW View
