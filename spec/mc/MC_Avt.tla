------------------------------- MODULE MC_Avt -------------------------------
(* Enumerates every string of length <= MaxLen over the AVT alphabet (one TLC state per string; `tlc -dump`  *)
(* hands them to the conformance run) and checks laws of the definition AvtSyntax!Parse on each of them.     *)
EXTENDS AvtSyntax, TLC
CONSTANT MaxLen
VARIABLE s
Init == s = <<>>
Next == /\ Len(s) < MaxLen /\ \E ch \in Alphabet : s' = Append(s, ch)
Spec == Init /\ [][Next]_s

NoName == <<>>
P == Parse(s)
HasBrace == \E i \in 1..Len(s) : s[i] \in {LB, RB}
(* a string without braces is one literal part, itself *)
PlainIsLiteral == ~HasBrace => (~P.err /\ (s = <<>> \/ P.parts = <<[lit |-> TRUE, s |-> s]>>))
(* doubling every brace of ANY string gives a template whose value is that string *)
Doubled == LET RECURSIVE D(_) D(i) == IF i > Len(s) THEN <<>> ELSE (IF s[i] \in {LB, RB} THEN <<s[i], s[i]>> ELSE <<s[i]>>) \o D(i + 1)
               p == Parse(D(1)) IN
           ~p.err /\ ValueOf(p.parts, 1, NoName) = s
(* a literal in braces evaluates to its content, whatever braces it contains *)
QuotedRoundTrip == (\A i \in 1..Len(s) : s[i] # AP) => LET p == Parse(<<LB, AP>> \o s \o <<AP, RB>>) IN ~p.err /\ ValueOf(p.parts, 1, NoName) = s
(* literal parts are never empty and never adjacent; an error has no parts *)
Shape == /\ (P.err => P.parts = <<>>)
         /\ \A j \in 1..Len(P.parts) : P.parts[j].lit => (Len(P.parts[j].s) > 0 /\ (j = 1 \/ ~P.parts[j - 1].lit))
=============================================================================
