---------------------------- MODULE MC_Numbering ----------------------------
(* Laws of the 7.7.1 conversion: every number 1..Max formatted with each token kind decodes back, *)
(* alphabetic numbering carries at 26/27, roman numerals are canonical, and a list formatted with  *)
(* separators splits back into its numbers.                                                        *)
EXTENDS Numbering
CONSTANT MaxNum
VARIABLE n
Init == n = 1
Next == n < MaxNum /\ n' = n + 1
Spec == Init /\ [][Next]_n

RECURSIVE DecodeDecimal(_, _, _)
DecodeDecimal(s, i, acc) == IF i > Len(s) THEN acc ELSE DecodeDecimal(s, i + 1, acc * 10 + (s[i] - 48))
RECURSIVE DecodeAlpha(_, _, _, _)
DecodeAlpha(s, i, acc, base) == IF i > Len(s) THEN acc ELSE DecodeAlpha(s, i + 1, acc * 26 + (s[i] - base + 1), base)
RomanVal(ch) == CASE ch = 105 -> 1 [] ch = 118 -> 5 [] ch = 120 -> 10 [] ch = 108 -> 50 [] ch = 99 -> 100 [] ch = 100 -> 500 [] ch = 109 -> 1000
RECURSIVE DecodeRoman(_, _)
DecodeRoman(s, i) == IF i > Len(s) THEN 0
                     ELSE IF i < Len(s) /\ RomanVal(s[i]) < RomanVal(s[i + 1]) THEN DecodeRoman(s, i + 1) - RomanVal(s[i])
                     ELSE DecodeRoman(s, i + 1) + RomanVal(s[i])
Lower(s) == [k \in 1..Len(s) |-> IF s[k] >= 65 /\ s[k] <= 90 THEN s[k] + 32 ELSE s[k]]

Inv ==
  /\ DecodeDecimal(FormatOne(n, <<49>>), 1, 0) = n
  /\ DecodeDecimal(FormatOne(n, <<48, 48, 49>>), 1, 0) = n /\ Len(FormatOne(n, <<48, 48, 49>>)) >= 3
  /\ DecodeAlpha(FormatOne(n, <<97>>), 1, 0, 97) = n
  /\ DecodeAlpha(FormatOne(n, <<65>>), 1, 0, 65) = n
  /\ (n < 4000 => DecodeRoman(FormatOne(n, <<105>>), 1) = n /\ Lower(FormatOne(n, <<73>>)) = FormatOne(n, <<105>>))
  /\ FormatOne(26, <<97>>) = <<122>> /\ FormatOne(27, <<97>>) = <<97, 97>> /\ FormatOne(52, <<97>>) = <<97, 122>>
  /\ FormatList(<<n, 2, 3>>, <<49>>) = Decimal(n) \o <<46, 50, 46, 51>>
  /\ FormatList(<<n, 2>>, <<40, 49, 45, 97, 41>>) = <<40>> \o Decimal(n) \o <<45, 98, 41>>        \* "(1-a)"
  /\ FormatList(<<n, 2, 3>>, <<49, 45, 97>>) = Decimal(n) \o <<45, 98, 45, 99>>                   \* last token and separator reused
  /\ FormatList(<<>>, <<40, 49, 41>>) = <<>>
=============================================================================
