SPECIFICATION Spec
CONSTANTS
  Threads = {t1, t2}
  SourceKind = "xerces"
  HasIds = TRUE
  PrebuiltWrapper = TRUE
  PoolLocked = FALSE
  StaticScratch = FALSE
  MaxRuns = 1
INVARIANT RaceFree
