SPECIFICATION Spec
CONSTANTS
  Threads = {t1, t2}
  SourceKind = "xerces"
  HasIds = TRUE
  PrebuiltWrapper = FALSE
  PoolLocked = TRUE
  MaxRuns = 1
INVARIANT RaceFree
