------------------------- MODULE MC_StylesheetText -------------------------
(* Enumerates every content sequence up to MaxLen over a small alphabet, checks laws of StylesheetTree, and       *)
(* exports the sequences (they are the conformance cases of the C01 stylesheet-text family).                      *)
EXTENDS StylesheetTree, TLC, FiniteSets
CONSTANT MaxLen
Alphabet == {[k |-> "t", s |-> <<97>>], [k |-> "t", s |-> <<32, 32>>], [k |-> "t", s |-> <<10, 32>>], [k |-> "c"], [k |-> "pi"], [k |-> "e"],
             [k |-> "xt", s |-> <<32>>], [k |-> "xt", s |-> <<98>>]}
VARIABLE raw
Init == raw = <<>>
Next == Len(raw) < MaxLen /\ \E a \in Alphabet : raw' = Append(raw, a)
Spec == Init /\ [][Next]_raw

(* no two adjacent text items, no empty text *)
Canonical == LET r == ResultChildren(raw, FALSE) IN
             \A i \in 1..Len(r) : (r[i].k = "text" => r[i].s # <<>>) /\ (i < Len(r) => ~(r[i].k = "text" /\ r[i + 1].k = "text"))
(* preserving keeps at least what stripping keeps; elements are never affected *)
ElementsKept == Len(SelectSeq(ResultChildren(raw, FALSE), LAMBDA x : x.k = "elem")) = Len(SelectSeq(raw, LAMBDA x : x.k = "e"))
                /\ Len(SelectSeq(ResultChildren(raw, TRUE), LAMBDA x : x.k = "elem")) = Len(SelectSeq(raw, LAMBDA x : x.k = "e"))
(* a comment between two runs matters exactly when one side is white space only *)
CommentMatters == (ResultChildren(raw, FALSE) # ResultChildrenCommentsInvisible(raw, FALSE)) =>
                  \E i \in 1..Len(raw) : raw[i].k = "c"
=============================================================================
