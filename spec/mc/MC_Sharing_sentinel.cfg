SPECIFICATION Spec
CONSTANTS
  Threads = {t1, t2}
  SourceKind = "native"
  HasIds = FALSE
  PrebuiltWrapper = TRUE
  PoolLocked = TRUE
  StaticScratch = FALSE
  MaxRuns = 1
INVARIANT RaceFree
