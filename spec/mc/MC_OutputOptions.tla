-------------------------- MODULE MC_OutputOptions --------------------------
(* Enumerates the configuration space of C08 (OutputOptions!OptionProduct): one TLC state per option vector,  *)
(* written out with `tlc -dump`; tools/props/c08.py takes the full product (thorough) or a pairwise cover of   *)
(* it (quick) from this enumeration.  The invariants say that every vector is well-formed, that the reference  *)
(* vector means "xml, no indentation, UTF-8", and pin the meaning of the overrides.                             *)
EXTENDS OutputOptions, TLC
VARIABLE o
Init == o \in OptionProduct
Next == UNCHANGED o
Spec == Init /\ [][Next]_o
WellFormed == IsOptionVector(o)
Meaning ==
  /\ (o.setEncoding # "" => EffEncoding(o) = o.setEncoding)                 \* setOutputEncoding wins over xsl:output
  /\ (o.setIndent >= 0 => IndentOn(o, "xml"))
  /\ (o.method = "html" /\ o.indent = "absent" => IndentOn(o, "html"))       \* 16.2: the html default is indent="yes"
  /\ (o.indent = "no" /\ o.indentAmount < 0 /\ o.setIndent < 0 => ~IndentOn(o, "html"))
ASSUME RefMeaning == /\ IsOptionVector(RefOpts) /\ ~IndentOn(RefOpts, "xml") /\ EffEncoding(RefOpts) = "UTF-8"
                     /\ EffMethod(RefOpts, <<>>) = "xml" /\ RefOpts \notin OptionProduct
=============================================================================
