------------------------------- MODULE MC_Map -------------------------------
(* Bounded model: every history of <= MaxHist operations on two XalanMap instances over the keys   *)
(* 0..NKeys-1 (colliding by construction: HashMod / MinBuckets are tiny) with MapImpl as the        *)
(* transition function and Containers!MapApply as the property.  Also the behaviour generator:      *)
(* `hist` is the shortest history reaching each (pre-state, operation) pair; the VIEW hides it and  *)
(* `tlc -dump` writes the states out (tools/tlaparse.py reads `hist` and `tags` back).              *)
EXTENDS MapImpl, TLC

CONSTANTS NKeys, NVals, MaxHist, TwoMaps
VARIABLES w, prev, res, hist, fin

Keys == 0..(NKeys - 1)
Vals == 1..NVals
Whos == IF TwoMaps THEN {1, 2} ELSE {1}
vars == <<w, prev, res, hist, fin>>
LastOp == IF hist = <<>> THEN [op |-> "init"] ELSE hist[Len(hist)]
(* Exploration: a step either ADVANCES (fin' = FALSE: the successor is identified by the world and  *)
(* the depth only, and is expanded further) or FINISHES (fin' = TRUE: the successor keeps the          *)
(* pre-state and the operation in its identity and is a leaf).  So every transition (pre-state,        *)
(* operation) of the implementation-shaped graph is generated, checked and exported once, while the    *)
(* search itself runs over the distinct worlds.  The depth keeps the explored set exact for any         *)
(* number of workers.  The branch tags of the last operation are not part of an advanced state.         *)
View == IF fin THEN <<w, prev, LastOp, TRUE>> ELSE <<[w EXCEPT !.tags = {}], Len(hist), FALSE>>

Ops == [op : {"insert", "put"}, w : Whos, k : Keys, v : Vals]
       \cup [op : {"index", "erase", "eraseIt", "find"}, w : Whos, k : Keys]
       \cup [op : {"clear", "selfAssign", "copy"}, w : Whos]
       \cup (IF TwoMaps THEN [op : {"assign"}, w : Whos] \cup {[op |-> "swap", w |-> 1]} ELSE {})

AbsOf(x) == <<AbsMap(x, 1), AbsMap(x, 2)>>

Init == w = NewWorld /\ prev = NewWorld /\ res = 0 /\ hist = <<>> /\ fin = FALSE

Do(op) == /\ MapApply(AbsOf(w), op).ok                          \* documented precondition
          /\ LET r == ImplApply(w, op) IN w' = r.w /\ res' = r.res
          /\ prev' = w
          /\ hist' = Append(hist, op)

Next == /\ ~fin /\ Len(hist) < MaxHist
        /\ \E op \in Ops : Do(op) /\ (fin' = TRUE \/ (fin' = FALSE /\ Len(hist) + 1 < MaxHist))
Spec == Init /\ [][Next]_vars

(* random long histories (tlc -simulate): only advancing steps, known deviations kept out *)
SimNext == ~fin /\ Len(hist) < MaxHist /\ \E op \in Ops : Do(op) /\ fin' = FALSE
SimSpec == Init /\ [][SimNext]_vars

(* ---- properties ---------------------------------------------------------------------------- *)
(* what the implementation shows of instance i, in the shape the harness logs it *)
ObsOf(x, i) == [size |-> x.inst[i].size, empty |-> (x.inst[i].size = 0), items |-> Items(x, i),
                finds |-> [k \in 1..NKeys |-> Lookup(x, i, k - 1)]]

(* every implementation step is the abstract step: same result, and both instances show exactly   *)
(* the abstract maps through size(), iteration and find() of every key                              *)
StepRefines ==
  LET op == hist'[Len(hist')]
      a == MapApply(AbsOf(prev'), op)
  IN /\ a.ok
     /\ res' = a.res
     /\ \A i \in 1..2 : MapObsOK(a.st[i], ObsOf(w', i))
     /\ (op.op = "copy" => CopyOK(prev', op.w))
Refinement == [][StepRefines]_vars

WellFormedInv == WellFormed(w, 1) /\ WellFormed(w, 2)

(* reachability of the interesting branches inside the bound: each of these invariants must FAIL   *)
(* when checked on its own (tools/props/c20.py counts the tags in the exported states instead)      *)
NeverRehash == "rehash" \notin w.tags
NeverReuse == "reuse" \notin w.tags
NeverCompact == "compact" \notin w.tags
NeverStale == "staleRef" \notin w.tags
=============================================================================
