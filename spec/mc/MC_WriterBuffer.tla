--------------------------- MODULE MC_WriterBuffer ---------------------------
(* Bounded model of the writers' staging buffers (WriterBufferImpl, buffer of BufSize units): every sequence  *)
(* of at most MaxHist write operations (characters of 1..4 units, constant strings, numeric character          *)
(* references, endDocument).  Checked for each family:                                                        *)
(*   Conserved   the chunks an operation hands to the Writer, followed by the new buffer content, are the old  *)
(*               buffer content followed by the encoding of the operation (so the concatenation of all         *)
(*               flushes is the encoding of the input), and the same for the second stage (XalanOutputStream)  *)
(*   Bounded     the buffer never holds more than BufSize units and m_bufferRemaining = BufSize - position     *)
(*   NoSplit     no chunk starts or ends inside a multi-unit sequence (UTF-8 sequence, surrogate pair,          *)
(*               atomic character reference) - except the named deviation KD_unitwiseFlush ("utf16" only),      *)
(*               which is shown real by DeviationsAreReal                                                      *)
(* The same model is the generator of the boundary cases: `hist` (hidden by the VIEW) is the shortest            *)
(* operation history reaching each transition of the graph (buffer exactly full, one unit short, sequence        *)
(* straddling the end); `tlc -dump` exports them and the props script scales them to the real buffer size.       *)
EXTENDS WriterBufferImpl

CONSTANTS Fam, MaxHist, StrLens, RefLens
VARIABLES buf, rem, sbuf, last, hist
vars == <<buf, rem, sbuf, last, hist>>
View == <<buf, rem, sbuf, last>>
(* generator view: one history per (fill level, second-stage level, operation, shape of what it flushed) *)
GenView == <<Len(buf), Len(sbuf), last.op, [i \in DOMAIN last.fl |-> Len(last.fl[i])], [i \in DOMAIN last.calls |-> Len(last.calls[i])]>>

Ops == {[k |-> "ch", n |-> n] : n \in 1..MaxL(Fam)}
       \cup {[k |-> "str", n |-> n] : n \in StrLens}
       \cup (IF Fam = "other" THEN {[k |-> "ref", n |-> n] : n \in RefLens} ELSE {})
       \cup {[k |-> "end", n |-> 0]}

Init == /\ buf = <<>> /\ rem = BufSize /\ sbuf = <<>> /\ hist = <<>>
        /\ last = [op |-> [k |-> "init", n |-> 0], pre |-> <<>>, prerem |-> BufSize, spre |-> <<>>, fl |-> <<>>, calls |-> <<>>]

Step(op) ==
  LET w == Apply(Fam, [buf |-> buf, rem |-> rem], op)
      s0 == IF Fam = "utf8" THEN S2(<<>>, w.fl)                     \* char chunks go straight to writeData
            ELSE StreamWriteAll(S2(sbuf, <<>>), w.fl)
      s == IF op.k = "end" /\ Fam # "utf8" THEN StreamFlush(s0) ELSE s0 IN
  /\ buf' = w.buf /\ rem' = w.rem /\ sbuf' = s.sbuf
  /\ last' = [op |-> op, pre |-> buf, prerem |-> rem, spre |-> sbuf, fl |-> w.fl, calls |-> s.calls]
  /\ hist' = Append(hist, [k |-> op.k, n |-> op.n, fill |-> Len(buf), fl |-> [i \in DOMAIN w.fl |-> Len(w.fl[i])]])

Next == /\ Len(hist) < MaxHist
        /\ last.op.k # "end"
        /\ \E op \in Ops : Step(op)
Spec == Init /\ [][Next]_vars

(* ---- properties -------------------------------------------------------------------------------------- *)
Conserved ==
  last.op.k # "init" =>
    /\ Concat(last.fl) \o buf = last.pre \o Enc(last.op)
    /\ Concat(last.calls) \o sbuf = last.spre \o Concat(last.fl)
Bounded == /\ Len(buf) <= BufSize /\ rem >= 0 /\ rem = BufSize - Len(buf)
           /\ Len(sbuf) <= SBufSize
EndEmpties == last.op.k = "end" => buf = <<>> /\ sbuf = <<>>

Deviates == KD_unitwiseFlush(Fam, [buf |-> last.pre, rem |-> last.prerem], last.op)
Inherited == last.pre # <<>> /\ last.pre[1][1] > 1            \* the buffer already starts with the second half of a split sequence
NoSplit ==
  last.op.k # "init" =>
    IF Fam \in {"utf8", "other", "legacy"}
    THEN /\ \A i \in DOMAIN last.fl : Whole(last.fl[i])
         /\ \A i \in DOMAIN last.calls : Whole(last.calls[i])
    ELSE (~Deviates /\ ~Inherited) => \A i \in DOMAIN last.fl : Whole(last.fl[i])
DeviationsAreReal ==
  (last.op.k # "init" /\ Deviates) => \E i \in DOMAIN last.fl : ~Whole(last.fl[i])
=============================================================================
