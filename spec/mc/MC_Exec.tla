------------------------------- MODULE MC_Exec -------------------------------
(* Model-checks ExecImpl (the iterative template executor with its explicit stacks) against the recursive   *)
(* definition of instantiation, for EVERY program of <= N elements over the element kinds of ExecImpl         *)
(* (templates reached by xsl:call-template / xsl:apply-templates - each targets the next template, so          *)
(* programs terminate -, with-params, for-each over 0 / 2 nodes, apply-templates over node lists that contain  *)
(* nodes without a rule, if / choose with both outcomes, variables with a fragment body copied afterwards,     *)
(* comments built from content, and the direct-template / single-text-child short cuts wherever they arise):   *)
(*   Correct   : when the loop ends the output is the definition's                                              *)
(*   Balanced  : ... and every stack is back where it started (invoker, nodes-to-transform, current node,       *)
(*               execute-if, context markers, current template, buffers, strings)                               *)
(*   Terminates: the loop ends                                                                                  *)
(* SpecSig + VIEW SigView export one program per set of executor transitions taken, for replay on the real     *)
(* engine (rendered as stylesheets; the oracle there is XSLTSem, not this module).                              *)
EXTENDS ExecImpl, TLC
CONSTANTS N
VARIABLES P, s
vars == <<P, s>>

El(k, p) == [kind |-> k, parent |-> p, kids |-> <<>>, b |-> FALSE, nodes |-> <<>>, target |-> 0, ref |-> 0]
BodyParents == {"template", "lre", "foreach", "if", "when", "otherwise", "var", "comment"}
(* the variants of a new element under parent p (0: a new template) whose last child so far is `last` (0: none) *)
Variants(Q, p, last) ==
  IF p = 0 THEN {El("template", 0)}
  ELSE LET pk == Q.el[p].kind IN
       IF pk \in {"apply", "call"} THEN {El("wparam", p)}
       ELSE IF pk = "choose"
            THEN IF last # 0 /\ Q.el[last].kind = "otherwise" THEN {}
                 ELSE {[El("when", p) EXCEPT !.b = bb] : bb \in BOOLEAN} \cup (IF last = 0 THEN {} ELSE {El("otherwise", p)})
       ELSE IF pk \notin BodyParents THEN {}
       ELSE LET plain == {El("text", p), El("valueof", p), El("call", p)}
                           \cup {[El("if", p) EXCEPT !.b = bb] : bb \in BOOLEAN}
                           \cup {[El("foreach", p) EXCEPT !.nodes = ns] : ns \in {<<>>, <<TRUE, TRUE>>}}
                rich == {El("lre", p), El("choose", p), El("var", p), El("comment", p)}
                           \cup {[El("apply", p) EXCEPT !.nodes = ns] : ns \in {<<>>, <<FALSE>>, <<TRUE, FALSE, TRUE>>}}
                           \cup (IF last # 0 /\ Q.el[last].kind = "var" THEN {[El("copyvar", p) EXCEPT !.ref = last]} ELSE {}) IN
            IF pk = "comment" THEN plain ELSE plain \cup rich
RECURSIVE Chain(_, _)
Chain(Q, e) == IF e = 0 THEN {0} ELSE {e} \cup Chain(Q, Q.el[e].parent)          \* the rightmost path, and 0
LastKid(Q, p) == IF p = 0 THEN 0 ELSE IF Q.el[p].kids = <<>> THEN 0 ELSE Q.el[p].kids[Len(Q.el[p].kids)]
Extend(Q) ==
  {[n |-> Q.n + 1,
    el |-> [i \in 1..(Q.n + 1) |-> IF i = Q.n + 1 THEN x ELSE IF i = p THEN [Q.el[i] EXCEPT !.kids = Append(@, Q.n + 1)] ELSE Q.el[i]]]
     : <<p, x>> \in UNION {{<<p2, x2>> : x2 \in Variants(Q, p2, LastKid(Q, p2))} : p2 \in Chain(Q, Q.n)}}
(* targets: every call / apply goes to the template after the one it stands in *)
RECURSIVE TemplateOf(_, _)
TemplateOf(Q, e) == IF Q.el[e].parent = 0 THEN e ELSE TemplateOf(Q, Q.el[e].parent)
Templates(Q) == {e \in 1..Q.n : Q.el[e].kind = "template"}
NextTemplate(Q, t) == LET later == {u \in Templates(Q) : u > t} IN IF later = {} THEN 0 ELSE CHOOSE u \in later : \A w \in later : u <= w
Finalize(Q) == [Q EXCEPT !.el = [i \in 1..Q.n |-> IF Q.el[i].kind \in {"call", "apply"} THEN [Q.el[i] EXCEPT !.target = NextTemplate(Q, TemplateOf(Q, i))] ELSE Q.el[i]]]
Complete(Q) == /\ \A e \in 1..Q.n : Q.el[e].kind \in {"call", "apply"} => Q.el[e].target # 0
               /\ \A e \in 1..Q.n : Q.el[e].kind = "choose" => Q.el[e].kids # <<>>
               /\ \A t \in Templates(Q) : t = 1 \/ \E e \in 1..Q.n : Q.el[e].kind \in {"call", "apply"} /\ Q.el[e].target = t   \* no dead templates
(* programs are built by the state machine itself (one element per step, TLC's workers share the work), then run *)
Start1 == [n |-> 1, el |-> <<El("template", 0)>>]
Building == s.pc = "build"
Init == P = Start1 /\ s = [pc |-> "build"]
Grow == Building /\ P.n < N /\ P' \in Extend(P) /\ UNCHANGED s
Launch == /\ Building /\ Complete(Finalize(P))
          /\ P' = Finalize(P) /\ s' = InitState(Finalize(P))
Run == ~Building /\ s.pc # "done" /\ s' = Step(P, s) /\ UNCHANGED P
Next == Grow \/ Launch \/ Run
Spec == Init /\ [][Next]_vars /\ WF_vars(Run)

Correct == s.pc = "done" => s.out = <<Def(P)>>
Balanced == s.pc = "done" => /\ s.inv = <<Null>> /\ s.ntt = <<>> /\ s.cn = <<<<>>>> /\ s.eif = <<>> /\ s.mk = 0
                             /\ s.ct = <<>> /\ s.str = <<>> /\ Len(s.out) = 1
Terminates == [](s.pc = "start" => <>(s.pc = "done"))

(* ---- export: one program per set of executor transitions ----------------------------------------------------- *)
RECURSIVE SigFrom(_, _, _)
Desc(Q, st) == LET e == st.cur
                   li == IF st.pc = "end" THEN GetInvoker(Q, End(Q, st, e), e) ELSE Null IN
               <<st.pc, Q.el[e].kind, HasDirect(Q, e), HasSingleText(Q, e), Q.el[e].kids = <<>>,
                 IF li = Null THEN "-" ELSE Q.el[li].kind, IF li = Null THEN FALSE ELSE HasDirect(Q, li),
                 IF st.pc = "end" /\ li # Null THEN GetNext(Q, End(Q, st, e), li, e).next # Null ELSE FALSE>>
SigFrom(Q, st, fuel) == IF st.pc = "done" \/ fuel = 0 THEN {} ELSE {Desc(Q, st)} \cup SigFrom(Q, Step(Q, st), fuel - 1)
Sig(Q) == SigFrom(Q, InitState(Q), 400)
LaunchSig == Building /\ Complete(Finalize(P)) /\ P' = Finalize(P) /\ s' = [pc |-> "sig"]
SpecSig == Init /\ [][Grow \/ LaunchSig]_vars
SigView == IF Building THEN <<"build", P>> ELSE <<"sig", Sig(P)>>
=============================================================================
