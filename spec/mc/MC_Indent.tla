------------------------------ MODULE MC_Indent ------------------------------
(* Bounded model of the indenting XML serializer: EVERY result-tree event sequence of length <= MaxHist over  *)
(* open a | open b (b is a cdata-section element) | close | text | whitespace-only text | comment | PI |      *)
(* disable-output-escaping text, nesting <= MaxDepth, is run through the transcribed XalanIndentWriter +      *)
(* FormatterToXMLUnicode call sites (IndentImpl) and through the dummy writer; what they wrote is read back.  *)
(*   DummyExact      indent="no": the parse IS the tree the events denote                                     *)
(*   IndentConforms  indent on : the parse satisfies OutputOptions!SameContent (only whitespace-only nodes     *)
(*                   between tags were added) on EVERY sequence: no named deviation is left (KnownDeviation =  *)
(*                   FALSE since the repairs C08-wsAfterCdataBeforeElement / C08-wsAfterRawBeforeElement)      *)
(*   NoWsNextToText  the same, said locally: no indent() output is adjacent to character data                  *)
(*   PreservesDead   the m_preserves stack only ever holds FALSE                                               *)
(*   KDsAreReal      the witnesses of the repaired deviations now conform; indentation is still written        *)
(* GenSpec/View: the behaviour generator - `hist` and the output are hidden by the VIEW, so TLC keeps one      *)
(* state per (writer state, last item, last event) and `tlc -dump` gives one shortest event sequence each.     *)
EXTENDS IndentImpl, TLC

CONSTANTS MaxHist, MaxDepth
VARIABLES w, d, mark, hist

A == <<97>>   B == <<98>>
MC_CdataElems == {B}
X == <<120>>  SP == <<32>>  R == <<114>>  CM == <<99>>  PT == <<112>>
Events == {[op |-> "open", name |-> A], [op |-> "open", name |-> B], [op |-> "close"],
           [op |-> "text", v |-> X], [op |-> "text", v |-> SP], [op |-> "raw", v |-> R],
           [op |-> "comment", v |-> CM], [op |-> "pi", name |-> PT, v |-> X]}
vars == <<w, d, mark, hist>>

Init == /\ w = WInit(TRUE, FALSE) /\ d = WInit(FALSE, FALSE) /\ mark = FALSE /\ hist = <<>>

Legal(ev) == /\ (ev.op = "close" => w.names # <<>>)
             /\ (ev.op = "open" => Len(w.names) < MaxDepth)
             /\ (ev.op = "open" /\ w.names = <<>> => \A p \in 1..Len(w.out) : w.out[p].i # "stag")   \* ONE document element
             /\ (ev.op \in {"text", "raw"} => w.names # <<>>)          \* a well-formed document has no top-level text
(* an element opened directly after a CDATA section / unescaped text: the shapes on which the statements added by the  *)
(* repairs C08-wsAfterCdataBeforeElement / C08-wsAfterRawBeforeElement decide.  Not a deviation any more - `mark` only *)
(* keeps these histories apart in the generator's VIEW, so that they are still exported to the conformance run (the    *)
(* writer state after them is now the same as after ordinary text, and the VIEW would fold them into that history).    *)
AfterCharDataItem(x, ev) == x.on /\ ev.op = "open" /\ x.names # <<>> /\ x.out[Len(x.out)].i \in {"cdata", "raw"}
Step(ev, g) == /\ Legal(ev)
               /\ (g => ~KnownDeviation(w, ev))
               /\ w' = Apply(w, ev) /\ d' = Apply(d, ev)
               /\ mark' = (mark \/ KnownDeviation(w, ev) \/ AfterCharDataItem(w, ev))
               /\ hist' = Append(hist, ev)
NextG(g) == Len(hist) < MaxHist /\ \E ev \in Events : Step(ev, g)
Spec    == Init /\ [][NextG(TRUE)]_vars
GenSpec == Init /\ [][NextG(FALSE)]_vars

LastItem == IF w.out = <<>> THEN "none" ELSE w.out[Len(w.out)].i
LastOp   == IF hist = <<>> THEN [op |-> "init"] ELSE hist[Len(hist)]
View == <<[w EXCEPT !.out = <<>>], LastItem, LastOp, mark>>

(* ---- properties -------------------------------------------------------------------------------------------- *)
(* the document is complete once endDocument() ran; a prefix is judged with its open elements closed *)
Done(x) == IF x.names = <<>> THEN EndDocument(x).out ELSE x.out
DummyExact     == Parse(Done(d)) = TreeOf(hist)
IndentConforms == SameContent(TreeOf(hist), Parse(Done(w)), TRUE)
CharData == {"text", "cdata", "raw"}
Depths(items) == [p \in 1..Len(items) |->
                    Cardinality({q \in 1..p : items[q].i = "stag"}) - Cardinality({q \in 1..(p - 1) : items[q].i = "etag"})]
NoWsNextToText ==
  LET o == w.out dp == Depths(w.out) IN
  \A p \in 1..Len(o) :
     (o[p].i = "ws" /\ dp[p] > 0) =>
        /\ (p > 1 => o[p - 1].i \notin CharData)
        /\ (p < Len(o) => o[p + 1].i \notin CharData)
PreservesDead  == \A p \in 1..Len(w.preserves) : w.preserves[p] = FALSE

O(n) == [op |-> "open", name |-> n]
Tx(v) == [op |-> "text", v |-> v]
Cl == [op |-> "close"]
Breaks(h) == ~SameContent(TreeOf(h), Parse(Done(Run(WInit(TRUE, FALSE), h))), TRUE)
KDsAreRealDef ==
  (* Repaired: the witnesses of the former deviations wsAfterCdataBeforeElement / wsAfterRawBeforeElement (an element *)
  (* right after a CDATA section / after unescaped text) now meet the obligation, also when the element is closed     *)
  /\ ~Breaks(<<O(A), O(B), Tx(X), O(A)>>) /\ ~Breaks(<<O(A), O(B), Tx(X), O(A), Cl, Cl, Cl>>)
  /\ ~Breaks(<<O(A), [op |-> "raw", v |-> R], O(A)>>) /\ ~Breaks(<<O(A), [op |-> "raw", v |-> R], O(A), Cl, Cl>>)
  (* ... while indentation is still there where it is allowed: the same shapes with the character data removed *)
  /\ Parse(Done(Run(WInit(TRUE, FALSE), <<O(A), O(B), Cl, O(A), Cl, Cl>>))) # TreeOf(<<O(A), O(B), Cl, O(A), Cl, Cl>>)
  (* the dummy writer is exact on them *)
  /\ Parse(Done(Run(WInit(FALSE, FALSE), <<O(A), O(B), Tx(X), O(A)>>))) = TreeOf(<<O(A), O(B), Tx(X), O(A)>>)
  (* the document type declaration (m_needToOutputDoctypeDecl) goes out before the first start tag and leaves the tree alone *)
  /\ LET h == <<O(A), Tx(X), O(B), Cl, Cl>> IN
        /\ Parse(Done(Run(WInit(TRUE, TRUE), h))) = Parse(Done(Run(WInit(TRUE, FALSE), h)))
        /\ Run(WInit(TRUE, TRUE), h).out[1].i = "doctype"
  (* indentation between the element children of mixed content: allowed by C08, noted *)
  /\ NOTE_indentInMixedContent(<<O(A), Tx(X), O(A), Cl, O(A)>>)
ASSUME KDsAreReal == KDsAreRealDef
Bound == TRUE
=============================================================================
