-------------------------- MODULE MC_PatternTables --------------------------
(* For every set of up to MaxEntries pattern alternatives (any target, two pattern texts per target, priorities 0..1, *)
(* two modes), every node and every match relation the targets allow: both lookup loops of Stylesheet::findTemplate   *)
(* return the rule XSLT 5.5 defines - in particular every alternative that can match the node IS in the list          *)
(* consulted for that node kind, and reporting conflicts never changes the choice.                                    *)
(* With Repaired = FALSE (id() / key() patterns filed for elements and attributes only) the counterexample returns.   *)
EXTENDS PatternTablesImpl, TLC
CONSTANTS MaxEntries, Repaired

Targets == {<<"text", "">>, <<"comment", "">>, <<"root", "">>, <<"pi", "">>, <<"node", "">>, <<"anyElem", "">>, <<"anyAttr", "">>, <<"any", "">>, <<"elem", "a">>, <<"elem", "b">>, <<"attr", "x">>}
Pats == Targets \X {1, 2}
Nodes == {[kind |-> "elem", name |-> "a"], [kind |-> "elem", name |-> "b"], [kind |-> "attr", name |-> "x"], [kind |-> "text", name |-> ""],
          [kind |-> "comment", name |-> ""], [kind |-> "pi", name |-> ""], [kind |-> "root", name |-> ""]}
Modes == {"m", "o"}

VARIABLES es
Init == es = <<>>
(* rule rid = its position; a second alternative of the SAME rule may follow directly (a union pattern) *)
Next == /\ Len(es) < MaxEntries
        /\ \E p \in Pats, prio \in 0..1, mode \in Modes, sameRule \in BOOLEAN :
             LET rid == IF sameRule /\ Len(es) > 0 THEN es[Len(es)].rid ELSE Len(es) + 1
                 alt == IF sameRule /\ Len(es) > 0 THEN es[Len(es)].alt + 1 ELSE 1
                 md == IF sameRule /\ Len(es) > 0 THEN es[Len(es)].mode ELSE mode
             IN es' = Append(es, [rid |-> rid, pat |-> p, alt |-> alt, target |-> p[1], prio |-> prio, pos |-> Len(es) + 1, mode |-> md])
Spec == Init /\ [][Next]_es

Keys == {<<es[k].pat, es[k].alt>> : k \in 1..Len(es)}
(* every match relation the targets allow for node n *)
Hits(n) == SUBSET {x \in Keys : Covers(x[1][1], n)}

LookupIsDefinition ==
  LET T == Build(es, Repaired) IN
  \A n \in Nodes : \A hit \in Hits(n) : \A mode \in Modes :
     /\ FindQuiet(T, n, mode, hit) = Winner(es, n, mode, hit)
     /\ FindReporting(T, n, mode, hit) = Winner(es, n, mode, hit)
=============================================================================
