------------------------------- MODULE MC_List -------------------------------
(* Bounded model of XalanList: histories of <= MaxHist operations on one list (values 1..NVals,     *)
(* length <= MaxLen), ListImpl as the transition function, Containers!ListApply as the property.    *)
(* Exploration and export as in MC_Vector (advance / finish steps, `hist`, VIEW, tlc -dump).         *)
EXTENDS ListImpl, TLC

CONSTANTS NVals, MaxLen, MaxHist, MaxSrc
VARIABLES w, prev, res, other, tags, hist, fin

Vals == 1..NVals
vars == <<w, prev, res, other, tags, hist, fin>>
LastOp == IF hist = <<>> THEN [op |-> "init"] ELSE hist[Len(hist)]
View == IF fin THEN <<w, prev, LastOp, TRUE>> ELSE <<w, Len(hist), FALSE>>

Srcs == UNION {[1..n -> Vals] : n \in 0..MaxSrc}
Pos == 0..MaxLen
Ops == [op : {"pushBack", "pushFront"}, v : Vals]
       \cup [op : {"popBack", "popFront", "clear"}]
       \cup [op : {"insert"}, pos : Pos, v : Vals]
       \cup [op : {"erase"}, pos : Pos]
       \cup [op : {"swap"}, src : Srcs]
       \cup [op : {"spliceOne"}, pos : Pos, src : Srcs, i : 0..(MaxSrc - 1)]
       \cup [op : {"spliceRange"}, pos : Pos, src : Srcs, first : 0..MaxSrc, last : 0..MaxSrc]
       \cup [op : {"spliceOneSelf"}, pos : Pos, i : Pos]
       \cup [op : {"spliceRangeSelf"}, pos : Pos, first : Pos, last : Pos]

Init == w = NewWorld /\ prev = NewWorld /\ res = 0 /\ other = <<>> /\ tags = {} /\ hist = <<>> /\ fin = FALSE

TagsOf(W, op, W2) ==
  (IF op.op \in {"pushBack", "pushFront", "insert"} /\ W.a.free # 0 THEN {"reuse"} ELSE {})
  \cup (IF op.op \in {"spliceOneSelf", "spliceRangeSelf"} /\ Items(W2, "a") # Items(W, "a") THEN {"selfSplice"} ELSE {})
  \cup (IF op.op \in {"spliceOne", "spliceRange"} /\ Len(Items(W2, "a")) > Len(Items(W, "a")) THEN {"splice"} ELSE {})

Do(op) ==
  /\ ListApply(Items(w, "a"), op).ok
  /\ LET r == ImplApply(w, op) IN
       /\ w' = r.w /\ res' = r.res /\ other' = r.other /\ tags' = TagsOf(w, op, r.w)
  /\ prev' = w
  /\ hist' = Append(hist, op)

Next == /\ ~fin /\ Len(hist) < MaxHist
        /\ \E op \in Ops : /\ Do(op)
                           /\ \/ fin' = TRUE
                              \/ fin' = FALSE /\ Len(hist) + 1 < MaxHist /\ Len(Items(w', "a")) <= MaxLen
Spec == Init /\ [][Next]_vars
GenSpec == Spec

(* random long histories (tlc -simulate): only advancing steps, known deviations kept out *)
SimNext == ~fin /\ Len(hist) < MaxHist /\ \E op \in Ops : Do(op) /\ fin' = FALSE /\ Len(Items(w', "a")) <= MaxLen
SimSpec == Init /\ [][SimNext]_vars

ObsOf(W) == LET s == Items(W, "a") IN
  [items |-> s, ritems |-> RItems(W, "a"), size |-> Len(s), empty |-> (s = <<>>),
   front |-> IF s = <<>> THEN 0 ELSE W.nd[W.nd[W.a.head].n].v, back |-> IF s = <<>> THEN 0 ELSE W.nd[W.nd[W.a.head].p].v]

StepRefines ==
  LET op == hist'[Len(hist')]
      a == ListApply(Items(prev', "a"), op)
  IN /\ a.ok
     /\ ListObsOK(a.st, ObsOf(w'))
     /\ res' = a.res
     /\ ListOtherOK(Items(prev', "a"), op, other')
Refinement == [][StepRefines]_vars
WellFormedInv == WellFormed(w)
=============================================================================
