SPECIFICATION Spec
CONSTANTS
  Threads = {t1, t2, t3}
  SourceKind = "xerces"
  HasIds = TRUE
  PrebuiltWrapper = TRUE
  PoolLocked = TRUE
  StaticScratch = FALSE
  MaxRuns = 1
INVARIANT TypeInv
INVARIANT RaceFree
INVARIANT OutputsSequential
INVARIANT SeqIfNoPostFreezeWrite
