---------------------------- MODULE MC_ListSentinel ----------------------------
(* XalanList's lazy sentinel against the memory-manager contract, for every placement of the one   *)
(* refused request.                                                                                *)
(*  Lazy = FALSE (repaired list): every step is a step of MemMgr, std::terminate is unreachable,   *)
(*      clean-up never issues a request, and every call returns with everything released.          *)
(*  Lazy = TRUE (the list as written): the same holds as long as no clean-up allocates              *)
(*      (~KnownDeviation); where one does, `DeviationIsReal` (POSTCONDITION, -workers 1) shows that  *)
(*      std::terminate IS reached and that clean-up issues requests after a refused one - the root  *)
(*      cause class of the C19 known findings.  `OnlyTheDeviationKills`: nothing else terminates.   *)
EXTENDS ListSentinelImpl

CONSTANTS MaxReq
VARIABLE prevKD         \* was a clean-up about to allocate in the previous state (history variable)

Obj == {1, 2}
WalksAll == [o \in Obj |-> TRUE]          \* owners like XalanMap / ArenaAllocator
WalksMixed == [o \in Obj |-> o = 1]       \* one owner that walks, one plain list
Blk == 1..4

vars == <<mm, head, nodes, pc, gone, dead, prevKD>>

Init == /\ \E k \in 0..MaxReq : IInit(k)
        /\ prevKD = FALSE
        /\ \A i \in 30..34 : TLCSet(i, 0)

Mark(i) == TLCSet(i, TLCGet(i) + 1)

Next == \/ /\ INext /\ prevKD' = KnownDeviation
           /\ (dead' # "" => Mark(30))
           /\ (Cleaning /\ mm'.nreq > mm.nreq /\ dead' = "" /\ pc = "unwind" => Mark(31))   \* Alloc after Fail, during unwinding
           /\ (Cleaning /\ mm'.nreq > mm.nreq /\ dead' = "" /\ pc = "cleanup" => Mark(32))  \* Alloc in a destructor at scope exit
           /\ (pc' = "returned" /\ mm.failed => Mark(33))
           /\ (pc' = "returned" /\ ~mm.failed => Mark(34))
        \/ (pc = "returned" \/ dead # "") /\ UNCHANGED vars

Spec == Init /\ [][Next]_vars
Bound == mm.nreq <= MaxReq

(* ---- properties ----------------------------------------------------------------------------- *)
(* every step that is not the deviating one is a step of the contract (or does not touch it) *)
Refinement == [][dead' = "" => (NextRel(mm, mm', Blk, 4) \/ mm' = mm)]_vars
(* clean-up performs no request unless the deviation is present *)
CleanupIsQuiet == [][(Cleaning /\ ~KnownDeviation) => mm'.nreq = mm.nreq]_vars
(* std::terminate only through the deviation *)
OnlyTheDeviationKills == dead # "" => prevKD
(* a returned call has released everything, refused request or not; a refused one was reported *)
ReturnedClean == pc = "returned" => /\ Outstanding(mm) = {} /\ mm.call = "none"
                                    /\ \A o \in Obj : head[o] = 0 /\ nodes[o] = {}
NeverDead == dead = ""

(* Lazy = TRUE: the deviation is real *)
DeviationIsReal == TLCGet(30) > 0 /\ TLCGet(31) > 0 /\ TLCGet(32) > 0 /\ TLCGet(33) > 0 /\ TLCGet(34) > 0
(* Lazy = FALSE: not vacuous *)
RepairedNotVacuous == TLCGet(30) = 0 /\ TLCGet(31) = 0 /\ TLCGet(32) = 0 /\ TLCGet(33) > 0 /\ TLCGet(34) > 0
=============================================================================
