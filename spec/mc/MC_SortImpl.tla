----------------------------- MODULE MC_SortImpl -----------------------------
(* Model-checks SortImpl (NodeSorter: the multi-key comparison with its per-key, per-position caches and  *)
(* their "not evaluated" markers, driving a stable sort) against the definition of XSLT 10, for EVERY      *)
(* assignment of key values from a pool (numbers incl. NaN and the cache's marker value, strings incl.     *)
(* the empty string - the other marker) to <= MaxN nodes and every 1-2 key configuration (data type and    *)
(* order per key):                                                                                          *)
(*   Order       : the processing order is the definition's (lexicographic, NaN first, stable)              *)
(*   StrictWeak  : "less" is a strict weak ordering (std::stable_sort's precondition)                       *)
(*   CacheHonest : every cached value is the key's value for that ORIGINAL position                         *)
(*   OnceEach    : a key is evaluated at most once per node - unless its value is a marker value            *)
EXTENDS SortImpl, TLC
CONSTANTS MaxN, Full          \* Full: the larger value pools
VARIABLES keys, val, n
vars == <<keys, val, n>>

NumPool == IF Full THEN {NaNv, 0, 1, 2, Dummy} ELSE {NaNv, 0, 1, Dummy}
StrPool == IF Full THEN {<<>>, <<97>>, <<98>>, <<97, 98>>} ELSE {<<>>, <<97>>, <<97, 98>>}
Pool(k) == IF k.num THEN NumPool ELSE StrPool
KeyCfgs == [num : BOOLEAN, desc : BOOLEAN]
Init == /\ n \in 1..MaxN
        /\ \E k1 \in KeyCfgs :
             \/ /\ keys = <<k1>>
                /\ \E v1 \in [1..n -> Pool(k1)] : val = <<v1>>
             \/ \E k2 \in KeyCfgs :
                   /\ keys = <<k1, k2>>
                   /\ \E v1 \in [1..n -> Pool(k1)], v2 \in [1..n -> Pool(k2)] : val = <<v1, v2>>
Next == UNCHANGED vars
Spec == Init /\ [][Next]_vars

R == Run(keys, val, n)
Less(i, j) == Compare(keys, val, NewCache(keys, n), n, i, j, 1).r < 0
Order == R.order = DefOrder(keys, val, n)
StrictWeak == /\ \A i \in 1..n : ~Less(i, i)
              /\ \A i, j \in 1..n : Less(i, j) => ~Less(j, i)
              /\ \A i, j, k \in 1..n : (Less(i, j) /\ Less(j, k)) => Less(i, k)
              /\ \A i, j, k \in 1..n : (~Less(i, j) /\ ~Less(j, i) /\ ~Less(j, k) /\ ~Less(k, j)) => (~Less(i, k) /\ ~Less(k, i))
CacheHonest == \A k \in 1..Len(keys) : R.cache[k] = <<>> \/ \A p \in 1..n : R.cache[k][p] \in {val[k][p], EmptySlot(keys, k)}
OnceEach == \A k \in 1..Len(keys), p \in 1..n : R.count[<<k, p>>] <= 1 \/ val[k][p] = EmptySlot(keys, k)
Inv == Order /\ StrictWeak /\ CacheHonest /\ OnceEach
=============================================================================
