----------------------------- MODULE MC_Counters -----------------------------
(* Model-checks CountersImpl (Xalan's level="any" counting with its per-instruction cache) against the    *)
(* definition, for EVERY document shape of N nodes as far as the algorithm can tell (every subset of      *)
(* nodes matching count, every subset matching from, from given or not) and EVERY history of numbered     *)
(* nodes of length <= MaxHist: the count delivered for a node never depends on what was numbered before.  *)
(* hist + VIEW: one shortest history per (cache state, node) transition for replay on the real code.      *)
EXTENDS CountersImpl, TLC
CONSTANTS N, MaxHist
VARIABLES d, counters, hist, lastNode, lastCount

vars == <<d, counters, hist, lastNode, lastCount>>
Init == /\ d \in [n : {N}, match : SUBSET (0..N), from : SUBSET (0..N), hasFrom : BOOLEAN]
        /\ (~d.hasFrom => d.from = {})
        /\ counters = <<>> /\ hist = <<>> /\ lastNode = Null /\ lastCount = 0
Number(node) == LET r == CountNode(counters, node, d) IN
                /\ Len(hist) < MaxHist
                /\ counters' = r.counters /\ lastNode' = node /\ lastCount' = r.count
                /\ hist' = Append(hist, node) /\ UNCHANGED d
Next == \E node \in 1..N : Number(node)
Spec == Init /\ [][Next]_vars

View == <<d, counters, lastNode, lastCount>>

(* the count equals the definition, whatever was numbered before (known deviation excluded, undefined cases not judged) *)
Refines == lastNode = Null \/ Ambiguous(lastNode, d) \/ KnownDeviation(lastNode, d) \/ lastCount = Def(lastNode, d)
(* the cache only ever holds matching nodes in strictly increasing document order, and no node twice across counters *)
CacheShape == \A i \in 1..Len(counters) :
                 /\ \A k \in 1..Len(counters[i]) : counters[i][k] \in d.match
                 /\ \A k \in 1..(Len(counters[i]) - 1) : counters[i][k] < counters[i][k + 1]
=============================================================================
