----------------------------- MODULE MC_Sharing -----------------------------
(* Bounded model of the sharing protocol: 2-3 worker threads, one shared stylesheet and source,   *)
(* every interleaving of the implementation-shaped thread program (SharingImpl) against the        *)
(* abstract rules (Sharing).  Configurations (spec/mc/MC_Sharing_*.cfg):                           *)
(*   prebuilt      Xerces bridge, wrapper nodes pre-built, pool under its mutex   RaceFree holds    *)
(*   native_ids    native tree with ID attributes                                  RaceFree holds    *)
(*   ondemand      Xerces bridge, wrapper nodes built on demand          RaceFree VIOLATED (expected) *)
(*   sentinel      native tree without ID attributes (lazy list sentinel) RaceFree VIOLATED (expected) *)
(*   poolunlocked  Xerces bridge, pool without mutex (useXercesDOM=true)  RaceFree VIOLATED (expected) *)
(*   staticscratch a function-local static scratch buffer in the library  RaceFree VIOLATED (expected) *)
(* The expected counterexamples prove that RaceFree is not vacuous in the model, and the           *)
(* `_cons` configurations show on the same racy models that a behaviour without a rule-breaking    *)
(* store always delivers the sequential output, while `_out` shows the race does change outputs.   *)
EXTENDS SharingImpl, TLC

TypeInv  == S!TypeOK(s)
RaceFree == S!RaceFree(s)
OutputsSequential == S!OutputsSequential(s, Uses)

(* every thread's output equals the sequential output when no rule-breaking store happened ...    *)
SeqIfRaceFree == RaceFree => OutputsSequential
(* ... in particular when no store into a frozen object happened at all                           *)
SeqIfNoPostFreezeWrite == S!NoPostFreezeWrite(s) => OutputsSequential
NoPostFreezeWrite == S!NoPostFreezeWrite(s)

(* the protocol can run to its end (checked as an invariant that must be violated) *)
NeverJoined == ~s.joined
=============================================================================
