--------------------------- MODULE MC_FormatNumber ---------------------------
(* Golden values of FormatNumber.tla taken from the JDK 1.1 DecimalFormat description and the XSLT 1.0        *)
(* Recommendation's examples, plus laws over a pool of pictures and numbers (one TLC state per pair).         *)
EXTENDS FormatNumber, TLC
S(str) == str
D == DefaultDFS
EU == [DefaultDFS EXCEPT !.dec = 44, !.grp = 46]
F(m, pic) == FormatNumber(Fin(FALSE, m), pic, D).s
FN(m, pic) == FormatNumber(Fin(TRUE, m), pic, D).s
ASSUME Golden ==
  /\ F(9876, <<35,44,35,35,48,46,48,48>>) = <<49,44,50,51,52,46,53,48>>          \* 1234.5  #,##0.00 -> 1,234.50
  /\ F(1, <<48,46,48,48>>) = <<48,46,49,50>>                                       \* 0.125 0.00 -> 0.12 (half-even)
  /\ F(3, <<48,46,48,48>>) = <<48,46,51,56>>                                       \* 0.375 0.00 -> 0.38
  /\ F(20, <<48>>) = <<50>> /\ F(28, <<48>>) = <<52>>                              \* 2.5 -> 2, 3.5 -> 4
  /\ FormatNumber(Fin(FALSE, 4), <<35,46,35>>, D).unm                              \* 0.5 #.# : ".5" (JDK 1.1) or "0.5" (ICU)? not judged
  /\ F(12, <<35,46,35>>) = <<49,46,53>>                                            \* 1.5 #.# -> 1.5
  /\ F(0, <<35>>) = <<48>>                                                          \* 0 # -> 0
  /\ F(40, <<48,48,48>>) = <<48,48,53>>                                            \* 5 000 -> 005
  /\ F(2, <<48,37>>) = <<50,53,37>>                                                \* 0.25 0% -> 25%
  /\ F(98760, <<35,44,35,35,35>>) = <<49,50,44,51,52,53>>                          \* 12345 #,### -> 12,345
  /\ FN(40, <<48,59,40,48,41>>) = <<40,53,41>>                                     \* -5 0;(0) -> (5)
  /\ FN(40, <<48>>) = <<45,53>>                                                    \* -5 0 -> -5
  /\ FormatNumber(NaN, <<97,48>>, D).s = <<78,97,78>>                              \* NaN a0 -> NaN
  /\ FormatNumber(Inf(TRUE), <<97,48,98>>, D).s = <<45,97>> \o D.inf \o <<98>>     \* -Infinity a0b -> -aInfinityb
  /\ FormatNumber(Fin(FALSE, 9876), <<35,46,35,35,48,44,48,48>>, EU).s = <<49,46,50,51,52,44,53,48>>   \* eu: 1.234,50
  /\ FormatNumber(Fin(FALSE, 8), <<48,46,48,46,48>>, D).unm                        \* two decimal separators: outside the fragment
  /\ FormatNumber(Fin(TRUE, 1), <<48>>, D).unm                                     \* -0.125 0 : "-0" or "0"? not judged

VARIABLE c
Pool == { <<48>>, <<35>>, <<35,48>>, <<48,46,48>>, <<48,46,48,48>>, <<35,46,35>>, <<35,46,35,35>>, <<48,46,48,35>>, <<35,44,35,35,48>>,
          <<35,44,35,35,48,46,48,48>>, <<35,44,35,35,35>>, <<48,48,48>>, <<48,48,46,48>>, <<48,37>>, <<35,37>>, <<48,46,48,37>>, <<35,8240>>,
          <<97,48,98>>, <<40,48,41>>, <<48,46,48,59,40,48,46,48,41>>, <<120,35,121,59,122,35,119>> }
Ms == {0, 1, 2, 3, 4, 5, 7, 8, 9, 12, 20, 36, 100, 8004, 9876, 79999, 98760}
Init == c \in [m : Ms, neg : BOOLEAN, pic : Pool]
Next == UNCHANGED c
Spec == Init /\ [][Next]_c
R == FormatNumber(Fin(c.neg, c.m), c.pic, D)
(* every pool picture is inside the fragment; the only unjudged cases are negative values that round to zero *)
Defined == R.unm => (c.neg \/ c.m < 8)
(* the result contains at least one digit; without a negative sub-pattern a negative value is the minus sign followed by the positive form *)
HasDigit == ~R.unm => \E i \in 1..Len(R.s) : R.s[i] >= 48 /\ R.s[i] <= 57
NegIsMinusPos == (c.neg /\ ~R.unm /\ \A i \in 1..Len(c.pic) : c.pic[i] # 59) => R.s = <<45>> \o FormatNumber(Fin(FALSE, c.m), c.pic, D).s
=============================================================================
