----------------------------- MODULE MC_NodeList -----------------------------
(* Bounded model: every history of list operations over 2 documents x MaxIdx nodes, with the     *)
(* implementation-shaped algorithm (NodeListImpl) as the transition function and the abstract    *)
(* contract (NodeList) as the property.  It is also the behaviour generator of the conformance   *)
(* harness: `hist` is the shortest history reaching each (pre-state, operation) pair - the VIEW  *)
(* hides it, so TLC keeps one state per transition of the implementation-shaped graph, and       *)
(* `tlc -dump` writes them out (tools/tlaparse.py reads them back).                              *)
EXTENDS NodeListImpl, TLC

CONSTANTS MaxIdx, MaxLen, MaxHist, MaxSrc
VARIABLES list, flag, prev, hist

IndexedAll   == [d \in 1..2 |-> TRUE]
IndexedNone  == [d \in 1..2 |-> FALSE]
IndexedMixed == [d \in 1..2 |-> d = 1]

Nodes == {<<d, i>> : d \in 1..2, i \in 1..MaxIdx}
vars == <<list, flag, prev, hist>>
St == [list |-> list, flag |-> flag]
LastOp == IF hist = <<>> THEN [op |-> "init"] ELSE hist[Len(hist)]
View == <<list, flag, prev, LastOp>>

(* source lists handed to addNodesInDocOrder: any duplicate-free list of <= MaxSrc nodes *)
SrcLists == UNION {{s \in [1..k -> Nodes] : NoDup(s)} : k \in 1..MaxSrc}
Srcs == {[list |-> s, flag |-> f] : s \in SrcLists, f \in Flags}

Init == list = <<>> /\ flag = "unknown" /\ prev = St /\ hist = <<>>

Rec(op) == hist' = Append(hist, op) /\ prev' = St

AddNode(n)    == /\ Honest(Append(list, n), flag)        \* caller obligation: keep the promise
                 /\ list' = Append(list, n) /\ UNCHANGED flag
                 /\ Rec([op |-> "addNode", n |-> n])
AddInOrder(n, g) ==
                 /\ PreAddInOrder(St)
                 /\ (g => ~KnownDeviation(list, n))
                 /\ list' = AddNodeInDocOrder(list, n) /\ UNCHANGED flag
                 /\ Rec([op |-> "addInOrder", n |-> n])
AddAll(src, g) ==
                 /\ PreAddAllInOrder(St, src)
                 /\ (g => ~BulkDeviates(list, src.list, src.flag))
                 /\ list' = AddNodesInDocOrder(list, src.list, src.flag) /\ UNCHANGED flag
                 /\ Rec([op |-> "addAll", src |-> src.list, sflag |-> src.flag])
Clear         == /\ list # <<>>
                 /\ list' = <<>> /\ flag' = "unknown" /\ Rec([op |-> "clear"])
Rev           == /\ Len(list) > 1
                 /\ list' = Reverse(list) /\ flag' = FlipFlag(flag) /\ Rec([op |-> "reverse"])
SetFlag(f)    == /\ f # flag /\ PreSetFlag(St, f)
                 /\ flag' = f /\ UNCHANGED list /\ Rec([op |-> "setFlag", f |-> f])

(* g = TRUE: the known deviations of the algorithm are kept out (design check);                *)
(* g = FALSE: they are generated too, so that the real code is confronted with them           *)
NextG(g) == /\ Len(hist) < MaxHist
            /\ \/ \E n \in Nodes : AddNode(n) \/ AddInOrder(n, g)
               \/ \E s \in Srcs : AddAll(s, g)
               \/ Clear \/ Rev
               \/ \E f \in Flags : SetFlag(f)

Spec    == Init /\ [][NextG(TRUE)]_vars
GenSpec == Init /\ [][NextG(FALSE)]_vars
Bound == Len(list) <= MaxLen

(* ---- properties --------------------------------------------------------------------------- *)
HonestInv == Honest(list, flag)

(* every implementation step is a step of the abstract contract *)
StepRefines ==
  LET pre == prev'
      post == [list |-> list', flag |-> flag']
      op == hist'[Len(hist')] IN
  CASE op.op = "addNode"    -> PostAddNode(pre, op.n, post)
    [] op.op = "addInOrder" -> PostAddInOrder(pre, op.n, post)
    [] op.op = "addAll"     -> PostAddAllInOrder(pre, [list |-> op.src, flag |-> op.sflag], post)
    [] op.op = "clear"      -> PostClear(pre, post)
    [] op.op = "reverse"    -> PostReverse(pre, post)
    [] op.op = "setFlag"    -> PostSetFlag(pre, op.f, post)
Refinement == [][StepRefines]_vars

(* no deviation is excluded any more: KnownDeviation is FALSE, so Spec and GenSpec coincide *)
DeviationsAreReal == TRUE
=============================================================================
