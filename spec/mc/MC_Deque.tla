------------------------------- MODULE MC_Deque -------------------------------
(* Bounded model of XalanDeque: histories of <= MaxHist operations on one deque (values 1..NVals,   *)
(* length <= MaxLen, tiny BlockSize), DequeImpl as the transition function, Containers!DeqApply as   *)
(* the property.  Exploration and export as in MC_Vector.                                            *)
EXTENDS DequeImpl, TLC

CONSTANTS NVals, MaxLen, MaxHist, MaxSrc
VARIABLES d, prev, res, other, tags, hist, fin

Vals == 1..NVals
vars == <<d, prev, res, other, tags, hist, fin>>
LastOp == IF hist = <<>> THEN [op |-> "init"] ELSE hist[Len(hist)]
View == IF fin THEN <<d, prev, LastOp, TRUE>> ELSE <<d, Len(hist), FALSE>>

Srcs == UNION {[1..n -> Vals] : n \in 0..MaxSrc}
Ops == [op : {"pushBack"}, v : Vals]
       \cup [op : {"popBack", "clear", "selfAssign", "copy"}]
       \cup [op : {"resize"}, n : 0..MaxLen]
       \cup [op : {"assign"}, src : Srcs]
       \cup [op : {"swap"}, src : Srcs, wide : BOOLEAN]        \* wide: the partner of the swap has a larger block size

Init == d = NewDeq /\ prev = NewDeq /\ res = 0 /\ other = <<>> /\ tags = {} /\ hist = <<>> /\ fin = FALSE

TagsOf(D, op, D2) ==
  (IF D.nfree > 0 /\ D2.nfree < D.nfree THEN {"blockReuse"} ELSE {})
  \cup (IF Len(D2.blocks) > Len(D.blocks) /\ Len(D.blocks) > 0 THEN {"newBlock"} ELSE {})
  \cup (IF Len(D2.blocks) < Len(D.blocks) /\ op.op = "popBack" THEN {"blockFreed"} ELSE {})
  \cup (IF RepairedPath(D, op) THEN {"repaired"} ELSE {})        \* runs through code repaired by a fix: commit

Do(op) ==
  /\ DeqApply(Items(d), op).ok
  /\ (op.op = "resize" => op.n # Size(d))
  /\ LET r == ImplApply(d, op) IN
       /\ d' = r.d /\ res' = r.res /\ other' = r.other /\ tags' = TagsOf(d, op, r.d)
  /\ prev' = d
  /\ hist' = Append(hist, op)

Next == /\ ~fin /\ Len(hist) < MaxHist
        /\ \E op \in Ops : /\ Do(op)
                            /\ \/ fin' = TRUE
                               \/ fin' = FALSE /\ Len(hist) + 1 < MaxHist /\ Size(d') <= MaxLen
Spec == Init /\ [][Next]_vars
GenSpec == Spec                                 \* (no known deviation is left to be generated separately)

(* random long histories (tlc -simulate): only advancing steps *)
SimNext == ~fin /\ Len(hist) < MaxHist /\ \E op \in Ops : Do(op) /\ fin' = FALSE /\ Size(d') <= MaxLen
SimSpec == Init /\ [][SimNext]_vars

ObsOf(D) == LET s == Items(D) IN
  [items |-> s, iter |-> s, ritems |-> Rev(s), size |-> Size(D), empty |-> Empty(D),
   back |-> IF s = <<>> THEN 0 ELSE s[Len(s)], live |-> Len(s), bad |-> 0]

StepRefines ==
  LET op == hist'[Len(hist')]
      a == DeqApply(Items(prev'), op)
  IN /\ a.ok
     /\ DeqObsOK(a.st, ObsOf(d'))
     /\ res' = a.res
     /\ DeqOtherOK(Items(prev'), op, other')
Refinement == [][StepRefines]_vars              \* no exclusions: every transition of the transcribed algorithm
WellFormedInv == WellFormed(d)
=============================================================================
