--------------------------- MODULE MC_PositionCache ---------------------------
(* Every sequence of pushContextNodeList / popContextNodeList / position() over lists of up to MaxLen nodes out of  *)
(* 1..N, nested up to MaxDepth: the cached answer is the definition's.  With ClearOnPop = FALSE (or ClearOnPush =     *)
(* FALSE) TLC finds the stale answer: an inner path ending on the outer context node, then position() outside.        *)
EXTENDS PositionCacheImpl, TLC
CONSTANTS N, MaxLen, MaxDepth, ClearOnPush, ClearOnPop
Lists == UNION {[1..k -> 1..N] : k \in 0..MaxLen}
DupFree(l) == \A i, j \in 1..Len(l) : i # j => l[i] # l[j]
VARIABLES s, ok
Init == s = [stack |-> <<<<>>>>, cache |-> EmptyCache] /\ ok = TRUE
Next == \/ \E l \in Lists : DupFree(l) /\ Len(s.stack) < MaxDepth /\ s' = Push(s, l, ClearOnPush) /\ UNCHANGED ok
        \/ Len(s.stack) > 1 /\ s' = Pop(s, ClearOnPop) /\ UNCHANGED ok
        \/ \E n \in 1..N : LET r == Position(s, n) IN s' = r.s /\ ok' = (ok /\ r.pos = Defined(s, n))
Spec == Init /\ [][Next]_<<s, ok>>
PositionIsDefinition == ok
=============================================================================
