SPECIFICATION Spec
CONSTANTS
  Threads = {t1, t2, t3}
  SourceKind = "native"
  HasIds = TRUE
  PrebuiltWrapper = TRUE
  PoolLocked = TRUE
  StaticScratch = TRUE
  MaxRuns = 1
INVARIANT TypeInv
INVARIANT SeqIfRaceFree
INVARIANT SeqIfNoPostFreezeWrite
