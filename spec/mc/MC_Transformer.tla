---------------------------- MODULE MC_Transformer ----------------------------
(* Bounded model of the C06 life cycle and generator of the API histories replayed on the real    *)
(* XalanTransformer.                                                                               *)
(*   transition function : TransformerImpl (XalanTransformer's own bookkeeping, transcribed) with   *)
(*                         the engine abstracted to the function Engine of TransformerPool          *)
(*   property            : Transformer.tla - every observation of the implementation-shaped model   *)
(*                         is a step of the abstract life cycle (`acc`), where the oracle is        *)
(*                         learned from the same model run on a fresh object (IFresh)               *)
(*   known deviations    : none at this level (the two found in round 1 - parameter value shadowed   *)
(*                         by an older expression string, stale error message - are repaired in     *)
(*                         /repo and the transcription follows the repaired code)                   *)
(*   generator           : `hist` is the shortest call history reaching each view; the VIEW hides   *)
(*                         hist / oracle / last / acc but keeps                                      *)
(*                          - the implementation-shaped state m (parameter holders with both slots,  *)
(*                            the message buffer, "map was used and emptied again" ghosts),          *)
(*                          - `resid`: stylesheet, how it was passed (handle / inline), source and   *)
(*                            outcome class of the previous transformation - what WOULD be left in   *)
(*                            the execution context if a reset were missed,                          *)
(*                          - `prev`: resid before the last call, when that call is an observer      *)
(*                         so that every (what an earlier transformation could have left behind,     *)
(*                         next call) combination has its own history although the abstract machine, *)
(*                         rightly, cannot tell them apart.  `tlc -dump` writes the states out.      *)
(*                         The outcome classes of `resid` over all dumped states are the vacuity     *)
(*                         check of tools/props/c06.py: every class of TransformerPool must occur.   *)
EXTENDS Transformer, TransformerImpl

CONSTANTS MaxHist,        \* length of the call histories
          MaxH,           \* handles of each kind created per history
          CompileDocs,    \* stylesheets the generator compiles       (subset of PoolSS)
          ParseDocs,      \* sources the generator parses             (subset of PoolSrc)
          InlineSS,       \* stylesheets passed inline to transform() (subset of PoolSS)
          InlineSrc,      \* sources passed inline                    (subset of PoolSrc)
          Vals,           \* parameter values used                    (subset of PoolPVals)
          Fns             \* functions installed / uninstalled        (subset of PoolFNames)

VARIABLES m, resid, prev, hist, last, acc

mcvars == <<vars, m, resid, prev, hist, last, acc>>
LastCall == IF hist = <<>> THEN [op |-> "init"] ELSE hist[Len(hist)]
NoResid == [ss |-> "none", class |-> "none", via |-> "none", src |-> "none"]
(* prev = resid before the last call: kept in the view when that call was a transformation (the observer of a leak) *)
(* and ran one of the state-heavy stylesheets S1..S6, SD1, SD2 on a well-formed source                                        *)
Observer(c) == /\ c.op = "Transform"
               /\ DocOf(c.ss, liveSS) \in {"S1", "S2", "S3", "S4", "S5", "S6", "S7", "S8", "S9", "SD1", "SD2"}
               /\ DocOf(c.src, liveSrc) # "DX"
View == <<params, fns, liveSS, nSS, liveSrc, nSrc, lastError, m, resid,
          IF Observer(LastCall) THEN prev ELSE NoResid, LastCall>>

(* the design check needs neither: the abstract machine and the bookkeeping do not read resid / prev *)
ViewMC == <<params, fns, liveSS, nSS, liveSrc, nSrc, lastError, m, LastCall>>

MCInit == Init /\ m = MInit /\ resid = NoResid /\ prev = NoResid /\ hist = <<>>
          /\ last = [e |-> "init"] /\ acc = TRUE

(* the call part of an event (what the harness needs to repeat it) *)
CallOf(ev) ==
  CASE ev.e = "Compile"     -> [op |-> "Compile", ss |-> ev.ss]
    [] ev.e = "Parse"       -> [op |-> "Parse", src |-> ev.src]
    [] ev.e = "SetParam"    -> [op |-> "SetParam", k |-> ev.k, v |-> ev.v]
    [] ev.e = "ClearParams" -> [op |-> "ClearParams"]
    [] ev.e = "InstallFn"   -> [op |-> "InstallFn", f |-> ev.f]
    [] ev.e = "UninstallFn" -> [op |-> "UninstallFn", f |-> ev.f]
    [] ev.e = "DestroySS"   -> [op |-> "DestroySS", h |-> ev.h]
    [] ev.e = "DestroySrc"  -> [op |-> "DestroySrc", h |-> ev.h]
    [] ev.e = "Transform"   -> [op |-> "Transform", ss |-> ev.ss, src |-> ev.src]

(* one call on the reused transformer: the implementation-shaped model produces the observation,   *)
(* the abstract machine (after learning, if necessary, what a fresh transformer returns) judges it *)
Do(r, st1, freshOk) ==
  LET a == Step(st1, r.ev) IN
  /\ Becomes(a.st)
  /\ m' = r.m
  /\ acc' = (a.ok /\ freshOk)
  /\ last' = r.ev
  /\ prev' = resid
  /\ hist' = Append(hist, CallOf(r.ev))

Plain(r) == Do(r, St, TRUE) /\ UNCHANGED resid

SSRefs  == {[k |-> "i", d |-> d] : d \in InlineSS}  \cup {[k |-> "h", h |-> h] : h \in DOMAIN liveSS}
SrcRefs == {[k |-> "i", d |-> d] : d \in InlineSrc} \cup {[k |-> "h", h |-> h] : h \in DOMAIN liveSrc}

DoTransform(ssRef, srcRef) ==
  LET r == ITransform(m, ssRef, srcRef)
      ssDoc == DocOf(ssRef, liveSS)
      srcDoc == DocOf(srcRef, liveSrc)
      key == TKey(ssDoc, srcDoc, params, fns)
      f == Step(St, IFresh(ssDoc, srcDoc, params, fns))        \* the Fresh event of the harness
      known == key \in DOMAIN oracle
  IN /\ Do(r, IF known THEN St ELSE f.st, known \/ f.ok)
     /\ resid' = [ss |-> ssDoc, class |-> Class(ssDoc, srcDoc, EffParams(m), m.functions),
                   via |-> ssRef.k, src |-> srcDoc]

MCNext ==
  /\ Len(hist) < MaxHist
  /\ \/ \E d \in CompileDocs : nSS < MaxH /\ Plain(ICompile(m, d))
     \/ \E d \in ParseDocs : nSrc < MaxH /\ Plain(IParse(m, d))
     \/ \E k \in PoolPNames, v \in Vals : /\ v # params[k]
                                          /\ Plain(ISetParam(m, k, v))
     \/ (m.holders # MInit.holders /\ Plain(IClearParams(m)))
     \/ \E f \in Fns : IF fns[f] THEN Plain(IUninstallFn(m, f)) ELSE Plain(IInstallFn(m, f))
     \/ \E h \in DOMAIN liveSS : Plain(IDestroySS(m, h))
     \/ \E h \in DOMAIN liveSrc : Plain(IDestroySrc(m, h))
     \/ \E ssRef \in SSRefs, srcRef \in SrcRefs : DoTransform(ssRef, srcRef)

MCSpec == MCInit /\ [][MCNext]_mcvars

(* ---- properties of the design ------------------------------------------------------------------ *)
(* every observation of the implementation-shaped transformer is a step of the abstract life cycle *)
Refinement == acc

TypeInv == TypeOK(St)

(* the refinement mapping: what the implementation keeps is what the abstract machine says it remembers *)
ImplAgrees == /\ EffParams(m) = params /\ m.functions = fns
              /\ m.ss = liveSS /\ m.nss = nSS /\ m.src = liveSrc /\ m.nsrc = nSrc
              /\ (m.err # "") = lastError
              /\ m.ctx = {}

(* the oracle is a function of (stylesheet, source, params, fns): what was learned is the engine's answer *)
OracleDeterministic == \A key \in DOMAIN oracle :
   [status |-> oracle[key].status, out |-> oracle[key].out] = Engine(key[2], key[3], key[4], key[5])

(* params are sticky, handles change only by compile / parse / destroy, failing calls leave no trace; *)
(* the generator never uses a handle that is not live (Step would have rejected it: acc)              *)
(* (a Transform step of this model includes the Fresh run that teaches the oracle)                     *)
Sticky == [][StickyStep([St EXCEPT !.oracle = oracle'], last', St')]_mcvars
=============================================================================
