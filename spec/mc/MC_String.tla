------------------------------ MODULE MC_String ------------------------------
(* Bounded model: every history of <= MaxHist operations on one XalanDOMString over the code units  *)
(* 1..NUnits (length <= MaxLen), StringImpl as the transition function and Containers!StrApply as    *)
(* the property, including the terminator invariant.  Other strings are literal unit sequences in    *)
(* the operation; the ...Self operations pass the string to itself.                                  *)
(* `hist` + VIEW + `tlc -dump` export one shortest history per (pre-state, operation).               *)
EXTENDS StringImpl, TLC

CONSTANTS NUnits, MaxLen, MaxHist, MaxSrc
VARIABLES s, prev, res, other, tags, hist, fin

Chars == 1..NUnits
vars == <<s, prev, res, other, tags, hist, fin>>
LastOp == IF hist = <<>> THEN [op |-> "init"] ELSE hist[Len(hist)]
(* Exploration: a step either ADVANCES (fin' = FALSE: the successor is identified by the object     *)
(* state and the depth only, and is expanded further) or FINISHES (fin' = TRUE: the successor keeps   *)
(* the pre-state and the operation in its identity and is a leaf).  So every transition (pre-state,   *)
(* operation) of the implementation-shaped graph is generated, checked and exported once, while the   *)
(* search itself runs over the distinct object states.  The depth in the view keeps the set of         *)
(* explored states exact for any number of workers.                                                    *)
View == IF fin THEN <<s, prev, LastOp, TRUE>> ELSE <<s, Len(hist), FALSE>>

Srcs == UNION {[1..n -> Chars] : n \in 0..MaxSrc}
Srcs1 == Srcs \ {<<>>}
Pos == 0..MaxLen
Cnt == 0..MaxSrc
CntN == Cnt \cup {Npos}

Ops == [op : {"append", "assign", "assignPtr", "swap", "compare", "equals"}, src : Srcs]
       \cup [op : {"appendSelf", "selfAssign", "clear", "copy"}]
       \cup [op : {"appendSub"}, src : Srcs1, pos : 0..(MaxSrc - 1), n : CntN]
       \cup [op : {"appendSubSelf", "copySub"}, pos : Pos, n : CntN]
       \cup [op : {"appendPtr"}, src : Srcs1, n : 1..MaxSrc]
       \cup [op : {"appendN", "assignN"}, n : Cnt, ch : Chars]
       \cup [op : {"pushBack"}, ch : Chars]
       \cup [op : {"insert"}, pos : Pos, src : Srcs]
       \cup [op : {"insertSelf"}, pos : Pos]
       \cup [op : {"insertSub"}, pos : Pos, src : Srcs1, pos2 : 0..(MaxSrc - 1), n : 1..MaxSrc]
       \cup [op : {"insertSubSelf", "insertRangeSelf"}, pos : Pos, pos2 : Pos, n : 1..MaxSrc]
       \cup [op : {"insertN"}, pos : Pos, n : Cnt, ch : Chars]
       \cup [op : {"insertIt"}, pos : Pos, ch : Chars]
       \cup [op : {"erase"}, pos : Pos, n : CntN]
       \cup [op : {"eraseIt"}, pos : Pos]
       \cup [op : {"eraseRange"}, first : Pos, last : Pos]
       \cup [op : {"assignSub"}, src : Srcs1, pos : 0..(MaxSrc - 1), n : Cnt]
       \cup [op : {"assignSubSelf"}, pos : Pos, n : Cnt]
       \cup [op : {"resize"}, n : Pos]
       \cup [op : {"resizeC"}, n : Pos, ch : Chars]
       \cup [op : {"substr"}, out : {<<>>, <<1, 2>>}, pos : Pos, n : CntN]
       \cup [op : {"substrSelf"}, pos : Pos, n : CntN]
       \cup [op : {"reserve"}, n : 1..(MaxLen + 2)]
       \cup [op : {"at"}, i : 0..(MaxLen + 1)]

Init == s = NewStr /\ prev = NewStr /\ res = 0 /\ other = <<>> /\ tags = {} /\ hist = <<>> /\ fin = FALSE

TagsOf(S, op, S2) ==
  (IF S2.d.alloc # S.d.alloc /\ S.d.alloc > 0 THEN {"realloc"} ELSE {})
  \cup (IF op.op \in {"appendSelf", "appendSubSelf", "insertSelf", "insertSubSelf", "insertRangeSelf"} /\ S2.d.alloc = S.d.alloc /\ S2.n > S.n
        THEN {"selfInPlace"} ELSE {})
  \cup (IF op.op \in {"assignSubSelf", "substrSelf"} /\ op.pos > 0 THEN {"selfMove"} ELSE {})
  \cup (IF ~DEmpty(S) /\ S.n = 0 THEN {"emptyWithBuffer"} ELSE {})
  \cup (IF SRepairedPath(S, op) THEN {"repaired"} ELSE {})       \* runs through code repaired by a fix: commit

Do(op) ==
  /\ StrApply(Units(s), op).ok
  /\ (op.op = "resize" => op.n < s.n)                           \* growing with the default unit would put 0 inside
  /\ (op.op = "resizeC" => op.n # s.n)
  /\ (op.op = "reserve" => op.n > Capacity(s))
  /\ LET r == SImplApply(s, op) IN
       /\ s' = r.s /\ res' = r.res /\ other' = r.other /\ tags' = TagsOf(s, op, r.s)
  /\ prev' = s
  /\ hist' = Append(hist, op)

Next == /\ ~fin /\ Len(hist) < MaxHist
        /\ \E op \in Ops : /\ Do(op)
                            /\ \/ fin' = TRUE
                               \/ fin' = FALSE /\ Len(hist) + 1 < MaxHist /\ s'.n <= MaxLen
Spec == Init /\ [][Next]_vars
GenSpec == Spec                                 \* (no known deviation is left to be generated separately)

(* random long histories (tlc -simulate): only advancing steps *)
SimNext == ~fin /\ Len(hist) < MaxHist /\ \E op \in Ops : Do(op) /\ fin' = FALSE /\ s'.n <= MaxLen
SimSpec == Init /\ [][SimNext]_vars

(* ---- properties ---------------------------------------------------------------------------- *)
ObsOf(S) == [units |-> Units(S), len |-> S.n, empty |-> (S.n = 0), term |-> Term(S), cap |-> Capacity(S)]

StepRefines ==
  LET op == hist'[Len(hist')]
      a == StrApply(Units(prev'), op)
  IN /\ a.ok
     /\ StrObsOK(a.st, ObsOf(s'))
     /\ StrExtraOK(op, ObsOf(s'))
     /\ res' = a.res
     /\ StrOtherOK(Units(prev'), op, other')
     /\ ~s'.oob
Refinement == [][StepRefines]_vars              \* no exclusions: every transition of the transcribed algorithm

InvariantsInv == Invariants(s)
=============================================================================
