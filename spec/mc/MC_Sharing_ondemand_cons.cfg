SPECIFICATION Spec
CONSTANTS
  Threads = {t1, t2, t3}
  SourceKind = "xerces"
  HasIds = TRUE
  PrebuiltWrapper = FALSE
  PoolLocked = TRUE
  StaticScratch = FALSE
  MaxRuns = 1
INVARIANT TypeInv
INVARIANT SeqIfRaceFree
INVARIANT SeqIfNoPostFreezeWrite
