------------------------------ MODULE MC_Forms ------------------------------
(* C05 model checking.  Three specifications over one set of variables:                                    *)
(*  EnumSpec   one initial state per (cfg, input kind): TLC enumerates Cfgs, decides Supported / the        *)
(*             exclusions that hit, Via(cfg); `tlc -dump` exports them (tools/props/c05.py reads `cfg`,     *)
(*             `info`).  Invariant RunIsFormIndependent: what each supported form delivers for an input     *)
(*             satisfies Run(cfg, ..) for the ONE outcome R(input) - including the text method, where byte  *)
(*             targets only carry the string-value.                                                         *)
(*  CoverSpec  one state; invariant QuickIsPairwiseCovering: the quick-tier subset ($QUICK, chosen greedily *)
(*             in Python from the export) is a subset of SupportedCfgs in which every pair of               *)
(*             (dimension = value) co-occurring in some supported form occurs.                              *)
(*  CbSpec     the callback target: every way a client can write Data (single units, strings up to MaxStr,  *)
(*             pre-encoded byte blocks) through FormsCallbackImpl (XalanOutputStream +                       *)
(*             XalanTransformerOutputStream, buffer of BufSize) followed by the end of the run, with an      *)
(*             honest handler (ShortAt = 0) or one that reports a short count at its ShortAt-th call.        *)
(*             Invariants: Conserved (chunks so far \o buffer = what was written), Bounded, and at the end   *)
(*             ChunkProtocol (Concat(chunks) = Data, no empty chunk, flush handler only after the last       *)
(*             chunk and at least once) / ShortCountSurfaces (status = error, no further handler call for    *)
(*             data, the flush handler still only at the end).                                               *)
EXTENDS Forms, FormsCallbackImpl, Json, IOUtils

CONSTANTS N,          \* CbSpec: Data = <<1, .., N>>
          MaxStr,     \* CbSpec: longest string write
          Wide        \* CbSpec: TRUE = the UTF-16 producing writers (write(XalanDOMChar*) / write(XalanDOMChar)),
                      \*         FALSE = the UTF-8 writers (write(const char*, n), m_buffer stays empty)
VARIABLES part, cfg, inp, info, s, pos, fin
vars == <<part, cfg, inp, info, s, pos, fin>>

Data == [i \in 1..N |-> i]

(* ---- input kinds of the enumeration: the ONE outcome R(i) and the features Feat(i) ---------------------- *)
T(v) == [k |-> "text", v |-> v]
E(name, kids) == [k |-> "elem", name |-> name, ns |-> "", attrs |-> <<>>, kids |-> kids]
TreeA == <<E("r", <<T("a"), E("b", <<T("c")>>), [k |-> "comment", v |-> "x"], T("d")>>)>>
Inputs == {"xml", "text", "fail", "utf16", "srcbase"}
R(i) == IF i = "fail" THEN [ok |-> FALSE, tree |-> <<>>] ELSE [ok |-> TRUE, tree |-> TreeA]
Feat(i) == [utf16 |-> i = "utf16", srcbase |-> i = "srcbase", method |-> IF i = "text" THEN "text" ELSE "xml"]
(* what a form hands back: tree targets the tree itself; byte targets the parse of Serialize(method, tree) *)
Delivered(c, i) ==
  LET r == R(i)
      t == IF ~r.ok THEN <<>>
           ELSE IF c.out \in TreeOuts \/ Feat(i).method # "text" THEN r.tree
           ELSE <<T(StrVal(r.tree))>>
  IN [ok |-> r.ok, tree |-> t, wlog |-> IF r.ok THEN <<3, 2, -1, -1>> ELSE <<-1>>, nbytes |-> IF r.ok THEN 5 ELSE 0]

NoS == S0
NoFin == [status |-> "none", log |-> <<>>, buf |-> <<>>]
NoCfg == [src |-> "file", ss |-> "inputSource", out |-> "stream", api |-> "cpp"]
NoInfo == [sup |-> TRUE, why |-> {}, via |-> "file"]

(* ---------------------------------------------------------------- EnumSpec ------------------------------ *)
EnumInit == /\ part = "enum" /\ cfg \in Cfgs /\ inp \in Inputs
            /\ info = [sup |-> Supported(cfg), why |-> ExclusionsOf(cfg), via |-> Via(cfg)]
            /\ s = NoS /\ pos = 0 /\ fin = NoFin
EnumSpec == EnumInit /\ [][UNCHANGED vars]_vars

RunIsFormIndependent ==
  part = "enum" /\ SupportedFor(cfg, Feat(inp)) => Run(cfg, Feat(inp), R(inp), Delivered(cfg, inp))
ExclusionsAreDisjointFromSupport == part = "enum" => (info.sup <=> info.why = {})

(* ---------------------------------------------------------------- CoverSpec ----------------------------- *)
QuickSeq == ndJsonDeserialize(IOEnv.QUICK)
QuickSet == {[src |-> q.src, ss |-> q.ss, out |-> q.out, api |-> q.api] : q \in {QuickSeq[i] : i \in DOMAIN QuickSeq}}
CoverInit == /\ part = "cover" /\ cfg = NoCfg /\ inp = "xml" /\ info = NoInfo /\ s = NoS /\ pos = 0 /\ fin = NoFin
CoverSpec == CoverInit /\ [][UNCHANGED vars]_vars
QuickIsPairwiseCovering == part = "cover" => PairwiseCovering(QuickSet)

(* ---------------------------------------------------------------- CbSpec -------------------------------- *)
CbInit == /\ part = "cb" /\ cfg = NoCfg /\ inp = "xml" /\ info = NoInfo /\ s = S0 /\ pos = 0 /\ fin = NoFin

ClientWrite ==
  /\ fin = NoFin /\ ~s.thrown /\ pos < N
  /\ \/ /\ Wide
        /\ s' = WriteCh(s, Data[pos + 1]) /\ pos' = pos + 1
     \/ \E n \in 1..MaxStr :
          /\ pos + n <= N
          /\ s' = IF Wide THEN WriteStr(s, SubSeq(Data, pos + 1, pos + n)) ELSE WriteBytes(s, SubSeq(Data, pos + 1, pos + n))
          /\ pos' = pos + n
  /\ UNCHANGED <<part, cfg, inp, info, fin>>

ClientEnd ==
  /\ fin = NoFin /\ (s.thrown \/ pos = N)
  /\ fin' = EndOfRun(s)
  /\ UNCHANGED <<part, cfg, inp, info, s, pos>>

CbNext == ClientWrite \/ ClientEnd
CbSpec == CbInit /\ [][CbNext]_vars

Chunks(log) == SelectSeq(log, LAMBDA x : x # FlushMark)
Conserved == part = "cb" /\ ~s.thrown => Concat(Chunks(s.log)) \o s.buf = SubSeq(Data, 1, pos)
Bounded == Len(s.buf) <= BufSize
Reached == NCalls(fin.log) >= ShortAt
ChunkProtocol ==
  part = "cb" /\ fin # NoFin /\ (ShortAt = 0 \/ ~Reached) =>
    /\ fin.status = "ok"
    /\ Concat(Chunks(fin.log)) = Data /\ fin.buf = <<>>
    /\ ChunkLogOK(AbsLog(fin.log), N, TRUE)
ShortCountSurfaces ==
  part = "cb" /\ fin # NoFin /\ ShortAt > 0 /\ Reached =>
    /\ fin.status = "error"
    /\ NCalls(fin.log) = ShortAt
    /\ RunShort([NoCfg EXCEPT !.out = "callback"], Feat("xml"), ShortAt, [ok |-> FALSE, wlog |-> AbsLog(fin.log)])
=============================================================================
