------------------------------- MODULE MC_Sort -------------------------------
(* The four facets of the sort contract, checked on the definition for every assignment of key   *)
(* values from a pool to <= MaxN nodes and 1-2 keys: the result is a permutation, adjacent        *)
(* elements are ordered, equal elements keep document order, and the order is lexicographic.      *)
(* Key values are supplied directly (one attribute per key on N sibling elements is not needed    *)
(* to check the ordering definition): the model works on LexLess / Cmp.                           *)
EXTENDS Sort

CONSTANTS MaxN
VARIABLES vals1, vals2, d1, d2, t1
vars == <<vals1, vals2, d1, d2, t1>>

NumPool == {NaN, Inf(TRUE), Fin(TRUE, 8), Fin(TRUE, 0), Zero, One, Inf(FALSE)}
StrPool == {<<>>, <<97>>, <<98>>, <<97, 98>>, <<49>>, <<49, 48>>}
KV(x) == IF x \in NumPool THEN [bad |-> FALSE, n |-> x, s |-> <<>>] ELSE [bad |-> FALSE, n |-> NaN, s |-> x]

Init == /\ t1 \in {"number", "text"}
        /\ \E n \in 1..MaxN : /\ vals1 \in [1..n -> IF t1 = "number" THEN NumPool ELSE StrPool]
                              /\ vals2 \in [1..n -> {Zero, One}]
        /\ d1 \in BOOLEAN /\ d2 \in BOOLEAN
Next == UNCHANGED vars
Spec == Init /\ [][Next]_vars

N == Len(vals1)
Keys == <<[sel |-> 0, dtype |-> t1, desc |-> d1], [sel |-> 0, dtype |-> "number", desc |-> d2]>>
Kv == <<[i \in 1..N |-> KV(vals1[i])], [i \in 1..N |-> KV(vals2[i])]>>
Order == SetToSortSeq(1..N, LAMBDA i, j : LexLess(Keys, Kv, i, j, 1))

Permutation == Len(Order) = N /\ Range(Order) = 1..N
C1(i, j) == LET c0 == Cmp(Keys[1], Kv[1][i], Kv[1][j]) IN IF d1 THEN 0 - c0 ELSE c0
C2(i, j) == LET c0 == Cmp(Keys[2], Kv[2][i], Kv[2][j]) IN IF d2 THEN 0 - c0 ELSE c0
Ordered == \A a, b \in 1..N : a < b =>
              LET i == Order[a]  j == Order[b] IN
              \/ C1(i, j) < 0
              \/ C1(i, j) = 0 /\ C2(i, j) < 0
              \/ C1(i, j) = 0 /\ C2(i, j) = 0 /\ i < j             \* stability, also when descending
NaNFirst == (t1 = "number" /\ ~d1) => \A a, b \in 1..N : a < b /\ IsNaN(vals1[Order[b]]) => IsNaN(vals1[Order[a]])
TotalOrder == \A i, j \in 1..N : i # j => (LexLess(Keys, Kv, i, j, 1) # LexLess(Keys, Kv, j, i, 1))
Inv == Permutation /\ Ordered /\ NaNFirst /\ TotalOrder
=============================================================================
