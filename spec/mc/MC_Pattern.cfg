\* parameters come through the environment: DOCS, PATS (ndjson files written by tools/props/c09.py)
SPECIFICATION Spec
INVARIANT Agree
INVARIANT DeviationsAreReal
