------------------------------ MODULE MC_XPath ------------------------------
(* Laws that must follow from the definitions in XDM / XNum / XPathSem.  They guard the oracle   *)
(* itself: every expected value used in trace validation comes from these operators.             *)
(* State = (document of a bounded family, node): TLC visits every node of every document of the  *)
(* family ($DOCS, all documents with <= N nodes over 2 element names, 1 attribute, 2 texts) and   *)
(* evaluates the laws there.  A second variable walks the number domain.                          *)
EXTENDS XPathSem, Json, IOUtils

VARIABLES d, n, x
vars == <<d, n, x>>

Forest == TLCGet(2)
NumRange == 0..80             \* eighths: 0 .. 10

Init == /\ TLCSet(2, ndJsonDeserialize(IOEnv.DOCS))
        /\ d = 1 /\ n = 1 /\ x = 0
Next == \/ /\ x = 0 /\ n < Forest[d].n /\ n' = n + 1 /\ UNCHANGED <<d, x>>
        \/ /\ x = 0 /\ n = Forest[d].n /\ d < Len(Forest) /\ d' = d + 1 /\ n' = 1 /\ UNCHANGED x
        \/ /\ d = 1 /\ n = 1 /\ x < 80 /\ x' = x + 1 /\ UNCHANGED <<d, n>>
Spec == Init /\ [][Next]_vars

F == Forest
D == Forest[d]
Me == <<d, n, 0>>
Ax(a) == Axis(F, a, Me)
AllTree == {<<d, i, 0>> : i \in 1..D.n}
NonAttr == {m \in AllTree : KindOf(F, m) # "attr"}

(* 1. descendant = children and their descendants *)
LawDescendant == Ax("descendant") = Ax("child") \cup UNION {Axis(F, "descendant", c) : c \in Ax("child")}
(* 2. XPath 2.2: ancestor, descendant, following, preceding and self partition the document       *)
(*    (ignoring attribute and namespace nodes)                                                    *)
LawPartition ==
  LET parts == <<Ax("ancestor"), Ax("descendant"), Ax("following"), Ax("preceding"), {Me} \cap NonAttr>> IN
  /\ UNION {parts[i] : i \in 1..5} = NonAttr \cup (Ax("ancestor"))
  /\ \A i, j \in 1..5 : i # j => parts[i] \cap parts[j] = {}
(* 3. parent and child are inverse; attributes have a parent but are not children                 *)
LawParentChild == /\ \A c \in Ax("child") : Axis(F, "parent", c) = {Me}
                  /\ \A a \in Ax("attribute") : Axis(F, "parent", a) = {Me} /\ a \notin Ax("child")
                  /\ \A p \in Ax("parent") : KindOf(F, Me) = "attr" \/ Me \in Axis(F, "child", p)
(* 4. sibling axes are symmetric, and together with self they are the parent's children           *)
LawSiblings == /\ \A s \in Ax("following-sibling") : Me \in Axis(F, "preceding-sibling", s)
               /\ \A s \in Ax("preceding-sibling") : Me \in Axis(F, "following-sibling", s)
               /\ (KindOf(F, Me) \notin {"attr", "root"} =>
                     Ax("following-sibling") \cup Ax("preceding-sibling") \cup {Me} = UNION {Axis(F, "child", p) : p \in Ax("parent")})
(* 5. document order is a strict total order and DocOrderSeq sorts by it                          *)
LawOrder == /\ \A a, b \in AllTree : (a = b) # (Before(a, b) # Before(b, a))       \* exactly one of =, <, >
            /\ LET s == DocOrderSeq(Ax("descendant-or-self")) IN \A i, j \in 1..Len(s) : i < j => Before(s[i], s[j])
            /\ \A a \in Ax("ancestor") : Before(a, Me)
            /\ \A a \in Ax("descendant") \cup Ax("following") : Before(Me, a)
(* 6. or-self axes *)
LawOrSelf == /\ Ax("descendant-or-self") = Ax("descendant") \cup {Me}
             /\ Ax("ancestor-or-self") = Ax("ancestor") \cup {Me}
(* 7. string-value of an element/root is the concatenation of its text descendants                *)
LawStringValue ==
  KindOf(F, Me) \in {"root", "elem"} =>
     StringValue(F, Me) = FlattenSeq([k \in 1..Len(DocOrderSeq({t \in Ax("descendant") : KindOf(F, t) = "text"})) |->
                                        StringValue(F, DocOrderSeq({t \in Ax("descendant") : KindOf(F, t) = "text"})[k])])
(* 8. expression-level laws at this context *)
C0 == [f |-> F, n |-> Me, pos |-> 1, size |-> 1, vars |-> [q |-> NV(Zero)], cur |-> Me, keys |-> <<>>]
Step1(axis, test, preds) == [axis |-> axis, test |-> test, preds |-> preds]
PathOf(steps) == [op |-> "path", abs |-> FALSE, start |-> [op |-> "none"], steps |-> steps]
Fn(name, args) == [op |-> "fn", name |-> name, args |-> args]
Num(i) == [op |-> "num", v |-> FromInt(i)]
Bin(o, a, b) == [op |-> "bin", o |-> o, a |-> a, b |-> b]
TAny == [t |-> "any"]    TNode == [t |-> "node"]
Kids == PathOf(<<Step1("child", TNode, <<>>)>>)
LawExpr ==
  /\ Eval(Fn("count", <<Kids>>), C0) = NV(FromInt(Cardinality(Ax("child"))))
  \* e[p][q] = e[p and q] when p and q do not depend on position
  /\ LET p == PathOf(<<Step1("child", TAny, <<>>)>>)
         q == PathOf(<<Step1("attribute", TAny, <<>>)>>) IN
     Eval(PathOf(<<Step1("child", TAny, <<p, q>>)>>), C0) = Eval(PathOf(<<Step1("child", TAny, <<Bin("and", p, q)>>)>>), C0)
  \* [position() = k] is [k];  [last()] selects the last in axis direction
  /\ \A ax \in {"child", "ancestor", "preceding-sibling", "following"} :
       /\ Eval(PathOf(<<Step1(ax, TNode, <<Num(1)>>)>>), C0) = Eval(PathOf(<<Step1(ax, TNode, <<Bin("=", Fn("position", <<>>), Num(1))>>)>>), C0)
       /\ LET S == Axis(F, ax, Me)
              first == Eval(PathOf(<<Step1(ax, TNode, <<Num(1)>>)>>), C0).v
              last == Eval(PathOf(<<Step1(ax, TNode, <<Fn("last", <<>>)>>)>>), C0).v IN
          IF S = {} THEN first = {} /\ last = {}
          ELSE IF IsReverse(ax) THEN first = {CHOOSE m \in S : \A o \in S : o = m \/ Before(o, m)} /\ last = {FirstInDocOrder(S)}
          ELSE first = {FirstInDocOrder(S)} /\ last = {CHOOSE m \in S : \A o \in S : o = m \/ Before(o, m)}
  \* not(a = b) and a != b differ for node-sets with several values, De Morgan holds
  /\ LET a == Kids  b == PathOf(<<Step1("descendant", TNode, <<>>)>>) IN
     /\ Eval(Fn("not", <<Bin("or", a, b)>>), C0) = Eval(Bin("and", Fn("not", <<a>>), Fn("not", <<b>>)), C0)
     /\ Eval(Bin("|", a, b), C0) = Eval(Bin("|", b, a), C0)
     /\ Eval(Bin("|", a, a), C0) = Eval(a, C0)
  \* MatchSet is Matches, pattern by pattern
  /\ \A P \in {PathOf(<<Step1("child", TAny, <<Num(1)>>)>>),
                PathOf(<<Step1("child", TAny, <<>>), Step1("descendant-or-self", TNode, <<>>), Step1("child", TNode, <<Fn("last", <<>>)>>)>>),
                PathOf(<<Step1("attribute", TAny, <<>>)>>)} :
        (Me \in MatchSet(P, d, C0)) = Matches(P, Me, C0)
  \* a node matches child::node() pattern iff it has a parent (XSLT 5.2)
  /\ Matches(PathOf(<<Step1("child", TNode, <<>>)>>), Me, C0) = (KindOf(F, Me) \in ChildKinds)
NodeLaws == LawDescendant /\ LawPartition /\ LawParentChild /\ LawSiblings /\ LawOrder /\ LawOrSelf /\ LawStringValue /\ LawExpr

(* 9. number laws on the dyadic domain *)
Xp == Fin(FALSE, x)   Xn == Fin(TRUE, x)
NumLaws ==
  /\ StrToNum(NumToStr(Xp)) = Xp
  /\ (x # 0 => StrToNum(NumToStr(Xn)) = Xn)
  /\ NumLe(Floor(Xp), Xp) /\ NumLe(Xp, Ceiling(Xp)) /\ NumLe(Floor(Xn), Xn) /\ NumLe(Xn, Ceiling(Xn))
  /\ Round(Xp) = Floor(Add(Xp, Fin(FALSE, 4)))
  /\ (NumLt(Fin(TRUE, 4), Xn) \/ Xn = Fin(TRUE, 4) => Round(Xn) = Fin(TRUE, 0))        \* [-0.5, -0] -> -0
  /\ Add(Xp, Xn) = Fin(x = 0 /\ FALSE, 0)
  /\ Sub(Xp, Xp) = Zero
  /\ Mul(Xp, One) = Xp /\ Div(Xp, One) = Xp
  /\ (x # 0 => Div(Xp, Xp) = One /\ Mod(Xp, Xp) = Zero /\ Div(Xp, Zero) = Inf(FALSE) /\ Div(Xn, Zero) = Inf(TRUE))
  /\ Div(Zero, Zero) = NaN /\ ~NumEq(NaN, NaN) /\ NumEq(Fin(TRUE, 0), Zero)
  /\ \A y \in {1, 3, 8, 12} : LET Y == Fin(FALSE, y) IN
        /\ Add(Xp, Y) = Add(Y, Xp)
        /\ Sub(Add(Xp, Y), Y) = Xp
        /\ Add(Mul(Floor(Div(Fin(FALSE, (x \div y) * y), Y)), Y), Mod(Xp, Y)) = Xp    \* x = trunc(x/y)*y + x mod y
Inv == NodeLaws /\ NumLaws
=============================================================================
