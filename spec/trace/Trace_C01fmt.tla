--------------------------- MODULE Trace_C01fmt ---------------------------
(* format-number() of the real processor against FormatNumber.tla (XSLT 12.3 / JDK 1.1 DecimalFormat fragment).  *)
(*   [e |-> "Fmt", x (XNum record), pic (code points), dfs (record of code points / strings), out (code points)] *)
EXTENDS FormatNumber, TLC, Json, IOUtils
VARIABLES l, st, failed, done

FmtStep(s, ev) ==
  LET x == [k |-> ev.x.k, neg |-> ev.x.neg, m |-> ev.x.m]
      w == FormatNumber(x, ev.pic, ev.dfs) IN
  IF w.unm THEN [ok |-> TRUE, st |-> s, drop |-> TRUE, msg |-> ""]
  ELSE [ok |-> ev.status = 0 /\ ev.out = w.s, st |-> s, drop |-> FALSE, cont |-> TRUE,
        msg |-> "format-number(" \o ToString(x) \o ", " \o ToString(ev.pic) \o "): status " \o ToString(ev.status) \o " want " \o ToString(w.s) \o " got " \o ToString(ev.out)]

INSTANCE TraceBase WITH StInit <- 0, Step <- FmtStep
Spec2 == TSpec
=============================================================================
