--------------------------- MODULE Trace_C11obj ---------------------------
(* Validates what the real XObjectFactoryDefault's objects answered (harness/xobj.cpp) against ValueObjects: an execution is a        *)
(* history [e |-> "create", id, kind, val] / [e |-> "ask", id, how, ans] / [e |-> "return", id] / [e |-> "reset"]; every answer must    *)
(* be the standard conversion of the value the object was created with.  The tokens are those of MC_ObjectFactory.                     *)
EXTENDS ObjectTokens, Naturals, Sequences, TLC, Json, IOUtils
VARIABLES l, st, failed, done

VO == INSTANCE ValueObjects WITH Nums <- MCNums, Strs <- MCStrs, NumOfStr <- MCNumOfStr, StrOfNum <- MCStrOfNum, TruthOfNum <- MCTruth

ValOf(ev) == CASE ev.kind = "num" -> VO!NumV(ev.val) [] ev.kind = "str" -> VO!StrV(ev.val) [] ev.kind = "ns" -> VO!NsV(ev.val.first, ev.val.n)
ObjStep(s, ev) ==
  CASE ev.e = "create" -> IF ev.id \in DOMAIN s THEN [ok |-> FALSE, st |-> s, msg |-> "an object that is still held was handed out again: " \o ToString(ev.id)]
                          ELSE [ok |-> TRUE, st |-> [i \in DOMAIN s \cup {ev.id} |-> IF i = ev.id THEN ValOf(ev) ELSE s[i]], msg |-> ""]
    [] ev.e = "ask" -> LET want == VO!Answer(s[ev.id], ev.how).v IN
                       [ok |-> ev.ans = want, st |-> s,
                        msg |-> "object " \o ToString(ev.id) \o " = " \o ToString(s[ev.id]) \o " asked for its " \o ev.how \o ": want " \o ToString(want) \o " got " \o ToString(ev.ans)]
    [] ev.e = "return" -> [ok |-> TRUE, st |-> [i \in DOMAIN s \ {ev.id} |-> s[i]], msg |-> ""]
    [] ev.e = "reset" -> [ok |-> TRUE, st |-> s, msg |-> ""]

INSTANCE TraceBase WITH StInit <- <<>>, Step <- ObjStep
Spec2 == TSpec
=============================================================================
