----------------------------- MODULE Trace_C10 -----------------------------
(* Validates which template rule the real processor instantiated (TraceListener events,          *)
(* harness/xslt.cpp) against TemplateRules!Winner / ImportsWinner.                                *)
(*   [e |-> "Rules", tree, keys]                the stylesheet's module tree and xsl:key declarations *)
(*   [e |-> "Pick", doc, node, mode, via, from, chosen]                                           *)
EXTENDS TemplateRules, Json, IOUtils
VARIABLES l, st, failed, done

Forest == TLCGet(2)
Ctx(n, keys) == [f |-> Forest, n |-> n, pos |-> 1, size |-> 1, vars |-> <<>>, cur |-> n, keys |-> keys]

C10Step(s, ev) ==
  IF ev.e = "Priority"       \* [text (the priority attribute), status (0: the transformation ran), chosen ("A" / "B" / "")]
  THEN LET lexok == PriorityLexOk(ev.text)
           want == PriorityPick(ev.text) IN
       [ok |-> IF lexok THEN ev.status = 0 /\ (want = "?" \/ ev.chosen = want) ELSE ev.status # 0, st |-> s, cont |-> TRUE,
        msg |-> "priority attribute " \o ToString(ev.text) \o (IF lexok THEN ": a number, rule " \o want \o " wins" ELSE ": not a number, an error")
                \o "; status " \o ToString(ev.status) \o ", chosen " \o ev.chosen]
  ELSE IF ev.e = "Rules" THEN [ok |-> TRUE, st |-> [en |-> Entries(ev.tree), keys |-> IF "keys" \in DOMAIN ev THEN ev.keys ELSE <<>>], msg |-> ""]
  ELSE LET n == <<ev.node[1], ev.node[2], ev.node[3]>>
           want == IF ev.via = "imports" THEN ImportsWinner(s.en, n, ev.mode, ev.from, Ctx(n, s.keys))
                   ELSE Winner(s.en, n, ev.mode, Ctx(n, s.keys))
       IN [ok |-> want = ev.chosen, st |-> s, cont |-> TRUE,
           msg |-> "node " \o ToString(n) \o " via " \o ev.via \o ": want rule " \o ToString(want) \o " got " \o ToString(ev.chosen)]

TraceInit2 == TLCSet(2, ndJsonDeserialize(IOEnv.DOCS))
INSTANCE TraceBase WITH StInit <- [en |-> {}, keys |-> <<>>], Step <- C10Step
Spec2 == TraceInit2 /\ TSpec
=============================================================================
