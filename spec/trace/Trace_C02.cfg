SPECIFICATION Spec2
