----------------------------- MODULE Trace_C12 -----------------------------
(* Validates recorded executions of the real MutableNodeRefList (harness/c12.cpp) against the   *)
(* abstract node-list contract NodeList.tla: after every operation the delivered list must be   *)
(* the abstract result (a duplicate-free, document-ordered, never interleaved set for the       *)
(* in-document-order insertions; the exact sequence for the raw operations).                     *)
EXTENDS NodeList, TLC
VARIABLES l, st, failed, done

Init0 == [list |-> <<>>, flag |-> "unknown"]

C12Step(s, ev) ==
  LET post == [list |-> ev.list, flag |-> ev.flag]
      ok == CASE ev.op = "addNode"    -> PostAddNode(s, ev.n, post)
              [] ev.op = "addInOrder" -> PreAddInOrder(s) /\ PostAddInOrder(s, ev.n, post)
              [] ev.op = "addAll"     -> /\ PreAddAllInOrder(s, [list |-> ev.src, flag |-> ev.sflag])
                                         /\ PostAddAllInOrder(s, [list |-> ev.src, flag |-> ev.sflag], post)
              [] ev.op = "clear"      -> PostClear(s, post)
              [] ev.op = "reverse"    -> PostReverse(s, post)
              [] ev.op = "setFlag"    -> PreSetFlag(s, ev.f) /\ PostSetFlag(s, ev.f, post)
              [] OTHER -> FALSE
  IN [ok |-> ok /\ Honest(post.list, post.flag), st |-> post,
      msg |-> "op " \o ev.op \o " on " \o ToString(s) \o " gave " \o ToString(post)]

INSTANCE TraceBase WITH StInit <- Init0, Step <- C12Step
=============================================================================
