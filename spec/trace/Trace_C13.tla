----------------------------- MODULE Trace_C13 -----------------------------
(* Whitespace stripping acts as if the stripped text nodes were not in the source: every          *)
(* observation made by a stylesheet WITH xsl:strip-space / xsl:preserve-space declarations on     *)
(* document D must equal the value the definition gives on the physically stripped document.       *)
(*   [e |-> "Obs", doc, ctx, decls, expr (AST), res (value; node ids in the ORIGINAL numbering)]  *)
(*   [e |-> "Copy", doc, decls, flat (the copied result tree, flattened)]                          *)
(*   [e |-> "Num", doc, ctx, decls, instr, fmt, out]  the string xsl:number wrote for node ctx      *)
(* Obs events carry the xsl:key declarations of the stylesheet (keys): key() is evaluated on the   *)
(* stripped document too.                                                                           *)
EXTENDS Strip, Numbering, Json, IOUtils
VARIABLES l, st, failed, done

Forest == TLCGet(2)

C13Step(s, ev) ==
  LET D == Forest[ev.doc]
      S == StrippedIds(D, ev.decls)
      keep == Keep(D, S)
      D2 == RemoveNodes(D, S)
  IN
  IF ev.e = "Copy"
  THEN LET same == /\ ev.flat.n = D2.n
                   /\ \A k \in 1..D2.n : /\ ev.flat.kind[k] = D2.kind[k] /\ ev.flat.parent[k] = D2.parent[k]
                                         /\ ev.flat.local[k] = D2.local[k] /\ ev.flat.value[k] = D2.value[k]
                                         /\ ev.flat.uri[k] = D2.uri[k]
       IN [ok |-> same, st |-> s, cont |-> TRUE, drop |-> FALSE,
           msg |-> "copy of the stripped document differs: stripped ids " \o ToString(S)]
  ELSE IF ev.ctx \in S THEN [ok |-> TRUE, st |-> s, drop |-> TRUE, msg |-> ""]     \* the context node itself is stripped: not observable
  ELSE IF ev.e = "Num"
  THEN LET n2 == <<1, NewId(keep, ev.ctx), 0>>
           c == [f |-> <<D2>>, n |-> n2, pos |-> 1, size |-> 1, vars |-> <<>>, cur |-> n2, keys |-> <<>>]
           lst == NumberList(ev.instr, n2, c)
           want == FormatList(lst, ev.fmt)
       IN IF lst = <<0>> THEN [ok |-> TRUE, st |-> s, drop |-> TRUE, msg |-> ""]     \* nothing counted: C17's subject (known finding there), not an observation of stripping
          ELSE [ok |-> want = ev.out, st |-> s, cont |-> TRUE, drop |-> FALSE,
           msg |-> "stripped " \o ToString(S) \o " want " \o ToString(want) \o " got " \o ToString(ev.out)]
  ELSE LET n2 == <<1, NewId(keep, ev.ctx), 0>>
           c == [f |-> <<D2>>, n |-> n2, pos |-> 1, size |-> 1, vars |-> <<>>, cur |-> n2, keys |-> ev.keys]
           v == Eval(ev.expr, c)
           \* map the result back to the original numbering
           want == IF v.t = "ns" THEN NS({<<ev.doc, keep[x[2]], 0>> : x \in v.v}) ELSE v
           got == IF "error" \in DOMAIN ev THEN ErrV
                  ELSE IF ev.res.t = "ns" THEN NS({<<x[1], x[2], x[3]>> : x \in Range(ev.res.v)}) ELSE ev.res
       IN IF v.t = "unm" THEN [ok |-> TRUE, st |-> s, drop |-> TRUE, msg |-> ""]
          ELSE [ok |-> want = got, st |-> s, cont |-> TRUE, drop |-> FALSE,
                msg |-> "stripped " \o ToString(S) \o " want " \o ToString(want) \o " got " \o ToString(got)]

TraceInit2 == TLCSet(2, ndJsonDeserialize(IOEnv.DOCS))
INSTANCE TraceBase WITH StInit <- 0, Step <- C13Step
Spec2 == TraceInit2 /\ TSpec
=============================================================================
