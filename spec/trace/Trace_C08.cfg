SPECIFICATION TSpec
