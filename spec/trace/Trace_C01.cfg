SPECIFICATION Spec2
