SPECIFICATION Spec2
