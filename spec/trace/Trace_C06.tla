----------------------------- MODULE Trace_C06 -----------------------------
(* Validates recorded executions of the real XalanTransformer (harness/c06.cpp) against the        *)
(* abstract life cycle Transformer.tla.  The abstract state carries the sticky params, the          *)
(* installed functions, the live handles, the expected emptiness of getLastError() and the oracle   *)
(* learned from the Fresh events of the execution (the same call on a newly constructed             *)
(* transformer, logged before the first Transform that needs it).  Every Transform event must       *)
(* return exactly the oracle entry for the state the SPECIFICATION has tracked - the harness only   *)
(* reports what it called and what came back.  Fresh events are also confronted with the role the   *)
(* pool description (TransformerPool) gives the documents, so that the outcome classes the          *)
(* generator claims to cover are facts about the real run.                                          *)
EXTENDS TransformerPool, Sequences, TLC
VARIABLES l, st, failed, done

T == INSTANCE Transformer WITH PNames <- PoolPNames, PVals <- PoolPVals, FNames <- PoolFNames,
                               params <- st.params, fns <- st.fns, liveSS <- st.liveSS, nSS <- st.nSS,
                               liveSrc <- st.liveSrc, nSrc <- st.nSrc, lastError <- st.lastError, oracle <- st.oracle,
                               residue0 <- st.residue0

RoleOk(ev) == ev.e = "Fresh" => ev.status = StatusOf(Class(ev.ss, ev.src, ev.params, ev.fns))

C06Step(s, ev) ==
  LET r == T!Step(s, ev) IN
  IF ~RoleOk(ev)
  THEN [ok |-> FALSE, st |-> r.st,
        msg |-> "pool role: a fresh transformer returned status " \o ToString(ev.status) \o " for " \o ev.ss \o "/" \o ev.src
                \o " designed as class " \o Class(ev.ss, ev.src, ev.params, ev.fns)]
  ELSE [ok |-> r.ok, st |-> r.st, msg |-> ev.e \o ": " \o r.msg]

INSTANCE TraceBase WITH StInit <- T!Init0, Step <- C06Step
=============================================================================
