SPECIFICATION Spec2
