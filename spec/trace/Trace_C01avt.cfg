SPECIFICATION Spec2
