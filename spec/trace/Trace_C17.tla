----------------------------- MODULE Trace_C17 -----------------------------
(* Validates the strings xsl:number produced against Numbering.tla (XSLT 7.7 / 7.7.1).           *)
(*   [e |-> "Number", doc, node, instr, fmt, out, t]   one per numbered node, in visiting order (t: optional,   *)
(*                                                  the value of $t the patterns of the instruction refer to)     *)
(*   [e |-> "Format", value, fmt, out]              xsl:number value="..." format="..."            *)
(*   [e |-> "Group", value, gsep, gsize, out]       xsl:number value grouping-separator grouping-size *)
EXTENDS Numbering, Json, IOUtils
VARIABLES l, st, failed, done

Forest == TLCGet(2)

C17Step(s, ev) ==
  IF ev.e = "Group"
  THEN LET want == GroupDigits(Decimal(ev.value), ev.gsize, ev.gsep) IN
       [ok |-> want = ev.out, st |-> s, cont |-> TRUE, drop |-> FALSE,
        msg |-> "grouping: value " \o ToString(ev.value) \o " size " \o ToString(ev.gsize) \o " want " \o ToString(want) \o " got " \o ToString(ev.out)]
  ELSE IF ev.e = "Format"
  THEN LET \* value= is an expression: "the value is rounded to an integer (as by round())" - ev.value8 is the value in eighths
           n == IF "value8" \in DOMAIN ev THEN Round(Fin(FALSE, ev.value8)).m \div 8 ELSE ev.value
           want == FormatList(<<n>>, ev.fmt) IN
       [ok |-> want = ev.out, st |-> s, cont |-> TRUE, drop |-> FALSE,
        msg |-> "format: want " \o ToString(want) \o " got " \o ToString(ev.out)]
  ELSE LET n == <<ev.doc, ev.node, 0>>
           \* the count / from patterns may refer to a parameter of the numbering template (ev.t: its value at THIS instantiation)
           c == [f |-> Forest, n |-> n, pos |-> 1, size |-> 1, vars |-> IF "t" \in DOMAIN ev THEN [x \in {"t"} |-> SV(ev.t)] ELSE <<>>, cur |-> n, keys |-> <<>>]
           \* 7.7.1 defines the alphabetic and roman sequences from 1 on: how a 0 (level="any", nothing counted) is written under a letter
           \* token is not defined (Xalan: nothing for a / A, "0" for i / I; libxslt: "0") - not judged
           letterToken == \E k \in 1..Len(ev.fmt) : ev.fmt[k] \in {97, 65, 105, 73}
       IN IF Ambiguous(ev.instr, n, c) \/ (letterToken /\ \E k \in 1..Len(NumberList(ev.instr, n, c)) : NumberList(ev.instr, n, c)[k] = 0)
          THEN [ok |-> TRUE, st |-> s, drop |-> TRUE, msg |-> ""]
          ELSE LET lst == NumberList(ev.instr, n, c)
                   want == FormatList(lst, ev.fmt) IN
               [ok |-> want = ev.out, st |-> s, cont |-> TRUE, drop |-> FALSE,
                msg |-> (IF lst = <<0>> /\ ev.out = <<>> THEN "KD:anyZeroCountGivesEmpty " ELSE "") \o "node " \o ToString(n) \o ": list " \o ToString(lst) \o " want " \o ToString(want) \o " got " \o ToString(ev.out)]

TraceInit2 == TLCSet(2, ndJsonDeserialize(IOEnv.DOCS))
INSTANCE TraceBase WITH StInit <- 0, Step <- C17Step
Spec2 == TraceInit2 /\ TSpec
=============================================================================
