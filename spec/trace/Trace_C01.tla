----------------------------- MODULE Trace_C01 -----------------------------
(* Validates complete transformations of the real processor (result tree recorded before any     *)
(* serializer) against XSLTSem!Transform.                                                          *)
(*   [e |-> "Transform", doc, aux (documents reachable through document()), ss (stylesheet AST),   *)
(*    status, tree (canonical items)]                                                               *)
EXTENDS XSLTSem, Json, IOUtils
VARIABLES l, st, failed, done

Forest == TLCGet(2)

RECURSIVE LoadItems(_)
LoadItems(s) ==
  [j \in 1..Len(s) |->
     IF s[j].k = "elem"
     THEN [k |-> "elem", name |-> s[j].name, attrs |-> {<<a[1], a[2]>> : a \in Range(s[j].attrs)}, kids |-> LoadItems(s[j].kids)]
     ELSE s[j]]

C01Step(s, ev) ==
  LET FF == <<Forest[ev.doc]>> \o [j \in 1..Len(ev.aux) |-> Forest[ev.aux[j]]]      \* document 1 = the source, then the document() documents
      r == Transform(ev.ss, FF)
      got == LoadItems(ev.tree)
  IN IF r.bad # "" THEN [ok |-> TRUE, st |-> s, drop |-> TRUE, msg |-> ""]
     ELSE LET ok == ev.status = 0 /\ r.items = got
              \* triage only: which named deviation (or combination) explains the recorded tree, if any
              F1 == FF
              is(d) == ev.status = 0 /\ TransformWith(ev.ss, F1, d).items = got
              tag == IF ok THEN ""
                     ELSE IF is([zeroAnyEmpty |-> TRUE]) THEN "KD:numberAnyZeroCountGivesEmpty "
                     ELSE ""
          IN [ok |-> ok, st |-> s, drop |-> FALSE, cont |-> TRUE,
              msg |-> tag \o "status " \o ToString(ev.status) \o " want " \o ToString(r.items) \o " got " \o ToString(got)]

TraceInit2 == TLCSet(2, ndJsonDeserialize(IOEnv.DOCS))
INSTANCE TraceBase WITH StInit <- 0, Step <- C01Step
Spec2 == TraceInit2 /\ TSpec
=============================================================================
