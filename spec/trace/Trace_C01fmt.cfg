SPECIFICATION Spec2
