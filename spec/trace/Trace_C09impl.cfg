SPECIFICATION Spec2
