SPECIFICATION Spec2
