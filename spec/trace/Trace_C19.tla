----------------------------- MODULE Trace_C19 -----------------------------
(* Validates recorded executions of the real library on a recording / failing MemoryManager       *)
(* (harness/c19.cpp) against the memory-manager contract MemMgr.tla.  One execution = one child    *)
(* process: Reset, Start(failAt, procInit), then per library call  Call, Mem*, [Fail, Mem*],        *)
(* ApiReturn | DestroyTransformer | Shutdown, then DiscardManager, Probe, Done, Exit.               *)
(* A Mem event is a run-compressed stretch of the allocate/deallocate stream of the supplied        *)
(* manager: <<1, lo, hi>> = Alloc of the blocks lo..hi, <<0, id, ...>> = Free of these blocks in     *)
(* this order (id 0: a pointer the manager never handed out).  The harness decides nothing: a       *)
(* foreign or repeated Free, a leak at destruction, a refused request that does not surface,        *)
(* std::terminate / a fatal signal, a failing Probe are all rejections made here.                   *)
EXTENDS MemMgr, TLC
VARIABLES l, st, failed, done

(* the fixed Probe transformation (harness/c19.cpp PROBE_XML / PROBE_XSL): the two items sorted by  *)
(* @n as numbers, count(//item), and the string value of key('k','2')                              *)
ProbeExpected == "<out n=\"2\"><i>1:a</i><i>2:b</i><k>b</k></out>"

Fresh == [started |-> FALSE, m |-> Start(0, FALSE)]

Acc(m)     == [ok |-> TRUE, st |-> m, msg |-> ""]
Rej(m, why) == [ok |-> FALSE, st |-> m, msg |-> why]

KindOf(api) == IF api \in {"initialize", "create", "destroy", "terminate"} THEN api ELSE "use"

FirstBad(m, ids) == LET i == CHOOSE i \in 1..Len(ids) :
                                 \/ ids[i] \notin Outstanding(m)
                                 \/ \E j \in 1..(i - 1) : ids[j] = ids[i]
                    IN ids[i]

(* one run of the Mem stream *)
MemOp(a, op) ==
  IF ~a.ok THEN a
  ELSE LET m == a.st IN
       IF op[1] = 1
       THEN IF AllocRun_Enabled(m, op[2], op[3]) THEN Acc(AllocRun_Do(m, op[2], op[3]))
            ELSE Rej(m, IF ~InCall(m) THEN "PROTOCOL: allocate() on the supplied manager outside any library call or after it was discarded"
                        ELSE "PROTOCOL: request " \o ToString(m.failAt) \o " was to be refused but blocks " \o ToString(op[2]) \o ".." \o ToString(op[3]) \o " were granted")
       ELSE LET ids == SubSeq(op, 2, Len(op)) IN
            IF FreeRun_Enabled(m, ids) THEN Acc(FreeRun_Do(m, ids))
            ELSE Rej(m, IF ~InCall(m) THEN "PROTOCOL: deallocate() on the supplied manager outside any library call or after it was discarded"
                        ELSE IF FirstBad(m, ids) = 0 THEN "FOREIGN-FREE: deallocate() of a pointer the supplied manager never handed out"
                        ELSE "DOUBLE-FREE: deallocate() of block " \o ToString(FirstBad(m, ids)) \o " which is not live (already returned)")

C19Step(t, ev) ==
  LET m == t.m
      W(r) == [ok |-> r.ok, st |-> [t EXCEPT !.m = r.st], msg |-> r.msg] IN
  IF ev.e = "Start"
  THEN IF t.started THEN W(Rej(m, "PROTOCOL: second Start"))
       ELSE [ok |-> TRUE, st |-> [started |-> TRUE, m |-> Start(ev.failAt, ev.procInit)], msg |-> ""]
  ELSE IF ~t.started THEN W(Rej(m, "PROTOCOL: event before Start"))
  ELSE W(
   CASE ev.e = "Call" ->
          IF Call_Enabled(m, KindOf(ev.api)) THEN Acc(Call_Do(m, KindOf(ev.api)))
          ELSE Rej(m, "PROTOCOL: call " \o ev.api \o " not possible in " \o ToString([call |-> m.call, tr |-> m.tr, proc |-> m.proc, mgr |-> m.mgr]))
     [] ev.e = "Mem" -> FoldLeft(MemOp, Acc(m), ev.ops)
     [] ev.e = "Fail" ->
          IF Fail_Enabled(m, ev.k) THEN Acc(Fail_Do(m))
          ELSE Rej(m, "PROTOCOL: request " \o ToString(ev.k) \o " refused, expected " \o ToString(m.failAt) \o " after " \o ToString(m.nreq) \o " requests")
     [] ev.e = "ApiReturn" ->
          IF Return_Enabled(m, ev.status) THEN Acc(Return_Do(m, ev.status))
          ELSE Rej(m, IF m.failedInCall /\ ev.status = "ok" THEN "NOT-SURFACED: " \o ev.api \o " reported success although request " \o ToString(m.failAt) \o " was refused during the call"
                      ELSE IF m.call \in {"create", "initialize"} /\ ev.status # "ok" /\ ~m.failed
                           THEN "LEAK: " \o ev.api \o " gave up without a refused request and left " \o ToString(Cardinality(Outstanding(m))) \o " blocks: " \o ToString(Outstanding(m))
                      ELSE "PROTOCOL: return from " \o ev.api \o " with status " \o ev.status \o " while in call " \o m.call)
     [] ev.e = "DestroyTransformer" ->
          IF Destroy_Enabled(m) THEN Acc(Destroy_Do(m))
          ELSE Rej(m, IF m.call = "destroy" THEN "LEAK: " \o ToString(Cardinality(m.live)) \o " blocks of the supplied manager still outstanding when the transformer is destroyed (no request was refused): " \o ToString(m.live)
                      ELSE "PROTOCOL: DestroyTransformer outside destroy")
     [] ev.e = "Shutdown" ->
          IF Shutdown_Enabled(m) THEN Acc(Shutdown_Do(m))
          ELSE Rej(m, IF m.call = "terminate" THEN "LEAK: " \o ToString(Cardinality(Outstanding(m))) \o " blocks of the supplied manager still outstanding after XalanTransformer::terminate() (no request was refused): " \o ToString(Outstanding(m))
                      ELSE "PROTOCOL: Shutdown outside terminate")
     [] ev.e = "DiscardManager" ->
          IF "touched" \in DOMAIN ev /\ ev.touched > 0
          THEN Rej(m, "USE-AFTER-RETURN: " \o ToString(ev.touched) \o " blocks were written to after the library had returned them to the manager (first: block "
                      \o ToString(ev.firstTouched) \o ")")
          ELSE IF Discard_Enabled(m, ev.reclaimed) THEN Acc(Discard_Do(m))
          ELSE Rej(m, "PROTOCOL: DiscardManager reclaimed " \o ToString(ev.reclaimed) \o " blocks, the stream leaves " \o ToString(Cardinality(Outstanding(m))) \o " (call " \o m.call \o ", transformer " \o m.tr \o ")")
     [] ev.e = "Probe" ->
          LET good == ev.code = 0 /\ ev.exception = "none" /\ ev.out = ProbeExpected /\ ev.outstanding = 0 IN
          IF Probe_Enabled(m, good) THEN Acc(Probe_Do(m))
          ELSE Rej(m, "PROBE: a new transformer on a fresh manager did not work after the run: code " \o ToString(ev.code) \o ", exception " \o ev.exception \o ", outstanding " \o ToString(ev.outstanding) \o ", output " \o ev.out)
     [] ev.e = "Exit" ->
          IF Exit_Enabled(m, ev.code = 0 /\ ev.signal = 0) THEN Acc(Exit_Do(m))
          ELSE Rej(m, "EXIT: the execution did not run to completion (exit code " \o ToString(ev.code) \o ", signal " \o ToString(ev.signal) \o "): " \o ev.stderr)
     [] ev.e = "Terminate" ->
          Rej(m, "TERMINATE: " \o ev.kind \o (IF m.failed THEN " after request " \o ToString(m.failAt) \o " was refused" ELSE " (no request was refused)")
                 \o " in call " \o m.call)
     [] ev.e \in {"Note", "Done"} -> Acc(m)
     [] OTHER -> Rej(m, "PROTOCOL: unknown event " \o ev.e))

INSTANCE TraceBase WITH StInit <- Fresh, Step <- C19Step
=============================================================================
