SPECIFICATION Spec2
