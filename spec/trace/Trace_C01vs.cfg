SPECIFICATION Spec2
