SPECIFICATION Spec2
