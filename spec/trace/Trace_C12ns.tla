---------------------------- MODULE Trace_C12ns ----------------------------
(* C12 for NAMESPACE nodes.  XPath 5.4 leaves the relative order of the namespace nodes of one     *)
(* element to the implementation, but it is ONE order: every node-set is delivered in it, whatever   *)
(* expression produced the set.  An event is everything observed from one context element:           *)
(*   [e |-> "NsOrder", doc, ctx, pi (the prefixes in the order the namespace axis delivers them),     *)
(*    decl (for each of them the element that declares it, a fact about the document),               *)
(*    obs |-> <<[expr (AST), n (count(expr)), names (name((expr)[k]) for k = 1..n)]>>]                *)
(* Accepted iff pi is a permutation of the element's in-scope prefixes and every observed sequence   *)
(* is XPathSem!Eval(expr) in document order with the namespace nodes of the element ranked by pi      *)
(* (they follow the element and precede its attributes and children, XDM!Before).                     *)
EXTENDS XPathSem, Json, IOUtils
VARIABLES l, st, failed, done

Forest == TLCGet(2)

Rank(pi, p) == CHOOSE k \in 1..Len(pi) : pi[k] = p
BeforePi(F, pi, a, b) ==
  IF IsNs(a) /\ IsNs(b) /\ ND(a) = ND(b) /\ NI(a) = NI(b) THEN Rank(pi, LocalOf(F, a)) < Rank(pi, LocalOf(F, b)) ELSE Before(a, b)
NameOf(F, n) == IF IsNs(n) THEN LocalOf(F, n) ELSE IF KindOf(F, n) \in {"elem", "attr"} THEN QNameOf(F, n) ELSE <<>>

(* the order the implementation is built on: a namespace node IS the declaration attribute of the element that declares the     *)
(* prefix (ev.decl[k] = that element for prefix pi[k], 0 for the implicit xml prefix), shared by all descendants; it sorts where    *)
(* that attribute stands.  Used only to NAME this deviation (never to accept it).                                                   *)
ImplKey(F, ev, n) == IF IsNs(n) THEN <<ev.decl[Rank(ev.pi, LocalOf(F, n))], 1, Rank(ev.pi, LocalOf(F, n))>> ELSE <<NI(n), 0, 0>>
LexLess(x, y) == x[1] < y[1] \/ (x[1] = y[1] /\ (x[2] < y[2] \/ (x[2] = y[2] /\ x[3] < y[3])))

NsStep(s, ev) ==
  LET F == Forest
      D == F[ev.doc]
      prefixes == {D.ins[ev.ctx][k][1] : k \in 1..Len(D.ins[ev.ctx])}
      piOk == Len(ev.pi) = Len(D.ins[ev.ctx]) /\ {ev.pi[k] : k \in 1..Len(ev.pi)} = prefixes
      c == [f |-> F, n |-> <<ev.doc, ev.ctx, 0>>, pos |-> 1, size |-> 1, vars |-> <<>>, cur |-> <<ev.doc, ev.ctx, 0>>, keys |-> <<>>]
      names(sq) == [k \in 1..Len(sq) |-> NameOf(F, sq[k])]
      want(o) == LET v == Eval(o.expr, c) IN
                 IF v.t # "ns" THEN <<"not a node-set">> ELSE names(SetToSortSeq(v.v, LAMBDA a, b : BeforePi(F, ev.pi, a, b)))
      impl(o) == LET v == Eval(o.expr, c) IN
                 IF v.t # "ns" THEN <<"not a node-set">> ELSE names(SetToSortSeq(v.v, LAMBDA a, b : LexLess(ImplKey(F, ev, a), ImplKey(F, ev, b))))
      bad == {j \in 1..Len(ev.obs) : want(ev.obs[j]) # ev.obs[j].names}
  IN IF ~piOk THEN [ok |-> FALSE, st |-> s, cont |-> TRUE,
                    msg |-> "the namespace axis delivered " \o ToString(ev.pi) \o ", the element has the namespace nodes " \o ToString(D.ins[ev.ctx])]
     ELSE IF bad = {} THEN [ok |-> TRUE, st |-> s, cont |-> TRUE, msg |-> ""]
     ELSE LET j == CHOOSE x \in bad : \A y \in bad : x <= y IN
          [ok |-> FALSE, st |-> s, cont |-> TRUE,
           msg |-> (IF \A x \in bad : impl(ev.obs[x]) = ev.obs[x].names THEN "KNOWN nsNodeOrderedAtDeclaringElement " ELSE "ORDER: ")
                   \o "observation " \o ToString(j) \o ": with the namespace axis order " \o ToString(ev.pi) \o " the set is "
                   \o ToString(want(ev.obs[j])) \o " but was delivered as " \o ToString(ev.obs[j].names)]

TraceInit2 == TLCSet(2, ndJsonDeserialize(IOEnv.DOCS))

INSTANCE TraceBase WITH StInit <- 0, Step <- NsStep
Spec2 == TraceInit2 /\ TSpec
=============================================================================
