---------------------------- MODULE Trace_C01ns ----------------------------
(* C01, the NAMESPACE NODES of the result tree (7.1.1, 7.5, 11.3): same events as Trace_C14            *)
(*   [e |-> "Build", ss, src, status, raw, parsed, perr]                                                *)
(* accepted iff every namespace node ResultTree!Requested asks for is in scope, with its prefix, on the *)
(* corresponding element of the raw result tree and of the re-parsed serialised result.  Names, values   *)
(* and forbidden declarations are C14's obligations (Trace_C14) and not repeated here.                   *)
EXTENDS ResultTree, Json, IOUtils
VARIABLES l, st, failed, done

NsStep(s, ev) ==
  LET req == Requested(ev.ss, ev.src)
  IN IF ReqUnbound(req) \/ ev.status # 0 \/ ev.perr # "" THEN [ok |-> TRUE, st |-> s, drop |-> TRUE, msg |-> ""]
     ELSE LET f == ObservedNsNodeFaults(req, ev.raw, ev.parsed)
          IN [ok |-> f = {}, st |-> s, cont |-> TRUE, msg |-> "faults " \o ToString(f)]

INSTANCE TraceBase WITH StInit <- 0, Step <- NsStep
Spec2 == TSpec
=============================================================================
