---------------------------- MODULE Trace_C01st ----------------------------
(* C01, the text nodes of the STYLESHEET (XSLT 3.4): [e |-> "StText", raw (content items of a literal result     *)
(* element, see StylesheetTree.tla), preserve (xml:space="preserve" on it), got (its children in the result)]     *)
(* accepted iff got = StylesheetTree!ResultChildren(raw, preserve).                                               *)
EXTENDS StylesheetTree, TLC, Json, IOUtils
VARIABLES l, st, failed, done

StStep(s, ev) ==
  LET want == ResultChildren(ev.raw, ev.preserve) IN
  [ok |-> want = ev.got, st |-> s, cont |-> TRUE,
   msg |-> (IF ev.got = ResultChildrenCommentsInvisible(ev.raw, ev.preserve) THEN "KNOWN stylesheetCommentDoesNotSplitText " ELSE "")
           \o "want " \o ToString(want) \o " got " \o ToString(ev.got)]

INSTANCE TraceBase WITH StInit <- 0, Step <- StStep
Spec2 == TSpec
=============================================================================
