---------------------------- MODULE Trace_C01st ----------------------------
(* C01, the text nodes of the STYLESHEET (XSLT 3.4): [e |-> "StText", raw (content items of a literal result     *)
(* element, see StylesheetTree.tla), preserve (xml:space="preserve" on it), got (its children in the result)]     *)
(* accepted iff got = StylesheetTree!ResultChildren(raw, preserve).  With `chain` (the xml:space values from the  *)
(* xsl:stylesheet element of the element's own document down to it) preserve is StylesheetTree!Preserved(chain);  *)
(* `place` (main / included / imported) and `outer` (xml:space of the including document) are recorded only.      *)
EXTENDS StylesheetTree, TLC, Json, IOUtils
VARIABLES l, st, failed, done

StStep(s, ev) ==
  LET pres == IF "chain" \in DOMAIN ev THEN Preserved(ev.chain) ELSE ev.preserve
      want == ResultChildren(ev.raw, pres) IN
  [ok |-> want = ev.got, st |-> s, cont |-> TRUE,
   msg |-> (IF ev.got = ResultChildrenCommentsInvisible(ev.raw, pres) THEN "KNOWN stylesheetCommentDoesNotSplitText " ELSE "")
           \o "want " \o ToString(want) \o " got " \o ToString(ev.got)]

INSTANCE TraceBase WITH StInit <- 0, Step <- StStep
Spec2 == TSpec
=============================================================================
