--------------------------- MODULE Trace_C09impl ---------------------------
(* Validates recorded pattern matching of the real processor against the TRANSCRIBED algorithm   *)
(* (PatternMatcherImpl!ImplMatchSet) - same events as Trace_C09: [e |-> "Match", doc, pat (AST),  *)
(* matched | error].  Two uses, selected by $MODE:                                               *)
(*   validate : the event is accepted iff the recorded match set equals ImplMatchSet (run over    *)
(*              ALL cases in the thorough tier: a transcription error or a change of the          *)
(*              algorithm shows up here);                                                        *)
(*   classify : run over the events Trace_C09 (the definition) REJECTED.  No event is accepted;   *)
(*              the verdict is the message:                                                      *)
(*                "KNOWN k1,k2,"  the recorded set is exactly what the known-deviating algorithm  *)
(*                                computes and every differing node is explained by a named class *)
(*                                (KD_<key> of PatternMatcherImpl, direction respected);          *)
(*                "UNNAMED ..."   the algorithm as transcribed computes this set, but no named     *)
(*                                class explains some differing node;                             *)
(*                "VIOLATION ..." the recorded set differs from the definition AND from the       *)
(*                                transcription.                                                  *)
EXTENDS PatternMatcherImpl, Json, IOUtils
VARIABLES l, st, failed, done

Forest == TLCGet(2)
LoadNodes(s) == {<<x[1], x[2], x[3]>> : x \in Range(s)}
Ctx(ev) == [f |-> Forest, n |-> <<ev.doc, 1, 0>>, pos |-> 1, size |-> 1, vars |-> <<>>,
            cur |-> <<ev.doc, 1, 0>>, keys |-> IF "keys" \in DOMAIN ev THEN ev.keys ELSE <<>>]
KeyStr(K) == FoldLeft(LAMBDA acc, k : IF k \in K THEN acc \o k \o "," ELSE acc, "", KDKeys)

C09ImplStep(s, ev) ==
  LET c == Ctx(ev)
      impl == ImplMatchSet(ev.pat, ev.doc, c)
      isErr == "error" \in DOMAIN ev
      got == IF isErr THEN {} ELSE LoadNodes(ev.matched)
      same == ~isErr /\ impl = got
      delta == "missing " \o ToString(impl \ got) \o " extra " \o ToString(got \ impl)
  IN
  IF IOEnv.MODE # "classify"
  THEN [ok |-> same, st |-> s, cont |-> TRUE, msg |-> IF isErr THEN "error" ELSE "w.r.t. the transcribed matcher: " \o delta]
  ELSE LET def == MatchSet(ev.pat, ev.doc, c)
           diff == (impl \ def) \cup (def \ impl)
           keysOf(n) == KDExplains(ev.pat, n, c, n \in impl)
           unnamed == {n \in diff : keysOf(n) = {}}
       IN [ok |-> FALSE, st |-> s, cont |-> TRUE,
           msg |-> IF isErr THEN "VIOLATION error"
                   ELSE IF ~same THEN "VIOLATION differs from the definition and from the transcribed matcher (" \o delta \o ")"
                   ELSE IF diff = {} THEN "AGREES"
                   ELSE IF unnamed # {} THEN "UNNAMED " \o ToString(unnamed)
                   ELSE "KNOWN " \o KeyStr(UNION {keysOf(n) : n \in diff})]

TraceInit2 == TLCSet(2, ndJsonDeserialize(IOEnv.DOCS))
INSTANCE TraceBase WITH StInit <- 0, Step <- C09ImplStep
Spec2 == TraceInit2 /\ TSpec
=============================================================================
