SPECIFICATION TSpec
