----------------------------- MODULE Trace_C14 -----------------------------
(* Validates complete transformations of the real processor against ResultTree.tla.               *)
(*   [e |-> "Build", ss (stylesheet AST), src (source elements), status, raw (the result tree as   *)
(*    recorded from the FormatterListener events: QNames split at the colon, xmlns attributes      *)
(*    kept), parsed (the same shape rebuilt from what expat reports for the serialised result),    *)
(*    perr (expat's error, "" if none)]                                                            *)
(* Accepted iff the transformation succeeded and no obligation of ResultTree!Faults is broken.    *)
(* Everything expected is computed here from ResultTree only; prefix spellings are not compared.  *)
EXTENDS ResultTree, Json, IOUtils
VARIABLES l, st, failed, done

C14Step(s, ev) ==
  LET req == Requested(ev.ss, ev.src)
  IN IF ReqUnbound(req) THEN [ok |-> TRUE, st |-> s, drop |-> TRUE, msg |-> ""]
     ELSE IF ev.status # 0 THEN [ok |-> FALSE, st |-> s, cont |-> TRUE, msg |-> "failed: status " \o ToString(ev.status)]
     ELSE LET f == ObservedFaults(req, ev.raw, ev.parsed, ev.perr)
          IN [ok |-> f = {}, st |-> s, cont |-> TRUE,
              msg |-> "faults " \o ToString(f) \o (IF ev.perr # "" THEN " parser: " \o ev.perr ELSE "")
                      \o " requested " \o ToString(req) \o " resolved " \o ToString(Resolve(ev.raw, <<>>))]

INSTANCE TraceBase WITH StInit <- 0, Step <- C14Step
Spec2 == TSpec
=============================================================================
