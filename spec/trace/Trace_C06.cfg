SPECIFICATION TSpec
