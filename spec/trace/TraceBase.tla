----------------------------- MODULE TraceBase -----------------------------
(* Generic trace-validation driver.  A trace is an ndjson file ($TRACE): one record per event   *)
(* emitted by the harness running the real code, executions separated by {"e":"Reset"}.          *)
(* The instantiating module supplies the abstract state machine as                               *)
(*     Step(st, ev) = [ok |-> BOOLEAN, st |-> next abstract state, msg |-> why not]              *)
(* One TLC state per consumed line.  A rejected event is recorded in `failed` and validation     *)
(* skips to the next execution, so the whole trace is always examined.  The Finish action        *)
(* writes $REJECTS: a completion marker followed by the rejected events.                         *)
EXTENDS Naturals, Sequences, FiniteSets, TLC, Json, IOUtils, SequencesExt

CONSTANTS StInit, Step(_, _)
VARIABLES l, st, failed, done

(* the deserialized file is parked in TLC register 1 by TInit (TLC would otherwise re-read the  *)
(* file at every reference); trace validation therefore runs with -workers 1                   *)
TEvents == TLCGet(1)
TLen == Len(TEvents)

RECURSIVE NextReset(_)
NextReset(i) == IF i > TLen THEN TLen + 1
                ELSE IF TEvents[i].e = "Reset" THEN i ELSE NextReset(i + 1)

TInit == /\ TLCSet(1, ndJsonDeserialize(IOEnv.TRACE))
         /\ l = 1 /\ st = StInit /\ failed = {} /\ done = FALSE

TStep ==
  /\ l <= TLen /\ ~done
  /\ LET ev == TEvents[l] IN
       IF ev.e = "Reset"
       THEN st' = StInit /\ l' = l + 1 /\ UNCHANGED <<failed, done>>
       ELSE LET r == Step(st, ev) IN
            IF r.ok
            THEN /\ st' = r.st /\ l' = l + 1 /\ UNCHANGED done
                 /\ failed' = IF "drop" \in DOMAIN r /\ r.drop     \* accepted vacuously (outside the modelled domain): counted
                              THEN failed \cup {[line |-> l, msg |-> "DROP"]} ELSE failed
            ELSE /\ failed' = failed \cup {[line |-> l, msg |-> r.msg]}
                 /\ l' = IF "cont" \in DOMAIN r /\ r.cont THEN l + 1      \* self-contained events: go on
                         ELSE NextReset(l + 1)                            \* stateful: skip the rest of this execution
                 /\ st' = IF "cont" \in DOMAIN r /\ r.cont THEN st ELSE StInit
                 /\ UNCHANGED done

TFinish ==
  /\ l = TLen + 1 /\ ~done
  /\ done' = TRUE
  /\ ndJsonSerialize(IOEnv.REJECTS, <<[done |-> TRUE, lines |-> TLen]>> \o SetToSeq(failed))
  /\ UNCHANGED <<l, st, failed>>

TNext == TStep \/ TFinish
TSpec == TInit /\ [][TNext]_<<l, st, failed, done>>
=============================================================================
