----------------------------- MODULE Trace_C16 -----------------------------
(* Validates the order in which for-each / apply-templates processed the selected nodes under    *)
(* xsl:sort, and position()/last() seen by the body, against Sort!Sorted.                         *)
(*   [e |-> "Sort", doc, ctx, sel (selected nodes, delivered), keys, seq (<<node, pos, last>>...)] *)
EXTENDS Sort, Json, IOUtils
VARIABLES l, st, failed, done

Forest == TLCGet(2)
Nd(x) == <<x[1], x[2], x[3]>>

C16Step(s, ev) ==
  LET n == <<ev.doc, ev.ctx, 0>>
      c == [f |-> Forest, n |-> n, pos |-> 1, size |-> 1, vars |-> <<>>, cur |-> n, keys |-> <<>>]
      nodes == DocOrderSeq({Nd(x) : x \in Range(ev.sel)})
      r == Sorted(Forest, nodes, ev.keys, c)
      want == [m \in 1..Len(nodes) |-> <<r.seq[m], m, Len(nodes)>>]
      got == [m \in 1..Len(ev.seq) |-> <<Nd(ev.seq[m][1]), ev.seq[m][2], ev.seq[m][3]>>]
  IN IF r.bad THEN [ok |-> TRUE, st |-> s, drop |-> TRUE, msg |-> ""]
     ELSE [ok |-> Len(ev.sel) = Len(nodes) /\ want = got, st |-> s, drop |-> FALSE, cont |-> TRUE,
           msg |-> "want " \o ToString(want) \o " got " \o ToString(got)]

TraceInit2 == TLCSet(2, ndJsonDeserialize(IOEnv.DOCS))
INSTANCE TraceBase WITH StInit <- 0, Step <- C16Step
Spec2 == TraceInit2 /\ TSpec
=============================================================================
