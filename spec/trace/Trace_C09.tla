----------------------------- MODULE Trace_C09 -----------------------------
(* Validates recorded pattern matching of the real processor against the definition of XSLT 5.2 *)
(* (XPathSem!Matches / MatchSet): event [e |-> "Match", doc, pat (AST), vars, matched | error]  *)
(* must report exactly the nodes of the document that match.                                     *)
EXTENDS TemplateRules, Json, IOUtils
VARIABLES l, st, failed, done

Forest == TLCGet(2)
LoadNodes(s) == {<<x[1], x[2], x[3]>> : x \in Range(s)}
Ctx(ev) == [f |-> Forest, n |-> <<ev.doc, 1, 0>>, pos |-> 1, size |-> 1, vars |-> <<>>,
            cur |-> <<ev.doc, 1, 0>>, keys |-> IF "keys" \in DOMAIN ev THEN ev.keys ELSE <<>>]

(* What the stylesheet files a pattern under (XPath::getTargetData, reported per alternative as [s (key string), t (node  *)
(* kind), p8 (default priority in eighths)]) must be consistent with the pattern: as many entries as alternatives, the       *)
(* default priority of 5.5, and every node the alternative matches is one the key covers - the premise on which              *)
(* PatternTablesImpl (the rule tables of a module, MC_PatternTables) finds the rule for a node.                             *)
P8(x) == IF x.neg THEN 0 - x.m ELSE x.m
CoversT(F, t, n) ==
  LET k == KindOf(F, n) IN
  IF t.s = <<35, 116, 101, 120, 116>> THEN k = "text"                                  \* #text
  ELSE IF t.s = <<35, 99, 111, 109, 109, 101, 110, 116>> THEN k = "comment"           \* #comment
  ELSE IF t.s = <<35, 112, 105>> THEN k = "pi"                                          \* #pi
  ELSE IF t.s = <<47>> THEN k = "root"                                                   \* /
  ELSE IF t.s = <<35, 110, 111, 100, 101>> THEN k \in {"elem", "attr", "text", "comment", "pi"}    \* #node
  ELSE IF t.s = <<42>> THEN (t.t = "any" \/ (t.t = "elem" /\ k = "elem") \/ (t.t = "attr" /\ k = "attr"))      \* *
  ELSE (t.t = "elem" /\ k = "elem" /\ LocalOf(F, n) = t.s) \/ (t.t = "attr" /\ k = "attr" /\ LocalOf(F, n) = t.s)
TargetFaults(ev) ==
  IF "targets" \notin DOMAIN ev THEN {}
  ELSE LET as == Alts(ev.pat)  ts == ev.targets IN
       IF Len(as) # Len(ts) THEN {"number of targets"}
       ELSE {"default priority of alternative" : i \in {i \in 1..Len(as) : ts[i].p8 # P8(DefaultPriority(as[i]))}}
            \cup {"a matching node is outside the target of alternative" :
                     i \in {i \in 1..Len(as) : \E n \in MatchSet(as[i], ev.doc, Ctx(ev)) : ~CoversT(Forest, ts[i], n)}}

C09Step(s, ev) ==
  LET want == MatchSet(ev.pat, ev.doc, Ctx(ev))
      isErr == "error" \in DOMAIN ev
      got == IF isErr THEN {} ELSE LoadNodes(ev.matched)
      tf == IF isErr THEN {} ELSE TargetFaults(ev)
  IN [ok |-> ~isErr /\ want = got /\ tf = {}, st |-> s, cont |-> TRUE,
      msg |-> IF isErr THEN "error" ELSE IF want # got THEN "missing " \o ToString(want \ got) \o " extra " \o ToString(got \ want)
              ELSE IF tf = {} THEN "" ELSE "TARGET: " \o ToString(tf) \o " reported " \o ToString(ev.targets)]

TraceInit2 == TLCSet(2, ndJsonDeserialize(IOEnv.DOCS))
INSTANCE TraceBase WITH StInit <- 0, Step <- C09Step
Spec2 == TraceInit2 /\ TSpec
=============================================================================
