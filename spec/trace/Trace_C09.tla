----------------------------- MODULE Trace_C09 -----------------------------
(* Validates recorded pattern matching of the real processor against the definition of XSLT 5.2 *)
(* (XPathSem!Matches / MatchSet): event [e |-> "Match", doc, pat (AST), vars, matched | error]  *)
(* must report exactly the nodes of the document that match.                                     *)
EXTENDS XPathSem, Json, IOUtils
VARIABLES l, st, failed, done

Forest == TLCGet(2)
LoadNodes(s) == {<<x[1], x[2], x[3]>> : x \in Range(s)}
Ctx(ev) == [f |-> Forest, n |-> <<ev.doc, 1, 0>>, pos |-> 1, size |-> 1, vars |-> <<>>,
            cur |-> <<ev.doc, 1, 0>>, keys |-> IF "keys" \in DOMAIN ev THEN ev.keys ELSE <<>>]

C09Step(s, ev) ==
  LET want == MatchSet(ev.pat, ev.doc, Ctx(ev))
      isErr == "error" \in DOMAIN ev
      got == IF isErr THEN {} ELSE LoadNodes(ev.matched)
  IN [ok |-> ~isErr /\ want = got, st |-> s, cont |-> TRUE,
      msg |-> IF isErr THEN "error" ELSE "missing " \o ToString(want \ got) \o " extra " \o ToString(got \ want)]

TraceInit2 == TLCSet(2, ndJsonDeserialize(IOEnv.DOCS))
INSTANCE TraceBase WITH StInit <- 0, Step <- C09Step
Spec2 == TraceInit2 /\ TSpec
=============================================================================
