--------------------------- MODULE Trace_C01avt ---------------------------
(* Attribute value templates (XSLT 7.6.2): the value the real processor wrote for <e v="S"/>, for every      *)
(* string S of the AvtSyntax alphabet up to a length, against AvtSyntax!Parse / ValueOf.                       *)
(*   [e |-> "Avt", s (code points of S), status, out (code points of the attribute written)]                   *)
(* Templates that 7.6.2 makes an error are not judged here (C01 quantifies over error-free stylesheets;        *)
(* that they must be refused is C03's input class avtUnbalanced); they are counted.                            *)
EXTENDS AvtSyntax, TLC, Json, IOUtils
VARIABLES l, st, failed, done

(* the source document is <r><a>A</a><aa>B</aa><aaa>C</aaa></r>, the template is instantiated with r as current node *)
NV == << <<65>>, <<66>>, <<67>> >>

AvtStep(s, ev) ==
  LET p == Parse(ev.s) IN
  IF p.err THEN [ok |-> TRUE, st |-> s, drop |-> TRUE, msg |-> ""]
  ELSE LET want == ValueOf(p.parts, 1, NV) IN
       [ok |-> ev.status = 0 /\ ev.out = want, st |-> s, drop |-> FALSE, cont |-> TRUE,
        msg |-> "attribute value template " \o ToString(ev.s) \o ": status " \o ToString(ev.status) \o " want " \o ToString(want) \o " got " \o ToString(ev.out)]

INSTANCE TraceBase WITH StInit <- 0, Step <- AvtStep
Spec2 == TSpec
=============================================================================
