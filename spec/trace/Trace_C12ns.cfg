SPECIFICATION Spec2
