SPECIFICATION Spec2
