----------------------------- MODULE Trace_C03 -----------------------------
(* Validates the executions recorded by harness/c03.cpp (the real XalanTransformer, its C API, XPathEvaluator *)
(* and the XPath C API of a sanitizer build, fed with the input classes of MC_ApiProtocol!Cases and with     *)
(* fuzzed bytes) against the call/return protocol ApiProtocol.tla.  One execution = Reset, then per API call  *)
(* Call, Return, [Probe], then [LeakCheck], Exit.  Rejected: a Call without its Return (Abort, or the         *)
(* execution ends inside the call), an Abort of any kind, a leak, a non-zero status with an empty message,     *)
(* success on a class that must fail, failure on a class that must succeed, a failing Probe.                   *)
(* The harness decides nothing; the first word of the message names the violated part of the contract.        *)
EXTENDS ApiProtocol, TLC
VARIABLES l, st, failed, done

Where(s) == s.h \o "." \o s.op \o " (class " \o s.cls \o (IF s.d > 0 THEN ", depth " \o ToString(s.d) ELSE "") \o ")"

(* why an event that ApiProtocol!Ev_Enabled refuses is refused *)
Why(s, ev) ==
  CASE ev.e = "Call" -> "PROTOCOL: call " \o ev.h \o "." \o ev.op \o " on class " \o ev.cls \o " in phase " \o s.phase
    [] ev.e = "Return" ->
         IF ~Return_Matches(s, ev.h, ev.op)
         THEN "PROTOCOL: return from " \o ev.h \o "." \o ev.op \o " in phase " \o s.phase \o " of " \o s.h \o "." \o s.op
         ELSE IF ~StatusFits(s, ev.status)
         THEN (IF ev.status = 0 THEN "ACCEPTED: " \o Where(s) \o " returned success for an input that is not well-formed / not valid"
               ELSE "REFUSED: " \o Where(s) \o " returned status " \o ToString(ev.status) \o " for a well-formed, valid input: " \o ev.msg)
         ELSE "SILENT: " \o Where(s) \o " returned status " \o ToString(ev.status) \o " with an empty error message"
    [] ev.e = "Probe" ->
         IF ~Probe_Possible(s, ev.h) THEN "PROTOCOL: probe of " \o ev.h \o " in phase " \o s.phase
         ELSE "PROBE: after " \o Where(s) \o (IF s.failed THEN " (a call had failed)" ELSE "") \o " the known-good work on the same object gave status "
              \o ToString(ev.status) \o ", output " \o ev.out
    [] ev.e = "LeakCheck" ->
         IF s.phase = "Idle" THEN "ABORT leak: memory allocated during " \o Where(s) \o " is unreachable afterwards"
         ELSE "PROTOCOL: leak check in phase " \o s.phase
    [] ev.e = "Abort" ->
         "ABORT " \o ev.why \o ": " \o (IF s.phase = "InCall" THEN Where(s) \o " never returned" ELSE "outside any call, after " \o Where(s))
         \o (IF Has(ev, "detail") /\ ev.detail # "" THEN " [" \o ev.detail \o "]" ELSE "")
    [] ev.e = "Exit" ->
         IF s.phase = "InCall" THEN "NORETURN: the execution ended inside " \o Where(s) \o " (exit code " \o ToString(ev.code) \o ", signal " \o ToString(ev.signal) \o ")"
         ELSE IF s.phase = "Idle" THEN "EXIT: the process did not end normally after " \o Where(s) \o " (exit code " \o ToString(ev.code) \o ", signal " \o ToString(ev.signal) \o ")"
         ELSE "PROTOCOL: second Exit"
    [] OTHER -> "PROTOCOL: unknown event " \o ev.e

C03Step(s, ev) ==
  IF Ev_Enabled(s, ev) THEN [ok |-> TRUE, st |-> Ev_Do(s, ev), msg |-> ""]
  ELSE [ok |-> FALSE, st |-> s, msg |-> Why(s, ev)]

INSTANCE TraceBase WITH StInit <- Idle0, Step <- C03Step
=============================================================================
