SPECIFICATION TSpec
CONSTANTS
  Objects <- TrObjects
  FieldsOf <- TrFieldsOf
  Tag <- TrTag
  Guard <- TrGuard
  Threads <- TrThreads
  Locks <- TrLocks
  NoLock <- TrNoLock
