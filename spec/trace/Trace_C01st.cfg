SPECIFICATION Spec2
