SPECIFICATION TSpec
