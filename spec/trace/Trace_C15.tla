----------------------------- MODULE Trace_C15 -----------------------------
(* Validates recorded key() lookups (xsl:variable select="key(...)" observed through the        *)
(* TraceListener) against XPathSem!KeyNodes (XSLT 12.2).                                          *)
(*   [e |-> "Keys", decls]                 xsl:key declarations of the stylesheet (per execution) *)
(*   [e |-> "Key", doc, ctx, name, arg (value), result (delivered node sequence)]                 *)
(* The delivered sequence must be the key's node set IN DOCUMENT ORDER, whatever was looked up    *)
(* before (the abstract state carries only the declarations).                                     *)
EXTENDS XPathSem, Json, IOUtils
VARIABLES l, st, failed, done

Forest == TLCGet(2)
LoadVal(j) == IF j.t = "ns" THEN NS({<<x[1], x[2], x[3]>> : x \in Range(j.v)}) ELSE j
ToNodes(s) == [k \in 1..Len(s) |-> <<s[k][1], s[k][2], s[k][3]>>]

C15Step(s, ev) ==
  IF ev.e = "Keys" THEN [ok |-> TRUE, st |-> ev.decls, msg |-> ""]
  ELSE LET n == <<ev.doc, ev.ctx, 0>>
           c == [f |-> Forest, n |-> n, pos |-> 1, size |-> 1, vars |-> <<>>, cur |-> n, keys |-> s]
           a == LoadVal(ev.arg)
           vals == IF a.t = "ns" THEN {StringValue(Forest, x) : x \in a.v} ELSE {ToStr(Forest, a)}
           want == DocOrderSeq(KeyNodes(ev.name, vals, ev.doc, c))
           got == ToNodes(ev.result)
           \* triage only (never acceptance): what the known deviation "a node-set argument with more than one
           \* node ignores empty string-values" would deliver
           kd == a.t = "ns" /\ Cardinality(a.v) > 1 /\ got = DocOrderSeq(KeyNodes(ev.name, vals \ {<<>>}, ev.doc, c))
       IN [ok |-> want = got, st |-> s, cont |-> TRUE,
           msg |-> (IF kd THEN "KD:nodeSetArgSkipsEmptyString " ELSE "") \o
                   "key " \o ToString(ev.name) \o ": want " \o ToString(want) \o " got " \o ToString(got)]

TraceInit2 == TLCSet(2, ndJsonDeserialize(IOEnv.DOCS))
INSTANCE TraceBase WITH StInit <- <<>>, Step <- C15Step
Spec2 == TraceInit2 /\ TSpec
=============================================================================
