----------------------------- MODULE Trace_C20 -----------------------------
(* Validates recorded executions of the real XalanMap / XalanSet / XalanVector / XalanList /      *)
(* XalanDeque / XalanDOMString / XalanDOMStringPool (harness/c20.cpp) against the abstract models of Containers.tla:   *)
(* every recorded operation must respect its precondition, return what the abstract operation     *)
(* returns and leave every object involved showing exactly the abstract state through its public   *)
(* observers (size, iteration, find of every key, element access, c_str()[length()] = 0, the        *)
(* number of live element objects).  An execution starts with Reset and an Op "new".                *)
EXTENDS Containers, TLC
VARIABLES l, st, failed, done

Init0 == [c |-> "none"]

MapStep(s, ev) ==
  LET a == MapApply(s.m, ev) IN
  [ok |-> /\ a.ok
          /\ ev.res = a.res
          /\ \A i \in 1..2 : MapObsOK(a.st[i], ev.obs[i])
          /\ LifeOK(Cardinality(a.st[1]) + Cardinality(a.st[2]), ev.live, ev.bad)
          /\ (ev.op = "copy" => MapObsOK(a.st[ev.w], ev.tmp)),
   st |-> [c |-> "map", m |-> a.st]]

SetStep(s, ev) ==
  LET a == SetApply(s.m, ev) IN
  [ok |-> /\ a.ok /\ ev.res = a.res /\ SetObsOK(a.st, ev.obs)
          /\ (ev.op = "copy" => SetObsOK(a.st, ev.tmp)),
   st |-> [c |-> "set", m |-> a.st]]

VecStep(s, ev) ==
  LET a == VecApply(s.m, ev) IN
  [ok |-> /\ a.ok /\ ev.res = a.res /\ VecObsOK(a.st, ev.obs) /\ VecExtraOK(ev, ev.obs) /\ VecOtherOK(s.m, ev, ev.other),
   st |-> [c |-> "vector", m |-> a.st]]

ListStep(s, ev) ==
  LET a == ListApply(s.m, ev) IN
  [ok |-> /\ a.ok /\ ev.res = a.res /\ ListObsOK(a.st, ev.obs) /\ LifeOK(Len(a.st), ev.obs.live, ev.obs.bad)
          /\ ListOtherOK(s.m, ev, ev.other),
   st |-> [c |-> "list", m |-> a.st]]

DeqStep(s, ev) ==
  LET a == DeqApply(s.m, ev) IN
  [ok |-> /\ a.ok /\ ev.res = a.res /\ DeqObsOK(a.st, ev.obs) /\ DeqOtherOK(s.m, ev, ev.other),
   st |-> [c |-> "deque", m |-> a.st]]

StrHasOther(ev) == ev.op \in {"swap", "copy", "copySub", "substr"}
StrStep(s, ev) ==
  LET a == StrApply(s.m, ev) IN
  [ok |-> /\ a.ok /\ ev.res = a.res /\ StrObsOK(a.st, ev.obs) /\ StrExtraOK(ev, ev.obs)
          /\ StrOtherOK(s.m, ev, ev.other)
          /\ (StrHasOther(ev) => ev.otherLen = Len(ev.other) /\ ev.otherTerm = 0),
   st |-> [c |-> "string", m |-> a.st]]

PoolStep(s, ev) ==
  LET a == PoolApply(s.m, ev) IN
  [ok |-> a.ok /\ ev.res = a.res /\ PoolGotOK(ev, ev.got) /\ PoolObsOK(a.st, ev.obs), st |-> [c |-> "pool", m |-> a.st]]

(* the first event of an execution: a freshly constructed, empty object *)
NewStep(ev) ==
  CASE ev.c = "map"    -> [ok |-> MapObsOK({}, ev.obs[1]) /\ MapObsOK({}, ev.obs[2]) /\ LifeOK(0, ev.live, ev.bad), st |-> [c |-> "map", m |-> <<{}, {}>>]]
    [] ev.c = "set"    -> [ok |-> SetObsOK({}, ev.obs), st |-> [c |-> "set", m |-> {}]]
    [] ev.c = "vector" -> [ok |-> VecObsOK(<<>>, ev.obs), st |-> [c |-> "vector", m |-> <<>>]]
    [] ev.c = "list"   -> [ok |-> ListObsOK(<<>>, ev.obs) /\ LifeOK(0, ev.obs.live, ev.obs.bad), st |-> [c |-> "list", m |-> <<>>]]
    [] ev.c = "deque"  -> [ok |-> DeqObsOK(<<>>, ev.obs), st |-> [c |-> "deque", m |-> <<>>]]
    [] ev.c = "string" -> [ok |-> StrObsOK(<<>>, ev.obs), st |-> [c |-> "string", m |-> <<>>]]
    [] ev.c = "pool"   -> [ok |-> PoolObsOK(<<>>, ev.obs), st |-> [c |-> "pool", m |-> <<>>]]
    [] OTHER -> [ok |-> FALSE, st |-> Init0]

(* the last event: the objects are gone, so are all their elements *)
DestroyStep(s, ev) == [ok |-> LifeOK(0, ev.live, ev.bad), st |-> [c |-> "gone"]]

C20Step(s, ev) ==
  LET r == IF ev.e # "Op" THEN [ok |-> FALSE, st |-> s]                     \* Abort: the real code died in this operation
           ELSE IF ev.op = "new" THEN (IF s.c = "none" THEN NewStep(ev) ELSE [ok |-> FALSE, st |-> s])
           ELSE IF s.c # ev.c THEN [ok |-> FALSE, st |-> s]
           ELSE IF ev.op = "destroy" THEN DestroyStep(s, ev)
           ELSE CASE ev.c = "map"    -> MapStep(s, ev)
                  [] ev.c = "set"    -> SetStep(s, ev)
                  [] ev.c = "vector" -> VecStep(s, ev)
                  [] ev.c = "list"   -> ListStep(s, ev)
                  [] ev.c = "deque"  -> DeqStep(s, ev)
                  [] ev.c = "string" -> StrStep(s, ev)
                  [] ev.c = "pool"   -> PoolStep(s, ev)
                  [] OTHER -> [ok |-> FALSE, st |-> s]
  IN [ok |-> r.ok, st |-> r.st,
      msg |-> IF r.ok THEN "" ELSE IF ev.e # "Op" THEN "abort" ELSE ev.c \o "." \o ev.op]   \* (tools/props/c20.py words the report)

INSTANCE TraceBase WITH StInit <- Init0, Step <- C20Step
=============================================================================
