SPECIFICATION Spec2
