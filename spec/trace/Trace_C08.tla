----------------------------- MODULE Trace_C08 -----------------------------
(* Validates what the REAL serializers wrote (harness/c08.cpp: XalanTransformer -> bytes) after independent   *)
(* parsers (expat / html.parser / plain decoding, tools/c08lib.py) read it back, against OutputOptions.tla.  *)
(* An execution = one result tree: the first event is the reference vector (method=xml, indent=no, UTF-8),   *)
(* every other event is the same tree under another option vector:                                           *)
(*   [e |-> "Out", treeId, opts, status, kind (parser used), enc (decoding used), perr (parser's complaint), *)
(*    tree | text, decl, doctype, want (reference event only: the tree the stylesheet was generated from)]    *)
EXTENDS OutputOptions, TLC
VARIABLES l, st, failed, done

Init0 == [has |-> FALSE, ref |-> <<>>]

RefStep(s, ev) ==
  LET ok == /\ ev.opts = RefOpts /\ ev.status = 0 /\ ev.kind = "xml" /\ ev.perr = ""
            /\ SameContent(ev.want, ev.tree, FALSE)           \* the reference output IS the generated tree
  IN [ok |-> ok, st |-> [has |-> TRUE, ref |-> ev.tree],
      msg |-> "reference vector: status " \o ToString(ev.status) \o " " \o ev.perr \o " (or the tree is not the one the stylesheet builds)"]

OutStep(s, ev) ==
  LET o    == ev.opts
      m    == EffMethod(o, s.ref)
      enc  == EffEncoding(o)
      seen == ev.kind = m /\ ev.enc = enc                     \* the parser / decoding the harness side chose is the one the options call for
      ran  == ev.status = 0 /\ ev.perr = ""
      xmlTree == SameContent(s.ref, ev.tree, IndentOn(o, "xml"))
      htmlTree == HtmlSame(s.ref, ev.tree, o)
      txt  == TextOf(s.ref)
      (* a comment / PI character the encoding cannot represent: signalling an error is the conforming outcome *)
      refused == ev.status # 0 /\ ~MarkupRepresentable(s.ref, enc)
      ok == /\ seen
            /\ CASE m = "xml"  -> refused \/ (ran /\ xmlTree /\ DeclOK(o, ev.decl) /\ DoctypeOK(o, ev.doctype, s.ref, m))
                 [] m = "html" -> refused \/ (ev.status # 0 /\ ~HtmlRawRepresentable(s.ref, enc, FALSE))
                                  \/ (ran /\ htmlTree /\ DoctypeOK(o, ev.doctype, s.ref, m))
                 [] m = "text" -> IF RepresentableIn(txt, enc) THEN ran /\ ev.text = txt
                                  ELSE ev.status # 0          \* 16.3: "should signal an error"
      why == IF ~seen THEN "parsed as " \o ev.kind \o "/" \o ev.enc \o " but the options mean " \o m \o "/" \o enc
             ELSE IF m = "text" THEN (IF RepresentableIn(txt, enc) THEN "text output is not the concatenated text of the tree"
                                      ELSE "unrepresentable character in text output: no error signalled")
             ELSE IF ~ran THEN "status " \o ToString(ev.status) \o " / output does not parse: " \o ev.perr
             ELSE IF m = "xml" /\ ~xmlTree THEN "parsed tree differs from the reference tree (indent allowed: " \o ToString(IndentOn(o, "xml")) \o ")"
             ELSE IF m = "html" /\ ~htmlTree THEN "HTML parse differs from the reference tree"
             ELSE IF m = "xml" /\ ~DeclOK(o, ev.decl) THEN "XML declaration does not say what the options say: " \o ToString(ev.decl)
             ELSE "document type declaration does not match the options: " \o ToString(ev.doctype)
  IN [ok |-> ok, st |-> s, cont |-> TRUE, msg |-> m \o ": " \o why]

C08Step(s, ev) == IF ~s.has THEN RefStep(s, ev) ELSE OutStep(s, ev)

INSTANCE TraceBase WITH StInit <- Init0, Step <- C08Step
=============================================================================
