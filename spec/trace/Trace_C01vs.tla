---------------------------- MODULE Trace_C01vs ----------------------------
(* Binds VariablesStackImpl.tla (the transcription model-checked in MC_VariablesStack) to the real variable   *)
(* stack: hook H2 reports every operation of VariablesStack during a transformation                           *)
(*   [e |-> "VS", k (running number), op, n (name), a, b, c, size (of the stack after the operation)]          *)
(* and each one must be the corresponding operation of the model: same resulting size, and for a lookup the    *)
(* same entry found (a: 1 = made by xsl:param, +2 = found locally, +4 = found among the top-level variables;   *)
(* b = index of the entry; c = where the local search starts).  The real stack is 0-based.                    *)
(* The last event of an execution is "Done" (the harness's record of the result; ignored here).               *)
EXTENDS VariablesStackImpl, TLC, Json, IOUtils
VARIABLES l, st, failed, done

Sized(s, ev) == Len(s) = ev.size
Bit(x, k) == (x \div k) % 2 = 1

VsStep(s, ev) ==
  IF ev.e # "VS" THEN [ok |-> TRUE, st |-> s, msg |-> ""]
  ELSE
  LET R(ok, s2, why) == [ok |-> ok, st |-> s2, msg |-> IF ok THEN "" ELSE ev.op \o ": " \o why \o "; model stack " \o ToString(s2)]
  IN CASE ev.op = "cm"    -> LET s2 == PushContextMarker(s) IN R(Sized(s2, ev), s2, "size")
       [] ev.op = "popcm" -> LET s2 == PopContextMarker(s) IN R(Sized(s2, ev), s2, "size")
       [] ev.op = "par"   -> LET s2 == PushParams(s, <<[n |-> ev.n, v |-> ev.k]>>) IN
                             \* reported after ALL parameters of the call were pushed: b = their number, a = this one's place
                             R(Len(s2) = ev.size - (ev.b - ev.a), s2, "size")
       [] ev.op = "ef"    -> LET s2 == PushElementFrame(s, ev.a, ev.b = 1) IN R(Sized(s2, ev), s2, "size")
       [] ev.op = "var"   -> LET s2 == Append(s, [t |-> "var", n |-> ev.n, v |-> ev.k]) IN
                             R(Sized(s2, ev) /\ FramePushed(s, ev.a), s2, "size, or no frame of the element")
       [] ev.op = "popef" -> LET s2 == PopElementFrame(s, TRUE) IN R(Sized(s2, ev), s2, "size")
       [] ev.op = "reset" -> R(ev.size = 0, <<>>, "size")
       [] ev.op = "find"  ->
            LET isParam == Bit(ev.a, 1)  local == Bit(ev.a, 2)  global == Bit(ev.a, 4)
                r == FindFrom(s, IF ev.c = 0 THEN 0 ELSE ev.c, ev.n, isParam)
            IN IF local THEN R(r.idx = ev.b + 1 /\ Sized(s, ev), r.s, "the model finds entry " \o ToString(r.idx) \o ", the stack found " \o ToString(ev.b + 1))
               ELSE IF global THEN R(r.idx = 0 /\ ev.b + 1 <= Len(s) /\ s[ev.b + 1].t = "var" /\ s[ev.b + 1].n = ev.n, r.s,
                                     "the model finds local entry " \o ToString(r.idx) \o ", the stack a top-level variable")
               ELSE R(r.idx = 0, r.s, "the model finds entry " \o ToString(r.idx) \o ", the stack none")
       [] OTHER -> R(FALSE, s, "unknown operation")

INSTANCE TraceBase WITH StInit <- <<>>, Step <- VsStep
Spec2 == TSpec
=============================================================================
