SPECIFICATION Spec2
