SPECIFICATION TSpec
