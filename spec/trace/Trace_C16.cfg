SPECIFICATION Spec2
