SPECIFICATION TSpec
