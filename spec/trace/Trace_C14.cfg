SPECIFICATION Spec2
