SPECIFICATION TSpec
