----------------------------- MODULE Trace_C18 -----------------------------
(* Validates recorded conversions of the real code (harness/c18.cpp) against Numeral.tla.         *)
(* Every event is self-contained (stateless oracle): Step ignores the state.                      *)
(*   dir "sn"   in -> number(in) -> string: `bits` = number(in), `out*` = the strings delivered by *)
(*              the different conversion paths, `bits2` = number(out)                              *)
(*   dir "ns"   an arbitrary double `bits` -> `out`/`outc` -> `bits2` = number(out)                *)
(*   dir "round" | "floor" | "ceiling"   argument number(in) (or a special value `arg`), result    *)
(*              `rbits`, its string `out`/`outx`, and `inv` = string(1 div result) for the sign    *)
(*              of a zero result                                                                  *)
(* An event with a `crash` field (the child process died in that case) is never a step.           *)
EXTENDS Numeral, TLC
VARIABLES l, st, failed, done

Has(ev, k) == k \in DOMAIN ev
Outs(ev) == {ev[k] : k \in {"out", "outc", "outx", "outs", "outl"} \cap DOMAIN ev}
AllOuts(ev, P(_)) == \A o \in Outs(ev) : P(o)
SameOuts(ev) == \A o \in Outs(ev) : o = ev.out

(* the first failing check names the reason *)
FirstFail(chk) == LET bad == {i \in 1..Len(chk) : ~chk[i][1]} IN
                  IF bad = {} THEN "" ELSE chk[SetMin(bad)][2]

Finite(w) == BExp(w) # 2047
Negative(t) == Len(t) > 0 /\ t[1] = CMinus

(* ---- string -> number -> string ------------------------------------------------------------- *)
(* The numeral is analysed once: m = its normal form, x = whether it is a double, E = the expected *)
(* string.  All delivered strings must be equal (SameOuts), so the predicates look at ev.out.      *)
NoNumeral == [neg |-> FALSE, ip |-> <<>>, fp |-> <<>>]
SnChecksM(ev, num, m, x, E) ==
     << <<WellFormedBits(ev.bits) /\ WellFormedBits(ev.bits2), "malformed event">>,
        <<~num => BIsNaN(ev.bits), "number() of a non-number is not NaN">>,
        <<num => ~BIsNaN(ev.bits), "number() of a numeral is NaN">>,
        <<Has(ev, "bitsx") => (ev.bitsx = ev.bits \/ (BIsNaN(ev.bitsx) /\ BIsNaN(ev.bits))), "XPath number() differs from toDouble">>,
        <<x.exact => ev.bits = BitsOfX(m.neg, x), "number() is not the double the numeral denotes">>,
        <<(num /\ (IsZeroN(m) \/ Underflows(m))) => BIsZero(ev.bits), "number() of zero is not zero">>,
        <<(num /\ Overflows(m)) => (BIsInf(ev.bits) /\ BSign(ev.bits) = m.neg), "number() beyond the double range is not infinite">>,
        <<(num /\ ~IsZeroN(m) /\ InNormalRange(m)) => (Finite(ev.bits) /\ ~BIsZero(ev.bits) /\ BSign(ev.bits) = m.neg),
          "number() of a numeral in the normal range is zero, infinite or of the wrong sign">>,
        <<SameOuts(ev), "conversion paths disagree">>,
        <<E.k = "exact" => ev.out = E.str, "string(number(s)) is not the XPath string form">>,
        <<E.k = "int15" => AgreesTo15(ev.out, E.str), "string(number(s)) differs from s within 15 digits">>,
        <<E.k = "loose" => (OutNumeral(ev.out) /\ (ev.out = StrZero \/ Negative(ev.out) = E.neg)),
          "string(number(s)) is outside the output grammar">>,
        <<(num /\ Finite(ev.bits) /\ ~(BIsZero(ev.bits) /\ BSign(ev.bits))) => ev.bits2 = ev.bits, "number(string(x)) is not x">>
     >>
SnChecks(ev) ==
  IF ~IsNumber(ev.in) THEN SnChecksM(ev, FALSE, NoNumeral, NotExact, [k |-> "exact", str |-> StrNaN])
  ELSE LET m == Norm(Parse(ev.in))
           x == ExactInfo(m)
       IN SnChecksM(ev, TRUE, m, x, SnExpectM(m, x))

(* ---- double -> string -> number ------------------------------------------------------------- *)
NsChecks(ev) ==
  LET w == ev.bits
      t == ev.out
      u == IF Negative(t) THEN Tail(t) ELSE t
  IN << <<WellFormedBits(w) /\ WellFormedBits(ev.bits2), "malformed event">>,
        <<SameOuts(ev), "conversion paths disagree">>,
        <<BIsNaN(w) => t = StrNaN, "string(NaN)">>,
        <<BIsInf(w) => t = (IF BSign(w) THEN StrNegInf ELSE StrInf), "string(infinity)">>,
        <<BIsZero(w) => t = StrZero, "string(zero)">>,
        <<(Finite(w) /\ ~BIsZero(w)) => OutNumeral(t), "string(x) is outside the output grammar">>,
        <<(Finite(w) /\ ~BIsZero(w)) => (t # StrZero /\ Negative(t) = BSign(w)), "string(x) has the wrong sign or is 0 for x # 0">>,
        <<(Finite(w) /\ BExp(w) >= 1075) => IsIntString(t), "string of an integer has a fraction">>,
        <<(Finite(w) /\ ~BIsZero(w) /\ BExp(w) < 1023) => (Len(u) > 2 /\ u[1] = 48 /\ u[2] = CDot), "string of |x| < 1 does not start with 0.">>,
        <<(Finite(w) /\ ~BIsZero(w)) => ev.bits2 = w, "number(string(x)) is not x">>,
        \* XPath 1.0: "NaN", "Infinity" are not Numbers, so they read back as NaN
        <<~Finite(w) => BIsNaN(ev.bits2), "number('NaN'/'Infinity') is not NaN">>
     >>

(* ---- round / floor / ceiling ------------------------------------------------------------------ *)
InfStr(neg) == IF neg THEN StrNegInf ELSE StrInf
ZeroSign(ev, neg) ==       \* the zero result is the negative / positive zero
  /\ BIsZero(ev.rbits) /\ BSign(ev.rbits) = neg
  /\ (Has(ev, "bitsx") => BSign(ev.bitsx) = neg)
  /\ (Has(ev, "inv") => ev.inv = InfStr(neg))

FnChecksArg(ev) ==
  LET f == ev.dir
      a == ev.arg
  IN << <<a \in {"pinf", "ninf"} => (ev.rbits = ev.bits /\ AllOuts(ev, LAMBDA o : o = InfStr(a = "ninf"))), "f(infinity) is not that infinity">>,
        <<a \in {"pzero", "nzero"} => (BIsZero(ev.rbits) /\ AllOuts(ev, LAMBDA o : o = StrZero)), "f(zero) is not zero">>,
        <<(f = "round" /\ a \in {"pzero", "nzero"}) => ZeroSign(ev, a = "nzero"), "round(zero) has the wrong sign">>
     >>

FnChecksM(ev, f, num, m, x, E) ==
  LET zeroArg == num /\ (IsZeroN(m) \/ Underflows(m))
      decided == num /\ ~zeroArg /\ ~Overflows(m) /\ RoundDecidedX(m, x)
      R == FnN(f, m)
  IN << <<SameOuts(ev), "conversion paths disagree">>,
        <<~num => (BIsNaN(ev.rbits) /\ ev.out = StrNaN), "f(NaN) is not NaN">>,
        <<(num /\ Overflows(m)) => ev.out = InfStr(m.neg), "f(infinity) is not that infinity">>,
        <<zeroArg => (BIsZero(ev.rbits) /\ ev.out = StrZero), "f(zero) is not zero">>,
        \* an integer argument is its own round/floor/ceiling
        <<(decided /\ IsIntN(m)) => ev.rbits = ev.bits, "f(integer) is not that integer">>,
        <<(decided /\ IsIntN(m) /\ E.k = "exact") => ev.out = E.str, "f(integer) is not that integer (string)">>,
        <<(decided /\ IsIntN(m) /\ E.k = "int15") => AgreesTo15(ev.out, E.str), "f(integer) is not that integer (15 digits)">>,
        \* a non-integer argument: the integer of XPath 4.4
        <<(decided /\ ~IsIntN(m)) => ev.out = IntString(R), "not the integer XPath 4.4 prescribes">>,
        <<(decided /\ ~IsIntN(m) /\ R.ip # <<>>) => ev.rbits = BitsOf([neg |-> R.neg, ip |-> R.ip, fp |-> <<>>]), "result double is not the integer XPath 4.4 prescribes">>,
        <<(decided /\ ~IsIntN(m) /\ R.ip = <<>>) => BIsZero(ev.rbits), "result is not zero">>,
        <<(decided /\ ~IsIntN(m) /\ R.ip = <<>> /\ f = "round") => ZeroSign(ev, R.neg), "round gives the wrong zero (an argument in [-0.5, -0] gives negative zero)">>,
        <<(num /\ ~decided /\ ~zeroArg /\ ~Overflows(m)) => IsIntString(ev.out), "result is not an integer string">>,
        <<Has(ev, "bitsx") => (ev.bitsx = ev.rbits \/ (BIsNaN(ev.bitsx) /\ BIsNaN(ev.rbits))), "XPath function differs from DoubleSupport">>
     >>
FnChecksIn(ev) ==
  IF ~IsNumber(ev.in) THEN FnChecksM(ev, ev.dir, FALSE, NoNumeral, NotExact, [k |-> "exact", str |-> StrNaN])
  ELSE LET m == Norm(Parse(ev.in))
           x == ExactInfo(m)
       IN FnChecksM(ev, ev.dir, TRUE, m, x, SnExpectM(m, x))

C18Step(s, ev) ==
  LET why == IF Has(ev, "crash") THEN "the process died: " \o ev.crash
             ELSE CASE ev.dir = "sn" -> FirstFail(SnChecks(ev))
                    [] ev.dir = "ns" -> FirstFail(NsChecks(ev))
                    [] ev.dir \in {"round", "floor", "ceiling"} ->
                         IF Has(ev, "arg") THEN FirstFail(FnChecksArg(ev)) ELSE FirstFail(FnChecksIn(ev))
                    [] OTHER -> "unknown event"
  IN [ok |-> why = "", st |-> s, msg |-> ev.dir \o ": " \o why]

INSTANCE TraceBase WITH StInit <- 0, Step <- C18Step
=============================================================================
