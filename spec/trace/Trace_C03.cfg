SPECIFICATION TSpec
