--------------------------- MODULE Trace_C14impl ---------------------------
(* Confronts the transcribed algorithm (NsFixupImpl!Run) with the real processor, event by event.  *)
(*   mode "conf"  : accepted iff the recorded raw tree is EXACTLY the tree the transcription emits *)
(*                  (attribute order, invented prefixes, xmlns attributes) - measures how faithful *)
(*                  the transcription is; prefix spellings are implementation detail, so a         *)
(*                  difference here is reported as a note, never as a violation of C14            *)
(*   mode "triage": for events the abstract specification rejected: "KNOWN {classes}" iff the      *)
(*                  recorded tree is exactly the transcription's AND every fault is explained by a *)
(*                  KD class the execution passed through; anything else stays a violation        *)
EXTENDS NsFixupImpl, Json, IOUtils
VARIABLES l, st, failed, done

ImplStep(s, ev) ==
  LET r    == Run(ev.ss, ev.src)
      same == ev.status = 0 /\ ~r.err /\ r.raw = ev.raw
  IN IF ev.mode = "conf"
     THEN [ok |-> same, st |-> s, cont |-> TRUE,
           msg |-> "status " \o ToString(ev.status) \o " tags " \o ToString(r.tags) \o " predicted " \o ToString(r.raw) \o " recorded " \o ToString(ev.raw)]
     ELSE LET f    == IF ev.status = 0 THEN ObservedFaults(Requested(ev.ss, ev.src), ev.raw, ev.parsed, ev.perr) ELSE {"failed"}
              expl == {t \in r.tags : KDFaults(t) \cap f # {}}
          IN [ok |-> FALSE, st |-> s, cont |-> TRUE,
              msg |-> IF same /\ f \subseteq Explained(r.tags) THEN "KNOWN " \o ToString(expl) \o " explain " \o ToString(f)
                      ELSE IF same THEN "UNEXPLAINED " \o ToString(f \ Explained(r.tags)) \o " of " \o ToString(f) \o " with classes " \o ToString(r.tags)
                      ELSE "NOT-THE-TRANSCRIBED-BEHAVIOUR faults " \o ToString(f) \o " predicted " \o ToString(r.raw)]

INSTANCE TraceBase WITH StInit <- 0, Step <- ImplStep
Spec2 == TSpec
=============================================================================
