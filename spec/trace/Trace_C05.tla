----------------------------- MODULE Trace_C05 -----------------------------
(* Validates recorded runs of the real forms (harness/c05.cpp) against Forms.tla.                          *)
(* One execution = one input (S, D, P):                                                                     *)
(*   {"e":"Input","feat":{utf16, srcbase, method}}                                                          *)
(*   {"e":"Run","cfg":{src,ss,out,api},"ok":b,"tree":[..],"wlog":[..],"nbytes":n,"short":k,"ctrl":tag}*     *)
(* The outcome R(S, D, P) is not computed here (that is C01's job): it is learned from the first plain Run   *)
(* of the execution, and every other Run must be a Run(cfg) step of Forms for that same outcome - all        *)
(* succeed with equal canonical trees, or all fail.  Every form that was run must be Supported for the       *)
(* input; handler logs must obey the chunk protocol; a run with a short-counting handler must fail.          *)
(* Runs with a tag (ctrl # "") are control experiments - a form run on a variant of the document or of the      *)
(* stylesheet.  They are recorded, never judged, and only serve to NAME a disagreement (KD=...) in the message;  *)
(* a named disagreement is still rejected:                                                                      *)
(*   attrsSorted          reference form, document with the attributes of every element in name order            *)
(*   xmlnsXml:<form>      <form> on the document with xmlns:xml declared explicitly on the document element      *)
(*   noCdata:<form>       <form> on the document with its CDATA sections written as escaped character data          *)
(* (two more classes are repaired and their control experiments gone - a recurrence is an unnamed tree            *)
(*  disagreement: doctypeNodeXercesDOM, the node test node() no longer accepts the DocumentType node of a         *)
(*  DOM-backed source; sourceTreeTargetDropsCdataText, FormatterToSourceTree::cdata() adds the characters as text) *)
EXTENDS Forms, TLC
VARIABLES l, st, failed, done

NoObs == [ok |-> FALSE, tree |-> <<>>]
Init0 == [hasFeat |-> FALSE, feat |-> [utf16 |-> FALSE, srcbase |-> FALSE, method |-> "xml"],
          known |-> FALSE, ref |-> NoObs, refcfg |-> "none", ctrls |-> {}, refdigest |-> [native |-> "", dom |-> ""]]

Accept(s) == [ok |-> TRUE, st |-> s, msg |-> ""]
Reject(s, m) == [ok |-> FALSE, st |-> s, msg |-> m, cont |-> TRUE]

CfgStr(c) == c.api \o "/" \o c.src \o "/" \o c.ss \o "/" \o c.out
Dig(ev) == IF "digest" \in DOMAIN ev THEN ev.digest ELSE ""

Has(s, tag) == \E c \in s.ctrls : c.tag = tag
Ctrl(s, tag) == CHOOSE c \in s.ctrls : c.tag = tag

(* the control experiments that explain a tree difference exactly *)
KD(s, cfg, obs) ==
  LET m == s.feat.method
      f == CfgStr(cfg)
  IN IF cfg.src \in DomSrcs /\ Has(s, "attrsSorted") /\ Agree(m, Ctrl(s, "attrsSorted"), obs)
       THEN " KD=attrOrderXercesDOM"             \* the DOM-backed form behaves as the native form does on the name-ordered document
     ELSE IF cfg.src \in DomSrcs /\ Has(s, "xmlnsXml:" \o f) /\ Agree(m, Ctrl(s, "xmlnsXml:" \o f), s.ref)
       THEN " KD=xmlNamespaceNodeXercesDOM"      \* with xmlns:xml declared in the document the same form agrees
     ELSE IF cfg.src \in DomSrcs /\ Has(s, "noCdata:" \o f) /\ Agree(m, Ctrl(s, "noCdata:" \o f), s.ref)
       THEN " KD=cdataSectionSeparateTextNodeXercesDOM"      \* with the CDATA sections written as escaped character data the same form agrees
     ELSE ""

(* which part of Run(cfg, ..) failed *)
Why(s, cfg, obs) ==
  IF cfg.out = "callback" /\ ~ChunkLogOK(obs.wlog, obs.nbytes, obs.ok) THEN "chunks"
  ELSE IF obs.ok # s.ref.ok THEN "status"
  ELSE "tree" \o KD(s, cfg, obs)

C05Step(s, ev) ==
  IF ev.e = "Input" THEN Accept([s EXCEPT !.hasFeat = TRUE, !.feat = ev.feat])
  ELSE IF ev.e # "Run" THEN Reject(s, "unknown event")
  ELSE
    LET cfg == ev.cfg
        obs == [ok |-> ev.ok, tree |-> ev.tree, wlog |-> ev.wlog, nbytes |-> ev.nbytes]
    IN
    IF ~s.hasFeat THEN Reject(s, "Run before Input")
    ELSE IF ~SupportedFor(cfg, s.feat) THEN Reject(s, "class=unsupported: a form outside Supported was run: " \o ToString(cfg))
    ELSE IF ev.ctrl # "" THEN Accept([s EXCEPT !.ctrls = @ \cup {[tag |-> ev.ctrl, ok |-> obs.ok, tree |-> obs.tree]}])
    ELSE IF ev.short > 0
      THEN IF RunShort(cfg, s.feat, ev.short, obs) THEN Accept(s)
           ELSE Reject(s, "class=short: " \o CfgStr(cfg) \o ": handler reported a short count at call " \o ToString(ev.short)
                          \o " but status ok = " \o ToString(obs.ok) \o ", handler log " \o ToString(obs.wlog))
    ELSE IF ~s.known
      THEN IF Run(cfg, s.feat, obs, obs)                  \* the reference run itself must obey the chunk protocol
           THEN Accept([s EXCEPT !.known = TRUE, !.ref = [ok |-> obs.ok, tree |-> obs.tree], !.refcfg = CfgStr(cfg),
                        !.refdigest = [s.refdigest EXCEPT ![IF cfg.src \in DomSrcs THEN "dom" ELSE "native"] = Dig(ev)]])
           ELSE Reject(s, "class=chunks: " \o CfgStr(cfg) \o ": handler log " \o ToString(obs.wlog) \o " for " \o ToString(obs.nbytes) \o " bytes")
    ELSE IF Run(cfg, s.feat, s.ref, obs)
      THEN (* the same result tree, written by the same xsl:output: the forms that deliver BYTES (file, stream, call-back, C data buffer,  *)
           (* command line) deliver the same bytes - the serialisation of a tree does not depend on how the stylesheet or the source    *)
           (* was supplied either                                                                                                        *)
           (* (per kind of source tree: a DOM-backed source hands its attributes over in another order, which is no difference of trees) *)
           LET kind == IF cfg.src \in DomSrcs THEN "dom" ELSE "native"
               have == s.refdigest[kind] IN
           IF Dig(ev) = "" THEN Accept(s)
           ELSE IF have = "" THEN Accept([s EXCEPT !.refdigest = [@ EXCEPT ![kind] = Dig(ev)]])
           ELSE IF Dig(ev) = have THEN Accept(s)
           ELSE Reject(s, "class=bytes: " \o CfgStr(cfg) \o " delivers the same tree as the other forms but not the same bytes as the earlier " \o kind \o "-source forms (" \o Dig(ev) \o " / " \o have \o ")")
    ELSE Reject(s, "class=" \o Why(s, cfg, obs) \o ": " \o CfgStr(cfg) \o " (ok=" \o ToString(obs.ok) \o ") disagrees with " \o s.refcfg
                   \o " (ok=" \o ToString(s.ref.ok) \o ")"
                   \o (IF cfg.out = "callback" THEN "; handler log " \o ToString(obs.wlog) \o " for " \o ToString(obs.nbytes) \o " bytes" ELSE ""))

INSTANCE TraceBase WITH StInit <- Init0, Step <- C05Step
=============================================================================
