----------------------------- MODULE Trace_C05 -----------------------------
(* Validates recorded runs of the real forms (harness/c05.cpp) against Forms.tla.                          *)
(* One execution = one input (S, D, P):                                                                     *)
(*   {"e":"Input","feat":{utf16, srcbase, method}}                                                          *)
(*   {"e":"Run","cfg":{src,ss,out,api},"ok":b,"tree":[..],"wlog":[..],"nbytes":n,"short":k,"ctrl":tag}*     *)
(* The outcome R(S, D, P) is not computed here (that is C01's job): it is learned from the first plain Run   *)
(* of the execution, and every other Run must be a Run(cfg) step of Forms for that same outcome - all        *)
(* succeed with equal canonical trees, or all fail.  Every form that was run must be Supported for the       *)
(* input; handler logs must obey the chunk protocol; a run with a short-counting handler must fail.          *)
(* Runs tagged ctrl = "attrsSorted" are control experiments (the reference form on the document with the    *)
(* attributes of every element in name order): they are recorded, not judged, and only serve to NAME a       *)
(* disagreement (KD=...) in the message; a named disagreement is still rejected.                             *)
EXTENDS Forms, TLC
VARIABLES l, st, failed, done

NoObs == [ok |-> FALSE, tree |-> <<>>]
Init0 == [hasFeat |-> FALSE, feat |-> [utf16 |-> FALSE, srcbase |-> FALSE, method |-> "xml"],
          known |-> FALSE, ref |-> NoObs, refcfg |-> "none", hasCtrl |-> FALSE, ctrl |-> NoObs]

Accept(s) == [ok |-> TRUE, st |-> s, msg |-> ""]
Reject(s, m) == [ok |-> FALSE, st |-> s, msg |-> m, cont |-> TRUE]

CfgStr(c) == c.api \o "/" \o c.src \o "/" \o c.ss \o "/" \o c.out

(* which part of Run(cfg, ..) failed, and whether the control experiment explains a tree difference *)
Why(s, cfg, obs) ==
  IF cfg.out = "callback" /\ ~ChunkLogOK(obs.wlog, obs.nbytes, obs.ok) THEN "chunks"
  ELSE IF obs.ok # s.ref.ok THEN "status"
  ELSE IF cfg.src \in DomSrcs /\ s.hasCtrl /\ Agree(s.feat.method, s.ctrl, obs) THEN "tree KD=attrOrderXercesDOM"
  ELSE "tree"

C05Step(s, ev) ==
  IF ev.e = "Input" THEN Accept([s EXCEPT !.hasFeat = TRUE, !.feat = ev.feat])
  ELSE IF ev.e # "Run" THEN Reject(s, "unknown event")
  ELSE
    LET cfg == ev.cfg
        obs == [ok |-> ev.ok, tree |-> ev.tree, wlog |-> ev.wlog, nbytes |-> ev.nbytes]
    IN
    IF ~s.hasFeat THEN Reject(s, "Run before Input")
    ELSE IF ~SupportedFor(cfg, s.feat) THEN Reject(s, "class=unsupported: a form outside Supported was run: " \o ToString(cfg))
    ELSE IF ev.ctrl # "" THEN Accept([s EXCEPT !.hasCtrl = TRUE, !.ctrl = [ok |-> obs.ok, tree |-> obs.tree]])
    ELSE IF ev.short > 0
      THEN IF RunShort(cfg, s.feat, ev.short, obs) THEN Accept(s)
           ELSE Reject(s, "class=short: " \o CfgStr(cfg) \o ": handler reported a short count at call " \o ToString(ev.short)
                          \o " but status ok = " \o ToString(obs.ok) \o ", handler log " \o ToString(obs.wlog))
    ELSE IF ~s.known
      THEN IF Run(cfg, s.feat, obs, obs)                  \* the reference run itself must obey the chunk protocol
           THEN Accept([s EXCEPT !.known = TRUE, !.ref = [ok |-> obs.ok, tree |-> obs.tree], !.refcfg = CfgStr(cfg)])
           ELSE Reject(s, "class=chunks: " \o CfgStr(cfg) \o ": handler log " \o ToString(obs.wlog) \o " for " \o ToString(obs.nbytes) \o " bytes")
    ELSE IF Run(cfg, s.feat, s.ref, obs) THEN Accept(s)
    ELSE Reject(s, "class=" \o Why(s, cfg, obs) \o ": " \o CfgStr(cfg) \o " (ok=" \o ToString(obs.ok) \o ") disagrees with " \o s.refcfg
                   \o " (ok=" \o ToString(s.ref.ok) \o ")"
                   \o (IF cfg.out = "callback" THEN "; handler log " \o ToString(obs.wlog) \o " for " \o ToString(obs.nbytes) \o " bytes" ELSE ""))

INSTANCE TraceBase WITH StInit <- Init0, Step <- C05Step
=============================================================================
