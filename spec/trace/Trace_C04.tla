----------------------------- MODULE Trace_C04 -----------------------------
(* Validates recorded runs of the XML serializers (harness/c04.cpp + the expat canonicaliser of            *)
(* tools/props/c04.py) against Serializer.tla.  Every event is self-contained:                            *)
(*   [e |-> "Serialize", which ("new" | "legacy" | "e2e"), enc, ver, direct, script, status, perr, tree,    *)
(*    splits, chunks, pred]                                                                               *)
(*      accepted iff Obligation(script, opts, result); for the product serializer the chunks handed to the  *)
(*      Writer must not cut a UTF-8 sequence / surrogate pair (splits = 0; UTF-16 output is copied through  *)
(*      unit by unit and is exempt), and where the script was exported from MC_WriterBuffer the chunk       *)
(*      lengths predicted by the model (pred) must be a prefix of the observed ones (a rejection for that    *)
(*      reason alone is marked MODEL-MISMATCH: the bytes are right, WriterBufferImpl no longer describes the *)
(*      code - the check reports it as model drift, not as a violation of the property).                     *)
(*   [e |-> "Agree", enc, ver, script, a, b]   the results of the two serializers for one script must agree *)
(* Scripts outside the model (code points whose encodability the model does not define; direct scripts       *)
(* outside the caller's contract) are dropped and counted.                                                  *)
EXTENDS Serializer, Json, IOUtils, SequencesExt
VARIABLES l, st, failed, done

TreeOfJson(t) == [i \in DOMAIN t |-> [k |-> t[i].k, n |-> t[i].n, v |-> t[i].v,
                                      a |-> {<<t[i].a[j][1], t[i].a[j][2]>> : j \in DOMAIN t[i].a}]]
Result(r) == [status |-> r.status, perr |-> r.perr, tree |-> IF r.status = "ok" /\ r.perr = "" THEN TreeOfJson(r.tree) ELSE <<>>]

AllCps(sc) == UNION {Cps(sc[i].n) \cup Cps(sc[i].v) \cup UNION {Cps(sc[i].a[j][1]) \cup Cps(sc[i].a[j][2]) : j \in DOMAIN sc[i].a} : i \in DOMAIN sc}
(* ICU's windows-1252 maps five C1 controls that Python's cp1252 does not: outside the model *)
InModel(sc, o) == /\ o.enc \in Encodings /\ o.ver \in {V10, V11}
                  /\ \A i \in DOMAIN sc : RCanonical(sc[i].n) /\ RCanonical(sc[i].v)
                  /\ (o.enc = "windows-1252" => \A c \in AllCps(sc) : ~(c >= 128 /\ c <= 159))

IsPrefixOf(p, s) == Len(p) <= Len(s) /\ SubSeq(s, 1, Len(p)) = p

C04Step(s, ev) ==
  LET o == [enc |-> ev.enc, ver |-> ev.ver] IN
  IF ~InModel(ev.script, o) \/ (ev.e = "Serialize" /\ ev.direct /\ ~CallerContract(ev.script))
  THEN [ok |-> TRUE, st |-> s, drop |-> TRUE, msg |-> ""]
  ELSE IF ev.e = "Serialize"
  THEN LET r == Result(ev)
           obl == Obligation(ev.script, o, r)
           splitOK == (ev.which = "new" /\ ev.enc # "UTF-16" /\ ev.status = "ok") => ev.splits = 0
           predOK == (ev.status = "ok" /\ ev.pred # <<>>) => IsPrefixOf(ev.pred, ev.chunks)
       IN [ok |-> obl /\ splitOK /\ predOK, st |-> s, drop |-> FALSE, cont |-> TRUE,
           msg |-> IF ~obl THEN Why(ev.script, o, r)
                   ELSE IF ~splitOK THEN "a flush of the staging buffer cuts a multi-unit character (" \o ToString(ev.splits) \o " chunks start inside one)"
                   ELSE "MODEL-MISMATCH flush pattern differs from the buffer model: predicted " \o ToString(ev.pred) \o " observed " \o ToString(ev.chunks)]
  ELSE LET a == Result(ev.a)
           b == Result(ev.b) IN
       [ok |-> Agree(a, b), st |-> s, drop |-> FALSE, cont |-> TRUE,
        msg |-> "the two serializers disagree: new " \o a.status \o (IF a.perr # "" THEN " (" \o a.perr \o ")" ELSE "")
                \o ", legacy " \o b.status \o (IF b.perr # "" THEN " (" \o b.perr \o ")" ELSE "")
                \o (IF a.status = "ok" /\ b.status = "ok" /\ a.perr = "" /\ b.perr = ""
                    THEN ", first differing node " \o ToString(FirstDiff(a.tree, b.tree)) ELSE "")]

INSTANCE TraceBase WITH StInit <- 0, Step <- C04Step
=============================================================================
