----------------------------- MODULE Trace_C07 -----------------------------
(* Validates what the real library did (harness/c07.cpp) against the sharing protocol Sharing.tla. *)
(* Events of one execution:                                                                        *)
(*   Seq{rc,outHash,len}              the sequential reference (separate process, nothing shared)    *)
(*   Build{obj} ... Freeze{obj} ...   transformer A built the shared objects inside the arena and    *)
(*                                    the arena became read-only                                     *)
(*   Start{thread}                    a worker starts a transformation with its own transformer     *)
(*   Write{thread,region,obj,locks,   a store of that thread into a frozen region (every one is       *)
(*         atomic,site,frames}        trapped): region "arena" = the objects transformer A built,     *)
(*                                    region "static" = libxalan-c's own .data/.bss (obj "static");   *)
(*                                    atomic = the instruction is a LOCK-prefixed RMW / xchg           *)
(*   Done{thread,rc,outHash,len}      the transformation's result                                   *)
(*   Join                                                                                           *)
(* Rejected: a non-atomic store into a frozen object by a thread that holds no mutex (`locks` is the number *)
(* of mutexes the thread holds; "some mutex is held" is taken for "the guard is held"), a result    *)
(* that differs from the sequential one, and any event the protocol does not allow there.           *)
EXTENDS Sharing, Sequences, TLC
VARIABLES l, st, failed, done

(* constants of Sharing for the recorded system: the arena is divided into the objects in build   *)
(* order; "fresh" is what the shared objects' memory manager hands out after Freeze; "static" is  *)
(* the library's static data, which every thread shares whether it wants to or not                *)
TrObjects == {"tables", "transformer", "stylesheet", "source", "fresh", "static"}
TrFieldsOf(o) == {"mem"}
TrTag(o, f) == "lazy"
TrGuard(o, f) == "some-mutex"
TrThreads == 0..64
TrLocks == {"some-mutex"}
TrNoLock == "nolock"

Init0 == [built |-> {}, frozen |-> {}, running |-> {}, hasSeq |-> FALSE, seq |-> [h |-> "", len |-> 0]]

Res(ok, s, msg) == [ok |-> ok, st |-> s, msg |-> msg]

C07Step(s, ev) ==
  CASE ev.e = "Seq" ->
         Res(~s.hasSeq /\ ev.rc = 0, [s EXCEPT !.hasSeq = TRUE, !.seq = [h |-> ev.outHash, len |-> ev.len]],
             "the sequential reference run failed: " \o ToString(ev))
    [] ev.e = "Build" ->
         Res(ev.obj \in TrObjects /\ CanBuild(s.built, s.frozen, ev.obj) /\ s.running = {},
             [s EXCEPT !.built = @ \cup {ev.obj}], "Build not allowed here: " \o ToString(ev))
    [] ev.e = "Freeze" ->
         Res(CanFreeze(s.built, s.frozen, ev.obj), [s EXCEPT !.frozen = @ \cup {ev.obj}], "Freeze not allowed here: " \o ToString(ev))
    [] ev.e = "Start" ->
         Res(ev.thread \in TrThreads /\ CanStart(s.running, ev.thread) /\ s.hasSeq /\ s.built = TrObjects /\ s.frozen = s.built,
             [s EXCEPT !.running = @ \cup {ev.thread}], "Start not allowed here: " \o ToString(ev))
    [] ev.e = "Write" ->
         IF ~CanAccess(s.running, s.built, ev.thread, ev.obj)
         THEN Res(FALSE, s, "store by a thread that runs no transformation: " \o ToString(ev))
         ELSE Res((ev.region = "static") = (ev.obj = "static") /\ WriteOK(ev.obj \in s.frozen, ev.locks >= 1 \/ ev.atomic), s,
                  "store into the frozen object '" \o ev.obj \o "' (" \o ev.region \o ") without a lock, thread " \o ToString(ev.thread)
                  \o ", at " \o ev.site \o ", called from " \o ToString(ev.frames))
    [] ev.e = "Done" ->
         IF ~CanDone(s.running, ev.thread)
         THEN Res(FALSE, s, "Done of a thread that runs no transformation: " \o ToString(ev))
         ELSE Res(ev.rc = 0 /\ OutputOK([h |-> ev.outHash, len |-> ev.len], s.seq), [s EXCEPT !.running = @ \ {ev.thread}],
                  "thread " \o ToString(ev.thread) \o " delivered " \o ToString([rc |-> ev.rc, h |-> ev.outHash, len |-> ev.len])
                  \o ", the sequential run " \o ToString(s.seq))
    [] ev.e = "Join" ->
         Res(CanJoin(s.running), s, "Join while transformations are running: " \o ToString(s.running))
    [] OTHER -> Res(FALSE, s, "not an action of the protocol: " \o ToString(ev))

INSTANCE TraceBase WITH StInit <- Init0, Step <- C07Step
=============================================================================
