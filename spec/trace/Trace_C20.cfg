SPECIFICATION TSpec
