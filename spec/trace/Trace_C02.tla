----------------------------- MODULE Trace_C02 -----------------------------
(* Validates recorded XPath evaluations of the real evaluator (harness/xp.cpp) against the      *)
(* executable definition XPathSem.tla.  Every event is self-contained:                          *)
(*   [e |-> "Eval", doc, ctx, pos, size, expr (AST), vars, res | error]                          *)
(* The forest ($DOCS, one flattened XDM document per line) is parked in TLC register 2.          *)
(* The same module validates the typed entry points of C11 (field `kind`): the result must be    *)
(* the standard conversion of the general value.                                                 *)
EXTENDS XPathSyntax, Json, IOUtils
VARIABLES l, st, failed, done

Forest == TLCGet(2)

LoadVal(j) == IF j.t = "ns" THEN NS({<<x[1], x[2], x[3]>> : x \in Range(j.v)}) ELSE j
LoadVars(vs) == [k \in DOMAIN vs |-> LoadVal(vs[k])]

Ctx(ev) == [f |-> Forest, n |-> <<ev.doc, ev.ctx, 0>>, pos |-> ev.pos, size |-> ev.size,
            vars |-> LoadVars(ev.vars), keys |-> <<>>,
            dyn |-> IF "dyn" \in DOMAIN ev THEN [k \in 1..Len(ev.dyn) |-> LET q == IF ev.dyn[k].lexok THEN Parse(ev.dyn[k].toks, ev.nsmap) ELSE Fail IN [text |-> ev.dyn[k].text, ok |-> q.ok, ast |-> q.ast]] ELSE <<>>,
            cur |-> IF "cur" \in DOMAIN ev THEN <<ev.cur[1], ev.cur[2], 0>> ELSE <<ev.doc, ev.ctx, 0>>]   \* current() may be in another document

(* the value a typed entry point must deliver: the standard conversion of the general value *)
Convert(F, kind, v) ==
  IF Bad(v) THEN v
  ELSE CASE kind = "eval" -> v
         [] kind = "bool" -> BV(ToBool(v))
         [] kind = "num"  -> NV(ToNumX(F, v))
         [] kind = "str" -> SV(<<80, 82, 69>> \o ToStr(F, v))     \* appended to the caller's string, which holds "PRE"
         [] kind = "chars" -> SV(ToStr(F, v))
         [] kind = "nodelist" -> IF v.t = "ns" THEN v ELSE ErrV

(* a delivered node-set must be a duplicate-free sequence in document order (C12) *)
Delivered(j) == [k \in 1..Len(j.v) |-> <<j.v[k][1], j.v[k][2], j.v[k][3]>>]
(* within a document: document order; nodes of different documents are never interleaved (which document comes first is the     *)
(* implementation's choice, XPath 5: "implementation-dependent")                                                                  *)
SeqOrderOk(s) == /\ \A i \in 1..(Len(s) - 1) : s[i][1] = s[i + 1][1] => Before(s[i], s[i + 1])
                 /\ \A i, j \in 1..Len(s) : (i < j /\ s[i][1] = s[j][1]) => \A k \in i..j : s[k][1] = s[i][1]
OrderOk(ev) == ("error" \in DOMAIN ev) \/ ev.res.t # "ns" \/ SeqOrderOk(Delivered(ev.res))

(* Events may carry the raw lexemes of the expression text (toks, lexok).  Then the expression is   *)
(* what XPathSyntax!Parse makes of them: a string that is not an XPath expression must be rejected *)
(* by the implementation; and where the generator also recorded the AST it rendered, parser and    *)
(* renderer must agree (an internal consistency check of the specification, not of Xalan).         *)
C02Step(s, ev) ==
  LET hasToks == "toks" \in DOMAIN ev
      pr == IF ~hasToks THEN Ok(ev.expr, 0) ELSE IF ev.lexok THEN Parse(ev.toks, ev.nsmap) ELSE Fail
      consistent == /\ ~hasToks \/ "expr" \notin DOMAIN ev \/ (pr.ok /\ pr.ast = ev.expr)
                    /\ "dyn" \in DOMAIN ev => \A k \in 1..Len(ev.dyn) : LET q == IF ev.dyn[k].lexok THEN Parse(ev.dyn[k].toks, ev.nsmap) ELSE Fail IN
                                                                                   IF ev.dyn[k].bad THEN ~q.ok ELSE q.ok /\ q.ast = ev.dyn[k].ast
      isErr == "error" \in DOMAIN ev
  IN IF ~consistent
     THEN [ok |-> FALSE, st |-> s, drop |-> FALSE, cont |-> TRUE,
           msg |-> "SPEC-INCONSISTENT: XPathSyntax!Parse of the rendered text differs from the generated AST: " \o ToString(pr.ast) \o " GENERATED " \o ToString(ev.expr)]
     ELSE IF ~pr.ok
     THEN [ok |-> isErr, st |-> s, drop |-> FALSE, cont |-> TRUE,
           msg |-> "NOT-AN-EXPRESSION accepted: the token string is not derivable from the XPath 1.0 grammar but evaluation returned a value"]
     ELSE LET want == Convert(Forest, ev.kind, Eval(pr.ast, Ctx(ev)))
              got == IF isErr THEN ErrV ELSE LoadVal(ev.res)
          IN IF want.t \in {"unm", "fns"} THEN [ok |-> TRUE, st |-> s, drop |-> TRUE, msg |-> ""]
             \* a call with the wrong number of arguments may be refused up front or only when it is evaluated (3.2 does not say)
             ELSE IF isErr /\ HasBadCall(pr.ast) THEN [ok |-> TRUE, st |-> s, drop |-> FALSE, cont |-> TRUE, msg |-> ""]
             ELSE [ok |-> want = got /\ OrderOk(ev), st |-> s, drop |-> FALSE, cont |-> TRUE,
                   msg |-> (IF want # got THEN "want " \o ToString(want) \o " got " \o ToString(got)
                            ELSE IF ~OrderOk(ev) THEN "ORDER: delivered sequence is not in document order: " \o ToString(ev.res.v)
                            ELSE "")]

TraceInit2 == TLCSet(2, ndJsonDeserialize(IOEnv.DOCS))

INSTANCE TraceBase WITH StInit <- 0, Step <- C02Step
Spec2 == TraceInit2 /\ TSpec
=============================================================================
