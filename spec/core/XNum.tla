-------------------------------- MODULE XNum --------------------------------
(* The number domain of the XPath model.  TLC has 32-bit integers and no floating point, so a   *)
(* number is NaN, +-Infinity, or a dyadic rational  +-m/8  with m < 2^25 (a signed zero is      *)
(* m = 0 with its sign).  On this domain IEEE-754 double arithmetic is exact, so the operators   *)
(* below ARE the IEEE results; whenever the exact result leaves the domain the result is the    *)
(* poison number Unm, which callers must propagate (such cases are dropped, never accepted).     *)
(* Every number is a record [k, neg, m] so that TLC can compare any two of them.                 *)
EXTENDS Naturals, Integers, Sequences

Scale == 8
Limit == 33554432          \* 2^25 eighths  = 2^22
MulLimit == 32768          \* operands below this cannot overflow a 32-bit product

NaN      == [k |-> "nan", neg |-> FALSE, m |-> 0]
Unm      == [k |-> "unm", neg |-> FALSE, m |-> 0]
Inf(neg) == [k |-> "inf", neg |-> neg, m |-> 0]
Fin(neg, m) == IF m >= Limit THEN Unm ELSE [k |-> "fin", neg |-> neg, m |-> m]
FromInt(i) == IF i < 0 THEN Fin(TRUE, (0 - i) * Scale) ELSE Fin(FALSE, i * Scale)
Zero == Fin(FALSE, 0)
One  == Fin(FALSE, Scale)

IsNaN(a) == a.k = "nan"
IsUnm(a) == a.k = "unm"
IsInf(a) == a.k = "inf"
IsFin(a) == a.k = "fin"
IsZero(a) == a.k = "fin" /\ a.m = 0
AnyUnm(a, b) == IsUnm(a) \/ IsUnm(b)

Signed(a) == IF a.neg THEN 0 - a.m ELSE a.m         \* finite only
FromSigned(s) == IF s < 0 THEN Fin(TRUE, 0 - s) ELSE Fin(FALSE, s)

Neg(a) == IF IsNaN(a) \/ IsUnm(a) THEN a ELSE [a EXCEPT !.neg = ~a.neg]

Add(a, b) ==
  IF AnyUnm(a, b) THEN Unm
  ELSE IF IsNaN(a) \/ IsNaN(b) THEN NaN
  ELSE IF IsInf(a) THEN (IF IsInf(b) /\ a.neg # b.neg THEN NaN ELSE a)
  ELSE IF IsInf(b) THEN b
  ELSE LET s == Signed(a) + Signed(b) IN
       IF s = 0 THEN Fin(a.neg /\ b.neg, 0)         \* x + (-x) = +0 ; (-0) + (-0) = -0
       ELSE FromSigned(s)

Sub(a, b) == Add(a, Neg(b))

Mul(a, b) ==
  IF AnyUnm(a, b) THEN Unm
  ELSE IF IsNaN(a) \/ IsNaN(b) THEN NaN
  ELSE LET sg == (a.neg # b.neg) IN
       IF IsInf(a) \/ IsInf(b)
       THEN (IF IsZero(a) \/ IsZero(b) THEN NaN ELSE Inf(sg))
       ELSE IF a.m = 0 \/ b.m = 0 THEN Fin(sg, 0)
       ELSE IF a.m >= MulLimit \/ b.m >= MulLimit THEN Unm
       ELSE LET p == a.m * b.m IN
            IF p % Scale # 0 THEN Unm ELSE Fin(sg, p \div Scale)

Div(a, b) ==
  IF AnyUnm(a, b) THEN Unm
  ELSE IF IsNaN(a) \/ IsNaN(b) THEN NaN
  ELSE LET sg == (a.neg # b.neg) IN
       IF IsInf(a) THEN (IF IsInf(b) THEN NaN ELSE Inf(sg))
       ELSE IF IsInf(b) THEN Fin(sg, 0)
       ELSE IF b.m = 0 THEN (IF a.m = 0 THEN NaN ELSE Inf(sg))
       ELSE IF a.m = 0 THEN Fin(sg, 0)
       ELSE IF a.m >= Limit \div Scale THEN Unm
       ELSE LET p == a.m * Scale IN
            IF p % b.m # 0 THEN Unm ELSE Fin(sg, p \div b.m)

(* XPath mod = truncating remainder, sign of the dividend (IEEE fmod) *)
Mod(a, b) ==
  IF AnyUnm(a, b) THEN Unm
  ELSE IF IsNaN(a) \/ IsNaN(b) \/ IsInf(a) \/ IsZero(b) THEN NaN
  ELSE IF IsInf(b) THEN a
  ELSE Fin(a.neg, a.m % b.m)

(* comparisons: NaN is unordered, -0 = +0; operands must not be Unm *)
NumEq(a, b) ==
  IF IsNaN(a) \/ IsNaN(b) THEN FALSE
  ELSE IF IsInf(a) \/ IsInf(b) THEN a.k = b.k /\ a.neg = b.neg
  ELSE Signed(a) = Signed(b)
NumLt(a, b) ==
  IF IsNaN(a) \/ IsNaN(b) THEN FALSE
  ELSE IF IsInf(a) THEN (a.neg /\ ~(IsInf(b) /\ b.neg))
  ELSE IF IsInf(b) THEN ~b.neg
  ELSE Signed(a) < Signed(b)
NumLe(a, b) == NumLt(a, b) \/ NumEq(a, b)

Floor(a) ==
  IF ~IsFin(a) THEN a
  ELSE IF a.m % Scale = 0 THEN a
  ELSE IF a.neg THEN Fin(TRUE, ((a.m \div Scale) + 1) * Scale)
  ELSE Fin(FALSE, (a.m \div Scale) * Scale)
Ceiling(a) ==
  IF ~IsFin(a) THEN a
  ELSE IF a.m % Scale = 0 THEN a
  ELSE IF a.neg THEN Fin(TRUE, (a.m \div Scale) * Scale)     \* (-1, 0) -> -0
  ELSE Fin(FALSE, ((a.m \div Scale) + 1) * Scale)
(* XPath 4.4: closest integer, ties towards +Infinity; [-0.5, -0] -> negative zero *)
Round(a) ==
  IF ~IsFin(a) THEN a
  ELSE IF a.m % Scale = 0 THEN a
  ELSE IF a.neg THEN (IF a.m % Scale <= Scale \div 2
                      THEN Fin(TRUE, (a.m \div Scale) * Scale)
                      ELSE Fin(TRUE, ((a.m \div Scale) + 1) * Scale))
  ELSE (IF a.m % Scale >= Scale \div 2
        THEN Fin(FALSE, ((a.m \div Scale) + 1) * Scale)
        ELSE Fin(FALSE, (a.m \div Scale) * Scale))

(* ---- number -> string (XPath 4.2 string()) -------------------------------------------------- *)
Digit(d) == 48 + d
RECURSIVE NatDigits(_)
NatDigits(n) == IF n < 10 THEN <<Digit(n)>> ELSE NatDigits(n \div 10) \o <<Digit(n % 10)>>
(* fraction f/8 has the exact expansion f*125 / 1000 *)
FracDigits(f) ==
  LET t == f * 125
      d1 == t \div 100
      d2 == (t \div 10) % 10
      d3 == t % 10 IN
  IF d3 # 0 THEN <<Digit(d1), Digit(d2), Digit(d3)>>
  ELSE IF d2 # 0 THEN <<Digit(d1), Digit(d2)>>
  ELSE <<Digit(d1)>>
StrNaN == <<78, 97, 78>>
StrInfinity == <<73, 110, 102, 105, 110, 105, 116, 121>>
NumToStr(a) ==            \* a must not be Unm
  IF IsNaN(a) THEN StrNaN
  ELSE IF IsInf(a) THEN (IF a.neg THEN <<45>> ELSE <<>>) \o StrInfinity
  ELSE IF a.m = 0 THEN <<48>>
  ELSE (IF a.neg THEN <<45>> ELSE <<>>) \o NatDigits(a.m \div Scale) \o
       (IF a.m % Scale = 0 THEN <<>> ELSE <<46>> \o FracDigits(a.m % Scale))

(* ---- string -> number (XPath 4.4 number(): optional whitespace, optional '-', Number) -------- *)
IsWs(c) == c \in {32, 9, 10, 13}
IsDigit(c) == c >= 48 /\ c <= 57
RECURSIVE SkipWs(_, _)
SkipWs(s, i) == IF i <= Len(s) /\ IsWs(s[i]) THEN SkipWs(s, i + 1) ELSE i
RECURSIVE SkipWsBack(_, _)
SkipWsBack(s, i) == IF i >= 1 /\ IsWs(s[i]) THEN SkipWsBack(s, i - 1) ELSE i
RECURSIVE DigitsEnd(_, _)
DigitsEnd(s, i) == IF i <= Len(s) /\ IsDigit(s[i]) THEN DigitsEnd(s, i + 1) ELSE i
RECURSIVE DigitsVal(_, _, _, _)      \* value of s[i..j-1], saturating at 10^9 (=> Unm later)
DigitsVal(s, i, j, acc) ==
  IF i >= j THEN acc
  ELSE IF acc >= 100000000 THEN 1000000000
  ELSE DigitsVal(s, i + 1, j, acc * 10 + (s[i] - 48))
RECURSIVE TrimZerosEnd(_, _, _)      \* last index of a non-zero digit in s[i..j-1], or i-1
TrimZerosEnd(s, i, j) == IF j > i /\ s[j - 1] = 48 THEN TrimZerosEnd(s, i, j - 1) ELSE j
Pow10(n) == CASE n = 0 -> 1 [] n = 1 -> 10 [] n = 2 -> 100 [] n = 3 -> 1000 [] OTHER -> 10000

StrToNum(s) ==
  LET b == SkipWs(s, 1)
      e == SkipWsBack(s, Len(s))
      neg == b <= e /\ s[b] = 45
      p == IF neg THEN b + 1 ELSE b
      ie == DigitsEnd(s, p)                          \* integer digits are s[p..ie-1]
      hasDot == ie <= e /\ s[ie] = 46
      fs == ie + 1
      fe == IF hasDot THEN DigitsEnd(s, fs) ELSE ie     \* fraction digits are s[fs..fe-1]
      nInt == ie - p
      nFrac == IF hasDot THEN fe - fs ELSE 0
      last == IF hasDot THEN fe ELSE ie
  IN
  IF b > e THEN NaN
  ELSE IF last # e + 1 THEN NaN                       \* trailing garbage (or '.' only handled below)
  ELSE IF nInt = 0 /\ nFrac = 0 THEN NaN
  ELSE LET iv == DigitsVal(s, p, ie, 0)
           ft == IF hasDot THEN TrimZerosEnd(s, fs, fe) ELSE fs     \* significant fraction digits s[fs..ft-1]
           nf == IF hasDot THEN ft - fs ELSE 0
           fv == IF nf > 0 /\ nf <= 3 THEN DigitsVal(s, fs, ft, 0) ELSE 0
       IN IF iv >= Limit \div Scale THEN Unm
          ELSE IF nf > 3 THEN Unm
          ELSE IF neg /\ iv = 0 /\ nf = 0 THEN Unm    \* "-0": XPath 1.0 does not say which zero; not judged
          ELSE IF nf = 0 THEN Fin(neg, iv * Scale)
          ELSE IF (fv * Scale) % Pow10(nf) # 0 THEN Unm
          ELSE Fin(neg, iv * Scale + (fv * Scale) \div Pow10(nf))
=============================================================================
