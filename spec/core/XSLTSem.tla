------------------------------ MODULE XSLTSem ------------------------------
(* XSLT 1.0 instruction semantics as an executable big-step definition.                          *)
(*   Transform(ss, F) = the result tree (a normalised sequence of result items) of applying       *)
(*   stylesheet ss to document 1 of forest F.                                                      *)
(* Stylesheet:  [templates, gvars, keys, strip, mods, docs, attrsets]                              *)
(*   docs: <<[uri, idx]>> - the documents document() can load: F[idx] is the document named uri    *)
(*   template: [rid, hasMatch, match, name, mode, hasPrio, prio, params, body, mod]                *)
(*   mods: the import tree as a sequence of [id, imports (ids, in xsl:import order)]; mods[1] is   *)
(*   the principal module (2.6.2).  Template rules, named templates and xsl:apply-imports (5.6)    *)
(*   honour import precedence; global variables, keys and space declarations are the principal     *)
(*   module's.                                                                                      *)
(*   param / variable / with-param binding: [name, hasSel, sel, body]                              *)
(* Instructions are records tagged by field i (see Inst).  Result items:                           *)
(*   [k |-> "elem", name, attrs (function name -> value as a set of <<name, value>>), kids]        *)
(*   [k |-> "text", v]  [k |-> "comment", v]  [k |-> "pi", name, v]  [k |-> "attr", name, v]       *)
(*   [k |-> "bad", why]  marks a value outside the model / a dynamic error; it makes the whole     *)
(*   transformation unjudged.                                                                       *)
(* Names are strings (sequences of code points); this version has no namespaces in result names    *)
(* (C14 covers them).  It rests on XPathSem (expressions, patterns), TemplateRules (5.5), Sort.    *)
EXTENDS TemplateRules, Sort, Numbering, Strip

TextItem(s) == IF s = <<>> THEN <<>> ELSE <<[k |-> "text", v |-> s]>>
OnlyText(items) == \A j \in 1..Len(items) : items[j].k = "text"
BadItem(why) == <<[k |-> "bad", why |-> why]>>
IsAttr(it) == it.k = "attr"

(* ---- result tree construction ---------------------------------------------------------------- *)
(* attributes must precede children; a later attribute of the same name replaces the earlier one  *)
RECURSIVE AttrPrefixLen(_, _)
AttrPrefixLen(items, i) == IF i <= Len(items) /\ items[i].k \in {"attr", "bad"} THEN AttrPrefixLen(items, i + 1) ELSE i - 1
MkElem(name, items) ==
  LET na == AttrPrefixLen(items, 1)
      as == SelectSeq(SubSeq(items, 1, na), IsAttr)
      bads == SelectSeq(SubSeq(items, 1, na), LAMBDA x : x.k = "bad")
      rest == SubSeq(items, na + 1, Len(items))
      names == {as[j].name : j \in 1..Len(as)}
      lastOf(nm) == as[Max({j \in 1..Len(as) : as[j].name = nm})].v
  IN IF \E j \in 1..Len(rest) : rest[j].k = "attr"
     THEN BadItem("err")                                  \* attribute added after a child: an error in XSLT 7.1.3
     ELSE <<[k |-> "elem", name |-> name, attrs |-> {<<nm, lastOf(nm)>> : nm \in names}, kids |-> bads \o rest]>>

(* merge adjacent text, drop empty text, recursively: the canonical tree *)
RECURSIVE Normalize(_)
Normalize(items) ==
  IF Len(items) = 0 THEN <<>>
  ELSE LET h == items[1]
           t == Normalize(Tail(items)) IN
       IF h.k = "text"
       THEN IF h.v = <<>> THEN t
            ELSE IF Len(t) > 0 /\ t[1].k = "text" THEN <<[k |-> "text", v |-> h.v \o t[1].v]>> \o Tail(t)
            ELSE <<h>> \o t
       ELSE IF h.k = "elem" THEN <<[h EXCEPT !.kids = Normalize(h.kids)]>> \o t
       ELSE <<h>> \o t

RECURSIVE HasBad(_)
HasBad(items) == \E j \in 1..Len(items) : items[j].k = "bad" \/ (items[j].k = "elem" /\ HasBad(items[j].kids))
RECURSIVE BadWhy(_)
BadWhy(items) == IF \E j \in 1..Len(items) : (items[j].k = "bad" /\ items[j].why = "err") \/ (items[j].k = "elem" /\ BadWhy(items[j].kids) = "err")
                 THEN "err" ELSE "unm"

(* deep copy of a source node (xsl:copy-of, built-in handling of copied subtrees) *)
RECURSIVE DeepCopy(_, _)
DeepCopy(F, n) ==
  LET kind == KindOf(F, n)
      kidsOf(x) == FlattenSeq([j \in 1..Len(DocOrderSeq(Axis(F, "child", x))) |-> DeepCopy(F, DocOrderSeq(Axis(F, "child", x))[j])])
  IN CASE kind = "root" -> kidsOf(n)
       [] kind = "elem" -> <<[k |-> "elem", name |-> QNameOf(F, n),
                              attrs |-> {<<QNameOf(F, a), StringValue(F, a)>> : a \in Axis(F, "attribute", n)},
                              kids |-> kidsOf(n)]>>
       [] kind = "text" -> TextItem(StringValue(F, n))
       [] kind = "attr" -> <<[k |-> "attr", name |-> QNameOf(F, n), v |-> StringValue(F, n)]>>
       [] kind = "comment" -> <<[k |-> "comment", v |-> StringValue(F, n)]>>
       [] kind = "pi" -> <<[k |-> "pi", name |-> LocalOf(F, n), v |-> StringValue(F, n)]>>
       [] OTHER -> <<>>

NoRule == -1          \* the current template rule is null (inside xsl:for-each, in global variables)

(* ---- the interpreter --------------------------------------------------------------------------- *)
(* context c = XPath context + [ss, entries, gv (global variables)]                                *)
Bind(vars, name, val) == [x \in (DOMAIN vars) \cup {name} |-> IF x = name THEN val ELSE vars[x]]

RECURSIVE InstSeq(_, _, _), Inst(_, _), BindingValue(_, _), ApplyTo(_, _, _, _), RunTemplate(_, _, _, _, _, _), Instantiate(_, _, _, _, _, _),
          SetItems(_, _), SetsItems(_, _, _), SetDefsItems(_, _, _), SetAttrs(_, _, _),
          BindParams(_, _, _, _), WithParams(_, _, _, _), ForEachNode(_, _, _, _), Avt(_, _, _)

(* value of an xsl:variable / xsl:param / xsl:with-param binding in context c *)
BindingValue(b, c) ==
  IF b.hasSel THEN Eval(b.sel, c)
  ELSE IF Len(b.body) = 0 THEN SV(<<>>)
  ELSE LET items == Normalize(InstSeq(b.body, 1, c)) IN
       IF HasBad(items) THEN [t |-> BadWhy(items), v |-> 0] ELSE [t |-> "rtf", v |-> items]

(* attribute value template: parts are [lit |-> TRUE, s] or [lit |-> FALSE, e]; result [bad, s] *)
Avt(parts, j, c) ==
  IF j > Len(parts) THEN [bad |-> "", s |-> <<>>]
  ELSE LET rest == Avt(parts, j + 1, c) IN
       IF parts[j].lit THEN [rest EXCEPT !.s = parts[j].s \o rest.s]
       ELSE LET v == Eval(parts[j].e, c) IN
            IF Bad(v) THEN [bad |-> v.t, s |-> <<>>]
            ELSE [rest EXCEPT !.s = ToStr(c.f, v) \o rest.s]

(* ---- attribute sets (7.1.4) -------------------------------------------------------------------- *)
(* ss.attrsets: <<[name, uses (names), attrs (<<[name (AVT parts), body]>>), mod]>>.  Using a set adds, in this order, the       *)
(* attributes of the sets IT uses and then its own; several definitions of one name are merged, a definition of higher import    *)
(* precedence overriding one of lower precedence (they are instantiated lowest precedence first: a later attribute of the same   *)
(* name replaces an earlier one, MkElem).  The xsl:attribute templates see the current node of the element that uses the set      *)
(* and the top-level variables only.                                                                                              *)
UsesOf(x) == IF "uses" \in DOMAIN x THEN x.uses ELSE <<>>
SetDefs(name, c) ==
  LET as == c.ss.attrsets
      idx == SelectSeq([j \in 1..Len(as) |-> j], LAMBDA j : as[j].name = name) IN
  SortSeq(idx, LAMBDA a, b : c.modprec[as[a].mod] < c.modprec[as[b].mod] \/ (c.modprec[as[a].mod] = c.modprec[as[b].mod] /\ a < b))
SetAttrs(attrs, j, c) ==
  IF j > Len(attrs) THEN <<>>
  ELSE Inst([i |-> "attribute", name |-> attrs[j].name, body |-> attrs[j].body], c) \o SetAttrs(attrs, j + 1, c)
SetDefsItems(defs, j, c) ==
  IF j > Len(defs) THEN <<>>
  ELSE LET df == c.ss.attrsets[defs[j]] IN
       SetsItems(df.uses, 1, c) \o SetAttrs(df.attrs, 1, c) \o SetDefsItems(defs, j + 1, c)
SetItems(name, c) ==
  LET defs == SetDefs(name, c) IN
  IF Len(defs) = 0 THEN BadItem("err") ELSE SetDefsItems(defs, 1, [c EXCEPT !.vars = c.gv])
SetsItems(names, j, c) == IF j > Len(names) THEN <<>> ELSE SetItems(names[j], c) \o SetsItems(names, j + 1, c)

WithParams(ps, j, c, acc) ==
  IF j > Len(ps) THEN acc ELSE WithParams(ps, j + 1, c, Bind(acc, ps[j].name, BindingValue(ps[j], c)))

(* declared parameters of a template: passed value or default, evaluated left to right *)
BindParams(ps, j, passed, c) ==
  IF j > Len(ps) THEN c
  ELSE LET val == IF ps[j].name \in DOMAIN passed THEN passed[ps[j].name] ELSE BindingValue(ps[j], c) IN
       BindParams(ps, j + 1, passed, [c EXCEPT !.vars = Bind(c.vars, ps[j].name, val)])

TemplateByRid(ss, rid) == ss.templates[CHOOSE j \in 1..Len(ss.templates) : ss.templates[j].rid = rid]

(* instantiate template t for node n at position pos of size, with passed parameters *)
RunTemplate(t, n, pos, size, passed, c) ==
  LET c1 == [c EXCEPT !.n = n, !.pos = pos, !.size = size, !.cur = n, !.vars = c.gv, !.rule = t.rid]
      c2 == BindParams(t.params, 1, passed, c1)
  IN InstSeq(t.body, 1, c2)

(* apply templates (mode) to the node at position k of the already ordered sequence nodes *)
(* instantiate rule rid (or the built-in rule, 5.8) for node n at position k of size *)
Instantiate(rid, n, k, size, mp, c) ==
  LET kind == KindOf(c.f, n)
      cmode == [c EXCEPT !.mode = mp.mode] IN
  IF rid # Builtin THEN RunTemplate(TemplateByRid(c.ss, rid), n, k, size, mp.passed, cmode)
  ELSE IF kind \in {"root", "elem"}
       THEN ApplyTo(DocOrderSeq(Axis(c.f, "child", n)), 1,
                    [mode |-> mp.mode, passed |-> <<>>], cmode)
  ELSE IF kind \in {"text", "attr"} THEN TextItem(StringValue(c.f, n))
  ELSE <<>>

ApplyTo(nodes, k, mp, c) ==      \* mp = [mode, passed]
  IF k > Len(nodes) THEN <<>>
  ELSE LET n == nodes[k]
           cm == [c EXCEPT !.n = n, !.pos = k, !.size = Len(nodes), !.cur = n]
           rid == Winner(c.entries, n, mp.mode, cm)
       IN Instantiate(rid, n, k, Len(nodes), mp, c) \o ApplyTo(nodes, k + 1, mp, c)

ForEachNode(nodes, k, body, c) ==
  IF k > Len(nodes) THEN <<>>
  ELSE InstSeq(body, 1, [c EXCEPT !.n = nodes[k], !.pos = k, !.size = Len(nodes), !.cur = nodes[k], !.rule = NoRule]) \o ForEachNode(nodes, k + 1, body, c)

(* the nodes selected by select, in processing order: [bad, seq] *)
Selected(sel, sorts, c) ==
  LET v == Eval(sel, c) IN
  IF Bad(v) THEN [bad |-> v.t, seq |-> <<>>]
  ELSE IF v.t # "ns" THEN [bad |-> "err", seq |-> <<>>]
  ELSE LET inDoc == DocOrderSeq(v.v) IN
       IF Len(sorts) = 0 THEN [bad |-> "", seq |-> inDoc]
       ELSE LET r == Sorted(c.f, inDoc, sorts, c) IN
            IF r.bad THEN [bad |-> "unm", seq |-> <<>>] ELSE [bad |-> "", seq |-> r.seq]

ChildSel == [op |-> "path", abs |-> FALSE, start |-> [op |-> "none"], steps |-> <<[axis |-> "child", test |-> [t |-> "node"], preds |-> <<>>]>>]

InstSeq(body, j, c) ==
  IF j > Len(body) THEN <<>>
  ELSE IF body[j].i = "variable"
       THEN InstSeq(body, j + 1, [c EXCEPT !.vars = Bind(c.vars, body[j].name, BindingValue(body[j], c))])
       ELSE Inst(body[j], c) \o InstSeq(body, j + 1, c)

Inst(x, c) ==
  CASE x.i = "text" -> TextItem(x.v)
    [] x.i = "value-of" -> LET v == Eval(x.sel, c) IN IF Bad(v) THEN BadItem(v.t) ELSE TextItem(ToStr(c.f, v))
    [] x.i = "lre" ->
         LET as == [j \in 1..Len(x.attrs) |-> Avt(x.attrs[j].avt, 1, c)]
             lit == [j \in 1..Len(x.attrs) |-> [k |-> "attr", name |-> x.attrs[j].name, v |-> as[j].s]] IN
         IF \E j \in 1..Len(as) : as[j].bad # "" THEN BadItem(IF \E j \in 1..Len(as) : as[j].bad = "err" THEN "err" ELSE "unm")
         ELSE MkElem(x.name, SetsItems(UsesOf(x), 1, c) \o lit \o InstSeq(x.body, 1, c))
    [] x.i = "element" ->
         LET nm == Avt(x.name, 1, c) IN
         IF nm.bad # "" THEN BadItem(nm.bad) ELSE MkElem(nm.s, SetsItems(UsesOf(x), 1, c) \o InstSeq(x.body, 1, c))
    [] x.i = "attribute" ->
         LET nm == Avt(x.name, 1, c)
             items == InstSeq(x.body, 1, c) IN
         IF nm.bad # "" THEN BadItem(nm.bad)
         ELSE IF HasBad(items) THEN BadItem(BadWhy(items))
         ELSE IF ~OnlyText(items) THEN BadItem("err")      \* 7.1.3: creating nodes other than text nodes is an error
         ELSE <<[k |-> "attr", name |-> nm.s, v |-> ItemsText(items, 1)]>>
    [] x.i = "comment" -> LET items == InstSeq(x.body, 1, c) IN
                          IF HasBad(items) THEN BadItem(BadWhy(items)) ELSE IF ~OnlyText(items) THEN BadItem("err")
                          ELSE <<[k |-> "comment", v |-> ItemsText(items, 1)]>>
    [] x.i = "pi" -> LET items == InstSeq(x.body, 1, c) IN
                     IF HasBad(items) THEN BadItem(BadWhy(items)) ELSE IF ~OnlyText(items) THEN BadItem("err")
                     ELSE <<[k |-> "pi", name |-> x.name, v |-> ItemsText(items, 1)]>>
    [] x.i = "if" -> LET v == Eval(x.test, c) IN
                     IF Bad(v) THEN BadItem(v.t) ELSE IF ToBool(v) THEN InstSeq(x.body, 1, c) ELSE <<>>
    [] x.i = "extfb" -> InstSeq(x.body, 1, c)       \* an extension element that is not available: "perform fallback for the element" (15) - its xsl:fallback children, a scope of their own
    [] x.i = "choose" ->
         LET RECURSIVE Pick(_)
             Pick(j) == IF j > Len(x.whens) THEN InstSeq(x.otherwise, 1, c)
                        ELSE LET v == Eval(x.whens[j].test, c) IN
                             IF Bad(v) THEN BadItem(v.t)
                             ELSE IF ToBool(v) THEN InstSeq(x.whens[j].body, 1, c) ELSE Pick(j + 1)
         IN Pick(1)
    [] x.i = "for-each" -> LET s == Selected(x.sel, x.sorts, c) IN
                           IF s.bad # "" THEN BadItem(s.bad) ELSE ForEachNode(s.seq, 1, x.body, c)
    [] x.i = "apply-templates" ->
         LET s == Selected(IF x.hasSel THEN x.sel ELSE ChildSel, x.sorts, c)
             passed == WithParams(x.params, 1, c, <<>>) IN
         IF s.bad # "" THEN BadItem(s.bad) ELSE ApplyTo(s.seq, 1, [mode |-> x.mode, passed |-> passed], c)
    [] x.i = "call-template" ->
         LET cands == {j \in 1..Len(c.ss.templates) : c.ss.templates[j].name = x.name}
             passed == WithParams(x.params, 1, c, <<>>) IN
         IF cands = {} THEN BadItem("err")
         ELSE LET top == Max({c.modprec[c.ss.templates[j].mod] : j \in cands})
                  t == c.ss.templates[Max({j \in cands : c.modprec[c.ss.templates[j].mod] = top})]
                  c2 == BindParams(t.params, 1, passed, [c EXCEPT !.vars = c.gv]) IN
              InstSeq(t.body, 1, c2)
    [] x.i = "apply-imports" ->      \* 5.6: the current node, in the current mode, among the rules imported into the current rule's module
         IF c.rule = NoRule THEN BadItem("err")              \* "it is an error if xsl:apply-imports is instantiated when the current template rule is null"
         ELSE LET rid == ImportsWinner(c.entries, c.cur, c.mode, c.rule, [c EXCEPT !.n = c.cur]) IN
              Instantiate(rid, c.cur, c.pos, c.size, [mode |-> c.mode, passed |-> <<>>], c)
    [] x.i = "copy" ->
         LET kind == KindOf(c.f, c.n) IN
         CASE kind = "elem" -> MkElem(QNameOf(c.f, c.n), SetsItems(UsesOf(x), 1, c) \o InstSeq(x.body, 1, c))      \* 7.5: use-attribute-sets only when copying an element
           [] kind = "root" -> InstSeq(x.body, 1, c)
           [] kind = "text" -> TextItem(StringValue(c.f, c.n))
           [] kind = "attr" -> <<[k |-> "attr", name |-> QNameOf(c.f, c.n), v |-> StringValue(c.f, c.n)]>>
           [] kind = "comment" -> <<[k |-> "comment", v |-> StringValue(c.f, c.n)]>>
           [] kind = "pi" -> <<[k |-> "pi", name |-> LocalOf(c.f, c.n), v |-> StringValue(c.f, c.n)]>>
           [] OTHER -> <<>>
    [] x.i = "copy-of" ->
         LET v == Eval(x.sel, c) IN
         IF Bad(v) THEN BadItem(v.t)
         ELSE IF v.t = "ns" THEN LET s == DocOrderSeq(v.v) IN FlattenSeq([j \in 1..Len(s) |-> DeepCopy(c.f, s[j])])
         ELSE IF v.t = "rtf" THEN v.v
         ELSE TextItem(ToStr(c.f, v))
    [] x.i = "number" ->          \* xsl:number counting the current node (7.7); value= is not used by the generators
         IF Ambiguous(x.instr, c.n, c) THEN BadItem("unm")        \* `from` matches nothing: not defined by XSLT 1.0
         ELSE LET lst == NumberList(x.instr, c.n, c) IN
              IF c.dev.zeroAnyEmpty /\ x.instr.level = "any" /\ lst = <<0>> THEN <<>>     \* named deviation, see Strict
              ELSE TextItem(FormatList(lst, x.fmt))
    [] x.i = "message" -> <<>>
    [] OTHER -> BadItem("err")

(* the import tree of ss as TemplateRules wants it: [id, imports (trees), rules (of that module, in document order)] *)
RECURSIVE ModuleTree(_, _)
ModuleTree(ss, id) ==
  LET m == ss.mods[CHOOSE j \in 1..Len(ss.mods) : ss.mods[j].id = id] IN
  [id |-> id, imports |-> [j \in 1..Len(m.imports) |-> ModuleTree(ss, m.imports[j])],
   rules |-> SelectSeq([j \in 1..Len(ss.templates) |->
                          [rid |-> ss.templates[j].rid, pat |-> ss.templates[j].match, mode |-> ss.templates[j].mode,
                           hasPrio |-> ss.templates[j].hasPrio, prio |-> ss.templates[j].prio, hasMatch |-> ss.templates[j].hasMatch,
                           mod |-> ss.templates[j].mod]],
                       LAMBDA r : r.hasMatch /\ r.mod = id)]

(* global variables, in declaration order, evaluated with the root as context *)
RECURSIVE Globals(_, _, _)
Globals(gs, j, c) == IF j > Len(gs) THEN c.vars
                     ELSE Globals(gs, j + 1, [c EXCEPT !.vars = Bind(c.vars, gs[j].name, BindingValue(gs[j], c))])

(* 11.4 / 2.6.2: of several top-level bindings of one name the one with the highest import precedence is THE binding.  *)
(* Evaluation order of the winners: those of imported modules first (the generators keep them free of variable          *)
(* references), then the principal module's in document order.                                                            *)
EffectiveGlobals(ss, modprec) ==
  LET gs == ss.gvars
      wins(j) == \A k \in 1..Len(gs) : (k # j /\ gs[k].name = gs[j].name) => modprec[gs[k].mod] < modprec[gs[j].mod]
      winners == SelectSeq([j \in 1..Len(gs) |-> j], wins) IN
  [j \in 1..Len(SelectSeq(winners, LAMBDA x : gs[x].mod # 1)) |-> gs[SelectSeq(winners, LAMBDA x : gs[x].mod # 1)[j]]]
  \o [j \in 1..Len(SelectSeq(winners, LAMBDA x : gs[x].mod = 1)) |-> gs[SelectSeq(winners, LAMBDA x : gs[x].mod = 1)[j]]]

(* dev names deviations from XSLT 1.0 that a trace spec may want to RECOGNISE (never accept):              *)
(*   zeroAnyEmpty - xsl:number level="any" produces nothing instead of "0" when no node is counted (7.7)    *)
(* Strict is XSLT 1.0.                                                                                        *)
Strict == [zeroAnyEmpty |-> FALSE]
TransformWith(ss, F0, dev) ==
  LET \* 3.4: the whitespace-only text nodes selected by the strip-space declarations are not in the source tree
      \* (document() documents included, 3.4 / 12.1)
      F == [k \in 1..Len(F0) |-> RemoveNodes(F0[k], StrippedIds(F0[k], ss.strip))]
      root == <<1, 1, 0>>
      tree == ModuleTree(ss, 1)
      c0 == [f |-> F, n |-> root, pos |-> 1, size |-> 1, vars |-> <<>>, cur |-> root, keys |-> ss.keys,
             ss |-> ss, entries |-> Entries(tree), modprec |-> ModPrecs(tree), gv |-> <<>>, dev |-> dev, mode |-> <<>>, rule |-> NoRule,
             docs |-> ss.docs]
      gv == Globals(EffectiveGlobals(ss, c0.modprec), 1, c0)
      c1 == [c0 EXCEPT !.gv = gv, !.vars = gv]
      items == Normalize(ApplyTo(<<root>>, 1, [mode |-> "", passed |-> <<>>], c1))
  IN IF HasBad(items) THEN [bad |-> BadWhy(items), items |-> <<>>] ELSE [bad |-> "", items |-> items]

Transform(ss, F) == TransformWith(ss, F, Strict)
=============================================================================
