-------------------------------- MODULE Sort --------------------------------
(* XSLT 1.0 section 10 (sorting).  nodes: the selected nodes as a sequence in document order     *)
(* (the "unsorted" current node list).  keys: sequence of                                        *)
(*   [sel (expression AST), dtype ("text" | "number"), desc (BOOLEAN)].                           *)
(* Sorted(...) is THE processing order: a permutation of nodes, ordered lexicographically by the  *)
(* keys (first key most significant), NaN before every number for numeric keys, and stable        *)
(* (document order among nodes equal on all keys - also for descending keys).                     *)
(* Text keys are compared code point by code point; the generators restrict text keys to          *)
(* [a-z0-9]* where this coincides with any reasonable collation.                                   *)
EXTENDS XPathSem

KeyValue(F, nodes, i, k, c) ==
  LET v == Eval(k.sel, [c EXCEPT !.n = nodes[i], !.pos = i, !.size = Len(nodes), !.cur = nodes[i]]) IN
  IF Bad(v) THEN [bad |-> TRUE, n |-> NaN, s |-> <<>>]
  \* "the resulting object is converted to a string as if by a call to the string function; this string is used as the sort key";
  \* data-type="number": "the sort keys should be converted to numbers" - a boolean key is NaN (number('true')), so is an infinite one
  ELSE IF k.dtype = "number" THEN LET x == StrToNum(ToStr(F, v)) IN [bad |-> IsUnm(x) \/ (v.t = "num" /\ IsUnm(v.v)), n |-> x, s |-> <<>>]
  ELSE [bad |-> FALSE, n |-> NaN, s |-> ToStr(F, v)]

RECURSIVE StrLess(_, _, _)
StrLess(a, b, i) == IF i > Len(b) THEN FALSE                       \* b is a prefix of a (or equal)
                    ELSE IF i > Len(a) THEN TRUE                     \* a is a proper prefix of b
                    ELSE IF a[i] # b[i] THEN a[i] < b[i]
                    ELSE StrLess(a, b, i + 1)

(* -1 / 0 / 1 : ascending comparison of two key values *)
Cmp(k, x, y) ==
  IF k.dtype = "number"
  THEN IF IsNaN(x.n) /\ IsNaN(y.n) THEN 0
       ELSE IF IsNaN(x.n) THEN -1
       ELSE IF IsNaN(y.n) THEN 1
       ELSE IF NumLt(x.n, y.n) THEN -1 ELSE IF NumLt(y.n, x.n) THEN 1 ELSE 0
  ELSE IF x.s = y.s THEN 0 ELSE IF StrLess(x.s, y.s, 1) THEN -1 ELSE 1

RECURSIVE LexLess(_, _, _, _, _)
(* is node i strictly before node j by keys j0..  (kv[k][i] = value of key k for node i) *)
LexLess(keys, kv, i, j, k0) ==
  IF k0 > Len(keys) THEN i < j                                      \* stable: document order
  ELSE LET c0 == Cmp(keys[k0], kv[k0][i], kv[k0][j])
           c1 == IF keys[k0].desc THEN 0 - c0 ELSE c0 IN
       IF c1 < 0 THEN TRUE ELSE IF c1 > 0 THEN FALSE ELSE LexLess(keys, kv, i, j, k0 + 1)

(* [bad |-> some key value is outside the model, seq |-> processing order] *)
Sorted(F, nodes, keys, c) ==
  LET kv == [k \in 1..Len(keys) |-> [i \in 1..Len(nodes) |-> KeyValue(F, nodes, i, keys[k], c)]]
      bad == \E k \in 1..Len(keys), i \in 1..Len(nodes) : kv[k][i].bad
      order == SetToSortSeq(1..Len(nodes), LAMBDA i, j : LexLess(keys, kv, i, j, 1))
  IN [bad |-> bad, seq |-> IF bad THEN <<>> ELSE [m \in 1..Len(nodes) |-> nodes[order[m]]]]
=============================================================================
