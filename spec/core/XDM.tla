-------------------------------- MODULE XDM --------------------------------
(* The XPath 1.0 / XSLT 1.0 data model.                                                          *)
(* A document is a record of equal-length sequences indexed by node id 1..n IN DOCUMENT ORDER    *)
(* (root, an element, its attributes, its children ...):                                         *)
(*   kind[i] in {"root","elem","attr","text","comment","pi"}, parent[i] (0 for the root),        *)
(*   local[i], uri[i], prefix[i], value[i] : strings (= sequences of code points),               *)
(*   ins[i]  : for elements the in-scope namespaces as a sequence of <<prefix, uri>> sorted by   *)
(*             prefix (these are the element's namespace nodes), isid[i] : attribute of type ID. *)
(* A forest F is a sequence of documents.  A node is <<d, i, k>>: document, id, and k = 0 for a  *)
(* tree node or k >= 1 for the k-th namespace node of element i.  Document order is the          *)
(* lexicographic order of these triples (namespace nodes follow their element and precede its    *)
(* attributes because attribute ids are larger than the element's id and k = 0 < k' ...).        *)
EXTENDS Naturals, Integers, Sequences, FiniteSets, SequencesExt, FiniteSetsExt

ChildKinds == {"elem", "text", "comment", "pi"}

ND(n) == n[1]
NI(n) == n[2]
NK(n) == n[3]
Node(d, i) == <<d, i, 0>>
IsNs(n) == NK(n) > 0

DocOf(F, n) == F[ND(n)]
KindOf(F, n) == IF IsNs(n) THEN "ns" ELSE DocOf(F, n).kind[NI(n)]

(* document order; namespace nodes of an element come before its attributes: compare (i,k) but  *)
(* an attribute j of element i has j > i, so <<i,k>> < <<j,0>> holds lexicographically           *)
Before(a, b) == \/ ND(a) < ND(b)
                \/ ND(a) = ND(b) /\ NI(a) < NI(b)
                \/ ND(a) = ND(b) /\ NI(a) = NI(b) /\ NK(a) < NK(b)
DocOrderSeq(S) == SetToSortSeq(S, Before)

ParentId(D, i) == D.parent[i]
RECURSIVE AncIds(_, _)
AncIds(D, i) == IF D.parent[i] = 0 THEN {} ELSE {D.parent[i]} \cup AncIds(D, D.parent[i])

ChildIds(D, i)  == {j \in 1..D.n : D.parent[j] = i /\ D.kind[j] \in ChildKinds}
AttrIds(D, i)   == {j \in 1..D.n : D.parent[j] = i /\ D.kind[j] = "attr"}
DescIds(D, i)   == {j \in (i + 1)..D.n : D.kind[j] \in ChildKinds /\ i \in AncIds(D, j)}

(* ---- the thirteen axes, as sets of nodes ---------------------------------------------------- *)
Axis(F, axis, n) ==
  LET d == ND(n)  i == NI(n)  D == F[d]
      tree(S) == {Node(d, j) : j \in S}
      ownerAnc == IF IsNs(n) THEN {i} \cup AncIds(D, i) ELSE AncIds(D, i)     \* ancestors of n
  IN
  CASE axis = "self"       -> {n}
    [] axis = "child"      -> IF IsNs(n) THEN {} ELSE tree(ChildIds(D, i))
    [] axis = "attribute"  -> IF IsNs(n) \/ D.kind[i] # "elem" THEN {} ELSE tree(AttrIds(D, i))
    [] axis = "namespace"  -> IF IsNs(n) \/ D.kind[i] # "elem" THEN {}
                              ELSE {<<d, i, k>> : k \in 1..Len(D.ins[i])}
    [] axis = "parent"     -> IF IsNs(n) THEN {Node(d, i)}
                              ELSE IF D.parent[i] = 0 THEN {} ELSE {Node(d, D.parent[i])}
    [] axis = "ancestor"   -> tree(ownerAnc)
    [] axis = "ancestor-or-self" -> tree(ownerAnc) \cup {n}
    [] axis = "descendant" -> IF IsNs(n) THEN {} ELSE tree(DescIds(D, i))
    [] axis = "descendant-or-self" -> IF IsNs(n) THEN {n} ELSE tree(DescIds(D, i)) \cup {n}
    [] axis = "following-sibling" ->
         IF IsNs(n) \/ D.kind[i] \in {"attr", "root"} THEN {}
         ELSE tree({j \in ChildIds(D, D.parent[i]) : j > i})
    [] axis = "preceding-sibling" ->
         IF IsNs(n) \/ D.kind[i] \in {"attr", "root"} THEN {}
         ELSE tree({j \in ChildIds(D, D.parent[i]) : j < i})
    [] axis = "following" ->
         IF IsNs(n) THEN tree({j \in (i + 1)..D.n : D.kind[j] \in ChildKinds})
         ELSE tree({j \in (i + 1)..D.n : D.kind[j] \in ChildKinds /\ i \notin AncIds(D, j)})
    [] axis = "preceding" ->
         tree({j \in 1..(i - 1) : D.kind[j] \in ChildKinds /\ j \notin ownerAnc})

ForwardAxes == {"self", "child", "attribute", "namespace", "descendant", "descendant-or-self",
                "following-sibling", "following"}
ReverseAxes == {"parent", "ancestor", "ancestor-or-self", "preceding-sibling", "preceding"}
AllAxes == ForwardAxes \cup ReverseAxes
IsReverse(axis) == axis \in ReverseAxes

PrincipalKind(axis) == CASE axis = "attribute" -> "attr" [] axis = "namespace" -> "ns" [] OTHER -> "elem"

(* ---- names and string-values ---------------------------------------------------------------- *)
LocalOf(F, n) == IF IsNs(n) THEN DocOf(F, n).ins[NI(n)][NK(n)][1]          \* a namespace node is named by its prefix
                 ELSE IF KindOf(F, n) \in {"elem", "attr", "pi"} THEN DocOf(F, n).local[NI(n)] ELSE <<>>
UriOf(F, n)   == IF IsNs(n) THEN <<>>
                 ELSE IF KindOf(F, n) \in {"elem", "attr"} THEN DocOf(F, n).uri[NI(n)] ELSE <<>>
PrefixOf(F, n) == IF IsNs(n) THEN <<>>
                  ELSE IF KindOf(F, n) \in {"elem", "attr"} THEN DocOf(F, n).prefix[NI(n)] ELSE <<>>
QNameOf(F, n) == IF PrefixOf(F, n) = <<>> THEN LocalOf(F, n) ELSE PrefixOf(F, n) \o <<58>> \o LocalOf(F, n)

RECURSIVE TextBelow(_, _, _)
TextBelow(D, i, j) ==          \* concatenated text descendants of i with id >= j, in document order
  IF j > D.n THEN <<>>
  ELSE IF i \notin AncIds(D, j) THEN <<>>                           \* left the subtree of i
  ELSE IF D.kind[j] = "text" THEN D.value[j] \o TextBelow(D, i, j + 1)
  ELSE TextBelow(D, i, j + 1)

StringValue(F, n) ==
  LET D == DocOf(F, n)  i == NI(n) IN
  IF IsNs(n) THEN D.ins[i][NK(n)][2]
  ELSE IF D.kind[i] \in {"root", "elem"} THEN TextBelow(D, i, i + 1)
  ELSE D.value[i]

(* in-scope namespace binding of a prefix at an element (for QName resolution: xsl, key names) *)
NsLookup(D, i, p) == LET S == {k \in 1..Len(D.ins[i]) : D.ins[i][k][1] = p} IN
                     IF S = {} THEN <<>> ELSE D.ins[i][CHOOSE k \in S : TRUE][2]

IsWsChar(c) == c \in {32, 9, 10, 13}
IsWsOnly(s) == \A k \in 1..Len(s) : IsWsChar(s[k])

(* xml:lang in effect at a node: nearest ancestor-or-self element carrying xml:lang *)
XmlNs == <<104,116,116,112,58,47,47,119,119,119,46,119,51,46,111,114,103,47,88,77,76,47,49,57,57,56,47,110,97,109,101,115,112,97,99,101>>
RECURSIVE LangAt(_, _)
LangAt(D, i) ==
  IF i = 0 THEN [found |-> FALSE, v |-> <<>>]
  ELSE LET S == {a \in AttrIds(D, i) : D.local[a] = <<108, 97, 110, 103>> /\ D.uri[a] = XmlNs} IN
       IF D.kind[i] = "elem" /\ S # {} THEN [found |-> TRUE, v |-> D.value[CHOOSE a \in S : TRUE]]
       ELSE LangAt(D, D.parent[i])

(* elements with an ID-typed attribute equal to the token *)
ElemsWithId(D, tok) == {D.parent[a] : a \in {x \in 1..D.n : D.kind[x] = "attr" /\ D.isid[x] /\ D.value[x] = tok}}
=============================================================================
