-------------------------------- MODULE Strip --------------------------------
(* XSLT 1.0 section 3.4 (whitespace stripping of the source tree).                               *)
(* decls: sequence of [strip (BOOLEAN), test ([t |-> "any"] | [t |-> "nsany", uri] |             *)
(*                     [t |-> "name", uri, local]), prec (import precedence)].                     *)
(* A whitespace-only text node is stripped iff the applicable declaration for its parent element *)
(* is xsl:strip-space: among the declarations whose name test matches the element, the one with  *)
(* the highest import precedence, then the highest default priority of its name test (QName 0,    *)
(* NCName:* -0.25, * -0.5), then the last one.  No declaration = preserve.                        *)
(* (xml:space in source documents is kept out of this property's generators.)                      *)
EXTENDS XPathSem

TestMatches(D, i, t) == CASE t.t = "any" -> TRUE
                          [] t.t = "nsany" -> D.uri[i] = t.uri
                          [] t.t = "name" -> D.uri[i] = t.uri /\ D.local[i] = t.local
TestPrio(t) == CASE t.t = "name" -> 2 [] t.t = "nsany" -> 1 [] t.t = "any" -> 0

StripsElement(D, i, decls) ==
  LET app == {k \in 1..Len(decls) : TestMatches(D, i, decls[k].test)}
      better(a, b) == \/ decls[a].prec > decls[b].prec
                      \/ decls[a].prec = decls[b].prec /\ TestPrio(decls[a].test) > TestPrio(decls[b].test)
                      \/ decls[a].prec = decls[b].prec /\ TestPrio(decls[a].test) = TestPrio(decls[b].test) /\ a >= b
  IN IF app = {} THEN FALSE
     ELSE decls[CHOOSE a \in app : \A b \in app : better(a, b)].strip

StrippedIds(D, decls) ==
  {j \in 1..D.n : /\ D.kind[j] = "text" /\ IsWsOnly(D.value[j])
                  /\ D.kind[D.parent[j]] = "elem" /\ StripsElement(D, D.parent[j], decls)}

(* the document from which the nodes S have been physically removed (ids renumbered in order);   *)
(* keep[k] is the old id of new node k                                                            *)
Keep(D, S) == SetToSortSeq((1..D.n) \ S, LAMBDA a, b : a < b)
NewId(keep, old) == CHOOSE k \in 1..Len(keep) : keep[k] = old
RemoveNodes(D, S) ==
  LET keep == Keep(D, S)  m == Len(keep) IN
  [n |-> m,
   kind   |-> [k \in 1..m |-> D.kind[keep[k]]],
   parent |-> [k \in 1..m |-> IF D.parent[keep[k]] = 0 THEN 0 ELSE NewId(keep, D.parent[keep[k]])],
   local  |-> [k \in 1..m |-> D.local[keep[k]]],
   uri    |-> [k \in 1..m |-> D.uri[keep[k]]],
   prefix |-> [k \in 1..m |-> D.prefix[keep[k]]],
   value  |-> [k \in 1..m |-> D.value[keep[k]]],
   ins    |-> [k \in 1..m |-> D.ins[keep[k]]],
   isid   |-> [k \in 1..m |-> D.isid[keep[k]]]]
=============================================================================
