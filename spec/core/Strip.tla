-------------------------------- MODULE Strip --------------------------------
(* XSLT 1.0 section 3.4 (whitespace stripping of the source tree).                               *)
(* decls: sequence of [strip (BOOLEAN), test ([t |-> "any"] | [t |-> "nsany", uri] |             *)
(*                     [t |-> "name", uri, local]), prec (import precedence)].                     *)
(* A whitespace-only text node is stripped iff the applicable declaration for its parent element *)
(* is xsl:strip-space: among the declarations whose name test matches the element, the one with  *)
(* the highest import precedence, then the highest default priority of its name test (QName 0,    *)
(* NCName:* -0.25, * -0.5), then the last one.  No declaration = preserve.                        *)
EXTENDS XPathSem

TestMatches(D, i, t) == CASE t.t = "any" -> TRUE
                          [] t.t = "nsany" -> D.uri[i] = t.uri
                          [] t.t = "name" -> D.uri[i] = t.uri /\ D.local[i] = t.local
TestPrio(t) == CASE t.t = "name" -> 2 [] t.t = "nsany" -> 1 [] t.t = "any" -> 0

StripsElement(D, i, decls) ==
  LET app == {k \in 1..Len(decls) : TestMatches(D, i, decls[k].test)}
      better(a, b) == \/ decls[a].prec > decls[b].prec
                      \/ decls[a].prec = decls[b].prec /\ TestPrio(decls[a].test) > TestPrio(decls[b].test)
                      \/ decls[a].prec = decls[b].prec /\ TestPrio(decls[a].test) = TestPrio(decls[b].test) /\ a >= b
  IN IF app = {} THEN FALSE
     ELSE decls[CHOOSE a \in app : \A b \in app : better(a, b)].strip

(* 3.4: "an ancestor element of the text node has an xml:space attribute with a value of preserve, and no closer ancestor   *)
(* element has xml:space with a value of default" - such a text node is preserved whatever the declarations say.            *)
XmlNsUri == <<104, 116, 116, 112, 58, 47, 47, 119, 119, 119, 46, 119, 51, 46, 111, 114, 103, 47, 88, 77, 76, 47, 49, 57, 57, 56, 47, 110, 97, 109, 101, 115, 112, 97, 99, 101>>
SpaceAttrs(D, e) == {a \in 1..D.n : D.kind[a] = "attr" /\ D.parent[a] = e /\ D.local[a] = <<115, 112, 97, 99, 101>> /\ D.uri[a] = XmlNsUri}
RECURSIVE SpacePreserved(_, _)
SpacePreserved(D, e) ==
  LET as == SpaceAttrs(D, e)
      v == IF as = {} THEN <<>> ELSE D.value[CHOOSE a \in as : TRUE] IN
  IF v = <<112, 114, 101, 115, 101, 114, 118, 101>> THEN TRUE                         \* preserve
  ELSE IF v = <<100, 101, 102, 97, 117, 108, 116>> THEN FALSE                        \* default
  ELSE IF D.parent[e] # 0 /\ D.kind[D.parent[e]] = "elem" THEN SpacePreserved(D, D.parent[e])
  ELSE FALSE

StrippedIds(D, decls) ==
  {j \in 1..D.n : /\ D.kind[j] = "text" /\ IsWsOnly(D.value[j])
                  /\ D.kind[D.parent[j]] = "elem" /\ StripsElement(D, D.parent[j], decls)
                  /\ ~SpacePreserved(D, D.parent[j])}

(* the document from which the nodes S have been physically removed (ids renumbered in order);   *)
(* keep[k] is the old id of new node k                                                            *)
Keep(D, S) == SetToSortSeq((1..D.n) \ S, LAMBDA a, b : a < b)
NewId(keep, old) == CHOOSE k \in 1..Len(keep) : keep[k] = old
RemoveNodes(D, S) ==
  LET keep == Keep(D, S)  m == Len(keep) IN
  [n |-> m,
   kind   |-> [k \in 1..m |-> D.kind[keep[k]]],
   parent |-> [k \in 1..m |-> IF D.parent[keep[k]] = 0 THEN 0 ELSE NewId(keep, D.parent[keep[k]])],
   local  |-> [k \in 1..m |-> D.local[keep[k]]],
   uri    |-> [k \in 1..m |-> D.uri[keep[k]]],
   prefix |-> [k \in 1..m |-> D.prefix[keep[k]]],
   value  |-> [k \in 1..m |-> D.value[keep[k]]],
   ins    |-> [k \in 1..m |-> D.ins[keep[k]]],
   isid   |-> [k \in 1..m |-> D.isid[keep[k]]]]
=============================================================================
