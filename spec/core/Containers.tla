----------------------------- MODULE Containers -----------------------------
(* Abstract ("standard") models of Xalan's own containers and string class (property C20).       *)
(*   map / set  : a finite function, written as a functional set of <<key, value>> pairs          *)
(*                (std::map / std::unordered_map compared as sets: iteration order is free)       *)
(*   vector / list / deque : a sequence of values                                                 *)
(*   string     : a sequence of 16-bit code units; c_str()[length()] is always the terminator 0    *)
(* Every operation is a function  Apply(state, op) = [ok, st, res]:  `ok` is the documented       *)
(* precondition of the operation (callers of the library must respect it, so do the generators),  *)
(* `st` the state afterwards and `res` what the operation returns (0 where it returns nothing).    *)
(* The implementation-shaped modules MapImpl / VectorImpl / StringImpl / ListImpl / DequeImpl      *)
(* are checked against these by TLC; recorded executions of the real classes are validated         *)
(* against this module only (Trace_C20).  Nothing here knows about buckets, free lists,            *)
(* capacities or terminators inside a buffer.                                                      *)
EXTENDS Integers, Sequences, FiniteSets, SequencesExt

NoValue == -1                      \* "not found" / end() / "threw std::out_of_range"
Npos == -1                         \* XalanDOMString::npos in an argument position

CMin(a, b) == IF a < b THEN a ELSE b
CMax(a, b) == IF a > b THEN a ELSE b
Rep(n, v) == [i \in 1..n |-> v]
Sub(s, from, to) == SubSeq(s, from, to)          \* 1-based, inclusive; empty when to < from
Slice(s, pos, n) == SubSeq(s, pos + 1, pos + n)  \* 0-based start, n elements
Ins(s, pos, t) == SubSeq(s, 1, pos) \o t \o SubSeq(s, pos + 1, Len(s))       \* t before 0-based index pos
Del(s, pos, n) == SubSeq(s, 1, pos) \o SubSeq(s, pos + n + 1, Len(s))        \* n elements from 0-based pos
Rev(s) == [i \in 1..Len(s) |-> s[Len(s) + 1 - i]]

(* the state / result of an operation called outside its precondition is not defined (nor evaluated) *)
R(ok, st, res) == IF ok THEN [ok |-> TRUE, st |-> st, res |-> res] ELSE [ok |-> FALSE, st |-> <<>>, res |-> 0]

(* ============================== map (and set) ================================================= *)
MDom(m) == {p[1] : p \in m}
MGet(m, k) == (CHOOSE p \in m : p[1] = k)[2]
MFunctional(m) == \A p, q \in m : p[1] = q[1] => p = q
MLookup(m, k) == IF k \in MDom(m) THEN MGet(m, k) ELSE NoValue
MInsert(m, k, v) == IF k \in MDom(m) THEN m ELSE m \cup {<<k, v>>}           \* insert never overwrites
MPut(m, k, v) == {p \in m : p[1] # k} \cup {<<k, v>>}
MErase(m, k) == {p \in m : p[1] # k}
MapDefault == 0                                                               \* value-initialised mapped value

(* state: a pair <<m1, m2>> of maps; op.w is the instance operated on, 3 - op.w the other one    *)
MapApply(ms, op) ==
  LET w == op.w
      o == 3 - w
      m == ms[w]
      Upd(x) == [ms EXCEPT ![w] = x]
  IN CASE op.op = "insert"     -> R(TRUE, Upd(MInsert(m, op.k, op.v)), 0)
       [] op.op = "index"      -> R(TRUE, Upd(MInsert(m, op.k, MapDefault)), MLookup(MInsert(m, op.k, MapDefault), op.k))
       [] op.op = "put"        -> R(TRUE, Upd(MPut(m, op.k, op.v)), op.v)                     \* m[k] = v
       [] op.op = "erase"      -> R(TRUE, Upd(MErase(m, op.k)), IF op.k \in MDom(m) THEN 1 ELSE 0)
       [] op.op = "eraseIt"    -> R(op.k \in MDom(m), Upd(MErase(m, op.k)), 0)              \* erase(find(k)), k present
       [] op.op = "find"       -> R(TRUE, ms, MLookup(m, op.k))
       [] op.op = "clear"      -> R(TRUE, Upd({}), 0)
       [] op.op = "swap"       -> R(TRUE, <<ms[2], ms[1]>>, 0)
       [] op.op = "assign"     -> R(TRUE, Upd(ms[o]), 0)                                      \* w = other
       [] op.op = "selfAssign" -> R(TRUE, ms, 0)
       [] op.op = "copy"       -> R(TRUE, ms, 0)                                              \* copy-construct a temporary from w
       [] OTHER                -> R(FALSE, ms, 0)

(* what a user can see of one map: size(), empty(), one full iteration, find() of every key of the *)
(* universe 0..Len(finds)-1.  Iteration order is unspecified, so `items` is compared as a set, but *)
(* it must visit every entry exactly once.                                                        *)
MapObsOK(m, obs) ==
  /\ obs.size = Cardinality(m)
  /\ obs.empty = (m = {})
  /\ Len(obs.items) = Cardinality(m)
  /\ {<<p[1], p[2]>> : p \in Range(obs.items)} = m
  /\ \A i \in 1..Len(obs.finds) : obs.finds[i] = MLookup(m, i - 1)

(* set = map to TRUE; state: one set of keys *)
SetApply(s, op) ==
  CASE op.op = "insert" -> R(TRUE, s \cup {op.k}, 0)
    [] op.op = "erase"  -> R(TRUE, s \ {op.k}, IF op.k \in s THEN 1 ELSE 0)
    [] op.op = "count"  -> R(TRUE, s, IF op.k \in s THEN 1 ELSE 0)
    [] op.op = "clear"  -> R(TRUE, {}, 0)
    [] op.op = "copy"   -> R(TRUE, s, 0)
    [] OTHER            -> R(FALSE, s, 0)

SetObsOK(s, obs) ==
  /\ obs.size = Cardinality(s)
  /\ Len(obs.items) = Cardinality(s)
  /\ Range(obs.items) = s
  /\ \A i \in 1..Len(obs.finds) : obs.finds[i] = (IF (i - 1) \in s THEN 1 ELSE 0)

(* ============================== string pool =================================================== *)
(* XalanDOMStringPool: state = the distinct non-empty strings pooled so far, in the order of their first request.  get(s)      *)
(* returns THE pooled string equal to s - the one handed out before if there is one, else a new one - identified here by its    *)
(* position; the empty string is the shared constant, position 0, never counted.  find (the hash table's own lookup) answers     *)
(* the position or -1.  References stay valid and unchanged until clear().                                                       *)
PoolIdx(m, s) == IF \E k \in 1..Len(m) : m[k] = s THEN CHOOSE k \in 1..Len(m) : m[k] = s ELSE 0
PoolApply(m, op) ==
  CASE op.op \in {"get", "getz", "getn"} ->
         IF op.src = <<>> THEN R(TRUE, m, 0)
         ELSE IF PoolIdx(m, op.src) # 0 THEN R(TRUE, m, PoolIdx(m, op.src))
         ELSE R(TRUE, Append(m, op.src), Len(m) + 1)
    [] op.op = "find"  -> R(TRUE, m, IF op.src # <<>> /\ PoolIdx(m, op.src) # 0 THEN PoolIdx(m, op.src) ELSE -1)
    [] op.op = "clear" -> R(TRUE, <<>>, 0)
    [] OTHER           -> R(FALSE, m, 0)
PoolGotOK(op, got) == IF op.op = "clear" THEN got = <<>> ELSE IF op.op = "find" /\ op.res = -1 THEN got = <<>> ELSE got = op.src
PoolObsOK(m, obs) == obs.size = Len(m) /\ obs.table = Len(m) /\ obs.strings = m

(* ============================== vector ======================================================== *)
(* state: the sequence.  Positions are 0-based like the iterators' distance from begin().          *)
VecDefault == 0
VecCmp(a, b) ==      \* 2 * (a == b) + (a < b), lexicographic
  LET n == CMin(Len(a), Len(b))
      d == {i \in 1..n : a[i] # b[i]}
      f == IF d = {} THEN 0 ELSE CHOOSE i \in d : \A j \in d : i <= j
      lt == IF f = 0 THEN Len(a) < Len(b) ELSE a[f] < b[f]
  IN 2 * (IF a = b THEN 1 ELSE 0) + (IF lt THEN 1 ELSE 0)

VecApply(s, op) ==
  LET n == Len(s) IN
  CASE op.op = "pushBack"     -> R(TRUE, Append(s, op.v), 0)
    [] op.op = "pushBackSelf" -> R(op.i < n, Append(s, s[op.i + 1]), 0)                     \* push_back(v[i])
    [] op.op = "popBack"      -> R(n > 0, Front(s), 0)
    [] op.op = "insert"       -> R(op.pos <= n, Ins(s, op.pos, <<op.v>>), op.pos)           \* returns iterator to the new element
    [] op.op = "insertN"      -> R(op.pos <= n, Ins(s, op.pos, Rep(op.n, op.v)), 0)
    [] op.op = "insertRange"  -> R(op.pos <= n, Ins(s, op.pos, op.src), 0)                  \* range of another vector
    [] op.op = "insertSelf"   -> R(op.pos <= n /\ op.i < n, Ins(s, op.pos, Rep(op.n, s[op.i + 1])), 0)   \* insert(pos, n, v[i])
    [] op.op = "erase"        -> R(op.pos < n, Del(s, op.pos, 1), op.pos)                   \* returns iterator following
    [] op.op = "eraseRange"   -> R(op.first <= op.last /\ op.last <= n, Del(s, op.first, op.last - op.first), op.first)
    [] op.op = "resize"       -> R(TRUE, IF op.n <= n THEN SubSeq(s, 1, op.n) ELSE s \o Rep(op.n - n, VecDefault), 0)
    [] op.op = "resizeV"      -> R(TRUE, IF op.n <= n THEN SubSeq(s, 1, op.n) ELSE s \o Rep(op.n - n, op.v), 0)
    [] op.op = "resizeSelf"   -> R(op.i < n, IF op.n <= n THEN SubSeq(s, 1, op.n) ELSE s \o Rep(op.n - n, s[op.i + 1]), 0)
    [] op.op = "reserve"      -> R(TRUE, s, 0)
    [] op.op = "clear"        -> R(TRUE, <<>>, 0)
    [] op.op = "swap"         -> R(TRUE, op.src, 0)                                           \* other side must hold s afterwards
    [] op.op = "assign"       -> R(TRUE, op.src, 0)                                           \* operator=
    [] op.op = "selfAssign"   -> R(TRUE, s, 0)
    [] op.op = "assignRange"  -> R(TRUE, op.src, 0)                                           \* assign(first, last)
    [] op.op = "copy"         -> R(TRUE, s, 0)
    [] op.op = "at"           -> R(TRUE, s, IF op.i < n THEN s[op.i + 1] ELSE NoValue)        \* NoValue = threw out_of_range
    [] op.op = "cmp"          -> R(TRUE, s, VecCmp(s, op.src))
    [] OTHER                  -> R(FALSE, s, 0)

(* `other` is what the second object of swap / copy holds afterwards; `live` the number of element *)
(* objects alive (constructed minus destroyed), `bad` the number of object-lifetime errors seen by  *)
(* the instrumented element type (construct over a live object, destroy/read/assign a dead one).    *)
SeqObsOK(s, obs) ==
  /\ obs.items = s
  /\ obs.size = Len(s)
  /\ obs.empty = (s = <<>>)
  /\ obs.live = Len(s)
  /\ obs.bad = 0

VecObsOK(s, obs) ==
  /\ SeqObsOK(s, obs)
  /\ obs.cap >= Len(s)
  /\ (Len(s) > 0 => obs.front = s[1] /\ obs.back = s[Len(s)])

VecOtherOK(pre, op, other) ==
  CASE op.op = "swap" -> other = pre
    [] op.op = "copy" -> other = pre
    [] OTHER -> TRUE

VecExtraOK(op, obs) == (op.op = "reserve" => obs.cap >= op.n)

(* ============================== list ========================================================== *)
(* state: the sequence.  Second lists (swap, splice) are temporaries built from op.src; what they  *)
(* hold afterwards is reported as `other`.                                                         *)
ListApply(s, op) ==
  LET n == Len(s) IN
  CASE op.op = "pushBack"   -> R(TRUE, Append(s, op.v), 0)
    [] op.op = "pushFront"  -> R(TRUE, <<op.v>> \o s, 0)
    [] op.op = "popBack"    -> R(n > 0, Front(s), 0)
    [] op.op = "popFront"   -> R(n > 0, Tail(s), 0)
    [] op.op = "insert"     -> R(op.pos <= n, Ins(s, op.pos, <<op.v>>), op.v)                \* *returned iterator
    [] op.op = "erase"      -> R(op.pos < n, Del(s, op.pos, 1), 0)
    [] op.op = "clear"      -> R(TRUE, <<>>, 0)
    [] op.op = "swap"       -> R(TRUE, op.src, 0)
    [] op.op = "spliceOne"  -> R(op.pos <= n /\ op.i < Len(op.src), Ins(s, op.pos, <<op.src[op.i + 1]>>), 0)
    [] op.op = "spliceRange" -> R(op.pos <= n /\ op.first <= op.last /\ op.last <= Len(op.src),
                                  Ins(s, op.pos, Slice(op.src, op.first, op.last - op.first)), 0)
    [] op.op = "spliceOneSelf" ->      \* move element i before position pos of the same list
          R(op.pos <= n /\ op.i < n,
            IF op.pos = op.i \/ op.pos = op.i + 1 THEN s
            ELSE IF op.pos < op.i THEN Ins(Del(s, op.i, 1), op.pos, <<s[op.i + 1]>>)
            ELSE Ins(Del(s, op.i, 1), op.pos - 1, <<s[op.i + 1]>>), 0)
    [] op.op = "spliceRangeSelf" ->    \* pos outside [first, last)
          R(op.first <= op.last /\ op.last <= n /\ op.pos <= n /\ ~(op.first <= op.pos /\ op.pos < op.last),
            LET k == op.last - op.first
                seg == Slice(s, op.first, k)
            IN IF op.pos < op.first THEN Ins(Del(s, op.first, k), op.pos, seg)
               ELSE Ins(Del(s, op.first, k), op.pos - k, seg), 0)
    [] OTHER                -> R(FALSE, s, 0)

ListOtherOK(pre, op, other) ==
  CASE op.op = "swap"        -> other = pre
    [] op.op = "spliceOne"   -> other = Del(op.src, op.i, 1)
    [] op.op = "spliceRange" -> other = Del(op.src, op.first, op.last - op.first)
    [] OTHER -> TRUE

ListObsOK(s, obs) ==
  /\ obs.items = s               \* begin() .. end()
  /\ obs.ritems = Rev(s)         \* rbegin() .. rend()
  /\ obs.size = Len(s)
  /\ obs.empty = (s = <<>>)
  /\ (Len(s) > 0 => obs.front = s[1] /\ obs.back = s[Len(s)])
(* element objects alive = elements held (temporaries are gone), no object-lifetime error *)
LifeOK(n, live, bad) == live = n /\ bad = 0

(* ============================== deque ========================================================= *)
DeqApply(s, op) ==
  LET n == Len(s) IN
  CASE op.op = "pushBack"   -> R(TRUE, Append(s, op.v), 0)
    [] op.op = "popBack"    -> R(n > 0, Front(s), 0)
    [] op.op = "resize"     -> R(TRUE, IF op.n <= n THEN SubSeq(s, 1, op.n) ELSE s \o Rep(op.n - n, VecDefault), 0)
    [] op.op = "clear"      -> R(TRUE, <<>>, 0)
    [] op.op = "swap"       -> R(TRUE, op.src, 0)
    [] op.op = "assign"     -> R(TRUE, op.src, 0)
    [] op.op = "selfAssign" -> R(TRUE, s, 0)
    [] op.op = "copy"       -> R(TRUE, s, 0)
    [] OTHER                -> R(FALSE, s, 0)

DeqOtherOK(pre, op, other) ==
  CASE op.op = "swap" -> other = pre
    [] op.op = "copy" -> other = pre
    [] OTHER -> TRUE

DeqObsOK(s, obs) ==
  /\ obs.items = s               \* through operator[]
  /\ obs.iter = s                \* through begin()..end()
  /\ obs.ritems = Rev(s)         \* through rbegin()..rend()
  /\ obs.size = Len(s)
  /\ obs.empty = (s = <<>>)
  /\ (Len(s) > 0 => obs.back = s[Len(s)])
  /\ obs.live = Len(s)
  /\ obs.bad = 0

(* ============================== string ======================================================== *)
(* state: the sequence of code units (0 allowed inside).  Arguments: `src` a unit sequence that     *)
(* stands for another string object, pos/n 0-based position and count, n = Npos "to the end".       *)
(* The preconditions are the ones XalanDOMString asserts, which are those of std::basic_string      *)
(* except that a start position equal to the source length is not accepted.                         *)
CountOf(n, avail) == IF n = Npos THEN avail ELSE n
StrCmp(a, b) ==      \* sign of compare()
  LET n == CMin(Len(a), Len(b))
      d == {i \in 1..n : a[i] # b[i]}
      f == IF d = {} THEN 0 ELSE CHOOSE i \in d : \A j \in d : i <= j
  IN IF f = 0 THEN (IF Len(a) < Len(b) THEN -1 ELSE IF Len(a) > Len(b) THEN 1 ELSE 0)
     ELSE IF a[f] < b[f] THEN -1 ELSE 1

StrApply(s, op) ==
  LET n == Len(s) IN
  CASE op.op = "append"        -> R(TRUE, s \o op.src, 0)                                    \* append(const XalanDOMString&)
    [] op.op = "appendSelf"    -> R(TRUE, s \o s, 0)
    [] op.op = "appendSub"     -> R(op.pos < Len(op.src) /\ (op.n = Npos \/ op.pos + op.n <= Len(op.src)),
                                    s \o Slice(op.src, op.pos, CountOf(op.n, Len(op.src) - op.pos)), 0)
    [] op.op = "appendSubSelf" -> R(op.pos < n /\ (op.n = Npos \/ op.pos + op.n <= n),
                                    s \o Slice(s, op.pos, CountOf(op.n, n - op.pos)), 0)
    [] op.op = "appendPtr"     -> R(op.n <= Len(op.src), s \o SubSeq(op.src, 1, op.n), 0)    \* append(const XalanDOMChar*, n)
    [] op.op = "appendN"       -> R(TRUE, s \o Rep(op.n, op.ch), 0)                          \* append(n, ch)
    [] op.op = "pushBack"      -> R(TRUE, Append(s, op.ch), 0)
    [] op.op = "insert"        -> R(op.pos <= n, Ins(s, op.pos, op.src), 0)                  \* insert(pos, const XalanDOMString&)
    [] op.op = "insertSelf"    -> R(op.pos <= n, Ins(s, op.pos, s), 0)
    [] op.op = "insertSub"     -> R(op.pos <= n /\ op.pos2 + op.n <= Len(op.src), Ins(s, op.pos, Slice(op.src, op.pos2, op.n)), 0)
    [] op.op = "insertSubSelf" -> R(op.pos <= n /\ op.pos2 + op.n <= n, Ins(s, op.pos, Slice(s, op.pos2, op.n)), 0)
    [] op.op = "insertRangeSelf" -> R(op.pos <= n /\ op.pos2 + op.n <= n, Ins(s, op.pos, Slice(s, op.pos2, op.n)), 0)   \* insert(p, first, last), [first, last) in the string itself: "equivalent to insert(p - begin(), basic_string(first, last))"
    [] op.op = "insertN"       -> R(op.pos <= n, Ins(s, op.pos, Rep(op.n, op.ch)), 0)        \* insert(pos, n, ch)
    [] op.op = "insertIt"      -> R(op.pos <= n, Ins(s, op.pos, <<op.ch>>), op.pos)          \* insert(iterator, ch) -> iterator
    [] op.op = "erase"         -> R(op.pos <= n /\ (op.n = Npos \/ op.pos + op.n <= n),
                                    Del(s, op.pos, CountOf(op.n, n - op.pos)), 0)
    [] op.op = "eraseIt"       -> R(op.pos < n, Del(s, op.pos, 1), op.pos)
    [] op.op = "eraseRange"    -> R(op.first <= op.last /\ op.last <= n, Del(s, op.first, op.last - op.first), op.first)
    [] op.op = "assign"        -> R(TRUE, op.src, 0)                                          \* assign(const XalanDOMString&) / operator=
    [] op.op = "selfAssign"    -> R(TRUE, s, 0)
    [] op.op = "assignSub"     -> R(op.pos < Len(op.src) /\ op.pos + op.n <= Len(op.src), Slice(op.src, op.pos, op.n), 0)
    [] op.op = "assignSubSelf" -> R(op.pos < n /\ op.pos + op.n <= n, Slice(s, op.pos, op.n), 0)
    [] op.op = "assignPtr"     -> R(TRUE, op.src, 0)                                          \* assign(const XalanDOMChar*)
    [] op.op = "assignN"       -> R(TRUE, Rep(op.n, op.ch), 0)
    [] op.op = "resize"        -> R(TRUE, IF op.n <= n THEN SubSeq(s, 1, op.n) ELSE s \o Rep(op.n - n, 0), 0)
    [] op.op = "resizeC"       -> R(TRUE, IF op.n <= n THEN SubSeq(s, 1, op.n) ELSE s \o Rep(op.n - n, op.ch), 0)
    [] op.op = "substr"        -> R((op.n = Npos /\ op.pos < n) \/ (op.n # Npos /\ op.pos + op.n <= n /\ op.pos < n), s, 0)
    [] op.op = "substrSelf"    -> R((op.n = Npos /\ op.pos < n) \/ (op.n # Npos /\ op.pos + op.n <= n /\ op.pos < n),
                                    Slice(s, op.pos, CountOf(op.n, n - op.pos)), 0)           \* s.substr(s, pos, n)
    [] op.op = "swap"          -> R(TRUE, op.src, 0)
    [] op.op = "clear"         -> R(TRUE, <<>>, 0)
    [] op.op = "reserve"       -> R(TRUE, s, 0)
    [] op.op = "copy"          -> R(TRUE, s, 0)                                               \* copy constructor
    [] op.op = "copySub"       -> R(op.pos < n /\ (op.n = Npos \/ op.pos + op.n <= n), s, 0)  \* XalanDOMString(s, mm, pos, n)
    [] op.op = "compare"       -> R(TRUE, s, StrCmp(s, op.src))
    [] op.op = "equals"        -> R(TRUE, s, IF s = op.src THEN 1 ELSE 0)
    [] op.op = "at"            -> R(TRUE, s, IF op.i < n THEN s[op.i + 1] ELSE NoValue)       \* NoValue = threw out_of_range
    [] OTHER                   -> R(FALSE, s, 0)

StrOtherOK(pre, op, other) ==
  CASE op.op = "swap"    -> other = pre
    [] op.op = "copy"    -> other = pre
    [] op.op = "copySub" -> other = Slice(pre, op.pos, CountOf(op.n, Len(pre) - op.pos))
    [] op.op = "substr"  -> other = Slice(pre, op.pos, CountOf(op.n, Len(pre) - op.pos))
    [] OTHER -> TRUE

(* the terminator invariant: c_str()[length()] = 0 after every operation, on every string touched *)
StrObsOK(s, obs) ==
  /\ obs.units = s
  /\ obs.len = Len(s)
  /\ obs.empty = (s = <<>>)
  /\ obs.term = 0
  /\ obs.cap >= Len(s)

StrExtraOK(op, obs) == (op.op = "reserve" => obs.cap >= op.n)
=============================================================================
