------------------------------ MODULE Numeral ------------------------------
(* C18 - number <-> string conversions of XPath 1.0, stated on DECIMAL NUMERALS.                 *)
(* TLC has 32-bit integers and no floating point, so nothing here is a double: a numeral is a    *)
(* sign, a digit sequence and a scale; strings are sequences of code points; an IEEE-754 bit      *)
(* pattern is a sequence of four 16-bit words <<w3, w2, w1, w0>> (most significant first).        *)
(*                                                                                               *)
(*   IsNumber(s)      the lexical rule of XPath 1.0 section 4.4 (number()): optional whitespace,  *)
(*                    optional '-', Number (production [30]), optional whitespace - as a DFA      *)
(*   InGrammar(s)     the same language written declaratively (MC_Numeral shows them equal)      *)
(*   Canon(n)         XPath 1.0 section 4.2 string(): the string form of the real number n        *)
(*   OutputGrammar(t) the strings string() may return at all                                      *)
(*   RoundN/FloorN/CeilN   XPath 1.0 section 4.4 on numerals (exact decimal arithmetic)           *)
(*   ExactInfo/BitsOf the exact binary expansion of a numeral; when it fits 53 bits the numeral   *)
(*                    IS a double and BitsOf states its IEEE-754 encoding                        *)
(*                                                                                               *)
(* Two facts of IEEE-754 binary64 are used by the trace specification and are part of the        *)
(* trusted base (DBL_DIG = 15):                                                                   *)
(*   T1  distinct numerals of <= 15 significant digits in the normal range round to distinct     *)
(*       doubles, and rounding is monotonic; hence for such a numeral v and the nearest double   *)
(*       x: the shortest decimal that identifies x is v itself, and v and x lie on the same      *)
(*       side of every integer and of every n + 0.5 that is not v itself.                         *)
(*   T2  |x - v| <= v * 2^-53; any decimal N with nearest double x has |N - v| < v * 2.3e-16.    *)
EXTENDS Naturals, Integers, Sequences, FiniteSets

(* ---- characters --------------------------------------------------------------------------- *)
IsDigit(c) == c >= 48 /\ c <= 57
IsWS(c)    == c \in {32, 9, 10, 13}            \* XML S: space, tab, LF, CR
CMinus == 45
CDot   == 46

StrNaN    == <<78, 97, 78>>
StrInf    == <<73, 110, 102, 105, 110, 105, 116, 121>>
StrNegInf == <<45>> \o StrInf
StrZero   == <<48>>

(* ---- (i) which strings are numbers ---------------------------------------------------------- *)
(* DFA: start -ws-> start, '-' -> sign, digits -> int, '.' -> frac (after int) / dot0 (no int);   *)
(* trailing whitespace -> tail.  Accepting: int, frac, tail ("1." is a Number, "." is not).       *)
DfaStep(q, c) ==
  CASE q = "start" -> IF IsWS(c) THEN "start" ELSE IF c = CMinus THEN "sign"
                      ELSE IF IsDigit(c) THEN "int" ELSE IF c = CDot THEN "dot0" ELSE "dead"
    [] q = "sign"  -> IF IsDigit(c) THEN "int" ELSE IF c = CDot THEN "dot0" ELSE "dead"
    [] q = "int"   -> IF IsDigit(c) THEN "int" ELSE IF c = CDot THEN "frac"
                      ELSE IF IsWS(c) THEN "tail" ELSE "dead"
    [] q = "dot0"  -> IF IsDigit(c) THEN "frac" ELSE "dead"
    [] q = "frac"  -> IF IsDigit(c) THEN "frac" ELSE IF IsWS(c) THEN "tail" ELSE "dead"
    [] q = "tail"  -> IF IsWS(c) THEN "tail" ELSE "dead"
    [] OTHER       -> "dead"

RECURSIVE DfaRun(_, _, _)
DfaRun(q, s, i) == IF i > Len(s) \/ q = "dead" THEN q ELSE DfaRun(DfaStep(q, s[i]), s, i + 1)

IsNumber(s) == DfaRun("start", s, 1) \in {"int", "frac", "tail"}

(* the same language, declaratively: leading whitespace, body, trailing whitespace, where the     *)
(* body is an optional minus followed by digits with an optional point, or a point and digits    *)
AllIn(s, a, b, P(_)) == \A i \in a..b : P(s[i])
IsUnsignedNumber(s, a, b) ==          \* s[a..b]
  \/ a <= b /\ AllIn(s, a, b, IsDigit)
  \/ \E p \in a..b : /\ s[p] = CDot
                     /\ AllIn(s, a, p - 1, IsDigit) /\ AllIn(s, p + 1, b, IsDigit)
                     /\ (p > a \/ p < b)                       \* a digit on at least one side
InGrammar(s) ==
  \E a \in 1..Len(s) + 1 : \E b \in 0..Len(s) :
     /\ a <= b
     /\ AllIn(s, 1, a - 1, IsWS) /\ AllIn(s, b + 1, Len(s), IsWS)
     /\ \/ IsUnsignedNumber(s, a, b)
        \/ s[a] = CMinus /\ IsUnsignedNumber(s, a + 1, b)

(* ---- numerals ------------------------------------------------------------------------------- *)
(* [neg, ds, sc]: value = (-1)^neg * (ds read as a decimal integer) * 10^(-sc); sc may be < 0     *)
Zeros(k) == [i \in 1..k |-> 0]
SetMin(S) == CHOOSE x \in S : \A y \in S : x <= y
SetMax(S) == CHOOSE x \in S : \A y \in S : x >= y
StripLead(d)  == LET nz == {i \in 1..Len(d) : d[i] # 0} IN IF nz = {} THEN <<>> ELSE SubSeq(d, SetMin(nz), Len(d))
StripTrail(d) == LET nz == {i \in 1..Len(d) : d[i] # 0} IN IF nz = {} THEN <<>> ELSE SubSeq(d, 1, SetMax(nz))
Chars(d) == [i \in 1..Len(d) |-> d[i] + 48]

(* pre: IsNumber(s) *)
Parse(s) ==
  LET dots == {i \in 1..Len(s) : s[i] = CDot}
      dp   == IF dots = {} THEN Len(s) + 1 ELSE SetMin(dots)
      dg   == SelectSeq(s, IsDigit)
  IN [neg |-> \E i \in 1..Len(s) : s[i] = CMinus,
      ds  |-> [i \in 1..Len(dg) |-> dg[i] - 48],
      sc  |-> Cardinality({i \in dp + 1..Len(s) : IsDigit(s[i])})]

(* normal form: integer part without leading zeros, fraction without trailing zeros (either may   *)
(* be empty)                                                                                      *)
Norm(n) ==
  LET L  == Len(n.ds)
      sp == IF n.sc <= 0 THEN [ip |-> n.ds \o Zeros(-n.sc), fp |-> <<>>]
            ELSE IF n.sc >= L THEN [ip |-> <<>>, fp |-> Zeros(n.sc - L) \o n.ds]
            ELSE [ip |-> SubSeq(n.ds, 1, L - n.sc), fp |-> SubSeq(n.ds, L - n.sc + 1, L)]
  IN [neg |-> n.neg, ip |-> StripLead(sp.ip), fp |-> StripTrail(sp.fp)]

IsZeroN(m)  == m.ip = <<>> /\ m.fp = <<>>
IsIntN(m)   == m.fp = <<>>
SigSeq(m)   == StripTrail(StripLead(m.ip \o m.fp))
SigDigits(m) == Len(SigSeq(m))
(* decimal exponent of the leading significant digit: 10^Mag <= |v| < 10^(Mag+1)   (v # 0)       *)
Mag(m) == IF m.ip # <<>> THEN Len(m.ip) - 1
          ELSE -SetMin({i \in 1..Len(m.fp) : m.fp[i] # 0})
(* safely inside the normal range of binary64 (2.2e-308 .. 1.8e308) *)
InNormalRange(m) == ~IsZeroN(m) /\ Mag(m) >= -307 /\ Mag(m) <= 307
(* beyond every finite double / below half the smallest subnormal: the nearest double is clear    *)
Overflows(m)  == ~IsZeroN(m) /\ Mag(m) >= 310
Underflows(m) == ~IsZeroN(m) /\ Mag(m) <= -330

(* ---- (ii) the XPath string form ------------------------------------------------------------- *)
CanonN(m) ==
  IF IsZeroN(m) THEN StrZero
  ELSE (IF m.neg THEN <<CMinus>> ELSE <<>>)
       \o (IF m.ip = <<>> THEN <<48>> ELSE Chars(m.ip))
       \o (IF m.fp = <<>> THEN <<>> ELSE <<CDot>> \o Chars(m.fp))
Canon(n)    == CanonN(Norm(n))
CanonStr(s) == Canon(Parse(s))

(* ---- (iii) what string() may return --------------------------------------------------------- *)
OutNumeral(t) ==
  LET neg == Len(t) > 0 /\ t[1] = CMinus
      u   == IF neg THEN Tail(t) ELSE t
      dots == {i \in 1..Len(u) : u[i] = CDot}
      dp  == IF dots = {} THEN Len(u) + 1 ELSE SetMin(dots)
      ip  == SubSeq(u, 1, dp - 1)
      fp  == SubSeq(u, dp + 1, Len(u))
  IN /\ Len(ip) >= 1
     /\ \A i \in 1..Len(ip) : IsDigit(ip[i])
     /\ \A i \in 1..Len(fp) : IsDigit(fp[i])               \* hence at most one '.'
     /\ (dots # {} => Len(fp) >= 1 /\ fp[Len(fp)] # 48)     \* a digit after the point, no trailing zero
     /\ (Len(ip) > 1 => ip[1] # 48)                         \* no leading zeros but the single 0
     /\ ~(ip = <<48>> /\ fp = <<>> /\ neg)                  \* zero is "0", never "-0"
OutputGrammar(t) == t \in {StrNaN, StrInf, StrNegInf} \/ OutNumeral(t)
IsIntString(t) == OutNumeral(t) /\ \A i \in 1..Len(t) : t[i] # CDot

(* ---- decimal digit arithmetic --------------------------------------------------------------- *)
RECURSIVE Inc(_)
Inc(d) == IF d = <<>> THEN <<1>>
          ELSE IF d[Len(d)] < 9 THEN [d EXCEPT ![Len(d)] = @ + 1]
          ELSE Append(Inc(SubSeq(d, 1, Len(d) - 1)), 0)

(* an integer digit sequence (no leading zeros) rounded half-up to p significant digits           *)
RoundSigInt(d, p) ==
  IF Len(d) <= p THEN d
  ELSE LET h == SubSeq(d, 1, p)
           r == IF d[p + 1] >= 5 THEN Inc(h) ELSE h
       IN r \o Zeros(Len(d) - p)

(* ---- (iv) round / floor / ceiling (XPath 1.0 section 4.4) ------------------------------------- *)
(* result: an integer [neg, ip]; ip = <<>> is zero, and then neg says which zero.  floor/ceiling  *)
(* are the integers of the definition; XPath prescribes the sign of a zero result only for        *)
(* round: an argument in [-0.5, -0] gives negative zero.                                          *)
FracGE5(fp) == fp # <<>> /\ fp[1] >= 5
FracGT5(fp) == fp # <<>> /\ (fp[1] > 5 \/ (fp[1] = 5 /\ Len(fp) > 1))   \* fp has no trailing zeros
RoundN(m) == [neg |-> m.neg,
              ip  |-> IF (~m.neg /\ FracGE5(m.fp)) \/ (m.neg /\ FracGT5(m.fp)) THEN Inc(m.ip) ELSE m.ip]
FloorN(m) == [neg |-> m.neg, ip |-> IF m.neg /\ m.fp # <<>> THEN Inc(m.ip) ELSE m.ip]
CeilN(m)  == [neg |-> m.neg, ip |-> IF ~m.neg /\ m.fp # <<>> THEN Inc(m.ip) ELSE m.ip]
IntString(r) == IF r.ip = <<>> THEN StrZero ELSE (IF r.neg THEN <<CMinus>> ELSE <<>>) \o Chars(r.ip)

(* ---- exact binary expansion ------------------------------------------------------------------ *)
(* d div 2 and d mod 2 on digit sequences.  Both halving and doubling are local: the carry into a  *)
(* digit depends on its neighbour only (10 * carry is even; 2 * d + carry >= 10 iff d >= 5).       *)
Half(d) == [q |-> [i \in 1..Len(d) |-> ((IF i > 1 THEN d[i - 1] % 2 ELSE 0) * 10 + d[i]) \div 2],
            r |-> IF d = <<>> THEN 0 ELSE d[Len(d)] % 2]
RECURSIVE IntBitsR(_, _)
IntBitsR(d, acc) ==          \* d without leading zeros; most significant bit first
  IF d = <<>> THEN acc
  ELSE LET h == Half(d) IN IntBitsR(StripLead(h.q), <<h.r>> \o acc)
IntBits(ip) == IntBitsR(ip, <<>>)

(* 2 * 0.d = c + 0.d'   - the definition, digit by digit *)
Dbl(d) == [d |-> [i \in 1..Len(d) |-> (2 * d[i] + (IF i < Len(d) /\ d[i + 1] >= 5 THEN 1 ELSE 0)) % 10],
           c |-> IF d # <<>> /\ d[1] >= 5 THEN 1 ELSE 0]
RECURSIVE FracBitsRef(_, _, _)
FracBitsRef(d, n, acc) ==    \* at most n binary digits of 0.d; done = the expansion terminated
  IF \A i \in 1..Len(d) : d[i] = 0 THEN [bits |-> acc, done |-> TRUE]
  ELSE IF n = 0 THEN [bits |-> acc, done |-> FALSE]
  ELSE LET x == Dbl(d) IN FracBitsRef(x.d, n - 1, Append(acc, x.c))

(* the same on limbs of 8 decimal digits (8 times fewer steps; MC_Numeral shows both equal) *)
Limb == 100000000
RECURSIVE LimbVal(_, _, _)
LimbVal(d, a, b) == IF a > b THEN 0 ELSE 10 * LimbVal(d, a, b - 1) + (IF b <= Len(d) THEN d[b] ELSE 0)
ToLimbs(d) == [i \in 1..((Len(d) + 7) \div 8) |-> LimbVal(d, 8 * i - 7, 8 * i)]
DblL(L) == [d |-> [i \in 1..Len(L) |-> (2 * L[i] + (IF i < Len(L) /\ L[i + 1] >= Limb \div 2 THEN 1 ELSE 0)) % Limb],
            c |-> IF L # <<>> /\ L[1] >= Limb \div 2 THEN 1 ELSE 0]
RECURSIVE FracBitsL(_, _, _)
FracBitsL(L, n, acc) ==
  IF \A i \in 1..Len(L) : L[i] = 0 THEN [bits |-> acc, done |-> TRUE]
  ELSE IF n = 0 THEN [bits |-> acc, done |-> FALSE]
  ELSE LET x == DblL(L) IN FracBitsL(x.d, n - 1, Append(acc, x.c))
FracBitsR(d, n, acc) == FracBitsL(ToLimbs(d), n, acc)

(* ---- is the numeral a double? ------------------------------------------------------------------ *)
(* digit sequences without leading zeros, compared as integers *)
DLess(a, b) ==
  \/ Len(a) < Len(b)
  \/ /\ Len(a) = Len(b)
     /\ \E i \in 1..Len(a) : a[i] < b[i] /\ \A j \in 1..i - 1 : a[j] = b[j]
Two53 == <<9, 0, 0, 7, 1, 9, 9, 2, 5, 4, 7, 4, 0, 9, 9, 2>>
TrailZeros(d) == Len(d) - SetMax({i \in 1..Len(d) : d[i] # 0})          \* d # 0
RECURSIVE OddPartR(_, _)
OddPartR(d, z) ==            \* d = m * 2^z with m odd   (d # 0)
  IF d[Len(d)] % 2 = 1 THEN [m |-> d, z |-> z] ELSE OddPartR(StripLead(Half(d).q), z + 1)

NotExact == [exact |-> FALSE]
ManOf(bits, first) == [i \in 1..52 |-> IF first + i <= Len(bits) THEN bits[first + i] ELSE 0]
(* An integer N is a double iff its odd part is below 2^53.  N = N' * 10^t has odd part >= 5^t, and  *)
(* 5^23 > 2^53, so more than 22 trailing decimal zeros already decide.  Decided for <= 60 digits.    *)
ExactInt(ip) ==
  IF Len(ip) > 60 \/ TrailZeros(ip) > 22 THEN NotExact
  ELSE LET o == OddPartR(ip, 0) IN
       IF ~DLess(o.m, Two53) THEN NotExact
       ELSE LET b == IntBits(o.m) IN [exact |-> TRUE, e2 |-> o.z + Len(b) - 1, man |-> ManOf(b, 1)]
(* A non-integer double is below 2^53 (<= 16 integer digits); a k-digit decimal fraction is dyadic    *)
(* iff k doublings clear it, and then its last digit is 5.  Decided for <= 160 fraction digits: the   *)
(* binary expansion integer bits . fraction bits must span at most 53 bits.                          *)
ExactFrac(m) ==
  IF Len(m.ip) > 16 \/ Len(m.fp) > 160 \/ m.fp[Len(m.fp)] # 5 THEN NotExact
  ELSE LET fb == FracBitsR(m.fp, Len(m.fp), <<>>) IN
       IF ~fb.done THEN NotExact
       ELSE LET ib    == IntBits(m.ip)
                all   == ib \o fb.bits
                ones  == {i \in 1..Len(all) : all[i] = 1}
                first == SetMin(ones)
                last  == SetMax(ones)
            IN IF last - first + 1 > 53 THEN NotExact
               ELSE [exact |-> TRUE, e2 |-> Len(ib) - first, man |-> ManOf(all, first)]   \* 1.xxx * 2^e2
(* [exact, e2, man]: the numeral is the normal double 1.man * 2^e2 (FALSE also means "not decided") *)
ExactInfo(m) == IF IsZeroN(m) THEN NotExact ELSE IF m.fp = <<>> THEN ExactInt(m.ip) ELSE ExactFrac(m)
IsExactDouble(m) == ExactInfo(m).exact

RECURSIVE BitsVal(_, _, _)
BitsVal(b, i, j) == IF i > j THEN 0 ELSE 2 * BitsVal(b, i, j - 1) + b[j]
(* IEEE-754 binary64 encoding of an exact numeral as four 16-bit words *)
BitsOfX(neg, x) ==           \* x = ExactInfo(m), x.exact
  << (IF neg THEN 32768 ELSE 0) + (x.e2 + 1023) * 16 + BitsVal(x.man, 1, 4),
     BitsVal(x.man, 5, 20), BitsVal(x.man, 21, 36), BitsVal(x.man, 37, 52) >>
BitsOf(m) == BitsOfX(m.neg, ExactInfo(m))

(* ---- reading logged bit patterns --------------------------------------------------------------- *)
BSign(w)  == w[1] >= 32768
BExp(w)   == (w[1] % 32768) \div 16
BManZero(w) == w[1] % 16 = 0 /\ w[2] = 0 /\ w[3] = 0 /\ w[4] = 0
BIsNaN(w)  == BExp(w) = 2047 /\ ~BManZero(w)
BIsInf(w)  == BExp(w) = 2047 /\ BManZero(w)
BIsZero(w) == BExp(w) = 0 /\ BManZero(w)
WellFormedBits(w) == Len(w) = 4 /\ \A i \in 1..4 : w[i] \in 0..65535

(* ---- what the conversions must deliver ----------------------------------------------------------- *)
(* string(number(s)): the strongest statement that needs no floating point.                         *)
(*   "exact"  the one string XPath allows                                                             *)
(*   "int15"  a numeral of <= 15 significant digits that is an integer of more than 15 digits: its     *)
(*            nearest double need not be the numeral; XPath prints the double's own integer value,     *)
(*            which agrees with the numeral when rounded to 15 digits (T2) and must read back equal    *)
(*   "loose"  more than 15 significant digits / outside the normal range: grammar and round trip only  *)
(* m = Norm(Parse(s)), x = ExactInfo(m) (evaluated once by the caller) *)
SnExpectM(m, x) ==
  IF IsZeroN(m) \/ Underflows(m) THEN [k |-> "exact", str |-> StrZero]
  ELSE IF Overflows(m) THEN [k |-> "exact", str |-> IF m.neg THEN StrNegInf ELSE StrInf]
  ELSE IF SigDigits(m) <= 15 /\ InNormalRange(m)
       THEN IF IsIntN(m) /\ Len(m.ip) > 15 /\ ~x.exact
            THEN [k |-> "int15", str |-> CanonN(m)]
            ELSE [k |-> "exact", str |-> CanonN(m)]
  ELSE IF IsIntN(m) /\ x.exact THEN [k |-> "exact", str |-> CanonN(m)]   \* an integer double prints as itself
  ELSE [k |-> "loose", neg |-> m.neg]
SnExpect(s) ==
  IF ~IsNumber(s) THEN [k |-> "exact", str |-> StrNaN]
  ELSE LET m == Norm(Parse(s)) IN SnExpectM(m, ExactInfo(m))

(* t is an integer string that agrees with the integer numeral string c to 15 significant digits *)
AgreesTo15(t, c) ==
  /\ IsIntString(t)
  /\ LET neg == t[1] = CMinus
         td  == IF neg THEN Tail(t) ELSE t
         cd  == IF c[1] = CMinus THEN Tail(c) ELSE c
     IN /\ neg = (c[1] = CMinus)
        /\ Chars(RoundSigInt([i \in 1..Len(td) |-> td[i] - 48], 15)) = cd

(* Is the argument numeral one for which round/floor/ceiling of the nearest double is the         *)
(* round/floor/ceiling of the numeral (T1, or the numeral is a double)?                            *)
RoundDecidedX(m, x) == IsZeroN(m) \/ (SigDigits(m) <= 15 /\ InNormalRange(m)) \/ x.exact
RoundDecided(m) == RoundDecidedX(m, ExactInfo(m))
FnN(f, m) == CASE f = "round" -> RoundN(m) [] f = "floor" -> FloorN(m) [] f = "ceiling" -> CeilN(m)
=============================================================================
