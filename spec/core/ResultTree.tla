----------------------------- MODULE ResultTree -----------------------------
(* C14 - result elements/attributes get the requested expanded names; prefixes resolve.          *)
(*                                                                                               *)
(* Three parts, all executable by TLC:                                                           *)
(*  Resolve(rawForest, bindings)   what a namespace-aware XML parser makes of the RAW result tree *)
(*                                 (elements with QNames and the attribute list the engine        *)
(*                                 emitted, xmlns / xmlns:p attributes included): the tree of     *)
(*                                 expanded names plus the Namespaces-in-XML faults it meets.     *)
(*  Requested(ss, src)             the tree of expanded names the constructing instructions of    *)
(*                                 the stylesheet ASK for (XSLT 1.0 7.1.1 literal result elements *)
(*                                 with namespace aliases, 7.1.2 xsl:element, 7.1.3               *)
(*                                 xsl:attribute, 7.1.4 attribute sets, 7.5 xsl:copy, 11.3        *)
(*                                 xsl:copy-of).                                                  *)
(*  Faults(ss, src, raw)           the obligations of the property as a set of fault classes;     *)
(*                                 the property holds for a transformation iff the set is empty.  *)
(* Prefix spellings are never compared: any prefix the processor picks or invents is fine as     *)
(* long as it resolves to the requested namespace.                                               *)
(*                                                                                               *)
(* Names are atoms here (TLA+ strings); QNames arrive split into prefix p and local part l.      *)
(*                                                                                               *)
(* stylesheet  ss  = [nsd   |-> <<<<prefix, uri>>, ...>>   declarations on xsl:stylesheet         *)
(*                    excl  |-> <<prefix, ...>>            exclude-result-prefixes ("" = #default) *)
(*                    alias |-> <<<<stylesheetPrefix, resultPrefix>>, ...>>  xsl:namespace-alias  *)
(*                    sets  |-> <<[name, use |-> <<names>>, attrs |-> <<attribute instr>>], ...>> *)
(*                    body  |-> <<instr, ...>>]            body of the template for "/"           *)
(* instr  [i |-> "lre", p, l, nsd, excl, attrs |-> <<[p, l, v]>>, uas |-> <<names>>, body]        *)
(*        [i |-> "element", p, l, hasNs, ns, nsd, uas, body]                                      *)
(*        [i |-> "attribute", p, l, hasNs, ns, nsd, v]                                            *)
(*        [i |-> "copy", node |-> k, uas, body]     xsl:copy with source element k as current node *)
(*        [i |-> "copyattr", node |-> k, a |-> j]   xsl:copy with attribute j of element k         *)
(*        [i |-> "copy-of", node |-> k]             deep copy of source element k                  *)
(*        [i |-> "copy-of-attr", node |-> k, a |-> j]                                             *)
(* source      src = [nsd, kids |-> <<[p, l, u, nsd, a |-> <<[p, l, u, v]>>, c |-> <<...>>]>>]    *)
(* raw forest  <<[p, l, a |-> <<[p, l, v], ...>>, c |-> <<...>>], ...>>                           *)
EXTENDS Naturals, Sequences, FiniteSets, TLC

XMLNS   == "http://www.w3.org/XML/1998/namespace"
XMLNSNS == "http://www.w3.org/2000/xmlns/"
XSLTNS  == "http://www.w3.org/1999/XSL/Transform"
Unbound == "#unbound"

Ran(s) == {s[i] : i \in DOMAIN s}
RECURSIVE Flat(_)
Flat(ss) == IF ss = <<>> THEN <<>> ELSE Head(ss) \o Flat(Tail(ss))
Pairs(n) == {<<i, j>> \in (1..n) \X (1..n) : i < j}

(* ---- namespace bindings: a sequence of <<prefix, uri>>, later entries shadow earlier ones ---- *)
RECURSIVE LookupFrom(_, _, _)
LookupFrom(b, i, p) == IF i = 0 THEN Unbound ELSE IF b[i][1] = p THEN b[i][2] ELSE LookupFrom(b, i - 1, p)
Lookup(b, p) == IF p = "xml" THEN XMLNS ELSE LookupFrom(b, Len(b), p)
DefaultNs(b) == LET r == Lookup(b, "") IN IF r = Unbound THEN "" ELSE r

(* =========================== (a) Resolve: the raw tree as a parser sees it ==================== *)
IsDecl(a)     == a.p = "xmlns" \/ (a.p = "" /\ a.l = "xmlns")
DeclPrefix(a) == IF a.p = "xmlns" THEN a.l ELSE ""
DeclsOf(e)    == SelectSeq(e.a, IsDecl)
PlainOf(e)    == SelectSeq(e.a, LAMBDA a : ~IsDecl(a))
Bind(b, e)    == LET d == DeclsOf(e) IN b \o [i \in 1..Len(d) |-> <<DeclPrefix(d[i]), d[i].v>>]
AttrUri(b, a) == IF a.p = "" THEN "" ELSE Lookup(b, a.p)
ElemUri(b, e) == IF e.p = "" THEN DefaultNs(b) ELSE Lookup(b, e.p)

(* Namespaces in XML 1.0 constraints met on one start tag (b = bindings inherited from the parent) *)
ElemFaults(e, b) ==
  LET d  == DeclsOf(e)
      pl == PlainOf(e)
      nb == Bind(b, e)
  IN  {"xmlns-prefix-declared"            : i \in {i \in 1..Len(d) : d[i].p = "xmlns" /\ d[i].l = "xmlns"}}
 \cup {"xml-prefix-rebound"               : i \in {i \in 1..Len(d) : d[i].p = "xmlns" /\ d[i].l = "xml" /\ d[i].v # XMLNS}}
 \cup {"xml-namespace-on-other-prefix"    : i \in {i \in 1..Len(d) : d[i].v = XMLNS /\ ~(d[i].p = "xmlns" /\ d[i].l = "xml")}}
 \cup {"xmlns-namespace-declared"         : i \in {i \in 1..Len(d) : d[i].v = XMLNSNS}}
 \cup {"prefix-undeclared"                : i \in {i \in 1..Len(d) : d[i].p = "xmlns" /\ d[i].v = ""}}
 \cup {"duplicate-attribute-qname"        : x \in {x \in Pairs(Len(e.a)) : e.a[x[1]].p = e.a[x[2]].p /\ e.a[x[1]].l = e.a[x[2]].l}}
 \cup {"xmlns-used-as-prefix"             : i \in {i \in {1} : e.p = "xmlns"}}
 \cup {"unbound-prefix"                   : i \in {i \in {1} : e.p # "" /\ e.p # "xmlns" /\ Lookup(nb, e.p) = Unbound}}
 \cup {"unbound-prefix"                   : i \in {i \in 1..Len(pl) : pl[i].p # "" /\ Lookup(nb, pl[i].p) = Unbound}}
 \cup {"duplicate-expanded-attribute-name" : x \in {x \in Pairs(Len(pl)) : pl[x[1]].l = pl[x[2]].l /\ AttrUri(nb, pl[x[1]]) = AttrUri(nb, pl[x[2]])
                                                                            /\ AttrUri(nb, pl[x[1]]) # Unbound}}

(* resolved node: expanded name, attributes as a set of <<uri, local, value>>, the declarations    *)
(* made on this start tag, the well-formedness faults met on it                                   *)
RECURSIVE Resolve(_, _)
Resolve(forest, b) ==
  [i \in 1..Len(forest) |->
     LET e == forest[i]
         nb == Bind(b, e)
     IN [u |-> ElemUri(nb, e), l |-> e.l, rawp |-> e.p,
         attrs  |-> {<<AttrUri(nb, a), a.l, a.v>> : a \in Ran(PlainOf(e))},
         decls  |-> {<<DeclPrefix(a), a.v>> : a \in Ran(DeclsOf(e))},
         inscope |-> nb,
         faults |-> ElemFaults(e, b),
         kids   |-> Resolve(e.c, nb)]]

RECURSIVE WFFaults(_)
WFFaults(res) == UNION {res[i].faults \cup WFFaults(res[i].kids) : i \in 1..Len(res)}
WellFormed(res) == WFFaults(res) = {}

(* ====================== (b) Requested: what the instructions ask for ========================== *)
(* xsl:namespace-alias: stylesheet-side URI -> result-side URI, applied to literal result         *)
(* elements and their attributes only (7.1.1)                                                     *)
AliasPairs(ss) == [i \in 1..Len(ss.alias) |-> <<Lookup(ss.nsd, ss.alias[i][1]), Lookup(ss.nsd, ss.alias[i][2])>>]
AliasS(ss) == {x[1] : x \in Ran(AliasPairs(ss))}
AliasR(ss) == {x[2] : x \in Ran(AliasPairs(ss))}
Aliased(ss, u) == LET r == LookupFrom(AliasPairs(ss), Len(ss.alias), u) IN IF r = Unbound THEN u ELSE r

(* excluded namespaces are URIs (7.1.1): every prefix listed designates the URI bound to it *)
ExclURIs(b, prefixes) == {Lookup(b, prefixes[i]) : i \in 1..Len(prefixes)}

(* 7.1.3: namespace attribute wins (empty = no namespace); else the prefix is expanded with the   *)
(* in-scope declarations of the instruction, the default namespace is NOT used                    *)
ReqAttrOf(b, ins) ==
  LET nb == b \o ins.nsd
  IN <<IF ins.hasNs THEN ins.ns ELSE IF ins.p = "" THEN "" ELSE Lookup(nb, ins.p), ins.l, ins.v>>

SetNamed(ss, n) == LET k == CHOOSE k \in 1..Len(ss.sets) : ss.sets[k].name = n IN ss.sets[k]
(* 7.1.4: the sets named in use-attribute-sets in order, each preceded by the sets it uses itself; *)
(* xsl:attribute children of a set see the declarations in scope at top level                      *)
RECURSIVE SetAttrs(_, _)
SetAttrs(ss, names) ==
  IF names = <<>> THEN <<>>
  ELSE LET s == SetNamed(ss, names[1])
       IN SetAttrs(ss, s.use) \o [i \in 1..Len(s.attrs) |-> ReqAttrOf(ss.nsd, s.attrs[i])] \o SetAttrs(ss, Tail(names))

SrcAttr(src, ins) == LET a == src.kids[ins.node].a[ins.a] IN <<a.u, a.l, a.v>>

IsAttrInstr(ins) == ins.i \in {"attribute", "copyattr", "copy-of-attr"}
(* attributes the instructions of a body add to the element that contains them, in order *)
BodyAttrs(src, b, body) ==
  LET at == SelectSeq(body, IsAttrInstr)
  IN [i \in 1..Len(at) |-> IF at[i].i = "attribute" THEN ReqAttrOf(b, at[i]) ELSE SrcAttr(src, at[i])]

(* an attribute added later replaces one with the same expanded name (7.1.3) *)
LastWins(s) == {s[i] : i \in {i \in 1..Len(s) : \A j \in (i + 1)..Len(s) : ~(s[j][1] = s[i][1] /\ s[j][2] = s[i][2])}}

(* the namespace nodes an element with the declarations b in scope has (XPath 5.4): one per prefix, the innermost declaration,  *)
(* none for an undeclared default namespace; the xml prefix is implicit everywhere and not listed                                *)
LatestBindings(b) == {<<b[i][1], b[i][2]>> : i \in {i \in 1..Len(b) : \A j \in (i + 1)..Len(b) : b[j][1] # b[i][1]}}
NsNodesOf(b) == {x \in LatestBindings(b) : x[2] \notin {"", Unbound} /\ x[1] \notin {"xml", "xmlns"}}

(* nsn = the namespace nodes the result element must HAVE: 11.3 / 7.5 copy those of the source element, 7.1.1 those of the      *)
(* literal result element in the stylesheet except the XSLT namespace and the excluded ones (nodes touched by an alias: the     *)
(* Recommendation does not say which prefix they get - not required here); xsl:element asks for none                             *)
RECURSIVE ReqCopyOfB(_, _)
ReqCopyOfB(e, b) == LET nb == b \o e.nsd IN
                [u |-> e.u, l |-> e.l, kind |-> "copy-of", excl |-> {}, aliasS |-> {},
                 attrs |-> {<<a.u, a.l, a.v>> : a \in Ran(e.a)}, nsn |-> NsNodesOf(nb),
                 kids  |-> [i \in 1..Len(e.c) |-> ReqCopyOfB(e.c[i], nb)]]

(* ex = namespace URIs excluded at this point of the stylesheet (stylesheet-level prefixes and     *)
(* xsl:exclude-result-prefixes of the enclosing literal result elements)                          *)
RECURSIVE ReqKids(_, _, _, _, _)
ReqNode(ss, src, b, ex, ins) ==
  CASE ins.i = "lre" ->
         LET nb  == b \o ins.nsd
             ex2 == ex \cup ExclURIs(nb, ins.excl)
             lit == [i \in 1..Len(ins.attrs) |->
                       <<IF ins.attrs[i].p = "" THEN "" ELSE Aliased(ss, Lookup(nb, ins.attrs[i].p)), ins.attrs[i].l, ins.attrs[i].v>>]
         IN [u |-> Aliased(ss, IF ins.p = "" THEN DefaultNs(nb) ELSE Lookup(nb, ins.p)), l |-> ins.l, kind |-> "lre",
             (* where aliasing and exclusion meet on one URI XSLT 1.0 is not precise: not judged *)
             excl |-> ex2 \ (AliasS(ss) \cup AliasR(ss)), aliasS |-> AliasS(ss) \ AliasR(ss),
             attrs |-> LastWins(SetAttrs(ss, ins.uas) \o lit \o BodyAttrs(src, nb, ins.body)),
             nsn |-> {x \in NsNodesOf(nb) : x[2] # XSLTNS /\ x[2] \notin ex2 /\ x[2] \notin (AliasS(ss) \cup AliasR(ss))},
             kids |-> ReqKids(ss, src, nb, ex2, ins.body)]
    [] ins.i = "element" ->
         LET nb == b \o ins.nsd
         IN [u |-> IF ins.hasNs THEN ins.ns ELSE IF ins.p = "" THEN DefaultNs(nb) ELSE Lookup(nb, ins.p), l |-> ins.l,
             kind |-> "element", excl |-> {}, aliasS |-> {}, nsn |-> {},
             attrs |-> LastWins(SetAttrs(ss, ins.uas) \o BodyAttrs(src, nb, ins.body)),
             kids |-> ReqKids(ss, src, nb, ex, ins.body)]
    [] ins.i = "copy" ->
         LET e == src.kids[ins.node]
         IN [u |-> e.u, l |-> e.l, kind |-> "copy", excl |-> {}, aliasS |-> {}, nsn |-> NsNodesOf(src.nsd \o e.nsd),
             attrs |-> LastWins(SetAttrs(ss, ins.uas) \o BodyAttrs(src, b, ins.body)),
             kids |-> ReqKids(ss, src, b, ex, ins.body)]
    [] ins.i = "copy-of" -> ReqCopyOfB(src.kids[ins.node], src.nsd)
ReqKids(ss, src, b, ex, body) ==
  LET el == SelectSeq(body, LAMBDA x : ~IsAttrInstr(x))
  IN [i \in 1..Len(el) |-> ReqNode(ss, src, b, ex, el[i])]

Requested(ss, src) == ReqKids(ss, src, ss.nsd, ExclURIs(ss.nsd, ss.excl), ss.body)

(* the request itself is outside XSLT (a prefix with no declaration in scope): not judged *)
RECURSIVE ReqUnbound(_)
ReqUnbound(req) == \E i \in 1..Len(req) : \/ req[i].u = Unbound
                                          \/ \E a \in req[i].attrs : a[1] = Unbound
                                          \/ ReqUnbound(req[i].kids)

(* ================================ (c) the obligations ========================================= *)
RECURSIVE SameShape(_, _)
SameShape(req, res) == Len(req) = Len(res) /\ \A i \in 1..Len(req) : SameShape(req[i].kids, res[i].kids)

Names(attrs) == {<<a[1], a[2]>> : a \in attrs}
NameFaultsAt(q, r) ==
      (IF q.u = r.u /\ q.l = r.l THEN {}
       ELSE IF q.l = r.l /\ q.u = "" /\ r.rawp = "" THEN {"default-namespace-leak"}   \* no-namespace element under an inherited default namespace
       ELSE {"element-name"})
 \cup (IF Names(q.attrs) # Names(r.attrs) THEN {"attribute-name"}
       ELSE IF q.attrs # r.attrs THEN {"attribute-value"} ELSE {})

(* declarations that must not be made on this start tag *)
DeclFaultsAt(q, r) ==
  LET needed == {q.u} \cup {a[1] : a \in q.attrs}
  IN  {"excluded-namespace-declared"         : d \in {d \in r.decls : q.kind = "lre" /\ d[2] \in q.excl /\ d[2] \notin needed}}
 \cup {"alias-stylesheet-namespace-declared" : d \in {d \in r.decls : q.kind = "lre" /\ d[2] \in q.aliasS /\ d[2] \notin needed}}
 \cup {"xslt-namespace-declared"             : d \in {d \in r.decls : d[2] = XSLTNS /\ d[2] \notin needed}}

(* C01 (the namespaces of the result tree): every namespace node the element must have is in scope on it, with that prefix *)
RECURSIVE NsNodeFaultsAt(_, _, _)
NsNodeFaultsAt(req, res, path) ==
  UNION {{<<"namespace-node-missing", req[i].kind, req[i].l, x[1], x[2], Append(path, i)>> :
             x \in {x \in req[i].nsn : Lookup(res[i].inscope, x[1]) # x[2]}}
         \cup NsNodeFaultsAt(req[i].kids, res[i].kids, Append(path, i)) : i \in 1..Len(req)}
NsNodeFaults(req, res) == NsNodeFaultsAt(req, res, <<>>)
ObservedNsNodeFaults(req, raw, parsed) ==
  LET a == Resolve(raw, <<>>)  b == Resolve(parsed, <<>>) IN
  (IF SameShape(req, a) THEN NsNodeFaults(req, a) ELSE {}) \cup (IF SameShape(req, b) THEN NsNodeFaults(req, b) ELSE {})

RECURSIVE TreeFaults(_, _)
TreeFaults(req, res) ==
  UNION {NameFaultsAt(req[i], res[i]) \cup DeclFaultsAt(req[i], res[i]) \cup TreeFaults(req[i].kids, res[i].kids) : i \in 1..Len(req)}

SameNames(req, res)          == SameShape(req, res) /\ TreeFaults(req, res) \cap {"element-name", "default-namespace-leak", "attribute-name", "attribute-value"} = {}
NoUndeclaredPrefix(res)      == "unbound-prefix" \notin WFFaults(res)
NoDuplicateAttribute(res)    == "duplicate-expanded-attribute-name" \notin WFFaults(res)
NoExcludedNamespace(req, res) == SameShape(req, res) => "excluded-namespace-declared" \notin TreeFaults(req, res)
NoAliasSource(req, res)      == SameShape(req, res) => "alias-stylesheet-namespace-declared" \notin TreeFaults(req, res)
NoXSLTNamespace(req, res)    == SameShape(req, res) => "xslt-namespace-declared" \notin TreeFaults(req, res)

FaultsOf(req, raw) ==
  LET res == Resolve(raw, <<>>)
  IN WFFaults(res) \cup (IF SameShape(req, res) THEN TreeFaults(req, res) ELSE {"shape"})
(* two observations of one transformation: the raw result-tree events, and the serialised result  *)
(* as re-parsed by an independent namespace-aware parser (perr = its error, "" if none)            *)
ObservedFaults(req, raw, parsed, perr) ==
  FaultsOf(req, raw) \cup (IF perr # "" THEN {"serialised-result-not-wellformed"} ELSE FaultsOf(req, parsed))
Faults(ss, src, raw) == FaultsOf(Requested(ss, src), raw)
Holds(ss, src, raw)  == Faults(ss, src, raw) = {}
=============================================================================
