------------------------------ MODULE NodeList ------------------------------
(* Abstract model of a node list as the XPath evaluator uses it (property C12).                  *)
(* A node reference is <<d, i>>: document number d and position i of the node in the document   *)
(* order of that document (XDM.tla numbers nodes in document order: root, an element before its  *)
(* attributes, those before its children, siblings left to right).                               *)
EXTENDS Naturals, Sequences, FiniteSets, SequencesExt

Doc(n) == n[1]
Idx(n) == n[2]

NoDup(s) == Cardinality(Range(s)) = Len(s)

(* nodes of different documents are never interleaved *)
Grouped(s) == \A i, k \in 1..Len(s) : i < k /\ Doc(s[i]) = Doc(s[k]) =>
                 \A j \in i..k : Doc(s[j]) = Doc(s[i])

DocOrdered(s) == /\ NoDup(s)
                 /\ Grouped(s)
                 /\ \A i, j \in 1..Len(s) : i < j /\ Doc(s[i]) = Doc(s[j]) => Idx(s[i]) < Idx(s[j])

RevOrdered(s) == DocOrdered(Reverse(s))

Flags == {"unknown", "doc", "rev"}

(* the order flag is a promise to every consumer of the list *)
Honest(s, flag) == /\ flag = "doc" => DocOrdered(s)
                   /\ flag = "rev" => RevOrdered(s)

(* r is a legal result of adding the nodes N, in document order, to the document-ordered set s.  *)
(* The relative order of different documents is an implementation choice; it must only be        *)
(* consistent (grouped).                                                                         *)
IsUnion(r, s, N) == DocOrdered(r) /\ Range(r) = Range(s) \cup N

FlipFlag(f) == CASE f = "doc" -> "rev" [] f = "rev" -> "doc" [] OTHER -> f

(* ---- the abstract operations as relations between the list before and after -------------- *)
(* pre/post are records [list, flag]                                                            *)
PostAddNode(pre, n, post)      == post.list = Append(pre.list, n) /\ post.flag = pre.flag
PreAddInOrder(pre)             == DocOrdered(pre.list) /\ pre.flag # "rev"   \* caller obligation
PostAddInOrder(pre, n, post)   == IsUnion(post.list, pre.list, {n}) /\ post.flag = pre.flag
PreAddAllInOrder(pre, src)     == DocOrdered(pre.list) /\ pre.flag # "rev" /\ Honest(src.list, src.flag) /\ NoDup(src.list)
PostAddAllInOrder(pre, src, post) == IsUnion(post.list, pre.list, Range(src.list)) /\ post.flag = pre.flag
PostClear(pre, post)           == post.list = <<>> /\ post.flag = "unknown"
PostReverse(pre, post)         == post.list = Reverse(pre.list) /\ post.flag = FlipFlag(pre.flag)
PreSetFlag(pre, f)             == Honest(pre.list, f)
PostSetFlag(pre, f, post)      == post.list = pre.list /\ post.flag = f
=============================================================================
