--------------------------- MODULE StylesheetTree ---------------------------
(* XSLT 1.0 section 3.4 for the STYLESHEET tree: what the children of a literal result element in a template     *)
(* contribute to the result, given the element's content as the parser sees it.                                  *)
(*   content item: [k |-> "t", s]   character data (adjacent items are one text node: XPath 5.7)                 *)
(*                 [k |-> "c"]      a comment        [k |-> "pi"]  a processing instruction                       *)
(*                 [k |-> "e"]      an (empty) literal result element <e/>                                        *)
(*                 [k |-> "xt", s]  <xsl:text>s</xsl:text>                                                        *)
(* A text node is a maximal run of character data: elements, comments and processing instructions end it.        *)
(* A text node that contains only white space is stripped from the stylesheet unless an ancestor has              *)
(* xml:space="preserve" or it is the content of xsl:text; comments and processing instructions produce nothing.   *)
(* Result: the sequence of result children, adjacent text merged: [k |-> "text", s] / [k |-> "elem"].             *)
EXTENDS Naturals, Sequences

IsWs(ch) == ch \in {32, 9, 10, 13}
WhitespaceOnly(s) == \A i \in 1..Len(s) : IsWs(s[i])

(* the nodes of the stylesheet tree: character data merged into text nodes *)
RECURSIVE Nodes(_)
Nodes(raw) ==
  IF raw = <<>> THEN <<>>
  ELSE LET r == Nodes(Tail(raw))  h == Head(raw) IN
       IF h.k = "t" /\ r # <<>> /\ r[1].k = "t" THEN <<[k |-> "t", s |-> h.s \o r[1].s]>> \o Tail(r)
       ELSE <<h>> \o r

RECURSIVE Merge(_)
Merge(items) ==
  IF items = <<>> THEN <<>>
  ELSE LET r == Merge(Tail(items))  h == Head(items) IN
       IF h.k = "text" /\ h.s = <<>> THEN r
       ELSE IF h.k = "text" /\ r # <<>> /\ r[1].k = "text" THEN <<[k |-> "text", s |-> h.s \o r[1].s]>> \o Tail(r)
       ELSE <<h>> \o r

Contribution(n, preserve) ==
  CASE n.k = "t"  -> IF preserve \/ ~WhitespaceOnly(n.s) THEN <<[k |-> "text", s |-> n.s]>> ELSE <<>>
    [] n.k = "xt" -> <<[k |-> "text", s |-> n.s]>>
    [] n.k = "e"  -> <<[k |-> "elem"]>>
    [] OTHER      -> <<>>

RECURSIVE Flat(_, _)
Flat(ns, preserve) == IF ns = <<>> THEN <<>> ELSE Contribution(Head(ns), preserve) \o Flat(Tail(ns), preserve)

ResultChildren(raw, preserve) == Merge(Flat(Nodes(raw), preserve))

(* "an ancestor has xml:space=preserve": the xml:space attributes of the element and its ancestors IN ITS OWN STYLESHEET DOCUMENT,      *)
(* outermost (xsl:stylesheet) first, each "none" / "preserve" / "default"; the nearest one that is given decides (3.4: "... and no       *)
(* closer ancestor element has xml:space with a value of default").  A document that is included or imported is a tree of its own: what *)
(* the including document says on its xsl:stylesheet element is not in the chain.                                                      *)
Preserved(chain) == LET S == {i \in 1..Len(chain) : chain[i] # "none"} IN
                    S # {} /\ chain[CHOOSE i \in S : \A j \in S : j <= i] = "preserve"

(* the reading of a processor whose parser does not report comments (they do not end a text node); used to NAME  *)
(* that deviation, never to accept it                                                                             *)
WithoutComments(raw) == SelectSeq(raw, LAMBDA x : x.k # "c")
ResultChildrenCommentsInvisible(raw, preserve) == ResultChildren(WithoutComments(raw), preserve)
=============================================================================
