----------------------------- MODULE XPathSyntax -----------------------------
(* The XPath 1.0 grammar (Recommendation section 2-3, productions [1]-[39]) as a recursive-      *)
(* descent parser over raw lexemes, producing the ASTs XPathSem!Eval interprets.  It defines      *)
(* which token strings ARE expressions, their precedence and left associativity, the abbreviated  *)
(* syntax, and the lexical disambiguation of 3.7 (after an operand, '*' is the multiply operator   *)
(* and and/or/div/mod are operator names; elsewhere they are name tests; a name followed by '(' is *)
(* a node type or function name; a name followed by '::' is an axis name).                         *)
(* A lexeme is [k, s, cp]: k in {"sym","name","num","lit"}, s the text (TLC string, for symbols    *)
(* and names), cp its code points (names: the whole QName; lit: the content without quotes).       *)
(* ns: [prefix string -> namespace URI code points] for QName resolution.                          *)
EXTENDS XPathSem

Fail == [ok |-> FALSE, ast |-> 0, p |-> 0]
Ok(ast, p) == [ok |-> TRUE, ast |-> ast, p |-> p]

IsSym(ts, p, str) == p <= Len(ts) /\ ts[p].k = "sym" /\ ts[p].s = str
IsName(ts, p) == p <= Len(ts) /\ ts[p].k = "name"
IsNameS(ts, p, str) == IsName(ts, p) /\ ts[p].s = str

AxisNames == {"ancestor", "ancestor-or-self", "attribute", "child", "descendant", "descendant-or-self",
              "following", "following-sibling", "namespace", "parent", "preceding", "preceding-sibling", "self"}
NodeTypes == {"comment", "text", "processing-instruction", "node"}

(* core function library with the admissible numbers of arguments (4.1-4.4) + current() of XSLT *)
Arity == [last |-> {0}, position |-> {0}, count |-> {1}, id |-> {1}, name |-> {0, 1}, string |-> {0, 1},
          concat |-> 2..8, contains |-> {2}, substring |-> {2, 3}, translate |-> {3}, boolean |-> {1},
          not |-> {1}, true |-> {0}, false |-> {0}, lang |-> {1}, number |-> {0, 1}, sum |-> {1}, floor |-> {1},
          ceiling |-> {1}, round |-> {1}, current |-> {0}, key |-> {2}]
Arity2 == [x \in {"local-name", "namespace-uri", "string-length", "normalize-space"} |-> {0, 1}] @@
          [x \in {"starts-with", "substring-before", "substring-after"} |-> {2}]
(* the bundled extension libraries: namespace URI (code points) -> library tag, and their functions *)
ExtLibs == << [lib |-> "set",   uri |-> <<104,116,116,112,58,47,47,101,120,115,108,116,46,111,114,103,47,115,101,116,115>>],
              [lib |-> "math",  uri |-> <<104,116,116,112,58,47,47,101,120,115,108,116,46,111,114,103,47,109,97,116,104>>],
              [lib |-> "exsl",  uri |-> <<104,116,116,112,58,47,47,101,120,115,108,116,46,111,114,103,47,99,111,109,109,111,110>>],
              [lib |-> "str",   uri |-> <<104,116,116,112,58,47,47,101,120,115,108,116,46,111,114,103,47,115,116,114,105,110,103,115>>],
              [lib |-> "xalan", uri |-> <<104,116,116,112,58,47,47,120,109,108,46,97,112,97,99,104,101,46,111,114,103,47,120,97,108,97,110>>],
              [lib |-> "dyn",   uri |-> <<104,116,116,112,58,47,47,101,120,115,108,116,46,111,114,103,47,100,121,110,97,109,105,99>>] >>
ExtFns == [set |-> {<<100,105,102,102,101,114,101,110,99,101>>, <<105,110,116,101,114,115,101,99,116,105,111,110>>, <<100,105,115,116,105,110,99,116>>,
                    <<104,97,115,45,115,97,109,101,45,110,111,100,101>>, <<108,101,97,100,105,110,103>>, <<116,114,97,105,108,105,110,103>>},
           math |-> {<<109,105,110>>, <<109,97,120>>, <<104,105,103,104,101,115,116>>, <<108,111,119,101,115,116>>, <<97,98,115>>, <<99,111,110,115,116,97,110,116>>},
           exsl |-> {<<111,98,106,101,99,116,45,116,121,112,101>>, <<110,111,100,101,45,115,101,116>>},
           str |-> {<<99,111,110,99,97,116>>, <<112,97,100,100,105,110,103>>, <<97,108,105,103,110>>},
           xalan |-> {<<100,105,102,102,101,114,101,110,99,101>>, <<105,110,116,101,114,115,101,99,116,105,111,110>>, <<100,105,115,116,105,110,99,116>>,
                      <<104,97,115,83,97,109,101,78,111,100,101,115>>, <<101,118,97,108,117,97,116,101>>},
           dyn |-> {<<101,118,97,108,117,97,116,101>>}]
LibOfUri(u) == LET S == {k \in 1..Len(ExtLibs) : ExtLibs[k].uri = u} IN IF S = {} THEN "" ELSE ExtLibs[CHOOSE k \in S : TRUE].lib
(* names as TLC strings for the AST (the lexeme text after the colon) *)
KnownFn(f) == f \in DOMAIN Arity \/ f \in DOMAIN Arity2
ArityOf(f) == IF f \in DOMAIN Arity THEN Arity[f] ELSE Arity2[f]

(* QName / NameTest resolution: [ok, test] ; cp is the lexeme's code points, possibly "p:l" or "p:*" or "*" *)
ColonAt(cp) == LET S == {i \in 1..Len(cp) : cp[i] = 58} IN IF S = {} THEN 0 ELSE Min(S)
CpToStr(ns, cp) == CHOOSE k \in DOMAIN ns : ns[k].p = cp          \* ns: sequence of [p (prefix cps), u (uri cps)]
HasPrefix(ns, pfx) == \E k \in DOMAIN ns : ns[k].p = pfx
UriOfPrefix(ns, pfx) == ns[CHOOSE k \in DOMAIN ns : ns[k].p = pfx].u
NameTestOf(ns, cp) ==
  LET c == ColonAt(cp) IN
  IF cp = <<42>> THEN [ok |-> TRUE, test |-> [t |-> "any"]]
  ELSE IF c = 0 THEN [ok |-> TRUE, test |-> [t |-> "name", uri |-> <<>>, local |-> cp]]
  ELSE LET pfx == SubSeq(cp, 1, c - 1)  loc == SubSeq(cp, c + 1, Len(cp)) IN
       IF ~HasPrefix(ns, pfx) THEN [ok |-> FALSE, test |-> 0]
       ELSE IF loc = <<42>> THEN [ok |-> TRUE, test |-> [t |-> "nsany", uri |-> UriOfPrefix(ns, pfx)]]
       ELSE [ok |-> TRUE, test |-> [t |-> "name", uri |-> UriOfPrefix(ns, pfx), local |-> loc]]

DosStep == [axis |-> "descendant-or-self", test |-> [t |-> "node"], preds |-> <<>>]
NoStart == [op |-> "none"]

RECURSIVE PExpr(_, _, _), POr(_, _, _, _), PAnd(_, _, _), PAndTail(_, _, _, _), PEq(_, _, _), PEqTail(_, _, _, _),
          PRel(_, _, _), PRelTail(_, _, _, _), PAdd(_, _, _), PAddTail(_, _, _, _), PMul(_, _, _), PMulTail(_, _, _, _),
          PUnary(_, _, _), PUnion(_, _, _), PUnionTail(_, _, _, _), PPath(_, _, _), PRelPath(_, _, _, _), PStep(_, _, _),
          PPreds(_, _, _, _), PPrimary(_, _, _), PArgs(_, _, _, _)

Bin(o, a, b) == [op |-> "bin", o |-> o, a |-> a, b |-> b]

PExpr(ts, p, ns) == LET l == PAnd(ts, p, ns) IN IF ~l.ok THEN Fail ELSE POr(ts, l.p, ns, l.ast)
POr(ts, p, ns, left) ==
  IF IsNameS(ts, p, "or") THEN LET r == PAnd(ts, p + 1, ns) IN IF ~r.ok THEN Fail ELSE POr(ts, r.p, ns, Bin("or", left, r.ast))
  ELSE Ok(left, p)
PAnd(ts, p, ns) == LET l == PEq(ts, p, ns) IN IF ~l.ok THEN Fail ELSE PAndTail(ts, l.p, ns, l.ast)
PAndTail(ts, p, ns, left) ==
  IF IsNameS(ts, p, "and") THEN LET r == PEq(ts, p + 1, ns) IN IF ~r.ok THEN Fail ELSE PAndTail(ts, r.p, ns, Bin("and", left, r.ast))
  ELSE Ok(left, p)
PEq(ts, p, ns) == LET l == PRel(ts, p, ns) IN IF ~l.ok THEN Fail ELSE PEqTail(ts, l.p, ns, l.ast)
PEqTail(ts, p, ns, left) ==
  IF IsSym(ts, p, "=") \/ IsSym(ts, p, "!=")
  THEN LET r == PRel(ts, p + 1, ns) IN IF ~r.ok THEN Fail ELSE PEqTail(ts, r.p, ns, Bin(ts[p].s, left, r.ast))
  ELSE Ok(left, p)
PRel(ts, p, ns) == LET l == PAdd(ts, p, ns) IN IF ~l.ok THEN Fail ELSE PRelTail(ts, l.p, ns, l.ast)
PRelTail(ts, p, ns, left) ==
  IF IsSym(ts, p, "<") \/ IsSym(ts, p, "<=") \/ IsSym(ts, p, ">") \/ IsSym(ts, p, ">=")
  THEN LET r == PAdd(ts, p + 1, ns) IN IF ~r.ok THEN Fail ELSE PRelTail(ts, r.p, ns, Bin(ts[p].s, left, r.ast))
  ELSE Ok(left, p)
PAdd(ts, p, ns) == LET l == PMul(ts, p, ns) IN IF ~l.ok THEN Fail ELSE PAddTail(ts, l.p, ns, l.ast)
PAddTail(ts, p, ns, left) ==
  IF IsSym(ts, p, "+") \/ IsSym(ts, p, "-")
  THEN LET r == PMul(ts, p + 1, ns) IN IF ~r.ok THEN Fail ELSE PAddTail(ts, r.p, ns, Bin(ts[p].s, left, r.ast))
  ELSE Ok(left, p)
PMul(ts, p, ns) == LET l == PUnary(ts, p, ns) IN IF ~l.ok THEN Fail ELSE PMulTail(ts, l.p, ns, l.ast)
PMulTail(ts, p, ns, left) ==
  \* after an operand: '*' is the multiply operator, div/mod are operator names (3.7)
  IF IsSym(ts, p, "*") \/ IsNameS(ts, p, "div") \/ IsNameS(ts, p, "mod") \/ (IsName(ts, p) /\ ts[p].cp = <<42>>)
  THEN LET r == PUnary(ts, p + 1, ns)
           o == IF ts[p].s \in {"div", "mod"} THEN ts[p].s ELSE "*" IN
       IF ~r.ok THEN Fail ELSE PMulTail(ts, r.p, ns, Bin(o, left, r.ast))
  ELSE Ok(left, p)
PUnary(ts, p, ns) ==
  IF IsSym(ts, p, "-") THEN LET r == PUnary(ts, p + 1, ns) IN IF ~r.ok THEN Fail ELSE Ok([op |-> "neg", a |-> r.ast], r.p)
  ELSE PUnion(ts, p, ns)
PUnion(ts, p, ns) == LET l == PPath(ts, p, ns) IN IF ~l.ok THEN Fail ELSE PUnionTail(ts, l.p, ns, l.ast)
PUnionTail(ts, p, ns, left) ==
  IF IsSym(ts, p, "|") THEN LET r == PPath(ts, p + 1, ns) IN IF ~r.ok THEN Fail ELSE PUnionTail(ts, r.p, ns, Bin("|", left, r.ast))
  ELSE Ok(left, p)

(* can a step start at p?  '.', '..', '@', '*', a name (NameTest / axis / node type) *)
StepStart(ts, p) == IsSym(ts, p, ".") \/ IsSym(ts, p, "..") \/ IsSym(ts, p, "@") \/ IsSym(ts, p, "*") \/
                    (IsName(ts, p) /\ ~(IsSym(ts, p + 1, "(") /\ ts[p].s \notin NodeTypes))
(* a primary expression starts at p: '$', '(', literal, number, or FunctionName '(' *)
PrimaryStart(ts, p) == IsSym(ts, p, "$") \/ IsSym(ts, p, "(") \/ (p <= Len(ts) /\ ts[p].k \in {"lit", "num"}) \/
                       (IsName(ts, p) /\ IsSym(ts, p + 1, "(") /\ ts[p].s \notin NodeTypes)

PPath(ts, p, ns) ==
  IF IsSym(ts, p, "/")
  THEN IF StepStart(ts, p + 1)
       THEN LET r == PRelPath(ts, p + 1, ns, <<>>) IN
            IF ~r.ok THEN Fail ELSE Ok([op |-> "path", abs |-> TRUE, start |-> NoStart, steps |-> r.ast], r.p)
       ELSE Ok([op |-> "path", abs |-> TRUE, start |-> NoStart, steps |-> <<>>], p + 1)
  ELSE IF IsSym(ts, p, "//")
  THEN LET r == PRelPath(ts, p + 1, ns, <<DosStep>>) IN
       IF ~r.ok THEN Fail ELSE Ok([op |-> "path", abs |-> TRUE, start |-> NoStart, steps |-> r.ast], r.p)
  ELSE IF PrimaryStart(ts, p)
  THEN LET pr == PPrimary(ts, p, ns) IN
       IF ~pr.ok THEN Fail
       ELSE LET ps == PPreds(ts, pr.p, ns, <<>>) IN
            IF ~ps.ok THEN Fail
            ELSE LET fe == IF Len(ps.ast) = 0 THEN pr.ast ELSE [op |-> "filter", e |-> pr.ast, preds |-> ps.ast] IN
                 IF IsSym(ts, ps.p, "/") \/ IsSym(ts, ps.p, "//")
                 THEN LET r == PRelPath(ts, ps.p + 1, ns, IF ts[ps.p].s = "//" THEN <<DosStep>> ELSE <<>>) IN
                      IF ~r.ok THEN Fail ELSE Ok([op |-> "path", abs |-> FALSE, start |-> fe, steps |-> r.ast], r.p)
                 ELSE Ok(fe, ps.p)
  ELSE LET r == PRelPath(ts, p, ns, <<>>) IN
       IF ~r.ok THEN Fail ELSE Ok([op |-> "path", abs |-> FALSE, start |-> NoStart, steps |-> r.ast], r.p)

(* RelativeLocationPath: Step (('/' | '//') Step)*, appended to the steps collected so far *)
PRelPath(ts, p, ns, acc) ==
  LET s == PStep(ts, p, ns) IN
  IF ~s.ok THEN Fail
  ELSE LET acc2 == Append(acc, s.ast) IN
       IF IsSym(ts, s.p, "/") THEN PRelPath(ts, s.p + 1, ns, acc2)
       ELSE IF IsSym(ts, s.p, "//") THEN PRelPath(ts, s.p + 1, ns, Append(acc2, DosStep))
       ELSE Ok(acc2, s.p)

PPreds(ts, p, ns, acc) ==
  IF IsSym(ts, p, "[")
  THEN LET e == PExpr(ts, p + 1, ns) IN
       IF ~e.ok \/ ~IsSym(ts, e.p, "]") THEN Fail ELSE PPreds(ts, e.p + 1, ns, Append(acc, e.ast))
  ELSE Ok(acc, p)

(* NodeTest at p for the given axis, then predicates *)
NodeTestAt(ts, p, ns) ==
  IF IsSym(ts, p, "*") THEN [ok |-> TRUE, test |-> [t |-> "any"], p |-> p + 1]
  ELSE IF ~IsName(ts, p) THEN [ok |-> FALSE, test |-> 0, p |-> 0]
  ELSE IF IsSym(ts, p + 1, "(")
       THEN IF ts[p].s \notin NodeTypes THEN [ok |-> FALSE, test |-> 0, p |-> 0]
            ELSE IF ts[p].s = "processing-instruction" /\ p + 2 <= Len(ts) /\ ts[p + 2].k = "lit" /\ IsSym(ts, p + 3, ")")
                 THEN [ok |-> TRUE, test |-> [t |-> "pi", hasTarget |-> TRUE, target |-> ts[p + 2].cp], p |-> p + 4]
            ELSE IF ~IsSym(ts, p + 2, ")") THEN [ok |-> FALSE, test |-> 0, p |-> 0]
            ELSE [ok |-> TRUE, p |-> p + 3,
                  test |-> CASE ts[p].s = "node" -> [t |-> "node"] [] ts[p].s = "text" -> [t |-> "text"]
                             [] ts[p].s = "comment" -> [t |-> "comment"]
                             [] OTHER -> [t |-> "pi", hasTarget |-> FALSE, target |-> <<>>]]
  ELSE LET nt == NameTestOf(ns, ts[p].cp) IN
       IF ~nt.ok THEN [ok |-> FALSE, test |-> 0, p |-> 0] ELSE [ok |-> TRUE, test |-> nt.test, p |-> p + 1]

PStep(ts, p, ns) ==
  IF IsSym(ts, p, ".") THEN Ok([axis |-> "self", test |-> [t |-> "node"], preds |-> <<>>], p + 1)
  ELSE IF IsSym(ts, p, "..") THEN Ok([axis |-> "parent", test |-> [t |-> "node"], preds |-> <<>>], p + 1)
  ELSE LET hasAxis == IsName(ts, p) /\ IsSym(ts, p + 1, "::")
           axis == IF hasAxis THEN ts[p].s ELSE IF IsSym(ts, p, "@") THEN "attribute" ELSE "child"
           q == IF hasAxis THEN p + 2 ELSE IF IsSym(ts, p, "@") THEN p + 1 ELSE p IN
       IF hasAxis /\ axis \notin AxisNames THEN Fail
       ELSE LET nt == NodeTestAt(ts, q, ns) IN
            IF ~nt.ok THEN Fail
            ELSE LET ps == PPreds(ts, nt.p, ns, <<>>) IN
                 IF ~ps.ok THEN Fail ELSE Ok([axis |-> axis, test |-> nt.test, preds |-> ps.ast], ps.p)

PArgs(ts, p, ns, acc) ==      \* p is just after '(' or ','
  IF IsSym(ts, p, ")") /\ Len(acc) = 0 THEN Ok(acc, p + 1)
  ELSE LET e == PExpr(ts, p, ns) IN
       IF ~e.ok THEN Fail
       ELSE IF IsSym(ts, e.p, ",") THEN PArgs(ts, e.p + 1, ns, Append(acc, e.ast))
       ELSE IF IsSym(ts, e.p, ")") THEN Ok(Append(acc, e.ast), e.p + 1)
       ELSE Fail

PPrimary(ts, p, ns) ==
  IF IsSym(ts, p, "$") THEN (IF IsName(ts, p + 1) /\ ColonAt(ts[p + 1].cp) = 0 /\ ts[p + 1].cp # <<42>>
                             THEN Ok([op |-> "var", name |-> ts[p + 1].s], p + 2) ELSE Fail)
  ELSE IF IsSym(ts, p, "(") THEN LET e == PExpr(ts, p + 1, ns) IN IF ~e.ok \/ ~IsSym(ts, e.p, ")") THEN Fail ELSE Ok(e.ast, e.p + 1)
  ELSE IF p <= Len(ts) /\ ts[p].k = "lit" THEN Ok([op |-> "str", v |-> ts[p].cp], p + 1)
  ELSE IF p <= Len(ts) /\ ts[p].k = "num" THEN Ok([op |-> "num", v |-> StrToNum(ts[p].cp)], p + 1)
  ELSE IF IsName(ts, p) /\ IsSym(ts, p + 1, "(") /\ ts[p].s \notin NodeTypes
       THEN LET a == PArgs(ts, p + 2, ns, <<>>) IN
            IF ~a.ok THEN Fail
            ELSE IF ColonAt(ts[p].cp) # 0
                 THEN \* an extension function: the prefix must be bound to a bundled library that has this function
                      LET c0 == ColonAt(ts[p].cp)
                          pfx == SubSeq(ts[p].cp, 1, c0 - 1)
                          loc == SubSeq(ts[p].cp, c0 + 1, Len(ts[p].cp))
                          lib == IF HasPrefix(ns, pfx) THEN LibOfUri(UriOfPrefix(ns, pfx)) ELSE "" IN
                      IF lib = "" \/ loc \notin ExtFns[lib] THEN Fail
                      ELSE Ok([op |-> "xfn", lib |-> lib, name |-> ts[p].xname, args |-> a.ast], a.p)
            ELSE IF ~KnownFn(ts[p].s) THEN Fail
            \* A call with the wrong number of arguments is derivable from the grammar (production [16]); 3.2 makes it "an error",
            \* without saying when.  It parses to a node whose EVALUATION is an error (XPathSem!Eval), and a processor may also
            \* refuse the whole expression up front (HasBadCall, used by the trace specs to accept either).
            ELSE IF Len(a.ast) \notin ArityOf(ts[p].s) THEN Ok([op |-> "badcall", name |-> ts[p].s, args |-> a.ast], a.p)
            ELSE Ok([op |-> "fn", name |-> ts[p].s, args |-> a.ast], a.p)
  ELSE Fail

(* the whole token string must be consumed *)
Parse(ts, ns) == LET r == PExpr(ts, 1, ns) IN IF r.ok /\ r.p = Len(ts) + 1 THEN r ELSE Fail

(* does the expression contain a call with the wrong number of arguments (anywhere, evaluated or not) *)
RECURSIVE HasBadCall(_)
HasBadCallSeq(es) == \E i \in 1..Len(es) : HasBadCall(es[i])
HasBadCall(e) ==
  CASE e.op = "badcall" -> TRUE
    [] e.op \in {"fn", "xfn"} -> HasBadCallSeq(e.args)
    [] e.op = "bin" -> HasBadCall(e.a) \/ HasBadCall(e.b)
    [] e.op = "neg" -> HasBadCall(e.a)
    [] e.op = "filter" -> HasBadCall(e.e) \/ HasBadCallSeq(e.preds)
    [] e.op = "path" -> HasBadCall(e.start) \/ \E i \in 1..Len(e.steps) : HasBadCallSeq(e.steps[i].preds)
    [] OTHER -> FALSE

RECURSIVE HasUnmLiteral(_)
HasUnmLiteral(ts) == \E i \in 1..Len(ts) : ts[i].k = "num" /\ IsUnm(StrToNum(ts[i].cp))
=============================================================================
