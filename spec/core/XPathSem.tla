------------------------------ MODULE XPathSem ------------------------------
(* XPath 1.0 semantics as an executable definition: Eval(e, c) for expression ASTs e and         *)
(* contexts c = [f |-> forest, n |-> context node, pos, size, vars |-> [name -> value],          *)
(*               cur |-> current() node, keys |-> sequence of xsl:key declarations].             *)
(* Values are tagged records [t, v]: "ns" (set of nodes), "bool", "num" (XNum), "str"            *)
(* (sequence of code points), plus two non-values that propagate: "unm" (the exact result left   *)
(* the modelled number domain - the case is dropped) and "err" (a dynamic type error).           *)
(* Match patterns are the same ASTs; Matches is the definition of XSLT 5.2.                      *)
EXTENDS XDM, XNum, TLC

NS(S) == [t |-> "ns", v |-> S]
BV(b) == [t |-> "bool", v |-> b]
NV(x) == IF IsUnm(x) THEN [t |-> "unm", v |-> 0] ELSE [t |-> "num", v |-> x]
SV(s) == [t |-> "str", v |-> s]
UnmV  == [t |-> "unm", v |-> 0]
ErrV  == [t |-> "err", v |-> 0]
Bad(v) == v.t \in {"unm", "err"}
(* first bad value among a sequence of values, err before unm *)
BadOf(vs) == IF \E i \in 1..Len(vs) : vs[i].t = "err" THEN ErrV ELSE UnmV
AnyBad(vs) == \E i \in 1..Len(vs) : Bad(vs[i])

FirstInDocOrder(S) == CHOOSE n \in S : \A m \in S : m = n \/ Before(n, m)

StrTrue  == <<116, 114, 117, 101>>
StrFalse == <<102, 97, 108, 115, 101>>

(* result tree fragments (XSLT 11.1): a value [t |-> "rtf", v |-> sequence of result items]; an   *)
(* item is [k |-> "text", v] | [k |-> "elem", kids, ...] | comment / pi / attr (no string-value     *)
(* contribution below the fragment root except text and element content)                            *)
RECURSIVE ItemsText(_, _)
ItemsText(items, i) ==
  IF i > Len(items) THEN <<>>
  ELSE (CASE items[i].k = "text" -> items[i].v
          [] items[i].k = "elem" -> ItemsText(items[i].kids, 1)
          [] OTHER -> <<>>) \o ItemsText(items, i + 1)

(* ---- conversions (XPath 4.1-4.4) ; argument must not be Bad -------------------------------- *)
ToStr(F, v) == CASE v.t = "str"  -> v.v
                 [] v.t = "rtf"  -> ItemsText(v.v, 1)
                 [] v.t = "fns"  -> ItemsText(v.v, 1)      \* exsl:node-set() of a value that is no node-set: the node-set holding the root of a fragment
                 [] v.t = "num"  -> NumToStr(v.v)
                 [] v.t = "bool" -> IF v.v THEN StrTrue ELSE StrFalse
                 [] v.t = "ns"   -> IF v.v = {} THEN <<>> ELSE StringValue(F, FirstInDocOrder(v.v))
ToNumX(F, v) == CASE v.t = "num"  -> v.v                \* may be Unm for strings outside the domain
                  [] v.t = "str"  -> StrToNum(v.v)
                  [] v.t = "bool" -> IF v.v THEN One ELSE Zero
                  [] v.t = "ns"   -> StrToNum(ToStr(F, v))
                  [] v.t = "rtf"  -> StrToNum(ToStr(F, v))
                  [] v.t = "fns"  -> StrToNum(ToStr(F, v))
ToBool(v) == CASE v.t = "bool" -> v.v
               [] v.t = "rtf"  -> TRUE              \* a node-set holding the fragment's root node
               [] v.t = "fns"  -> TRUE
               [] v.t = "num"  -> ~(IsNaN(v.v) \/ IsZero(v.v))
               [] v.t = "str"  -> Len(v.v) > 0
               [] v.t = "ns"   -> v.v # {}

(* ---- comparisons (XPath 3.4) ---------------------------------------------------------------- *)
RelNum(o, a, b) == CASE o = "="  -> NumEq(a, b)
                     [] o = "!=" -> ~NumEq(a, b)
                     [] o = "<"  -> NumLt(a, b)
                     [] o = "<=" -> NumLe(a, b)
                     [] o = ">"  -> NumLt(b, a)
                     [] o = ">=" -> NumLe(b, a)
Compare(F, o, l, r) ==
  LET isEq == o \in {"=", "!="}
      setLike(v) == v.t \in {"ns", "rtf", "fns"}          \* a fragment compares like a one-node node-set
      other == IF setLike(l) THEN r ELSE l
      mode == IF setLike(l) /\ setLike(r) THEN (IF isEq THEN "str" ELSE "num")
              ELSE IF setLike(l) \/ setLike(r)
                   THEN (IF other.t = "bool" THEN "bool"
                         ELSE IF other.t = "num" THEN "num"
                         ELSE IF isEq THEN "str" ELSE "num")
              ELSE IF ~isEq THEN "num"
              ELSE IF l.t = "bool" \/ r.t = "bool" THEN "bool"
              ELSE IF l.t = "num" \/ r.t = "num" THEN "num" ELSE "str"
      strs(v) == IF v.t = "ns" THEN {StringValue(F, x) : x \in v.v} ELSE {ToStr(F, v)}
      nums(v) == IF v.t = "ns" THEN {StrToNum(StringValue(F, x)) : x \in v.v} ELSE {ToNumX(F, v)}
      bnum(v) == IF ToBool(v) THEN One ELSE Zero
  IN
  CASE mode = "str"  -> BV(\E a \in strs(l), b \in strs(r) : IF o = "=" THEN a = b ELSE a # b)
    [] mode = "bool" -> IF isEq THEN BV(IF o = "=" THEN ToBool(l) = ToBool(r) ELSE ToBool(l) # ToBool(r))
                        ELSE BV(RelNum(o, bnum(l), bnum(r)))
    [] mode = "num"  -> LET A == nums(l)  B == nums(r) IN
                        IF \E x \in A \cup B : IsUnm(x) THEN UnmV
                        ELSE BV(\E a \in A, b \in B : RelNum(o, a, b))

(* ---- string functions ------------------------------------------------------------------------ *)
StartsWith(s, p) == Len(p) <= Len(s) /\ SubSeq(s, 1, Len(p)) = p
IndexOf(s, p) ==        \* first 1-based position of p in s, 0 if none ; the empty string is at 1
  LET S == {i \in 1..(Len(s) - Len(p) + 1) : SubSeq(s, i, i + Len(p) - 1) = p} IN
  IF Len(p) = 0 THEN 1 ELSE IF S = {} THEN 0 ELSE Min(S)
SubstringBefore(s, p) == LET i == IndexOf(s, p) IN IF i = 0 THEN <<>> ELSE SubSeq(s, 1, i - 1)
SubstringAfter(s, p)  == LET i == IndexOf(s, p) IN IF i = 0 THEN <<>> ELSE SubSeq(s, i + Len(p), Len(s))
RECURSIVE NormSp(_, _, _)
NormSp(s, i, pendingSpace) ==          \* s already has no leading whitespace
  IF i > Len(s) THEN <<>>
  ELSE IF IsWs(s[i]) THEN NormSp(s, i + 1, TRUE)
  ELSE (IF pendingSpace THEN <<32>> ELSE <<>>) \o <<s[i]>> \o NormSp(s, i + 1, FALSE)
NormalizeSpace(s) == NormSp(s, SkipWs(s, 1), FALSE)
TranslateChar(c, from, to) ==
  LET S == {i \in 1..Len(from) : from[i] = c} IN
  IF S = {} THEN <<c>> ELSE LET i == Min(S) IN IF i <= Len(to) THEN <<to[i]>> ELSE <<>>
RECURSIVE Translate(_, _, _, _)
Translate(s, from, to, i) == IF i > Len(s) THEN <<>> ELSE TranslateChar(s[i], from, to) \o Translate(s, from, to, i + 1)
(* substring(s, a [, b]): characters at positions p with round(a) <= p < round(a) + round(b) *)
Substring(s, a, hasLen, b) ==
  LET ra == Round(a)
      en == IF hasLen THEN Add(ra, Round(b)) ELSE Inf(FALSE)
      keep == {p \in 1..Len(s) : NumLe(ra, FromInt(p)) /\ NumLt(FromInt(p), en)}
  IN IF IsUnm(ra) \/ IsUnm(en) THEN UnmV
     ELSE SV([k \in 1..Cardinality(keep) |-> s[Min(keep) + k - 1]])
ToLowerAscii(s) == [k \in 1..Len(s) |-> IF s[k] >= 65 /\ s[k] <= 90 THEN s[k] + 32 ELSE s[k]]
LangMatches(have, want) ==
  LET h == ToLowerAscii(have)  w == ToLowerAscii(want) IN
  h = w \/ (Len(h) > Len(w) /\ SubSeq(h, 1, Len(w)) = w /\ h[Len(w) + 1] = 45)
RECURSIVE SplitWs(_, _, _)
SplitWs(s, i, cur) ==       \* set of whitespace separated tokens
  IF i > Len(s) THEN (IF cur = <<>> THEN {} ELSE {cur})
  ELSE IF IsWs(s[i]) THEN (IF cur = <<>> THEN {} ELSE {cur}) \cup SplitWs(s, i + 1, <<>>)
  ELSE SplitWs(s, i + 1, Append(cur, s[i]))

(* ---- node tests ------------------------------------------------------------------------------ *)
NodeTest(F, test, axis, n) ==
  LET kind == KindOf(F, n)  pk == PrincipalKind(axis) IN
  CASE test.t = "node"    -> TRUE
    [] test.t = "text"    -> kind = "text"
    [] test.t = "comment" -> kind = "comment"
    [] test.t = "pi"      -> kind = "pi" /\ (test.hasTarget => LocalOf(F, n) = test.target)
    [] test.t = "any"     -> kind = pk
    [] test.t = "nsany"   -> kind = pk /\ UriOf(F, n) = test.uri
    [] test.t = "name"    -> kind = pk /\ UriOf(F, n) = test.uri /\ LocalOf(F, n) = test.local

RootOf(n) == <<ND(n), 1, 0>>

(* ---- the evaluator --------------------------------------------------------------------------- *)
RECURSIVE Eval(_, _), EvalSteps(_, _, _, _), StepFrom(_, _, _), FilterSeq(_, _, _, _), PredHolds(_, _, _, _, _),
          EvalFn(_, _), EvalXfn(_, _), EvalArgs(_, _, _), Matches(_, _, _), KeyNodes(_, _, _, _)

(* does predicate p hold for node x at position k of n in context c?  "t" / "f" / "unm" / "err" *)
PredHolds(p, x, k, n, c) ==
  LET v == Eval(p, [c EXCEPT !.n = x, !.pos = k, !.size = n]) IN
  IF Bad(v) THEN v.t
  ELSE IF v.t = "num" THEN (IF NumEq(v.v, FromInt(k)) THEN "t" ELSE "f")
  ELSE IF ToBool(v) THEN "t" ELSE "f"

(* seq: nodes in axis order.  result [bad |-> "" | "unm" | "err", s |-> surviving nodes in order] *)
FilterSeq(seq, preds, j, c) ==
  IF j > Len(preds) THEN [bad |-> "", s |-> seq]
  ELSE LET r == [k \in 1..Len(seq) |-> PredHolds(preds[j], seq[k], k, Len(seq), c)]
           ks == SetToSortSeq({k \in 1..Len(seq) : r[k] = "t"}, LAMBDA x, y : x < y) IN
       IF \E k \in 1..Len(seq) : r[k] = "err" THEN [bad |-> "err", s |-> <<>>]
       ELSE IF \E k \in 1..Len(seq) : r[k] = "unm" THEN [bad |-> "unm", s |-> <<>>]
       ELSE FilterSeq([m \in 1..Len(ks) |-> seq[ks[m]]], preds, j + 1, c)
FilterNodes(seq, preds, c) == FilterSeq(seq, preds, 1, c)

StepFrom(n, step, c) ==
  LET cand == {x \in Axis(c.f, step.axis, n) : NodeTest(c.f, step.test, step.axis, x)}
      fwd == DocOrderSeq(cand)
      seq == IF IsReverse(step.axis) THEN Reverse(fwd) ELSE fwd
  IN IF Len(step.preds) = 0 THEN [bad |-> "", s |-> seq]
     ELSE FilterNodes(seq, step.preds, c)

EvalSteps(S, steps, j, c) ==
  IF j > Len(steps) THEN NS(S)
  ELSE LET rs == {StepFrom(n, steps[j], c) : n \in S} IN
       IF \E r \in rs : r.bad = "err" THEN ErrV
       ELSE IF \E r \in rs : r.bad = "unm" THEN UnmV
       ELSE EvalSteps(UNION {Range(r.s) : r \in rs}, steps, j + 1, c)

EvalArgs(args, j, c) == IF j > Len(args) THEN <<>> ELSE <<Eval(args[j], c)>> \o EvalArgs(args, j + 1, c)

(* key(name, value) over the document of the context node (XSLT 12.2) *)
KeyNodes(name, vals, d, c) ==
  LET D == c.f[d]
      decls == {k \in 1..Len(c.keys) : c.keys[k].name = name}
      useVals(k, x) == LET u == Eval(c.keys[k].use, [c EXCEPT !.n = x, !.pos = 1, !.size = 1, !.cur = x]) IN
                       IF u.t = "ns" THEN {StringValue(c.f, y) : y \in u.v} ELSE {ToStr(c.f, u)}
      cands == {Node(d, i) : i \in 1..D.n}
  IN {x \in cands : \E k \in decls : Matches(c.keys[k].match, x, c) /\ (useVals(k, x) \cap vals # {})}

(* names as code point sequences (generated): the XSLT 1.0 instructions, and the XPath core + XSLT functions *)
XsltInstructionNames == {<<97, 112, 112, 108, 121, 45, 105, 109, 112, 111, 114, 116, 115>>,
   <<97, 112, 112, 108, 121, 45, 116, 101, 109, 112, 108, 97, 116, 101, 115>>,
   <<97, 116, 116, 114, 105, 98, 117, 116, 101>>,
   <<99, 97, 108, 108, 45, 116, 101, 109, 112, 108, 97, 116, 101>>,
   <<99, 104, 111, 111, 115, 101>>,
   <<99, 111, 109, 109, 101, 110, 116>>,
   <<99, 111, 112, 121>>,
   <<99, 111, 112, 121, 45, 111, 102>>,
   <<101, 108, 101, 109, 101, 110, 116>>,
   <<102, 97, 108, 108, 98, 97, 99, 107>>,
   <<102, 111, 114, 45, 101, 97, 99, 104>>,
   <<105, 102>>,
   <<109, 101, 115, 115, 97, 103, 101>>,
   <<110, 117, 109, 98, 101, 114>>,
   <<112, 114, 111, 99, 101, 115, 115, 105, 110, 103, 45, 105, 110, 115, 116, 114, 117, 99, 116, 105, 111, 110>>,
   <<116, 101, 120, 116>>,
   <<118, 97, 108, 117, 101, 45, 111, 102>>,
   <<118, 97, 114, 105, 97, 98, 108, 101>>}
(* XSLT elements that are not instructions: whether element-available() is true for them was clarified only later (erratum / XSLT 2.0: false); not judged *)
XsltOtherElementNames == {<<105, 109, 112, 111, 114, 116>>,
   <<105, 110, 99, 108, 117, 100, 101>>,
   <<115, 116, 114, 105, 112, 45, 115, 112, 97, 99, 101>>,
   <<112, 114, 101, 115, 101, 114, 118, 101, 45, 115, 112, 97, 99, 101>>,
   <<111, 117, 116, 112, 117, 116>>,
   <<107, 101, 121>>,
   <<100, 101, 99, 105, 109, 97, 108, 45, 102, 111, 114, 109, 97, 116>>,
   <<110, 97, 109, 101, 115, 112, 97, 99, 101, 45, 97, 108, 105, 97, 115>>,
   <<97, 116, 116, 114, 105, 98, 117, 116, 101, 45, 115, 101, 116>>,
   <<118, 97, 114, 105, 97, 98, 108, 101>>,
   <<112, 97, 114, 97, 109>>,
   <<116, 101, 109, 112, 108, 97, 116, 101>>,
   <<115, 116, 121, 108, 101, 115, 104, 101, 101, 116>>,
   <<116, 114, 97, 110, 115, 102, 111, 114, 109>>,
   <<115, 111, 114, 116>>,
   <<119, 105, 116, 104, 45, 112, 97, 114, 97, 109>>,
   <<119, 104, 101, 110>>,
   <<111, 116, 104, 101, 114, 119, 105, 115, 101>>}
XsltFunctionNames == {<<108, 97, 115, 116>>,
   <<112, 111, 115, 105, 116, 105, 111, 110>>,
   <<99, 111, 117, 110, 116>>,
   <<105, 100>>,
   <<108, 111, 99, 97, 108, 45, 110, 97, 109, 101>>,
   <<110, 97, 109, 101, 115, 112, 97, 99, 101, 45, 117, 114, 105>>,
   <<110, 97, 109, 101>>,
   <<115, 116, 114, 105, 110, 103>>,
   <<99, 111, 110, 99, 97, 116>>,
   <<115, 116, 97, 114, 116, 115, 45, 119, 105, 116, 104>>,
   <<99, 111, 110, 116, 97, 105, 110, 115>>,
   <<115, 117, 98, 115, 116, 114, 105, 110, 103, 45, 98, 101, 102, 111, 114, 101>>,
   <<115, 117, 98, 115, 116, 114, 105, 110, 103, 45, 97, 102, 116, 101, 114>>,
   <<115, 117, 98, 115, 116, 114, 105, 110, 103>>,
   <<115, 116, 114, 105, 110, 103, 45, 108, 101, 110, 103, 116, 104>>,
   <<110, 111, 114, 109, 97, 108, 105, 122, 101, 45, 115, 112, 97, 99, 101>>,
   <<116, 114, 97, 110, 115, 108, 97, 116, 101>>,
   <<98, 111, 111, 108, 101, 97, 110>>,
   <<110, 111, 116>>,
   <<116, 114, 117, 101>>,
   <<102, 97, 108, 115, 101>>,
   <<108, 97, 110, 103>>,
   <<110, 117, 109, 98, 101, 114>>,
   <<115, 117, 109>>,
   <<102, 108, 111, 111, 114>>,
   <<99, 101, 105, 108, 105, 110, 103>>,
   <<114, 111, 117, 110, 100>>,
   <<100, 111, 99, 117, 109, 101, 110, 116>>,
   <<107, 101, 121>>,
   <<102, 111, 114, 109, 97, 116, 45, 110, 117, 109, 98, 101, 114>>,
   <<99, 117, 114, 114, 101, 110, 116>>,
   <<117, 110, 112, 97, 114, 115, 101, 100, 45, 101, 110, 116, 105, 116, 121, 45, 117, 114, 105>>,
   <<103, 101, 110, 101, 114, 97, 116, 101, 45, 105, 100>>,
   <<115, 121, 115, 116, 101, 109, 45, 112, 114, 111, 112, 101, 114, 116, 121>>,
   <<101, 108, 101, 109, 101, 110, 116, 45, 97, 118, 97, 105, 108, 97, 98, 108, 101>>,
   <<102, 117, 110, 99, 116, 105, 111, 110, 45, 97, 118, 97, 105, 108, 97, 98, 108, 101>>}

(* math:constant(name, precision): "returns the specified constant to a set precision".  Whatever "precision" counts (decimals, digits,  *)
(* characters), from 17 on every reading yields all the digits a double holds: the result is the double nearest the constant, and its    *)
(* string is the shortest numeral that denotes it.  Only that string form is modelled: string(math:constant('PI', 17)).                  *)
MathConstants == << [name |-> <<80,73>>, str |-> <<51,46,49,52,49,53,57,50,54,53,51,53,56,57,55,57,51>>],
                   [name |-> <<69>>, str |-> <<50,46,55,49,56,50,56,49,56,50,56,52,53,57,48,52,53>>],
                   [name |-> <<83,81,82,82,84,50>>, str |-> <<49,46,52,49,52,50,49,51,53,54,50,51,55,51,48,57,53,49>>],
                   [name |-> <<76,78,50>>, str |-> <<48,46,54,57,51,49,52,55,49,56,48,53,53,57,57,52,53,51>>],
                   [name |-> <<76,78,49,48>>, str |-> <<50,46,51,48,50,53,56,53,48,57,50,57,57,52,48,52,54>>],
                   [name |-> <<76,79,71,50,69>>, str |-> <<49,46,52,52,50,54,57,53,48,52,48,56,56,56,57,54,51,52>>],
                   [name |-> <<83,81,82,84,49,95,50>>, str |-> <<48,46,55,48,55,49,48,54,55,56,49,49,56,54,53,52,55,54>>] >>
IsMathConstantCall(e) == /\ e.op = "xfn" /\ e.lib = "math" /\ e.name = "constant" /\ Len(e.args) = 2
                         /\ e.args[1].op = "str" /\ e.args[2].op = "num" /\ IsFin(e.args[2].v) /\ ~e.args[2].v.neg /\ e.args[2].v.m >= 17 * Scale
                         /\ e.args[2].v.m % Scale = 0
                         /\ \E k \in 1..Len(MathConstants) : MathConstants[k].name = e.args[1].v
MathConstantString(e) == MathConstants[CHOOSE k \in 1..Len(MathConstants) : MathConstants[k].name = e.args[1].v].str

FnsSafe == {"string", "count", "boolean", "not", "number", "string-length", "normalize-space", "concat", "contains", "starts-with",
            "substring", "substring-before", "substring-after", "translate", "floor", "ceiling", "round"}
EvalFn(e, c) ==
  LET F == c.f
      name == e.name
      nargs == Len(e.args)
      a == EvalArgs(e.args, 1, c)
      ctxNode == NS({c.n})
      nodeArg == IF nargs = 0 THEN ctxNode ELSE a[1]          \* optional node-set argument
      strArg(i) == ToStr(F, a[i])
  IN
  IF name = "string" /\ nargs = 1 /\ IsMathConstantCall(e.args[1]) THEN SV(MathConstantString(e.args[1]))
  ELSE IF AnyBad(a) THEN BadOf(a)
  ELSE IF (\E i \in 1..nargs : a[i].t = "fns") /\ name \notin FnsSafe THEN UnmV       \* only the conversions of such a node-set are modelled
  ELSE
  CASE name = "last"      -> NV(FromInt(c.size))
    [] name = "position"  -> NV(FromInt(c.pos))
    [] name = "count"     -> IF a[1].t = "fns" THEN NV(One) ELSE IF a[1].t # "ns" THEN ErrV ELSE NV(FromInt(Cardinality(a[1].v)))
    [] name = "local-name" -> IF nodeArg.t # "ns" THEN ErrV ELSE
                              SV(IF nodeArg.v = {} THEN <<>> ELSE LocalOf(F, FirstInDocOrder(nodeArg.v)))
    [] name = "namespace-uri" -> IF nodeArg.t # "ns" THEN ErrV ELSE
                              SV(IF nodeArg.v = {} THEN <<>> ELSE UriOf(F, FirstInDocOrder(nodeArg.v)))
    [] name = "name"      -> IF nodeArg.t # "ns" THEN ErrV ELSE
                              SV(IF nodeArg.v = {} THEN <<>> ELSE QNameOf(F, FirstInDocOrder(nodeArg.v)))
    [] name = "string"    -> SV(ToStr(F, nodeArg))
    [] name = "concat"    -> SV(FlattenSeq([i \in 1..nargs |-> strArg(i)]))
    [] name = "starts-with" -> BV(StartsWith(strArg(1), strArg(2)))
    [] name = "contains"  -> BV(IndexOf(strArg(1), strArg(2)) # 0)
    [] name = "substring-before" -> SV(SubstringBefore(strArg(1), strArg(2)))
    [] name = "substring-after"  -> SV(SubstringAfter(strArg(1), strArg(2)))
    [] name = "substring" -> LET p == ToNumX(F, a[2])
                                 q == IF nargs = 3 THEN ToNumX(F, a[3]) ELSE Zero IN
                             IF IsUnm(p) \/ IsUnm(q) THEN UnmV ELSE Substring(strArg(1), p, nargs = 3, q)
    [] name = "string-length" -> NV(FromInt(Len(ToStr(F, nodeArg))))
    [] name = "normalize-space" -> SV(NormalizeSpace(ToStr(F, nodeArg)))
    [] name = "translate" -> SV(Translate(strArg(1), strArg(2), strArg(3), 1))
    [] name = "boolean"   -> BV(ToBool(a[1]))
    [] name = "not"       -> BV(~ToBool(a[1]))
    [] name = "true"      -> BV(TRUE)
    [] name = "false"     -> BV(FALSE)
    [] name = "lang"      -> LET la == LangAt(DocOf(F, c.n), NI(c.n)) IN
                             BV(la.found /\ LangMatches(la.v, strArg(1)))
    [] name = "number"    -> NV(ToNumX(F, nodeArg))
    [] name = "sum"       -> IF a[1].t # "ns" THEN ErrV ELSE
                             LET xs == SetToSeq({<<x, StrToNum(StringValue(F, x))>> : x \in a[1].v}) IN
                             NV(FoldLeft(LAMBDA acc, y : Add(acc, y[2]), Zero, xs))
    [] name = "floor"     -> NV(Floor(ToNumX(F, a[1])))
    [] name = "ceiling"   -> NV(Ceiling(ToNumX(F, a[1])))
    [] name = "round"     -> NV(Round(ToNumX(F, a[1])))
    [] name = "id"        -> LET toks == IF a[1].t = "ns"
                                          THEN UNION {SplitWs(StringValue(F, x), 1, <<>>) : x \in a[1].v}
                                          ELSE SplitWs(strArg(1), 1, <<>>)
                                 D == DocOf(F, c.n) IN
                             NS({Node(ND(c.n), i) : i \in UNION {ElemsWithId(D, t) : t \in toks}})
    [] name = "current"   -> NS({c.cur})
    [] name = "element-available" ->      \* XSLT 15: true iff the QName names an instruction; an XSLT processor knows exactly the XSLT
                                          \* instructions (a top-level element such as xsl:template is not an instruction)
                             LET q == strArg(1)
                                 xslp == <<120, 115, 108, 58>>          \* "xsl:" - the generators bind this prefix to the XSLT namespace
                                 instr == XsltInstructionNames IN
                             IF Len(q) > 4 /\ SubSeq(q, 1, 4) = xslp /\ SubSeq(q, 5, Len(q)) \in XsltOtherElementNames THEN UnmV
                             ELSE BV(Len(q) > 4 /\ SubSeq(q, 1, 4) = xslp /\ SubSeq(q, 5, Len(q)) \in instr)
    [] name = "function-available" ->
                             LET q == strArg(1)
                                 fns == XsltFunctionNames IN
                             BV(q \in fns)
    [] name = "system-property" ->
                             IF strArg(1) = <<120, 115, 108, 58, 118, 101, 114, 115, 105, 111, 110>> THEN NV(One) ELSE UnmV      \* xsl:version = 1.0; the vendor properties are not modelled
    [] name = "generate-id" ->      \* XSLT 12.4: some string that identifies the node - only equality of two results is meaningful, so the
                                    \* generators use it under "=" only; this model's identifier is the node's coordinates
                             IF nodeArg.t # "ns" THEN ErrV
                             ELSE IF nodeArg.v = {} THEN SV(<<>>)
                             ELSE LET x == FirstInDocOrder(nodeArg.v) IN
                                  SV(<<78>> \o NumToStr(FromInt(x[1])) \o <<95>> \o NumToStr(FromInt(x[2])) \o <<95>> \o NumToStr(FromInt(x[3])))
    [] name = "document"  ->        \* XSLT 12.1, one argument: the root nodes of the documents the URIs name; c.docs = <<[uri, idx]>> lists
                                    \* the documents this evaluation was given (idx = position in the forest); any other URI is outside the model
                             LET uris == IF a[1].t = "ns" THEN {StringValue(F, x) : x \in a[1].v} ELSE {strArg(1)}
                                 known == {c.docs[k].uri : k \in 1..Len(c.docs)} IN
                             IF nargs # 1 THEN UnmV
                             ELSE IF \E u \in uris : u \notin known THEN UnmV
                             ELSE NS({Node(c.docs[k].idx, 1) : k \in {j \in 1..Len(c.docs) : c.docs[j].uri \in uris}})
    [] name = "key"       -> LET vals == IF a[2].t = "ns" THEN {StringValue(F, x) : x \in a[2].v}
                                          ELSE {ToStr(F, a[2])} IN
                             NS(KeyNodes(strArg(1), vals, ND(c.n), c))
    [] OTHER              -> ErrV

(* ---- the bundled extension functions: EXSLT sets / math / common / strings and xalan: ---------- *)
(* (published definitions at exslt.org; lib is the library the function's namespace URI names)        *)
NodeNums(F, S) == {<<x, StrToNum(StringValue(F, x))>> : x \in S}
Repeat(pad, n) == [k \in 1..n |-> pad[((k - 1) % Len(pad)) + 1]]
StrNodeSet == <<110, 111, 100, 101, 45, 115, 101, 116>>     StrString == <<115, 116, 114, 105, 110, 103>>
StrNumber == <<110, 117, 109, 98, 101, 114>>                 StrBoolean == <<98, 111, 111, 108, 101, 97, 110>>
StrRTF == <<82, 84, 70>>
EvalXfn(e, c) ==
  LET F == c.f
      a == EvalArgs(e.args, 1, c)
      nargs == Len(e.args)
      isNs(i) == i <= nargs /\ a[i].t = "ns"
      first(S) == FirstInDocOrder(S)
      lib == IF e.lib = "xalan" THEN "set" ELSE e.lib
      name == e.name
  IN
  IF AnyBad(a) THEN BadOf(a)
  ELSE IF e.lib = "exsl" /\ e.name = "node-set" THEN      \* EXSLT: a node-set is returned as it is; a fragment becomes the node-set holding its root; any
       (IF nargs # 1 THEN ErrV                            \* other value "is converted to a string ... a node-set consisting of a single text node"
        ELSE IF a[1].t \in {"ns", "fns"} THEN a[1]
        ELSE IF a[1].t = "rtf" THEN [t |-> "fns", v |-> a[1].v]
        ELSE [t |-> "fns", v |-> <<[k |-> "text", v |-> ToStr(F, a[1])]>>])
  ELSE IF (\E i \in 1..nargs : a[i].t = "fns") /\ ~(e.lib = "exsl" /\ e.name = "object-type") THEN UnmV
  ELSE IF e.name = "evaluate" /\ e.lib \in {"dyn", "xalan"} THEN        \* EXSLT dyn:evaluate / xalan:evaluate: the string "is evaluated exactly as if it
       (IF nargs # 1 THEN (IF e.lib = "dyn" THEN UnmV ELSE ErrV)         \* had been literally included in place of the call".  c.dyn says which expression
        ELSE LET str == ToStr(F, a[1])                                   \* a string spells (XPathSyntax!Parse of its tokens, supplied by the binding)
                 tab == IF "dyn" \in DOMAIN c THEN c.dyn ELSE <<>>
                 hit == {k \in 1..Len(tab) : tab[k].text = str}
                 ent == tab[CHOOSE k \in hit : TRUE] IN
             IF hit = {} THEN UnmV
             ELSE IF ~ent.ok THEN (IF e.lib = "dyn" THEN NS({}) ELSE ErrV)     \* EXSLT: "an invalid XPath expression ... returns an empty node set"
             ELSE LET v == Eval(ent.ast, c) IN
                  IF v.t = "err" /\ e.lib = "dyn" THEN NS({}) ELSE v)          \* "... or if evaluating it results in an error"
  ELSE IF e.lib = "xalan" /\ e.name = "hasSameNodes" THEN       \* xalan: "true if both node-sets contain exactly the same set of nodes"
       (IF nargs # 2 \/ ~isNs(1) \/ ~isNs(2) THEN ErrV ELSE BV(a[1].v = a[2].v))
  ELSE IF lib = "set" THEN
       (IF name = "distinct" THEN
             IF nargs # 1 \/ ~isNs(1) THEN ErrV
             ELSE NS({x \in a[1].v : \A y \in a[1].v : (StringValue(F, y) = StringValue(F, x)) => (y = x \/ Before(x, y))})
        ELSE IF nargs # 2 \/ ~isNs(1) \/ ~isNs(2) THEN ErrV
        ELSE CASE name = "difference"    -> NS(a[1].v \ a[2].v)
               [] name = "intersection"  -> NS(a[1].v \cap a[2].v)
               [] name = "has-same-node" -> BV(a[1].v \cap a[2].v # {})
               [] name = "leading"  -> IF a[2].v = {} THEN a[1]
                                       ELSE IF first(a[2].v) \notin a[1].v THEN NS({})
                                       ELSE NS({x \in a[1].v : Before(x, first(a[2].v))})
               [] name = "trailing" -> IF a[2].v = {} THEN a[1]
                                       ELSE IF first(a[2].v) \notin a[1].v THEN NS({})
                                       ELSE NS({x \in a[1].v : Before(first(a[2].v), x)})
               [] OTHER -> ErrV)
  ELSE IF lib = "math" THEN
       (IF name = "constant" THEN (IF nargs # 2 THEN ErrV ELSE UnmV)      \* a number outside the modelled domain; see MathConstantString
        ELSE IF name = "abs" THEN (IF nargs # 1 THEN ErrV ELSE LET x == ToNumX(F, a[1]) IN NV(IF IsFin(x) \/ IsInf(x) THEN [x EXCEPT !.neg = FALSE] ELSE x))
        ELSE IF nargs # 1 \/ ~isNs(1) THEN ErrV
        ELSE LET P == NodeNums(F, a[1].v)
                 nums == {p[2] : p \in P}
                 anyNaN == \E x \in nums : IsNaN(x)
                 lo == CHOOSE x \in nums : \A y \in nums : NumLe(x, y)
                 hi == CHOOSE x \in nums : \A y \in nums : NumLe(y, x)
             IN IF \E x \in nums : IsUnm(x) THEN UnmV
                ELSE CASE name = "min" -> NV(IF nums = {} \/ anyNaN THEN NaN ELSE lo)
                       [] name = "max" -> NV(IF nums = {} \/ anyNaN THEN NaN ELSE hi)
                       [] name = "lowest"  -> NS(IF nums = {} \/ anyNaN THEN {} ELSE {p[1] : p \in {q \in P : NumEq(q[2], lo)}})
                       [] name = "highest" -> NS(IF nums = {} \/ anyNaN THEN {} ELSE {p[1] : p \in {q \in P : NumEq(q[2], hi)}})
                       [] OTHER -> ErrV)
  ELSE IF lib = "exsl" THEN
       (IF name = "object-type" /\ nargs = 1
        THEN SV(CASE a[1].t \in {"ns", "fns"} -> StrNodeSet [] a[1].t = "str" -> StrString [] a[1].t = "num" -> StrNumber
                  [] a[1].t = "bool" -> StrBoolean [] OTHER -> StrRTF)
        ELSE ErrV)
  ELSE IF lib = "str" THEN
       (CASE name = "concat" -> IF nargs # 1 \/ ~isNs(1) THEN ErrV
                                ELSE LET sq == DocOrderSeq(a[1].v) IN SV(FlattenSeq([k \in 1..Len(sq) |-> StringValue(F, sq[k])]))
          [] name = "padding" -> IF nargs \notin {1, 2} THEN ErrV
                                 ELSE LET n == ToNumX(F, a[1])
                                          pad == IF nargs = 2 THEN ToStr(F, a[2]) ELSE <<32>> IN
                                      IF IsUnm(n) THEN UnmV
                                      ELSE IF IsFin(n) /\ n.m % Scale # 0 THEN UnmV         \* a fractional length is not defined by EXSLT
                                      ELSE IF ~IsFin(n) \/ n.neg \/ n.m < Scale \/ pad = <<>> THEN SV(<<>>)
                                      ELSE IF n.m \div Scale > 200 THEN UnmV
                                      ELSE SV(Repeat(pad, n.m \div Scale))
          [] name = "align" -> IF nargs \notin {2, 3} THEN ErrV
                               ELSE LET str == ToStr(F, a[1])   pad == ToStr(F, a[2])
                                        how == IF nargs = 3 THEN ToStr(F, a[3]) ELSE <<108, 101, 102, 116>> IN
                                    IF Len(str) >= Len(pad) THEN SV(SubSeq(str, 1, Len(pad)))
                                    ELSE IF how = <<114, 105, 103, 104, 116>> THEN SV(SubSeq(pad, 1, Len(pad) - Len(str)) \o str)
                                    ELSE IF how = <<99, 101, 110, 116, 101, 114>> THEN UnmV          \* 'center': the split of an odd remainder is not specified
                                    ELSE SV(str \o SubSeq(pad, Len(str) + 1, Len(pad)))
          [] OTHER -> ErrV)
  ELSE ErrV

Arith(o, x, y) == CASE o = "+" -> Add(x, y) [] o = "-" -> Sub(x, y) [] o = "*" -> Mul(x, y)
                    [] o = "div" -> Div(x, y) [] o = "mod" -> Mod(x, y)

Eval(e, c) ==
  CASE e.op = "num" -> NV(e.v)
    [] e.op = "str" -> SV(e.v)
    [] e.op = "var" -> IF e.name \in DOMAIN c.vars THEN c.vars[e.name] ELSE ErrV
    [] e.op = "neg" -> LET v == Eval(e.a, c) IN IF Bad(v) THEN v ELSE NV(Neg(ToNumX(c.f, v)))
    [] e.op = "fn"  -> EvalFn(e, c)
    [] e.op = "badcall" -> ErrV            \* a core function called with the wrong number of arguments (3.2: an error)
    [] e.op = "xfn" -> EvalXfn(e, c)
    [] e.op = "bin" ->
         IF e.o = "or" THEN
              LET l == Eval(e.a, c) IN
              IF Bad(l) THEN l ELSE IF ToBool(l) THEN BV(TRUE)
              ELSE LET r == Eval(e.b, c) IN IF Bad(r) THEN r ELSE BV(ToBool(r))
         ELSE IF e.o = "and" THEN
              LET l == Eval(e.a, c) IN
              IF Bad(l) THEN l ELSE IF ~ToBool(l) THEN BV(FALSE)
              ELSE LET r == Eval(e.b, c) IN IF Bad(r) THEN r ELSE BV(ToBool(r))
         ELSE LET l == Eval(e.a, c)  r == Eval(e.b, c) IN
              IF Bad(l) \/ Bad(r) THEN BadOf(<<l, r>>)
              ELSE IF e.o = "|" THEN (IF l.t = "fns" \/ r.t = "fns" THEN UnmV ELSE IF l.t = "ns" /\ r.t = "ns" THEN NS(l.v \cup r.v) ELSE ErrV)
              ELSE IF e.o \in {"=", "!=", "<", "<=", ">", ">="} THEN Compare(c.f, e.o, l, r)
              ELSE NV(Arith(e.o, ToNumX(c.f, l), ToNumX(c.f, r)))
    [] e.op = "path" ->
         LET start == IF e.abs THEN NS({RootOf(c.n)})
                      ELSE IF e.start.op = "none" THEN NS({c.n})
                      ELSE Eval(e.start, c) IN
         IF Bad(start) THEN start
         ELSE IF start.t = "fns" THEN UnmV
         ELSE IF start.t # "ns" THEN ErrV
         ELSE EvalSteps(start.v, e.steps, 1, c)
    [] e.op = "filter" ->
         LET b == Eval(e.e, c) IN
         IF Bad(b) THEN b
         ELSE IF b.t = "fns" THEN UnmV
         ELSE IF b.t # "ns" THEN ErrV
         ELSE LET r == FilterNodes(DocOrderSeq(b.v), e.preds, c) IN
              IF r.bad = "err" THEN ErrV ELSE IF r.bad = "unm" THEN UnmV ELSE NS(Range(r.s))

(* XSLT 5.2: a node matches a pattern iff some ancestor-or-self, taken as context, makes the     *)
(* pattern - evaluated as an expression - select the node                                        *)
Matches(P, n, c) ==
  \E a \in Axis(c.f, "ancestor-or-self", n) :
     LET v == Eval(P, [c EXCEPT !.n = a, !.pos = 1, !.size = 1]) IN v.t = "ns" /\ n \in v.v

(* the set of nodes of document d that match P, computed with one evaluation per candidate       *)
(* ancestor (the same definition, rearranged; MC_XPath checks the two coincide)                  *)
MatchSet(P, d, c) ==
  LET D == c.f[d]
      all == {Node(d, i) : i \in 1..D.n}
      sel(a) == LET v == Eval(P, [c EXCEPT !.n = a, !.pos = 1, !.size = 1]) IN IF v.t = "ns" THEN v.v ELSE {}
  IN UNION {{n \in sel(a) : a \in Axis(c.f, "ancestor-or-self", n)} : a \in all}
=============================================================================
