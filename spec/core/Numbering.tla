------------------------------ MODULE Numbering ------------------------------
(* XSLT 1.0 section 7.7: the list of numbers xsl:number constructs for the current node, and     *)
(* 7.7.1: its conversion to a string.  instr = [level, hasCount, count, hasFrom, from].           *)
(* Patterns are matched by the definition XPathSem!Matches.                                        *)
EXTENDS XPathSem

M(P, n, c) == Matches(P, n, c)

(* "defaults to the pattern that matches any node with the same node type as the current node    *)
(* and, if the current node has an expanded-name, with the same expanded-name"                     *)
SameKindAndName(F, a, b) ==
  /\ KindOf(F, a) = KindOf(F, b)
  /\ (KindOf(F, a) \in {"elem", "attr", "pi"} => LocalOf(F, a) = LocalOf(F, b) /\ UriOf(F, a) = UriOf(F, b))
CountMatch(instr, cur, x, c) == IF instr.hasCount THEN M(instr.count, x, c) ELSE SameKindAndName(c.f, cur, x)

AncOrSelfSeq(F, n) == DocOrderSeq(Axis(F, "ancestor-or-self", n))          \* root first
Ancestors(F, n) == Axis(F, "ancestor", n)

(* nearest proper ancestor matching `from` (the set is empty when there is none) *)
FromAncestors(instr, n, c) == {a \in Ancestors(c.f, n) : M(instr.from, a, c)}
NearestFrom(instr, n, c) == Last(DocOrderSeq(FromAncestors(instr, n, c)))

(* the ancestors-or-self that are searched: descendants of the nearest `from` ancestor *)
Searched(instr, n, c) ==
  IF ~instr.hasFrom THEN Axis(c.f, "ancestor-or-self", n)
  ELSE {a \in Axis(c.f, "ancestor-or-self", n) : Before(NearestFrom(instr, n, c), a)}

PrecSibCount(instr, cur, a, c) == 1 + Cardinality({s \in Axis(c.f, "preceding-sibling", a) : CountMatch(instr, cur, s, c)})

(* the XSLT text does not say what happens when `from` is given and no ancestor (resp. no        *)
(* earlier node) matches it: such cases are outside the definition (ambiguous -> not judged)      *)
Ambiguous(instr, n, c) ==
  /\ instr.hasFrom
  /\ IF instr.level = "any"
     THEN {x \in Axis(c.f, "preceding", n) \cup Axis(c.f, "ancestor", n) : M(instr.from, x, c)} = {}
     ELSE FromAncestors(instr, n, c) = {}

NumberList(instr, n, c) ==
  LET F == c.f IN
  CASE instr.level = "single" ->
         LET S == {a \in Searched(instr, n, c) : CountMatch(instr, n, a, c)} IN
         IF S = {} THEN <<>> ELSE <<PrecSibCount(instr, n, Last(DocOrderSeq(S)), c)>>
    [] instr.level = "multiple" ->
         LET s == DocOrderSeq({a \in Searched(instr, n, c) : CountMatch(instr, n, a, c)}) IN
         [k \in 1..Len(s) |-> PrecSibCount(instr, n, s[k], c)]
    [] instr.level = "any" ->
         LET before == Axis(F, "preceding", n) \cup Axis(F, "ancestor", n)
             pool == {x \in before \cup {n} : KindOf(F, x) \notin {"attr", "ns"} \/ x = n}
             fs == {x \in before : M(instr.from, x, c)}
             considered == IF ~instr.hasFrom THEN pool
                           ELSE {x \in pool : Before(Last(DocOrderSeq(fs)), x)} IN
         <<Cardinality({x \in considered : CountMatch(instr, n, x, c)})>>

(* ---- 7.7.1 number to string conversion --------------------------------------------------------- *)
IsAlnum(ch) == (ch >= 48 /\ ch <= 57) \/ (ch >= 65 /\ ch <= 90) \/ (ch >= 97 /\ ch <= 122)
RECURSIVE Runs(_, _)          \* maximal alphanumeric / non-alphanumeric runs: sequence of [alnum, s]
Runs(s, i) ==
  IF i > Len(s) THEN <<>>
  ELSE LET a == IsAlnum(s[i])
           RECURSIVE EndOf(_)
           EndOf(j) == IF j <= Len(s) /\ IsAlnum(s[j]) = a THEN EndOf(j + 1) ELSE j
           e == EndOf(i) IN
       <<[alnum |-> a, s |-> SubSeq(s, i, e - 1)]>> \o Runs(s, e)

RECURSIVE Decimal(_)
Decimal(n) == IF n < 10 THEN <<48 + n>> ELSE Decimal(n \div 10) \o <<48 + (n % 10)>>
RECURSIVE Alpha(_, _)         \* bijective base 26: 1 -> a, 26 -> z, 27 -> aa
Alpha(n, base) == IF n <= 0 THEN <<>> ELSE Alpha((n - 1) \div 26, base) \o <<base + ((n - 1) % 26)>>
RomanTable == << <<1000, <<109>>>>, <<900, <<99, 109>>>>, <<500, <<100>>>>, <<400, <<99, 100>>>>, <<100, <<99>>>>, <<90, <<120, 99>>>>,
                 <<50, <<108>>>>, <<40, <<120, 108>>>>, <<10, <<120>>>>, <<9, <<105, 120>>>>, <<5, <<118>>>>, <<4, <<105, 118>>>>, <<1, <<105>>>> >>
RECURSIVE Roman(_, _)
Roman(n, k) == IF n <= 0 \/ k > Len(RomanTable) THEN <<>>
               ELSE IF n >= RomanTable[k][1] THEN RomanTable[k][2] \o Roman(n - RomanTable[k][1], k)
               ELSE Roman(n, k + 1)
Upper(s) == [k \in 1..Len(s) |-> IF s[k] >= 97 /\ s[k] <= 122 THEN s[k] - 32 ELSE s[k]]
PadTo(s, w) == [k \in 1..(IF Len(s) >= w THEN 0 ELSE w - Len(s)) |-> 48] \o s

(* one number with one format token; tokens handled: 1, 01 (0..01), a, A, i, I; others as 1 *)
FormatOne(n, tok) ==
  IF tok = <<97>> THEN Alpha(n, 97)
  ELSE IF tok = <<65>> THEN Alpha(n, 65)
  ELSE IF tok = <<105>> THEN Roman(n, 1)
  ELSE IF tok = <<73>> THEN Upper(Roman(n, 1))
  ELSE IF tok[Len(tok)] = 49 /\ \A k \in 1..(Len(tok) - 1) : tok[k] = 48 THEN PadTo(Decimal(n), Len(tok))
  ELSE Decimal(n)

(* 7.7.1 grouping: "grouping-separator gives the separator used as a grouping (e.g. thousands) separator in decimal   *)
(* numbering sequences, and the optional grouping-size specifies the size (normally 3) of the grouping"; both or neither. *)
RECURSIVE GroupDigits(_, _, _)
GroupDigits(ds, g, sep) == IF g <= 0 \/ Len(ds) <= g THEN ds
                           ELSE GroupDigits(SubSeq(ds, 1, Len(ds) - g), g, sep) \o sep \o SubSeq(ds, Len(ds) - g + 1, Len(ds))

(* 7.7.1: prefix (leading non-alnum run), format tokens with their preceding separators, suffix;  *)
(* the k-th number uses the k-th token (the last one when there are fewer), preceded by the        *)
(* separator that precedes that token ("." when there is none / when the token is reused, the      *)
(* last separator is reused).                                                                      *)
FormatList(list, fmt) ==
  LET rs == Runs(fmt, 1)
      toks == SelectSeq(rs, LAMBDA r : r.alnum)
      prefix == IF Len(rs) > 0 /\ ~rs[1].alnum THEN rs[1].s ELSE <<>>
      \* separators between consecutive tokens, in order
      idx == SelectSeq([k \in 1..Len(rs) |-> k], LAMBDA k : rs[k].alnum)
      sepBefore(t) == IF t = 1 THEN <<>> ELSE rs[idx[t] - 1].s          \* between token t-1 and t there is exactly one run
      tokOf(k) == IF Len(toks) = 0 THEN <<49>> ELSE IF k <= Len(toks) THEN toks[k].s ELSE toks[Len(toks)].s
      sepOf(k) == IF k = 1 THEN <<>>
                  ELSE IF Len(toks) <= 1 THEN <<46>>
                  ELSE IF k <= Len(toks) THEN sepBefore(k) ELSE sepBefore(Len(toks))
      RECURSIVE Body(_)
      Body(k) == IF k > Len(list) THEN <<>> ELSE sepOf(k) \o FormatOne(list[k], tokOf(k)) \o Body(k + 1)
  IN IF Len(list) = 0 THEN <<>>            \* an empty list produces no prefix/suffix either (nothing to format)
     ELSE (IF Len(toks) = 0 THEN (IF Len(rs) > 0 THEN rs[1].s ELSE <<>>) ELSE prefix) \o Body(1) \o
          (IF Len(toks) = 0 THEN <<>> ELSE IF Len(rs) > 0 /\ ~rs[Len(rs)].alnum /\ idx[Len(idx)] < Len(rs) THEN rs[Len(rs)].s ELSE <<>>)
=============================================================================
