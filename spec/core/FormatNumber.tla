---------------------------- MODULE FormatNumber ----------------------------
(* XSLT 1.0 section 12.3: format-number(number, picture, decimal-format?) for the part of the JDK 1.1        *)
(* java.text.DecimalFormat pattern language that is unambiguous:                                            *)
(*   pattern    := subpattern (patsep subpattern)?                                                           *)
(*   subpattern := prefix integer (dec fraction)? suffix                                                     *)
(*   integer    := digit* zero*  with grouping separators anywhere inside;  fraction := zero* digit*         *)
(*   prefix / suffix: any characters that are not special; percent / per-mille there multiply by 100 / 1000  *)
(* Numbers are XNum values (eighths).  Everything outside this fragment, and every case where JDK 1.1 and    *)
(* later descriptions disagree (a negative value that rounds to zero, quotes, the currency sign, more than   *)
(* one percent sign, digits after zero digits, ...), evaluates to Unm: not judged.                            *)
(* dfs = [dec, grp, minus, percent, permille, zero, digit, patsep (code points), inf, nan (strings)].         *)
EXTENDS XNum, Sequences, Naturals, Integers

DefaultDFS == [dec |-> 46, grp |-> 44, minus |-> 45, percent |-> 37, permille |-> 8240, zero |-> 48, digit |-> 35, patsep |-> 59,
               inf |-> <<73, 110, 102, 105, 110, 105, 116, 121>>, nan |-> <<78, 97, 78>>]

FmtUnm == [unm |-> TRUE, s |-> <<>>]
FmtOk(s) == [unm |-> FALSE, s |-> s]

IsNumChar(ch, d) == ch \in {d.digit, d.zero, d.grp, d.dec}
Special(ch, d) == IsNumChar(ch, d) \/ ch \in {d.percent, d.permille, d.patsep, d.minus, 39, 164}     \* 39 = apostrophe, 164 = currency sign

RECURSIVE P10(_)
P10(k) == IF k = 0 THEN 1 ELSE 10 * P10(k - 1)
RECURSIVE Dec(_)
Dec(n) == IF n < 10 THEN <<n>> ELSE Dec(n \div 10) \o <<n % 10>>          \* digit VALUES 0..9
Count(s, ch) == Len(SelectSeq(s, LAMBDA x : x = ch))
FirstIdx(s, P(_)) == IF \E i \in 1..Len(s) : P(s[i]) THEN CHOOSE i \in 1..Len(s) : P(s[i]) /\ \A j \in 1..(i - 1) : ~P(s[j]) ELSE 0
LastIdx(s, P(_)) == IF \E i \in 1..Len(s) : P(s[i]) THEN CHOOSE i \in 1..Len(s) : P(s[i]) /\ \A j \in (i + 1)..Len(s) : ~P(s[j]) ELSE 0

(* one sub-pattern -> [ok, prefix, suffix, minInt, grouping, minFrac, maxFrac, mult] *)
SubPattern(p, d) ==
  LET isNum(ch) == IsNumChar(ch, d)
      a == FirstIdx(p, isNum)  b == LastIdx(p, isNum) IN
  IF a = 0 THEN [ok |-> FALSE]
  ELSE LET prefix == SubSeq(p, 1, a - 1)
           suffix == SubSeq(p, b + 1, Len(p))
           body == SubSeq(p, a, b)
           affix == prefix \o suffix
           ndec == Count(body, d.dec)
           dpos == FirstIdx(body, LAMBDA ch : ch = d.dec)
           ipart == IF ndec = 0 THEN body ELSE SubSeq(body, 1, dpos - 1)
           fpart == IF ndec = 0 THEN <<>> ELSE SubSeq(body, dpos + 1, Len(body))
           idigits == SelectSeq(ipart, LAMBDA ch : ch # d.grp)
           lastGrp == LastIdx(ipart, LAMBDA ch : ch = d.grp)
           \* digit* zero* in the integer part, zero* digit* in the fraction, no grouping separator in the fraction or at the ends
           iOk == /\ Len(idigits) > 0
                  /\ \A i \in 1..Len(idigits) : \A j \in i..Len(idigits) : idigits[i] = d.zero => idigits[j] = d.zero
                  /\ (lastGrp = 0 \/ (lastGrp < Len(ipart) /\ ipart[1] # d.grp))
                  /\ \A i \in 1..(Len(ipart) - 1) : ~(ipart[i] = d.grp /\ ipart[i + 1] = d.grp)
           fOk == /\ \A i \in 1..Len(fpart) : fpart[i] \in {d.zero, d.digit}
                  /\ \A i \in 1..Len(fpart) : \A j \in i..Len(fpart) : fpart[i] = d.digit => fpart[j] = d.digit
           affOk == /\ \A i \in 1..Len(affix) : ~IsNumChar(affix[i], d) /\ affix[i] \notin {39, 164, d.patsep, d.minus}
                    /\ Count(affix, d.percent) + Count(affix, d.permille) <= 1
       IN IF ndec > 1 \/ ~iOk \/ ~fOk \/ ~affOk THEN [ok |-> FALSE]
          ELSE [ok |-> TRUE, prefix |-> prefix, suffix |-> suffix,
                minInt |-> Count(idigits, d.zero), grouping |-> IF lastGrp = 0 THEN 0 ELSE Len(ipart) - lastGrp,
                minFrac |-> Count(fpart, d.zero), maxFrac |-> Len(fpart),
                mult |-> IF Count(affix, d.percent) = 1 THEN 100 ELSE IF Count(affix, d.permille) = 1 THEN 1000 ELSE 1]

(* digits (values) -> code points with the format's zero digit *)
Digits(ds, d) == [i \in 1..Len(ds) |-> d.zero + ds[i]]
RECURSIVE Grouped(_, _, _)
Grouped(ds, g, d) ==          \* ds: code points of the integer digits; a separator before every g digits counted from the right
  IF g = 0 \/ Len(ds) <= g THEN ds
  ELSE Grouped(SubSeq(ds, 1, Len(ds) - g), g, d) \o <<d.grp>> \o SubSeq(ds, Len(ds) - g + 1, Len(ds))
RECURSIVE StripZeros(_, _)
StripZeros(fs, minLen) == IF Len(fs) > minLen /\ fs[Len(fs)] = 0 THEN StripZeros(SubSeq(fs, 1, Len(fs) - 1), minLen) ELSE fs
PadLeft(ds, w) == [i \in 1..(IF Len(ds) >= w THEN 0 ELSE w - Len(ds)) |-> 0] \o ds

(* |x| = m/8, as a string under sub-pattern sp; returns [zero (the rounded value is zero), s] *)
Magnitude(m, sp, d) ==
  LET scale == sp.mult * P10(sp.maxFrac)
      num == m * scale                       \* value * 10^maxFrac = num / 8
      q == num \div 8   r == num % 8
      R == IF 2 * r < 8 THEN q ELSE IF 2 * r > 8 THEN q + 1 ELSE IF q % 2 = 0 THEN q ELSE q + 1        \* half-even
      ip == R \div P10(sp.maxFrac)
      fp == R % P10(sp.maxFrac)
      fdig == StripZeros(PadLeft(IF sp.maxFrac = 0 THEN <<>> ELSE Dec(fp), sp.maxFrac), sp.minFrac)
      idig0 == IF ip = 0 THEN <<>> ELSE Dec(ip)
      idig1 == PadLeft(idig0, sp.minInt)
      idig == IF Len(idig1) = 0 /\ Len(fdig) = 0 THEN <<0>> ELSE idig1        \* "if there are no digits at all, output a zero"
  IN [zero |-> R = 0,
      \* JDK 1.1 writes ".5" for 0.5 under "#.#" (no integer digit is required); ICU, which Xalan delegates to, writes "0.5":
      \* a difference between the two references of the Recommendation and the library, not of Xalan's own code - not judged
      noIntDigit |-> Len(idig) = 0,
      s |-> Grouped(Digits(idig, d), sp.grouping, d) \o (IF Len(fdig) = 0 THEN <<>> ELSE <<d.dec>> \o Digits(fdig, d))]

Affix(a, d) == a          \* percent / per-mille characters stand for themselves (they ARE the format's characters)

FormatNumber(x, pic, d) ==
  LET np == Count(pic, d.patsep)
      ppos == FirstIdx(pic, LAMBDA ch : ch = d.patsep)
      pos == SubPattern(IF np = 0 THEN pic ELSE SubSeq(pic, 1, ppos - 1), d)
      negp == IF np = 0 THEN [ok |-> FALSE] ELSE SubPattern(SubSeq(pic, ppos + 1, Len(pic)), d)
  IN IF np > 1 \/ ~pos.ok \/ (np = 1 /\ ~negp.ok) THEN FmtUnm
     ELSE IF IsUnm(x) THEN FmtUnm
     ELSE IF x.k = "nan" THEN FmtOk(d.nan)                                  \* "the only value for which prefixes and suffixes are not used"
     ELSE LET neg == x.neg
              pre == IF neg THEN (IF np = 1 THEN negp.prefix ELSE <<d.minus>> \o pos.prefix) ELSE pos.prefix
              suf == IF neg /\ np = 1 THEN negp.suffix ELSE pos.suffix IN
          IF x.k = "inf" THEN FmtOk(pre \o d.inf \o suf)
          ELSE IF x.m > 131072 \/ pos.mult * P10(pos.maxFrac) > 10000 THEN FmtUnm        \* keeps TLC's 32-bit integers exact
          ELSE LET mg == Magnitude(x.m, pos, d) IN
               IF neg /\ mg.zero THEN FmtUnm          \* "-0" or "0"? descriptions differ: not judged
               ELSE IF mg.noIntDigit THEN FmtUnm
               ELSE FmtOk(pre \o mg.s \o suf)
=============================================================================
