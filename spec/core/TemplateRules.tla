---------------------------- MODULE TemplateRules ----------------------------
(* XSLT 1.0 section 5.5 (conflict resolution for template rules), 2.6.2 (import precedence) and *)
(* 5.6 (apply-imports), on top of the pattern definition XPathSem!Matches.                        *)
(* A stylesheet is a tree of modules  [id, rules, imports]; a rule is                             *)
(*   [rid, pat (pattern AST), mode (string), hasPrio, prio (XNum number)].                         *)
EXTENDS XPathSem

RECURSIVE Alts(_)
Alts(p) == IF p.op = "bin" /\ p.o = "|" THEN Alts(p.a) \o Alts(p.b) ELSE <<p>>

Half == Fin(FALSE, 4)
(* 5.5: default priority of one alternative *)
DefaultPriority(alt) ==
  IF /\ alt.op = "path" /\ ~alt.abs /\ alt.start.op = "none" /\ Len(alt.steps) = 1
     /\ Len(alt.steps[1].preds) = 0 /\ alt.steps[1].axis \in {"child", "attribute"}
  THEN LET t == alt.steps[1].test IN
       IF t.t = "name" THEN Zero
       ELSE IF t.t = "pi" /\ t.hasTarget THEN Zero
       ELSE IF t.t = "nsany" THEN Fin(TRUE, 2)
       ELSE Fin(TRUE, 4)
  ELSE Half

(* 2.6.2: an importing module has higher precedence than what it imports; a later import has    *)
(* higher precedence than an earlier one: post-order numbering of the import tree.               *)
(* Result: [entries (one per pattern alternative), next, mods (module ids of the subtree)]       *)
RECURSIVE FlattenMod(_, _), FlattenImports(_, _, _)
FlattenImports(imps, k, base) ==
  IF k > Len(imps) THEN [entries |-> {}, next |-> base, mods |-> {}]
  ELSE LET r == FlattenMod(imps[k], base)
           r2 == FlattenImports(imps, k + 1, r.next) IN
       [entries |-> r.entries \cup r2.entries, next |-> r2.next, mods |-> r.mods \cup r2.mods]
FlattenMod(m, base) ==
  LET r == FlattenImports(m.imports, 1, base)
      own == UNION {{[rid |-> m.rules[j].rid, alt |-> Alts(m.rules[j].pat)[a], mode |-> m.rules[j].mode,
                      prio |-> IF m.rules[j].hasPrio THEN m.rules[j].prio ELSE DefaultPriority(Alts(m.rules[j].pat)[a]),
                      prec |-> r.next, pos |-> j, mod |-> m.id, below |-> r.mods]
                     : a \in 1..Len(Alts(m.rules[j].pat))} : j \in 1..Len(m.rules)}
  IN [entries |-> r.entries \cup own, next |-> r.next + 1, mods |-> r.mods \cup {m.id}]

Entries(tree) == FlattenMod(tree, 1).entries

(* import precedence of every module of the tree (same numbering as FlattenMod): module id -> precedence *)
RECURSIVE ModPrecsFrom(_, _), ModPrecsImports(_, _, _)
ModPrecsImports(imps, k, base) ==        \* [map (set of <<id, prec>>), next]
  IF k > Len(imps) THEN [map |-> {}, next |-> base]
  ELSE LET r == ModPrecsFrom(imps[k], base)
           r2 == ModPrecsImports(imps, k + 1, r.next) IN
       [map |-> r.map \cup r2.map, next |-> r2.next]
ModPrecsFrom(m, base) ==
  LET r == ModPrecsImports(m.imports, 1, base) IN
  [map |-> r.map \cup {<<m.id, r.next>>}, next |-> r.next + 1]
ModPrecs(tree) == LET mp == ModPrecsFrom(tree, 1).map IN
                  [id \in {x[1] : x \in mp} |-> (CHOOSE x \in mp : x[1] = id)[2]]

(* e1 is preferred to e2: higher import precedence, then higher priority, then later position *)
Preferred(e1, e2) == \/ e1.prec > e2.prec
                     \/ e1.prec = e2.prec /\ NumLt(e2.prio, e1.prio)
                     \/ e1.prec = e2.prec /\ NumEq(e1.prio, e2.prio) /\ e1.pos >= e2.pos

Builtin == 0
Best(cands) == IF cands = {} THEN Builtin
               ELSE (CHOOSE e \in cands : \A o \in cands : Preferred(e, o)).rid

(* the rule instantiated for node n by apply-templates in `mode` *)
Winner(entries, n, mode, c) ==
  Best({e \in entries : e.mode = mode /\ Matches(e.alt, n, c)})

(* 5.6 apply-imports from rule `cur`: only rules imported into the module containing cur *)
ImportsWinner(entries, n, mode, cur, c) ==
  LET below == UNION {e.below : e \in {x \in entries : x.rid = cur}} IN
  Best({e \in entries : e.mode = mode /\ e.mod \in below /\ Matches(e.alt, n, c)})
(* ---- the priority attribute (5.5): "must be a real number (positive or negative), matching the production Number with an optional   *)
(* leading minus sign".  Number ::= Digits ('.' Digits?)? | '.' Digits.  Anything else is an error that has to be signalled (17: no    *)
(* recovery is offered for it).                                                                                                      *)
PriorityLexOk(s) ==
  LET p == IF Len(s) >= 1 /\ s[1] = 45 THEN 2 ELSE 1
      body == SubSeq(s, p, Len(s))
      dots == {i \in 1..Len(body) : body[i] = 46}
  IN /\ \A i \in 1..Len(body) : body[i] \in 48..57 \/ body[i] = 46
     /\ Cardinality(dots) <= 1
     /\ \E i \in 1..Len(body) : body[i] \in 48..57
(* rule A: match="a" priority=text, then rule B: match="a" priority="1" (later in the same stylesheet): which one an a element gets *)
PriorityPick(s) == LET x == StrToNum(s) IN IF IsUnm(x) THEN "?" ELSE IF NumLt(One, x) THEN "A" ELSE "B"
=========================================================================
