------------------------------ MODULE AvtSyntax ------------------------------
(* XSLT 1.0 section 7.6.2, attribute value templates, over the alphabet that matters for their     *)
(* lexical structure:  {  }  '  "  and the letter a.                                               *)
(*   - outside an expression {{ stands for { and }} for };                                          *)
(*   - { starts an expression that ends at the next } that is not inside a Literal of the           *)
(*     expression ("a right curly brace inside a Literal in an expression is not recognized as      *)
(*     terminating the expression"; braces are not recognized recursively);                          *)
(*   - a } outside an expression that is not followed by a second } is an error; so is a { that     *)
(*     is never closed, and an expression that is not an XPath expression.                           *)
(* Over this alphabet an XPath expression is either an NCName (a+ : the child elements of that       *)
(* name) or one Literal ('...' or "..." without its own quote character); everything else is not     *)
(* derivable from the grammar (a'a', '', {, the empty string, ...).                                  *)
(* A string is a sequence of code points.  Parse(s) = [err, parts]; parts are                        *)
(*   [lit |-> TRUE, s]  or  [lit |-> FALSE, kind |-> "name" | "literal", s].                          *)
EXTENDS Naturals, Sequences

LB == 123  RB == 125  AP == 39  QT == 34  LA == 97
Alphabet == {LB, RB, AP, QT, LA}

IsName(e) == Len(e) > 0 /\ \A i \in 1..Len(e) : e[i] = LA
IsLiteral(e) == /\ Len(e) >= 2 /\ e[1] \in {AP, QT} /\ e[Len(e)] = e[1]
                /\ \A i \in 2..(Len(e) - 1) : e[i] # e[1]
ValidExpr(e) == IsName(e) \/ IsLiteral(e)

(* position of the } that ends the expression starting at i (the character after the {), 0 if none; *)
(* q = the quote character of the Literal being scanned, 0 outside a Literal                         *)
RECURSIVE ExprEnd(_, _, _)
ExprEnd(s, i, q) ==
  IF i > Len(s) THEN 0
  ELSE IF q # 0 THEN ExprEnd(s, i + 1, IF s[i] = q THEN 0 ELSE q)
  ELSE IF s[i] = RB THEN i
  ELSE IF s[i] \in {AP, QT} THEN ExprEnd(s, i + 1, s[i])
  ELSE ExprEnd(s, i + 1, 0)

AddLit(parts, ch) ==
  IF Len(parts) > 0 /\ parts[Len(parts)].lit
  THEN [parts EXCEPT ![Len(parts)] = [lit |-> TRUE, s |-> @.s \o <<ch>>]]
  ELSE Append(parts, [lit |-> TRUE, s |-> <<ch>>])

RECURSIVE ParseFrom(_, _, _)
ParseFrom(s, i, parts) ==
  IF i > Len(s) THEN [err |-> FALSE, parts |-> parts]
  ELSE IF s[i] = LB
       THEN IF i < Len(s) /\ s[i + 1] = LB THEN ParseFrom(s, i + 2, AddLit(parts, LB))
            ELSE LET e == ExprEnd(s, i + 1, 0) IN
                 IF e = 0 THEN [err |-> TRUE, parts |-> <<>>]                       \* never closed
                 ELSE LET x == SubSeq(s, i + 1, e - 1) IN
                      IF ~ValidExpr(x) THEN [err |-> TRUE, parts |-> <<>>]          \* not an expression (also the empty one)
                      ELSE ParseFrom(s, e + 1, Append(parts, [lit |-> FALSE, kind |-> IF IsName(x) THEN "name" ELSE "literal",
                                                              s |-> IF IsName(x) THEN x ELSE SubSeq(x, 2, Len(x) - 1)]))
  ELSE IF s[i] = RB
       THEN IF i < Len(s) /\ s[i + 1] = RB THEN ParseFrom(s, i + 2, AddLit(parts, RB))
            ELSE [err |-> TRUE, parts |-> <<>>]                                      \* a lone right brace
  ELSE ParseFrom(s, i + 1, AddLit(parts, s[i]))

Parse(s) == ParseFrom(s, 1, <<>>)

(* the value, given NV = the sequence of string-values of the first child element named a, aa, aaa, ... (<<>> beyond its length) *)
RECURSIVE ValueOf(_, _, _)
ValueOf(parts, j, NV) ==
  IF j > Len(parts) THEN <<>>
  ELSE (IF parts[j].lit \/ parts[j].kind = "literal" THEN parts[j].s
        ELSE IF Len(parts[j].s) \in DOMAIN NV THEN NV[Len(parts[j].s)] ELSE <<>>) \o ValueOf(parts, j + 1, NV)
=============================================================================
