----------------------------- MODULE StringImpl -----------------------------
(* Implementation-shaped model of XalanDOMString (src/xalanc/XalanDOM/XalanDOMString.{hpp,cpp}).   *)
(* A string is [d, n, oob]:  d = m_data, an XalanVector<XalanDOMChar> (VectorImpl record) that is    *)
(* either empty or holds the code units followed by the terminator 0;  n = m_size, the separately    *)
(* tracked length;  oob is set when a member reads past the terminator of its source.                *)
(* Members are transcribed in terms of the transcribed vector members, so that the cases where a     *)
(* string is its own argument (s.append(s), s.insert(p, s, q, n), s.assign(s, p, n), s.substr(s,..))  *)
(* hand the vector an iterator range inside its own block.  XalanDOMChar is trivially copyable:      *)
(* std::copy inside the block is memmove.                                                             *)
(* Strings here never contain the unit 0 (XML's Char production excludes it; XalanDOMString measures  *)
(* `const XalanDOMChar*` arguments by scanning for 0).                                                *)
EXTENDS VectorImpl

NewStr == [d |-> NewVec(0), n |-> 0, oob |-> FALSE]
DEmpty(S) == S.d.size = 0                                          \* m_data.empty()

(* a source character pointer: into another string's buffer (ext: its units, the terminator follows) *)
(* or into this string's own buffer (own), `off` units from c_str()                                   *)
PExt(units, off) == [own |-> FALSE, units |-> units, off |-> off]
POwn(off) == [own |-> TRUE, units |-> <<>>, off |-> off]
ScanLen(S, p) == IF p.own THEN S.n - p.off ELSE Len(p.units) - p.off             \* length(theString): up to the first 0
(* the iterator range [ptr, ptr + len) as the vector sees it; reading beyond the terminator is out of bounds *)
PRange(S, p, len) ==
  IF p.own THEN Own(p.off, p.off + len)
  ELSE Ext([j \in 1..len |-> IF p.off + j <= Len(p.units) THEN p.units[p.off + j] ELSE 0])
POob(S, p, len) == len > 0 /\ (IF p.own THEN p.off + len > S.d.size ELSE p.off + len > Len(p.units) + 1)

SetBack0(V) == [V EXCEPT !.mem[V.size] = 0]                        \* m_data.back() = 0

(* ---- append(const XalanDOMChar* theString, size_type theCount) *)
AppendPtr(S, p, count) ==
  LET len == IF count = Npos THEN ScanLen(S, p) ELSE count IN
  IF len = 0 THEN S
  ELSE IF DEmpty(S)
  THEN LET d1 == Reserve(S.d, len + 1)
           d2 == InsertRange(d1, d1.size, PRange(S, p, len), TRUE)
       IN [d |-> DoPushBack(d2, 0), n |-> len, oob |-> S.oob \/ POob(S, p, len)]
  ELSE [d |-> InsertRange(S.d, S.d.size - 1, PRange(S, p, len), TRUE),       \* getBackInsertIterator()
        n |-> S.n + len,                                                      \* m_size += theLength  (repair 605656a; was theCount)
        oob |-> S.oob \/ POob(S, p, len)]

(* ---- append(size_type theCount, XalanDOMChar theChar) *)
AppendN(S, count, ch) ==
  IF DEmpty(S)
  THEN [S EXCEPT !.d = SetBack0(InsertN(S.d, 0, count + 1, Val(ch))), !.n = count]
  ELSE [S EXCEPT !.d = InsertN(S.d, S.d.size - 1, count, Val(ch)), !.n = S.n + count]

(* ---- erase(size_type theStartPosition, size_type theCount) *)
EraseAll(S) == [S EXCEPT !.d = EraseRange(S.d, 0, S.d.size), !.n = 0]
ErasePos(S, start, count) ==
  LET actual == IF count = Npos THEN S.n - start ELSE count IN
  IF start = 0 /\ (count = Npos \/ count >= S.n) THEN EraseAll(S)
  ELSE LET d1 == EraseRange(S.d, start, start + actual)
       IN [S EXCEPT !.d = d1, !.n = IF d1.size < 2 THEN 0 ELSE d1.size - 1]

(* ---- resize(size_type theCount, XalanDOMChar theChar) *)
ResizeStr(S, count, ch) ==
  IF count = S.n THEN S
  ELSE LET d1 == Resize(S.d, count + 1, Val(ch))
           d2 == IF ~DEmpty(S) /\ count > S.n THEN [d1 EXCEPT !.mem[S.n + 1] = ch] ELSE d1   \* the old terminator is now inside
       IN [S EXCEPT !.d = SetBack0(d2), !.n = count]                                           \* the string (repair 0de52b0)

(* ---- insert(size_type thePosition, const XalanDOMChar* theString, size_type theCount) *)
InsertPtr(S, pos, p, count) ==
  IF DEmpty(S) THEN AppendPtr(S, p, count)
  ELSE IF count # 0 /\ p.own                    \* the source is part of this string: copied into a temporary vector first
  THEN [d |-> InsertRange(S.d, pos, Ext([j \in 1..count |-> ReadSrc(S.d, PRange(S, p, count), j - 1)]), TRUE),   \* (repair edd5c40)
        n |-> S.n + count, oob |-> S.oob \/ POob(S, p, count)]
  ELSE [d |-> InsertRange(S.d, pos, PRange(S, p, count), TRUE), n |-> S.n + count, oob |-> S.oob \/ POob(S, p, count)]

AssignN(S, count, ch) == AppendN(ErasePos(S, 0, Npos), count, ch)                  \* assign(theCount, theChar)

InsertNStr(S, pos, count, ch) ==                                                    \* insert(thePosition, theCount, theChar)
  IF DEmpty(S) THEN AssignN(S, count, ch)
  ELSE [S EXCEPT !.d = InsertN(S.d, pos, count, Val(ch)), !.n = S.n + count]

(* ---- assign(const XalanDOMString& theSource, size_type thePosition, size_type theCount) *)
AssignSubExt(S, units, pos, count) == AppendPtr(ErasePos(S, 0, Npos), PExt(units, pos), count)
AssignSubSelf(S, pos, count) ==
  IF pos = 0 THEN (IF count # S.n THEN ResizeStr(S, count, 0) ELSE S)
  ELSE ResizeStr([S EXCEPT !.d.mem = [c \in 1..Len(@) |-> IF c <= count                \* memmove(begin, begin + pos, count)
                                                          THEN (IF pos + c <= Len(@) THEN @[pos + c] ELSE RAW) ELSE @[c]],
                           !.oob = S.oob \/ pos + count > S.d.size], count, 0)

(* ---- a string object built from a literal: XalanDOMString(const XalanDOMChar*, mm) *)
FromUnits(units) == IF units = <<>> THEN NewStr ELSE AppendPtr(NewStr, PExt(units, 0), Npos)
(* copy constructor XalanDOMString(theSource, mm, theStartPosition, theCount) *)
CopyOf(units, start, count) == IF units = <<>> THEN NewStr ELSE AppendPtr(NewStr, PExt(units, start), count)

(* ---- what a user sees *)
LenOK(S) == S.n >= 0 /\ (IF DEmpty(S) THEN S.n = 0 ELSE S.n < S.d.size)
Units(S) == IF LenOK(S) THEN SubSeq(S.d.mem, 1, S.n) ELSE <<-2>>                   \* data()[0 .. length())
Term(S) == IF ~LenOK(S) THEN -2 ELSE IF DEmpty(S) THEN 0 ELSE S.d.mem[S.n + 1]      \* c_str()[length()]

(* ---- dispatcher with the op vocabulary of Containers!StrApply; returns [s, res, other] *)
SR(s, res, other) == [s |-> s, res |-> res, other |-> other]
SImplApply(S, op) ==
  LET me == Units(S) IN
  CASE op.op = "append"        -> SR(AppendPtr(S, PExt(op.src, 0), Len(op.src)), 0, <<>>)
    [] op.op = "appendSelf"    -> SR(AppendPtr(S, POwn(0), S.n), 0, <<>>)
    [] op.op = "appendSub"     -> SR(AppendPtr(S, PExt(op.src, op.pos), op.n), 0, <<>>)
    [] op.op = "appendSubSelf" -> SR(AppendPtr(S, POwn(op.pos), op.n), 0, <<>>)
    [] op.op = "appendPtr"     -> SR(AppendPtr(S, PExt(op.src, 0), op.n), 0, <<>>)
    [] op.op = "appendN"       -> SR(AppendN(S, op.n, op.ch), 0, <<>>)
    [] op.op = "pushBack"      -> SR(AppendN(S, 1, op.ch), 0, <<>>)
    [] op.op = "insert"        -> SR(InsertPtr(S, op.pos, PExt(op.src, 0), Len(op.src)), 0, <<>>)
    [] op.op = "insertSelf"    -> SR(InsertPtr(S, op.pos, POwn(0), S.n), 0, <<>>)
    [] op.op = "insertSub"     -> SR(InsertPtr(S, op.pos, PExt(op.src, op.pos2), op.n), 0, <<>>)
    [] op.op = "insertSubSelf" -> SR(InsertPtr(S, op.pos, POwn(op.pos2), op.n), 0, <<>>)
    [] op.op = "insertRangeSelf" -> SR(InsertPtr(S, op.pos, POwn(op.pos2), op.n), 0, <<>>)     \* insert(iterator, iterator, iterator): an own range is copied first as well (repair, see known findings)
    [] op.op = "insertN"       -> SR(InsertNStr(S, op.pos, op.n, op.ch), 0, <<>>)
    [] op.op = "insertIt"      -> SR(InsertNStr(S, op.pos, 1, op.ch), op.pos, <<>>)
    [] op.op = "erase"         -> SR(ErasePos(S, op.pos, op.n), 0, <<>>)
    [] op.op = "eraseIt"       -> SR([S EXCEPT !.d = EraseRange(S.d, op.pos, op.pos + 1), !.n = S.n - 1], op.pos, <<>>)
    [] op.op = "eraseRange"    -> SR(LET d1 == EraseRange(S.d, op.first, op.last) IN [S EXCEPT !.d = d1, !.n = IF d1.size = 0 THEN 0 ELSE d1.size - 1], op.first, <<>>)   \* (repair 10a7d02)
    [] op.op = "assign"        -> LET T == FromUnits(op.src) IN SR([S EXCEPT !.d = AssignFrom(S.d, Elems(T.d)), !.n = T.n], 0, <<>>)
    [] op.op = "selfAssign"    -> SR(S, 0, <<>>)
    [] op.op = "assignSub"     -> SR(AssignSubExt(S, op.src, op.pos, op.n), 0, <<>>)
    [] op.op = "assignSubSelf" -> SR(AssignSubSelf(S, op.pos, op.n), 0, <<>>)
    [] op.op = "assignPtr"     -> SR(AppendPtr(ErasePos(S, 0, Npos), PExt(op.src, 0), Len(op.src)), 0, <<>>)
    [] op.op = "assignN"       -> SR(AssignN(S, op.n, op.ch), 0, <<>>)
    [] op.op = "resize"        -> SR(ResizeStr(S, op.n, 0), 0, <<>>)
    [] op.op = "resizeC"       -> SR(ResizeStr(S, op.n, op.ch), 0, <<>>)
    [] op.op = "substr"        -> LET T == AssignSubExt(FromUnits(op.out), me, op.pos, IF op.n = Npos THEN S.n - op.pos ELSE op.n)   \* (repair f452096)
                                  IN SR([S EXCEPT !.oob = T.oob], 0, Units(T))
    [] op.op = "substrSelf"    -> SR(AssignSubSelf(S, op.pos, IF op.n = Npos THEN S.n - op.pos ELSE op.n), 0, <<>>)
    [] op.op = "swap"          -> SR(FromUnits(op.src), 0, me)
    [] op.op = "clear"         -> SR(EraseAll(S), 0, <<>>)
    [] op.op = "reserve"       -> SR([S EXCEPT !.d = Reserve(S.d, op.n + 1)], 0, <<>>)
    [] op.op = "copy"          -> SR(S, 0, Units(CopyOf(me, 0, Npos)))
    [] op.op = "copySub"       -> SR(S, 0, Units(CopyOf(me, op.pos, op.n)))
    [] op.op = "compare"       -> SR(S, StrCmp(me, op.src), <<>>)
    [] op.op = "equals"        -> SR(S, IF me = op.src THEN 1 ELSE 0, <<>>)
    [] op.op = "at"            -> SR(S, IF op.i >= S.n THEN NoValue ELSE S.d.mem[op.i + 1], <<>>)             \* m_data.at(theIndex < m_size ? theIndex : m_data.size())  (repair d3fc783)

(* capacity(): m_data.capacity() - 1, or 0 *)
Capacity(S) == IF S.d.alloc = 0 THEN 0 ELSE S.d.alloc - 1

(* ---- the class invariant (XalanDOMString::invariants) *)
Invariants(S) ==
  /\ (DEmpty(S) /\ S.n = 0) \/ S.n = S.d.size - 1
  /\ DEmpty(S) \/ S.d.mem[S.d.size] = 0
  /\ WellFormed(S.d)

(* ---- repaired paths --------------------------------------------------------------------------- *)
(* Until the fix: commits named above these calls deviated from std::basic_string (known_findings   *)
(* keys string-append-substring-npos, string-resize-grow-fill, string-insert-substring-of-self,        *)
(* string-substr-npos-position, string-at-length, string-erase-iterators-unallocated, now "fixed").    *)
(* The predicate only marks the transitions that run through the repaired code, so that all of them    *)
(* are replayed on the real class; the refinement has no exclusions.                                   *)
RP_AppendNpos(S, op) == op.op \in {"appendSub", "appendSubSelf"} /\ op.n = Npos /\ ~DEmpty(S)
RP_ResizeFill(S, op) == op.op = "resizeC" /\ op.n > S.n /\ ~DEmpty(S) /\ op.ch # 0
RP_InsertSubSelf(S, op) ==                     \* the inputs on which the unrepaired in-place insertion read moved units
  /\ op.op \in {"insertSubSelf", "insertRangeSelf"} /\ ~DEmpty(S) /\ op.n > 0
  /\ S.d.size + op.n <= S.d.alloc
  /\ S.d.size - op.pos > op.n
  /\ op.pos2 > op.pos
  /\ \E c \in CMax(op.pos2, op.pos + op.n)..(op.pos2 + op.n - 1) : S.d.mem[c + 1] # S.d.mem[c + 1 - op.n]
RP_SubstrNpos(S, op) == op.op \in {"substr", "substrSelf"} /\ op.n = Npos /\ op.pos > 0
RP_AtLen(S, op) == op.op = "at" /\ op.i = S.n /\ ~DEmpty(S)
RP_EraseRangeEmpty(S, op) == op.op = "eraseRange" /\ DEmpty(S)

SRepairedPath(S, op) ==
  \/ RP_AppendNpos(S, op) \/ RP_ResizeFill(S, op) \/ RP_InsertSubSelf(S, op)
  \/ RP_SubstrNpos(S, op) \/ RP_AtLen(S, op) \/ RP_EraseRangeEmpty(S, op)
=============================================================================
