-------------------------- MODULE PatternTablesImpl --------------------------
(* Transcription of how one stylesheet module files its template rules and looks one up:                        *)
(*   Stylesheet::addTemplate, addToList, addToTable (postConstruction), locateMatchPatternDataList and the two     *)
(*   lookup loops of Stylesheet::findTemplate (src/xalanc/XSLT/Stylesheet.cpp, after repair of the id()/key() filing) *)
(* The pattern matcher itself is abstracted: an ENTRY (one alternative of one rule's pattern) carries the TARGET    *)
(* XPath::getTargetData reports for it, and whether it matches the node at hand is a given (`hit`).                  *)
(*   entry  [rid, pat, alt, target, prio, pos, mode] pat = the pattern text (rules may share it), alt = which of its *)
(*          alternatives, pos = m_patternCount when the alternative was filed; whether it matches: <<pat, alt>> in hit *)
(*   target <<t, name>>: t in "text" "comment" "root" "pi" "node" "anyElem" "anyAttr" "any" (an id() / key()          *)
(*          pattern) with name "", or <<"elem", name>>, <<"attr", name>>                                            *)
(*   node   [kind, name]  kind in elem attr text comment pi root                                                    *)
EXTENDS Naturals, Integers, Sequences, FiniteSets

ElemNames == {"a", "b"}
AttrNames == {"x"}

EmptyTables == [text |-> <<>>, comment |-> <<>>, root |-> <<>>, pi |-> <<>>, node |-> <<>>, elemAny |-> <<>>, attrAny |-> <<>>,
                elem |-> [n \in ElemNames |-> <<>>], attr |-> [n \in AttrNames |-> <<>>],
                elemHas |-> {}, attrHas |-> {}]          \* the names that have a table entry of their own (a map in the code)

(* addToList: sorted by priority, highest first; among equal priorities the one filed later first *)
RECURSIVE InsertAt(_, _, _)
InsertAt(list, e, i) ==
  IF i > Len(list) THEN Append(list, e)
  ELSE IF e.prio > list[i].prio \/ (e.prio = list[i].prio /\ e.pos > list[i].pos)
       THEN SubSeq(list, 1, i - 1) \o <<e>> \o SubSeq(list, i, Len(list))
       ELSE InsertAt(list, e, i + 1)
AddToList(list, e) == InsertAt(list, e, 1)

(* addTemplate: which lists an alternative is filed in.  repaired = FALSE: an id() / key() pattern ("any") goes to  *)
(* the element and attribute wildcard lists only - the defect that was repaired                                      *)
File(T, e, repaired) ==
  LET t == e.target
      add(f) == [T EXCEPT ![f] = AddToList(@, e)]
      add2(T2, f) == [T2 EXCEPT ![f] = AddToList(@, e)]
  IN CASE t[1] = "text"    -> add("text")
       [] t[1] = "comment" -> add("comment")
       [] t[1] = "root"    -> add("root")
       [] t[1] = "pi"      -> add("pi")
       [] t[1] = "node"    -> add2(add2(add2(add2(add2(add("node"), "elemAny"), "attrAny"), "comment"), "text"), "pi")
       [] t[1] = "anyElem" -> add("elemAny")
       [] t[1] = "anyAttr" -> add("attrAny")
       [] t[1] = "any"     -> IF repaired THEN add2(add2(add2(add2(add2(add("elemAny"), "attrAny"), "comment"), "text"), "pi"), "root")
                           ELSE add2(add("elemAny"), "attrAny")
       [] t[1] = "elem" -> [T EXCEPT !.elem[t[2]] = AddToList(@, e), !.elemHas = @ \cup {t[2]}]
       [] t[1] = "attr" -> [T EXCEPT !.attr[t[2]] = AddToList(@, e), !.attrHas = @ \cup {t[2]}]

RECURSIVE FileAll(_, _, _, _)
FileAll(T, es, i, repaired) == IF i > Len(es) THEN T ELSE FileAll(File(T, es[i], repaired), es, i + 1, repaired)

(* postConstruction: addToTable merges the wildcard list into every named table that exists *)
RECURSIVE AddAll(_, _, _)
AddAll(list, more, i) == IF i > Len(more) THEN list ELSE AddAll(AddToList(list, more[i]), more, i + 1)
Finish(T) == [T EXCEPT !.elem = [n \in ElemNames |-> IF n \in T.elemHas THEN AddAll(T.elem[n], T.elemAny, 1) ELSE T.elem[n]],
                       !.attr = [n \in AttrNames |-> IF n \in T.attrHas THEN AddAll(T.attr[n], T.attrAny, 1) ELSE T.attr[n]]]

Build(es, repaired) == Finish(FileAll(EmptyTables, es, 1, repaired))

(* locateMatchPatternDataList *)
Locate(T, n) ==
  CASE n.kind = "elem"    -> IF n.name \in T.elemHas THEN T.elem[n.name] ELSE T.elemAny
    [] n.kind = "attr"    -> IF n.name \in T.attrHas THEN T.attr[n.name] ELSE T.attrAny
    [] n.kind = "text"    -> T.text
    [] n.kind = "comment" -> T.comment
    [] n.kind = "pi"      -> T.pi
    [] n.kind = "root"    -> T.root

(* findTemplate with quiet conflict warnings: the first entry of the right mode that matches *)
RECURSIVE FirstHit(_, _, _, _)
FirstHit(list, i, mode, hit) ==
  IF i > Len(list) THEN 0
  ELSE IF list[i].mode = mode /\ <<list[i].pat, list[i].alt>> \in hit THEN list[i].rid
  ELSE FirstHit(list, i + 1, mode, hit)
FindQuiet(T, n, mode, hit) == FirstHit(Locate(T, n), 1, mode, hit)

(* findTemplate reporting conflicts: scans the whole list; st = [best (entry or none), bestPrio, conflicts, prev]   *)
None == [rid |-> 0, pat |-> <<"none", 0>>, alt |-> 0, prio |-> -1000, pos |-> 0, mode |-> "", target |-> <<"none", "">>]
RECURSIVE Scan(_, _, _, _, _)
Scan(list, i, mode, hit, st) ==
  IF i > Len(list) THEN st
  ELSE LET e == list[i]
           skipSamePrev == st.prev.rid # 0 /\ st.prev.pat = e.pat /\ st.prev.alt = e.alt /\ st.prev.prio = e.prio      \* the same pattern text, alternative and priority as the entry looked at before
           consider == e.mode = mode /\ e.rid # st.best.rid /\ ~skipSamePrev
       IN IF ~consider THEN Scan(list, i + 1, mode, hit, st)
          ELSE LET st1 == [st EXCEPT !.prev = e] IN
               IF <<e.pat, e.alt>> \notin hit THEN Scan(list, i + 1, mode, hit, st1)
               ELSE IF e.prio > st1.bestPrio
                    THEN Scan(list, i + 1, mode, hit, [st1 EXCEPT !.best = e, !.bestPrio = e.prio, !.conflicts = <<>>])
               ELSE IF e.prio = st1.bestPrio
                    THEN LET c1 == IF \E k \in 1..Len(st1.conflicts) : st1.conflicts[k] = st1.best THEN st1.conflicts ELSE Append(st1.conflicts, st1.best)
                         IN Scan(list, i + 1, mode, hit, [st1 EXCEPT !.best = e, !.conflicts = Append(c1, e)])
               ELSE Scan(list, i + 1, mode, hit, st1)
FindReporting(T, n, mode, hit) ==
  LET st == Scan(Locate(T, n), 1, mode, hit, [best |-> None, bestPrio |-> -1000, conflicts |-> <<>>, prev |-> None])
  IN IF Len(st.conflicts) > 0 THEN st.conflicts[1].rid ELSE st.best.rid

(* ---- what the target promises: an alternative can only match nodes its target covers ---- *)
Covers(t, n) ==
  CASE t[1] = "text"    -> n.kind = "text"
    [] t[1] = "comment" -> n.kind = "comment"
    [] t[1] = "root"    -> n.kind = "root"
    [] t[1] = "pi"      -> n.kind = "pi"
    [] t[1] = "node"    -> n.kind \in {"elem", "text", "comment", "pi", "attr"}
    [] t[1] = "anyElem" -> n.kind = "elem"
    [] t[1] = "anyAttr" -> n.kind = "attr"
    [] t[1] = "any"     -> TRUE
    [] t[1] = "elem" -> n.kind = "elem" /\ n.name = t[2]
    [] t[1] = "attr" -> n.kind = "attr" /\ n.name = t[2]

(* ---- the definition (XSLT 5.5 within one module): highest priority, then last in the stylesheet ---- *)
Winner(es, n, mode, hit) ==
  LET cands == {k \in 1..Len(es) : es[k].mode = mode /\ <<es[k].pat, es[k].alt>> \in hit}
  IN IF cands = {} THEN 0
     ELSE es[CHOOSE k \in cands : \A j \in cands : es[k].prio > es[j].prio \/ (es[k].prio = es[j].prio /\ es[k].pos >= es[j].pos)].rid
=============================================================================
