---------------------------- MODULE KeyTableImpl ----------------------------
(* Transcription of how Xalan answers key():                                                          *)
(*   KeyTable::KeyTable (the non-recursive pre-order walk with its "a little strange" attribute loop), *)
(*   KeyTable::processKeyDeclaration, KeyTable::getNodeSetByKey      (src/xalanc/XSLT/KeyTable.cpp),   *)
(*   StylesheetRoot::getNodeSetByKey (one table per document, built lazily for ALL declarations at the  *)
(*   first key() whose context node is in that document)        (src/xalanc/XSLT/StylesheetRoot.cpp),  *)
(*   FunctionKey::execute (string / one-node / many-node argument)  (src/xalanc/XSLT/FunctionKey.cpp). *)
(* A document is abstracted to what this code looks at: nodes 1..n in document order, kind[i] in       *)
(* {"root","elem","attr","other"}, parent[i] (0 for the root).  A declaration is [name, match, use]:   *)
(* match[d] = the set of nodes of document d its pattern matches, use[d][i] = the SEQUENCE of string   *)
(* values its use expression gives for node i (a node-set gives one per node, in document order,       *)
(* possibly with repetitions; anything else gives exactly one).  What patterns and expressions mean    *)
(* is XPathSem's business (C09, C02); here they are arbitrary.                                         *)
EXTENDS Naturals, Integers, Sequences, FiniteSets, SequencesExt

Null == 0

(* ---- tree navigation as the walk uses it --------------------------------------------------------- *)
IsChildKind(T, i) == T.kind[i] \in {"elem", "other"}
ChildrenOf(T, i) == {j \in 1..T.n : T.parent[j] = i /\ IsChildKind(T, j)}
AttrsOf(T, i)    == {j \in 1..T.n : T.parent[j] = i /\ T.kind[j] = "attr"}
MinOf(S) == CHOOSE x \in S : \A y \in S : x <= y
FirstChild(T, i)  == IF ChildrenOf(T, i) = {} THEN Null ELSE MinOf(ChildrenOf(T, i))
NextSibling(T, i) == IF T.parent[i] = 0 THEN Null
                     ELSE LET S == {j \in ChildrenOf(T, T.parent[i]) : j > i} IN IF S = {} THEN Null ELSE MinOf(S)
AttrSeq(T, i) == SetToSortSeq(AttrsOf(T, i), LAMBDA a, b : a < b)          \* attrs->item(0), item(1), ...

(* ---- the walk: sequence of the nodes tested, in the order they are tested ------------------------- *)
(* for (i = 0; i < nNodes; ++i) { test(testNode); if (attrs != 0 && nodeIndex < nAttrNodes) { testNode = attrs->item(nodeIndex); ++nodeIndex; } } *)
RECURSIVE NodeLoop(_, _, _, _, _, _)
NodeLoop(T, attrs, i, nNodes, testNode, nodeIndex) ==
  IF i >= nNodes THEN <<>>
  ELSE LET more == Len(attrs) # 0 /\ nodeIndex < Len(attrs) IN
       <<testNode>> \o NodeLoop(T, attrs, i + 1, nNodes, IF more THEN attrs[nodeIndex + 1] ELSE testNode, IF more THEN nodeIndex + 1 ELSE nodeIndex)
Tested(T, pos) == LET attrs == IF T.kind[pos] = "elem" THEN AttrSeq(T, pos) ELSE <<>> IN
                  NodeLoop(T, attrs, 0, 1 + Len(attrs), pos, 0)

(* next pre-order position: first child, else climb until a next sibling exists or the start node is reached *)
RECURSIVE Climb(_, _, _)
Climb(T, start, pos) ==
  IF start = pos THEN Null
  ELSE LET ns == NextSibling(T, pos) IN
       IF ns # Null THEN ns
       ELSE LET p == T.parent[pos] IN
            IF p = start \/ p = 0 THEN Null ELSE Climb(T, start, p)
NextPos(T, start, pos) == LET fc == FirstChild(T, pos) IN IF fc # Null THEN fc ELSE Climb(T, start, pos)

RECURSIVE WalkFrom(_, _, _)
WalkFrom(T, start, pos) == IF pos = Null THEN <<>> ELSE Tested(T, pos) \o WalkFrom(T, start, NextPos(T, start, pos))
Walk(T) == WalkFrom(T, 1, 1)

(* ---- MutableNodeRefList::addNodeInDocOrder on a list that is in document order -------------------- *)
AddInDocOrder(list, x) ==
  IF \E k \in 1..Len(list) : list[k] = x THEN list
  ELSE LET before == SelectSeq(list, LAMBDA y : y < x)  after == SelectSeq(list, LAMBDA y : y > x) IN before \o <<x>> \o after
RECURSIVE AddAll(_, _, _)
AddAll(list, xs, k) == IF k > Len(xs) THEN list ELSE AddAll(AddInDocOrder(list, xs[k]), xs, k + 1)

(* ---- building the table of document d: m_keys[name][value] = node list ---------------------------- *)
(* a table is a function from <<name, value>> to lists, given as a set of pairs; absent = no entry      *)
TGet(tab, name, v) == IF <<name, v>> \in DOMAIN tab THEN tab[<<name, v>>] ELSE <<>>
TPut(tab, name, v, list) == [kv \in DOMAIN tab \cup {<<name, v>>} |-> IF kv = <<name, v>> THEN list ELSE tab[kv]]

RECURSIVE UseLoop(_, _, _, _, _)
UseLoop(tab, name, vals, k, node) ==                 \* processKeyDeclaration: one addIfNotFound per use value
  IF k > Len(vals) THEN tab ELSE UseLoop(TPut(tab, name, vals[k], AddInDocOrder(TGet(tab, name, vals[k]), node)), name, vals, k + 1, node)
RECURSIVE DeclLoop(_, _, _, _, _)
DeclLoop(tab, decls, d, k, node) ==
  IF k > Len(decls) THEN tab
  ELSE DeclLoop(IF node \in decls[k].match[d] THEN UseLoop(tab, decls[k].name, decls[k].use[d][node], 1, node) ELSE tab, decls, d, k + 1, node)
RECURSIVE BuildLoop(_, _, _, _, _)
BuildLoop(tab, decls, d, w, k) == IF k > Len(w) THEN tab ELSE BuildLoop(DeclLoop(tab, decls, d, 1, w[k]), decls, d, w, k + 1)
EmptyTab == [kv \in {} |-> <<>>]
Build(docs, decls, d) == BuildLoop(EmptyTab, decls, d, Walk(docs[d]), 1)

(* ---- KeyTable::getNodeSetByKey: the list, the empty dummy list, or "unknown key" ------------------ *)
Unknown == <<-1>>                    \* "unknown key" (node ids are >= 1)
TableLookup(tab, decls, name, v) ==
  IF \E kv \in DOMAIN tab : kv[1] = name THEN TGet(tab, name, v)                     \* m_keys.find(qname) found: the value's list or the dummy
  ELSE IF \E k \in 1..Len(decls) : decls[k].name = name THEN <<>>                    \* declared, but nothing indexed
  ELSE Unknown

(* ---- StylesheetRoot::getNodeSetByKey + FunctionKey::execute ---------------------------------------- *)
(* tables: per document index [built, tab] (theKeysTable.find(theKeyNode)).  Returns [tables, r]        *)
NotBuilt == [built |-> FALSE, tab |-> EmptyTab]
EnsureTable(tables, docs, decls, d) == IF tables[d].built THEN tables ELSE [tables EXCEPT ![d] = [built |-> TRUE, tab |-> Build(docs, decls, d)]]
OneRef(tables, decls, d, name, v, nodelist) ==       \* -> nodelist after this reference, or Unknown
  IF Len(decls) = 0 THEN Unknown                     \* m_needToBuildKeysTable false: nl stays 0
  ELSE LET nl == TableLookup(tables[d].tab, decls, name, v) IN
       IF nl = Unknown THEN Unknown
       ELSE IF nodelist = <<>> THEN nl
       ELSE AddAll(nodelist, nl, 1)
RECURSIVE RefLoop(_, _, _, _, _, _, _)
RefLoop(tables, decls, d, name, refs, k, nodelist) ==
  IF k > Len(refs) THEN nodelist
  ELSE LET r == OneRef(tables, decls, d, name, refs[k], nodelist) IN
       IF r = Unknown THEN Unknown ELSE RefLoop(tables, decls, d, name, refs, k + 1, r)
(* refs: the argument as a sequence of strings (a string argument, or the string-values of the argument node-set in order; possibly empty) *)
KeyCall(tables, docs, decls, d, name, refs) ==
  LET t2 == IF Len(decls) = 0 \/ Len(refs) = 0 THEN tables ELSE EnsureTable(tables, docs, decls, d) IN
  [tables |-> t2, r |-> RefLoop(t2, decls, d, name, refs, 1, <<>>)]

(* ---- the definition (XSLT 12.2) over the same abstraction ------------------------------------------ *)
SeqRange(s) == {s[k] : k \in 1..Len(s)}
DefSet(docs, decls, d, name, refs) ==
  {x \in 1..docs[d].n : \E k \in 1..Len(decls) : decls[k].name = name /\ x \in decls[k].match[d] /\ SeqRange(decls[k].use[d][x]) \cap SeqRange(refs) # {}}
Def(docs, decls, d, name, refs) ==
  IF ~\E k \in 1..Len(decls) : decls[k].name = name THEN Unknown
  ELSE SetToSortSeq(DefSet(docs, decls, d, name, refs), LAMBDA a, b : a < b)
=============================================================================
