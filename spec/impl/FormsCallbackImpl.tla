--------------------------- MODULE FormsCallbackImpl ---------------------------
(* The callback result target, transcribed (C05):                                                         *)
(*   XalanTransformer::transform(.., theOutputHandle, theOutputHandler, theFlushHandler)                    *)
(*       XalanTransformerOutputStream theOutputStream(..); XalanOutputStreamPrintWriter thePrintWriter(..); *)
(*       doTransform(..)  [catches XSLException -> theResult = -1];  ~XalanOutputStreamPrintWriter: flush() *)
(*   PlatformSupport/XalanOutputStream.cpp                                                                  *)
(*       write(const XalanDOMChar*, n): if (n + m_buffer.size() > m_bufferSize) flushBuffer();              *)
(*                                      if (n > m_bufferSize) doWrite(buf, n) else append                   *)
(*       write(XalanDOMChar):           if (m_buffer.size() == m_bufferSize) flushBuffer(); push_back       *)
(*       write(const char*, n):         writeData(buf, n)   [the UTF-8 writers; caller keeps m_buffer empty] *)
(*       flushBuffer():  if (!m_buffer.empty()) { CollectionClearGuard g(m_buffer); doWrite(m_buffer) }     *)
(*       flush():        flushBuffer(); doFlush()                                                           *)
(*   XalanTransformer/XalanTransformerOutputStream.cpp                                                      *)
(*       writeData(buf, n): if (m_outputHandler(buf, n, handle) != n) throw XalanOutputStreamException      *)
(*       doFlush():         if (m_flushHandler != 0) m_flushHandler(handle)                                 *)
(* Transcoding is the identity on units here (one unit = one byte; UTF-16 doubles every length).           *)
(* s = [buf, log, thrown]: m_buffer, the handler-side log (chunk = sequence of units, <<-1>> = flush       *)
(* handler), and whether XalanOutputStreamException is propagating.  The handler returns a short count at  *)
(* its ShortAt-th call (0 = never).                                                                         *)
EXTENDS Integers, Sequences, FiniteSets, TLC

CONSTANTS BufSize,    \* m_bufferSize (eDefaultBufferSize = 512)
          ShortAt     \* the handler's k-th call returns n - 1 (0: the handler is honest)

FlushMark == <<-1>>
NCalls(log) == Cardinality({i \in DOMAIN log : log[i] # FlushMark})

S0 == [buf |-> <<>>, log |-> <<>>, thrown |-> FALSE]

(* XalanTransformerOutputStream::writeData *)
WriteData(s, chunk) ==
  IF s.thrown THEN s
  ELSE LET k == NCalls(s.log) + 1 IN
       IF k = ShortAt
       THEN [s EXCEPT !.log = Append(@, chunk), !.thrown = TRUE]     \* handler saw the chunk, reported n - 1
       ELSE [s EXCEPT !.log = Append(@, chunk)]

(* flushBuffer(): the guard empties m_buffer whether or not doWrite throws *)
FlushBuffer(s) ==
  IF s.thrown \/ s.buf = <<>> THEN s
  ELSE LET t == WriteData(s, s.buf) IN [t EXCEPT !.buf = <<>>]

DoFlush(s) == IF s.thrown THEN s ELSE [s EXCEPT !.log = Append(@, FlushMark)]
Flush(s) == DoFlush(FlushBuffer(s))

(* write(const XalanDOMChar*, n) *)
WriteStr(s, data) ==
  LET a == IF Len(data) + Len(s.buf) > BufSize THEN FlushBuffer(s) ELSE s IN
  IF a.thrown THEN a
  ELSE IF Len(data) > BufSize THEN WriteData(a, data)
  ELSE [a EXCEPT !.buf = @ \o data]

(* write(XalanDOMChar) *)
WriteCh(s, u) ==
  LET a == IF Len(s.buf) = BufSize THEN FlushBuffer(s) ELSE s IN
  IF a.thrown THEN a ELSE [a EXCEPT !.buf = Append(@, u)]

(* write(const char*, n): straight through; the caller has flushed m_buffer (asserted in the source) *)
WriteBytes(s, data) == WriteData(s, data)

(* end of the run: the serializer's endDocument flushes (only when nothing was thrown); the exception is   *)
(* caught in doTransform; then ~XalanOutputStreamPrintWriter calls flush() once more in either case        *)
EndOfRun(s) ==
  LET a == IF s.thrown THEN s ELSE Flush(s)
      b == [a EXCEPT !.thrown = FALSE]                                 \* caught: theResult = -1
      c == Flush(b)
  IN [status |-> IF s.thrown \/ a.thrown THEN "error" ELSE "ok", log |-> c.log, buf |-> c.buf]

(* projection to the abstract handler log of Forms.tla *)
AbsLog(log) == [i \in DOMAIN log |-> IF log[i] = FlushMark THEN -1 ELSE Len(log[i])]
=============================================================================
