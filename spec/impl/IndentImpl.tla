----------------------------- MODULE IndentImpl -----------------------------
(* Implementation-shaped model of the indentation machinery of Xalan's XML serializer:                    *)
(*   xalanc/XMLSupport/XalanIndentWriter.hpp      m_currentIndent, m_startNewLine, m_ispreserve,           *)
(*                                                m_isprevtext, m_preserves; indent(), push/pop_preserve   *)
(*   xalanc/XMLSupport/XalanDummyIndentWriter.hpp the same interface with empty bodies (indent="no")       *)
(*   xalanc/XMLSupport/FormatterToXMLUnicode.hpp  the call sites: startElement, endElement, comment,       *)
(*                                                writeProcessingInstruction, writeCharacters, writeCDATA, *)
(*                                                charactersRaw, writeParentTagEnd, endDocument            *)
(*   xalanc/XMLSupport/XalanXMLSerializerBase     m_elemStack (markParentForChildren / childNodesWereAdded),*)
(*                                                m_needToOutputDoctypeDecl, characters()/cdata() dispatch *)
(*   xalanc/XSLT/XSLTEngineImpl.cpp               characters(): text of a cdata-section element is         *)
(*                                                delivered through cdata() (m_cdataStack)                 *)
(* The writer state is a record; every member function is an operator State -> State, statements in the    *)
(* order of the C++ source.  What is written is kept as a sequence of lexical items                        *)
(*   [i |-> "ws", v]     whitespace put out by indent() (new line and/or m_currentIndent blanks)           *)
(*   [i |-> "stag", name] / [i |-> "etag", short]  tags ("/>" when the element never got a child)          *)
(*   [i |-> "text", v] / [i |-> "cdata", v] / [i |-> "raw", v] / [i |-> "comment", v] / [i |-> "pi", ..]   *)
(* and Parse() reads it back the way an XML parser does (adjacent character data is ONE text node).        *)
EXTENDS OutputOptions

CONSTANTS CdataElems,      \* names listed in cdata-section-elements
          Amount           \* m_indent

NL == 10
Spaces(n) == [i \in 1..n |-> 32]

WInit(doIndent, doctype) ==
  [on |-> doIndent,                    \* XalanIndentWriter (TRUE) or XalanDummyIndentWriter (FALSE) instantiated
   cur |-> 0, nl |-> FALSE, pres |-> FALSE, prevtext |-> FALSE, preserves |-> <<>>,
   elems |-> <<>>,                     \* m_elemStack: has the open element got a child yet
   names |-> <<>>,                     \* the engine's element stack (for m_cdataStack and the end-tag name)
   needDoctype |-> doctype,            \* m_needToOutputDoctypeDecl
   out |-> <<>>]

Put(w, item) == [w EXCEPT !.out = Append(@, item)]

(* XalanIndentWriter::indent(): if (shouldIndent()) { if (m_startNewLine) newline; whitespace(m_currentIndent); } *)
ShouldIndent(w) == ~w.pres /\ ~w.prevtext
Indent(w) ==
  IF ~w.on THEN w
  ELSE IF ShouldIndent(w)
       THEN LET s == (IF w.nl THEN <<NL>> ELSE <<>>) \o Spaces(w.cur) IN
            IF s = <<>> THEN w ELSE Put(w, [i |-> "ws", v |-> s])
       ELSE w
SetPreserve(w, b)    == IF w.on THEN [w EXCEPT !.pres = b] ELSE w
SetPrevText(w, b)    == IF w.on THEN [w EXCEPT !.prevtext = b] ELSE w
SetStartNewLine(w, b) == IF w.on THEN [w EXCEPT !.nl = b] ELSE w
IncreaseIndent(w)    == IF w.on THEN [w EXCEPT !.cur = @ + Amount] ELSE w
DecreaseIndent(w)    == IF w.on THEN [w EXCEPT !.cur = @ - Amount] ELSE w
PushPreserve(w)      == IF w.on THEN [w EXCEPT !.preserves = Append(@, w.pres)] ELSE w
PopPreserve(w)       == IF ~w.on THEN w
                        ELSE IF w.preserves = <<>> THEN [w EXCEPT !.pres = FALSE]
                        ELSE [w EXCEPT !.pres = w.preserves[Len(w.preserves)], !.preserves = SubSeq(@, 1, Len(@) - 1)]

(* writeParentTagEnd(): if (markParentForChildren()) { write('>'); setPrevText(false); push_preserve(); } *)
WriteParentTagEnd(w) ==
  IF w.elems # <<>> /\ ~w.elems[Len(w.elems)]
  THEN PushPreserve(SetPrevText([w EXCEPT !.elems[Len(w.elems)] = TRUE], FALSE))
  ELSE w

(* generateDoctypeDecl(name): "<!DOCTYPE name ...>" + outputNewline(), once, before the first start tag *)
GenerateDoctype(w, name) ==
  IF w.needDoctype THEN Put([w EXCEPT !.needDoctype = FALSE], [i |-> "doctype", name |-> name]) ELSE w

StartElement(w0, name) ==
  LET w1 == GenerateDoctype(w0, name)
      w2 == WriteParentTagEnd(w1)
      w3 == SetPreserve(w2, FALSE)
      w4 == Indent(w3)
      w5 == SetStartNewLine(w4, TRUE)
      w6 == Put(w5, [i |-> "stag", name |-> name])
      w7 == [w6 EXCEPT !.elems = Append(@, FALSE), !.names = Append(@, name)]     \* openElementForChildren()
      w8 == IncreaseIndent(w7)
  IN SetPrevText(w8, FALSE)

EndElement(w0) ==
  LET w1 == DecreaseIndent(w0)
      has == w1.elems[Len(w1.elems)]                                                \* childNodesWereAdded()
      w2 == [w1 EXCEPT !.elems = SubSeq(@, 1, Len(@) - 1), !.names = SubSeq(@, 1, Len(@) - 1)]
      w3 == IF has THEN Put(Indent(w2), [i |-> "etag", short |-> FALSE])
                   ELSE Put(w2, [i |-> "etag", short |-> TRUE])
      w4 == IF has THEN PopPreserve(w3) ELSE w3
  IN SetPrevText(w4, FALSE)

(* writeCharacters(): writeParentTagEnd(); setPreserve(true); ...escaped text...; setPrevText(true) *)
WriteCharacters(w0, v) ==
  LET w1 == SetPreserve(WriteParentTagEnd(w0), TRUE)
  IN SetPrevText(Put(w1, [i |-> "text", v |-> v]), TRUE)
(* writeCDATA(): writeParentTagEnd(); setPreserve(true); indent(); "<![CDATA[" ... "]]>"; setPrevText(true)        *)
(* (the last statement is the repair of C08 wsAfterCdataBeforeElement: a CDATA section is character data)      *)
WriteCDATA(w0, v) ==
  LET w1 == Indent(SetPreserve(WriteParentTagEnd(w0), TRUE))
  IN SetPrevText(Put(w1, [i |-> "cdata", v |-> v]), TRUE)
(* charactersRaw(): writeParentTagEnd(); setPreserve(true); write(chars); setPrevText(true)                     *)
(* (the last statement is the repair of C08 wsAfterRawBeforeElement)                                            *)
CharactersRaw(w0, v) ==
  SetPrevText(Put(SetPreserve(WriteParentTagEnd(w0), TRUE), [i |-> "raw", v |-> v]), TRUE)
Comment(w0, v) ==
  LET w1 == Indent(WriteParentTagEnd(w0))
  IN SetStartNewLine(Put(w1, [i |-> "comment", v |-> v]), TRUE)
(* writeProcessingInstruction(): writeParentTagEnd(); indent(); "<?target data?>"         - m_startNewLine untouched *)
ProcInstr(w0, name, v) ==
  Put(Indent(WriteParentTagEnd(w0)), [i |-> "pi", name |-> name, v |-> v])
(* endDocument(): setStartNewLine(true); indent(); flush *)
EndDocument(w0) == Indent(SetStartNewLine(w0, TRUE))

(* XSLTEngineImpl::characters(): generateCDATASection() ? listener->cdata() : listener->characters();      *)
(* disable-output-escaping text reaches the listener as charactersRaw()                                      *)
InCdataElem(w) == w.names # <<>> /\ w.names[Len(w.names)] \in CdataElems
EngineCharacters(w, v) == IF InCdataElem(w) THEN WriteCDATA(w, v) ELSE WriteCharacters(w, v)

(* one event of the result-tree event stream *)
Apply(w, ev) ==
  CASE ev.op = "open"    -> StartElement(w, ev.name)
    [] ev.op = "close"   -> EndElement(w)
    [] ev.op = "text"    -> EngineCharacters(w, ev.v)
    [] ev.op = "raw"     -> CharactersRaw(w, ev.v)
    [] ev.op = "comment" -> Comment(w, ev.v)
    [] ev.op = "pi"      -> ProcInstr(w, ev.name, ev.v)
    [] ev.op = "end"     -> EndDocument(w)

(* ----------------------------------------------------------------- reading the items back ------------- *)
(* stack of sibling lists; character data of any kind (text, CDATA section, raw, writer whitespace) merges *)
AddText(kids, v) ==
  IF kids # <<>> /\ kids[Len(kids)].k = "text"
  THEN [kids EXCEPT ![Len(kids)].v = @ \o v]
  ELSE Append(kids, [k |-> "text", v |-> v])
RECURSIVE ParseFrom(_, _, _)
(* stack: sequence of [name, kids] frames, the last is the innermost open element; frame 1 is the document *)
ParseFrom(items, p, stack) ==
  LET top == stack[Len(stack)]
      add(n) == [stack EXCEPT ![Len(stack)].kids = Append(@, n)]
      closeTop == LET el == [k |-> "elem", name |-> top.name, attrs |-> <<>>, kids |-> top.kids]
                      rest == SubSeq(stack, 1, Len(stack) - 1)
                  IN [rest EXCEPT ![Len(rest)].kids = Append(@, el)]
  IN IF p > Len(items)
     THEN IF Len(stack) = 1 THEN top.kids ELSE ParseFrom(items, p, closeTop)      \* a prefix: close what is open
     ELSE LET it == items[p] IN
          CASE it.i = "stag"    -> ParseFrom(items, p + 1, Append(stack, [name |-> it.name, kids |-> <<>>]))
            [] it.i = "etag"    -> ParseFrom(items, p + 1, closeTop)
            [] it.i \in {"text", "cdata", "raw", "ws"} ->
                 (* character data outside the document element is not part of the tree *)
                 IF Len(stack) = 1 THEN ParseFrom(items, p + 1, stack)
                 ELSE ParseFrom(items, p + 1, [stack EXCEPT ![Len(stack)].kids = AddText(@, it.v)])
            [] it.i = "comment" -> ParseFrom(items, p + 1, add([k |-> "comment", v |-> it.v]))
            [] it.i = "pi"      -> ParseFrom(items, p + 1, add([k |-> "pi", name |-> it.name, v |-> it.v]))
            [] it.i = "doctype" -> ParseFrom(items, p + 1, stack)
Parse(items) == ParseFrom(items, 1, <<[name |-> <<>>, kids |-> <<>>]>>)

(* the tree an event sequence denotes = what the indentation-free writer's output parses to; defined          *)
(* directly here (no writer involved) so that the dummy writer is checked too                                 *)
EvItem(ev) ==
  CASE ev.op = "open"    -> <<[i |-> "stag", name |-> ev.name]>>
    [] ev.op = "close"   -> <<[i |-> "etag", short |-> FALSE]>>
    [] ev.op \in {"text", "raw"} -> <<[i |-> "text", v |-> ev.v]>>
    [] ev.op = "comment" -> <<[i |-> "comment", v |-> ev.v]>>
    [] ev.op = "pi"      -> <<[i |-> "pi", name |-> ev.name, v |-> ev.v]>>
    [] ev.op = "end"     -> <<>>
RECURSIVE EvItems(_)
EvItems(h) == IF h = <<>> THEN <<>> ELSE EvItem(h[1]) \o EvItems(Tail(h))
TreeOf(h) == Parse(EvItems(h))

RECURSIVE Run(_, _)
Run(w, h) == IF h = <<>> THEN w ELSE Run(Apply(w, h[1]), Tail(h))

(* ------------------------------------------------ deviations of the algorithm from SameContent ---------- *)
(* None is left.  Until the repairs C08-wsAfterCdataBeforeElement / C08-wsAfterRawBeforeElement, writeCDATA()   *)
(* and charactersRaw() set m_ispreserve but NOT m_isprevtext, and startElement() clears m_ispreserve BEFORE it  *)
(* calls indent(): an element that directly followed a CDATA section / unescaped text was indented, i.e. line   *)
(* feed + blanks were appended to the existing text node.  Both now end with setPrevText(true), as              *)
(* writeCharacters() always did; MC_Indent checks the refinement on every sequence, without exclusions, and      *)
(* asserts (Repaired) that the former witnesses conform.                                                         *)
KnownDeviation(w, ev) == FALSE

(* XSLT 16.1 only WARNS that indent="yes" is unsafe with mixed content; Xalan has no protection beyond "the   *)
(* previous item was text": m_preserves only ever holds FALSE (it is pushed right after startElement cleared  *)
(* m_ispreserve), so pop_preserve() is `m_ispreserve = false`.  Named for the record - not a C08 deviation.    *)
NOTE_indentInMixedContent(h) ==
  LET ref == TreeOf(h) t == Parse(Run(WInit(TRUE, FALSE), h).out) IN
  SameContent(ref, t, TRUE) /\ ~SameContentStrict(ref, t, TRUE)
=============================================================================
