--------------------------- MODULE TransformerImpl ---------------------------
(* Implementation-shaped model of XalanTransformer's own bookkeeping, transcribed from             *)
(* src/xalanc/XalanTransformer/XalanTransformer.{hpp,cpp}:                                          *)
(*   m_params            XalanMap name -> XalanParamHolder {m_expression, m_value}; the string      *)
(*                       overloads of setStylesheetParam assign m_expression and empty m_value, the  *)
(*                       XObjectPtr / double / node overloads assign m_value and empty m_expression  *)
(*                       (the last value set is the one that counts); doTransform passes             *)
(*                       m_expression to the processor when it is not empty, m_value otherwise       *)
(*   m_topXObjectFactory the factory the double overload makes its XNumber with: createNumber takes   *)
(*                       the most recently released XNumber out of the factory's cache and sets it    *)
(*                       to the new value; an XNumber is released (its last value still in it) when   *)
(*                       the holder's m_value is overwritten or emptied; clearStylesheetParams()      *)
(*                       resets the factory.  numCache: the last values of the cached objects         *)
(*   m_functions         installed external functions                                                *)
(*   m_compiledStylesheets / m_parsedSources    owned objects                                        *)
(*   m_errorMessage      CharVectorType, always >= 1 long.  parseSource, compileStylesheet and       *)
(*                       doTransform empty it with clear(); push_back(0) before they do anything     *)
(*   EnsureReset         destructor guard in doTransform: execution context and processor are reset   *)
(*                       on every exit path; `ctx` is what the execution context holds               *)
(* The engine itself is the uninterpreted function Engine (TransformerPool).  A call returns         *)
(* [m |-> new bookkeeping, ev |-> the event a harness would record].                                 *)
EXTENDS TransformerPool, Naturals, Sequences, FiniteSets, TLC

NoFnI == [x \in {} |-> x]
RestrictI(f, S) == [x \in S |-> f[x]]

(* emptied: ghost for the history generator - which slot the last setStylesheetParam of this name had to empty *)
(* stale: what the recycled XNumber now holding the value held before ("none": a new object, or not a number)            *)
Holder0 == [expr |-> "none", value |-> "none", emptied |-> "none", stale |-> "none"]
MInit == [holders |-> [k \in PoolPNames |-> Holder0], functions |-> [f \in PoolFNames |-> FALSE],
          ss |-> NoFnI, nss |-> 0, src |-> NoFnI, nsrc |-> 0,
          err |-> "", ctx |-> {}, numCache |-> <<>>,
          (* ghosts for the history generator: an entry of m_params / m_functions was removed again, i.e. *)
          (* the maps were used and emptied - behaviourally the same as never used                        *)
          paramsCleared |-> FALSE, fnRemoved |-> FALSE]

(* doTransform: if (theExpression.length() > 0) setStylesheetParam(name, expression) else (name, object) *)
Effective(h) == IF h.expr # "none" THEN h.expr ELSE h.value
EffParams(m) == [k \in PoolPNames |-> Effective(m.holders[k])]

ClearProper(err) == ""           \* clear(); push_back(0)

Ev(m, rec) == [m |-> m, ev |-> rec @@ [errEmpty |-> (m.err = "")]]

ISetParam(m, k, v) ==
  LET old == m.holders[k].value
      recycle == v \in PoolNumVals /\ m.numCache # <<>>                          \* createNumber(v) comes first ...
      c1 == IF recycle THEN SubSeq(m.numCache, 1, Len(m.numCache) - 1) ELSE m.numCache
      c2 == IF old \in PoolNumVals THEN Append(c1, old) ELSE c1 IN              \* ... then the assignment releases the old value
  Ev([m EXCEPT !.holders[k] = IF v \in PoolExprVals
                              THEN [expr |-> v, value |-> "none", emptied |-> IF @.value # "none" THEN "value" ELSE "none", stale |-> "none"]
                              ELSE [expr |-> "none", value |-> v, emptied |-> IF @.expr # "none" THEN "expr" ELSE "none",
                                    stale |-> IF recycle THEN m.numCache[Len(m.numCache)] ELSE "none"],
              !.numCache = c2],
     [e |-> "SetParam", k |-> k, v |-> v])
IClearParams(m)   == Ev([m EXCEPT !.holders = [k \in PoolPNames |-> Holder0], !.paramsCleared = TRUE, !.numCache = <<>>], [e |-> "ClearParams"])
IInstallFn(m, f)  == Ev([m EXCEPT !.functions[f] = TRUE], [e |-> "InstallFn", f |-> f])
IUninstallFn(m, f) == Ev([m EXCEPT !.functions[f] = FALSE, !.fnRemoved = TRUE], [e |-> "UninstallFn", f |-> f])

ICompile(m, d) ==
  LET m1 == [m EXCEPT !.err = ClearProper(@)]
      st == StatusOf(CompileClass(d)) IN
  IF st = 0
  THEN Ev([m1 EXCEPT !.nss = @ + 1, !.ss = (m.nss + 1 :> d) @@ @], [e |-> "Compile", ss |-> d, status |-> 0, h |-> m.nss + 1])
  ELSE Ev([m1 EXCEPT !.err = "E"], [e |-> "Compile", ss |-> d, status |-> st])

IParse(m, d) ==
  LET m1 == [m EXCEPT !.err = ClearProper(@)]
      st == StatusOf(ParseClass(d)) IN
  IF st = 0
  THEN Ev([m1 EXCEPT !.nsrc = @ + 1, !.src = (m.nsrc + 1 :> d) @@ @], [e |-> "Parse", src |-> d, status |-> 0, h |-> m.nsrc + 1])
  ELSE Ev([m1 EXCEPT !.err = "E"], [e |-> "Parse", src |-> d, status |-> st])

IDestroySS(m, h)  == Ev([m EXCEPT !.ss = RestrictI(@, DOMAIN @ \ {h})], [e |-> "DestroySS", h |-> h, status |-> 0])
IDestroySrc(m, h) == Ev([m EXCEPT !.src = RestrictI(@, DOMAIN @ \ {h})], [e |-> "DestroySrc", h |-> h, status |-> 0])

(* doTransform(parsed source, compiled stylesheet | stylesheet source, target) *)
IDoTransform(m, ssRef, srcDoc, srcRef) ==
  LET ssDoc == IF ssRef.k = "h" THEN m.ss[ssRef.h] ELSE ssRef.d
      m1 == [m EXCEPT !.err = ClearProper(@)]
      r == Engine(ssDoc, srcDoc, EffParams(m), m.functions)
      (* while the processor runs, the execution context holds state of this run; EnsureReset empties it on every path *)
      m2 == [m1 EXCEPT !.ctx = {}, !.err = IF r.status = 0 THEN @ ELSE "E"]
  IN Ev(m2, [e |-> "Transform", ss |-> ssRef, src |-> srcRef, status |-> r.status, out |-> r.out])

(* transform(XSLTInputSource, ...) = parseSource; doTransform; destroyParsedSource (EnsureDestroyParsedSource) *)
ITransform(m, ssRef, srcRef) ==
  IF srcRef.k = "h"
  THEN IDoTransform(m, ssRef, m.src[srcRef.h], srcRef)
  ELSE LET p == IParse(m, srcRef.d) IN
       IF p.ev.status # 0
       THEN Ev([p.m EXCEPT !.nsrc = m.nsrc], [e |-> "Transform", ss |-> ssRef, src |-> srcRef, status |-> p.ev.status,
                                               out |-> Engine(IF ssRef.k = "h" THEN m.ss[ssRef.h] ELSE ssRef.d, srcRef.d, EffParams(m), m.functions).out])
       ELSE IDoTransform([p.m EXCEPT !.nsrc = m.nsrc, !.src = m.src], ssRef, srcRef.d, srcRef)

(* the same transformation on a newly constructed transformer, as harness/c06.cpp does it *)
IFresh(ssDoc, srcDoc, ps, fs) ==
  LET Sets == {k \in PoolPNames : ps[k] # "none"}
      m0 == [MInit EXCEPT !.holders = [k \in PoolPNames |-> IF k \in Sets THEN ISetParam(MInit, k, ps[k]).m.holders[k] ELSE Holder0],
                          !.functions = fs]
      t == ITransform(m0, [k |-> "i", d |-> ssDoc], [k |-> "i", d |-> srcDoc]).ev
  IN [e |-> "Fresh", ss |-> ssDoc, src |-> srcDoc, params |-> ps, fns |-> fs, status |-> t.status, out |-> t.out, errEmpty |-> t.errEmpty]

=============================================================================
