--------------------------- MODULE TransformerImpl ---------------------------
(* Implementation-shaped model of XalanTransformer's own bookkeeping, transcribed from             *)
(* src/xalanc/XalanTransformer/XalanTransformer.{hpp,cpp}:                                          *)
(*   m_params            XalanMap name -> XalanParamHolder {m_expression, m_value}; the string      *)
(*                       overloads of setStylesheetParam assign m_expression, the XObjectPtr /       *)
(*                       double / node overloads assign m_value; doTransform passes m_expression     *)
(*                       to the processor when it is not empty, m_value otherwise (1352-1359)        *)
(*   m_functions         installed external functions                                                *)
(*   m_compiledStylesheets / m_parsedSources    owned objects                                        *)
(*   m_errorMessage      CharVectorType, always >= 1 long.  parseSource empties it with              *)
(*                       clear(); push_back(0).  compileStylesheet and doTransform "clear" it with    *)
(*                       resize(1, '\0') - which keeps the first character of a longer vector        *)
(*   EnsureReset         destructor guard in doTransform: execution context and processor are reset   *)
(*                       on every exit path; `ctx` is what the execution context holds               *)
(* The engine itself is the uninterpreted function Engine (TransformerPool).  A call returns         *)
(* [m |-> new bookkeeping, ev |-> the event a harness would record].                                 *)
EXTENDS TransformerPool, Naturals, Sequences, FiniteSets, TLC

NoFnI == [x \in {} |-> x]
RestrictI(f, S) == [x \in S |-> f[x]]

Holder0 == [expr |-> "none", value |-> "none"]
MInit == [holders |-> [k \in PoolPNames |-> Holder0], functions |-> [f \in PoolFNames |-> FALSE],
          ss |-> NoFnI, nss |-> 0, src |-> NoFnI, nsrc |-> 0,
          err |-> "", ctx |-> {},
          (* ghosts for the history generator: an entry of m_params / m_functions was removed again, i.e. *)
          (* the maps were used and emptied - behaviourally the same as never used                        *)
          paramsCleared |-> FALSE, fnRemoved |-> FALSE]

(* doTransform: if (theExpression.length() > 0) setStylesheetParam(name, expression) else (name, object) *)
Effective(h) == IF h.expr # "none" THEN h.expr ELSE h.value
EffParams(m) == [k \in PoolPNames |-> Effective(m.holders[k])]

ResizeOne(err) == err            \* resize(1, '\0'): "" stays "", a message keeps its first character
ClearProper(err) == ""           \* clear(); push_back(0)

Ev(m, rec) == [m |-> m, ev |-> rec @@ [errEmpty |-> (m.err = "")]]

ISetParam(m, k, v) ==
  Ev([m EXCEPT !.holders[k] = IF v \in PoolExprVals THEN [@ EXCEPT !.expr = v] ELSE [@ EXCEPT !.value = v]],
     [e |-> "SetParam", k |-> k, v |-> v])
IClearParams(m)   == Ev([m EXCEPT !.holders = [k \in PoolPNames |-> Holder0], !.paramsCleared = TRUE], [e |-> "ClearParams"])
IInstallFn(m, f)  == Ev([m EXCEPT !.functions[f] = TRUE], [e |-> "InstallFn", f |-> f])
IUninstallFn(m, f) == Ev([m EXCEPT !.functions[f] = FALSE, !.fnRemoved = TRUE], [e |-> "UninstallFn", f |-> f])

ICompile(m, d) ==
  LET m1 == [m EXCEPT !.err = ResizeOne(@)]
      st == StatusOf(CompileClass(d)) IN
  IF st = 0
  THEN Ev([m1 EXCEPT !.nss = @ + 1, !.ss = (m.nss + 1 :> d) @@ @], [e |-> "Compile", ss |-> d, status |-> 0, h |-> m.nss + 1])
  ELSE Ev([m1 EXCEPT !.err = "E"], [e |-> "Compile", ss |-> d, status |-> st])

IParse(m, d) ==
  LET m1 == [m EXCEPT !.err = ClearProper(@)]
      st == StatusOf(ParseClass(d)) IN
  IF st = 0
  THEN Ev([m1 EXCEPT !.nsrc = @ + 1, !.src = (m.nsrc + 1 :> d) @@ @], [e |-> "Parse", src |-> d, status |-> 0, h |-> m.nsrc + 1])
  ELSE Ev([m1 EXCEPT !.err = "E"], [e |-> "Parse", src |-> d, status |-> st])

IDestroySS(m, h)  == Ev([m EXCEPT !.ss = RestrictI(@, DOMAIN @ \ {h})], [e |-> "DestroySS", h |-> h, status |-> 0])
IDestroySrc(m, h) == Ev([m EXCEPT !.src = RestrictI(@, DOMAIN @ \ {h})], [e |-> "DestroySrc", h |-> h, status |-> 0])

(* doTransform(parsed source, compiled stylesheet | stylesheet source, target) *)
IDoTransform(m, ssRef, srcDoc, srcRef) ==
  LET ssDoc == IF ssRef.k = "h" THEN m.ss[ssRef.h] ELSE ssRef.d
      m1 == [m EXCEPT !.err = ResizeOne(@)]
      r == Engine(ssDoc, srcDoc, EffParams(m), m.functions)
      (* while the processor runs, the execution context holds state of this run; EnsureReset empties it on every path *)
      m2 == [m1 EXCEPT !.ctx = {}, !.err = IF r.status = 0 THEN @ ELSE "E"]
  IN Ev(m2, [e |-> "Transform", ss |-> ssRef, src |-> srcRef, status |-> r.status, out |-> r.out])

(* transform(XSLTInputSource, ...) = parseSource; doTransform; destroyParsedSource (EnsureDestroyParsedSource) *)
ITransform(m, ssRef, srcRef) ==
  IF srcRef.k = "h"
  THEN IDoTransform(m, ssRef, m.src[srcRef.h], srcRef)
  ELSE LET p == IParse(m, srcRef.d) IN
       IF p.ev.status # 0
       THEN Ev([p.m EXCEPT !.nsrc = m.nsrc], [e |-> "Transform", ss |-> ssRef, src |-> srcRef, status |-> p.ev.status,
                                               out |-> Engine(IF ssRef.k = "h" THEN m.ss[ssRef.h] ELSE ssRef.d, srcRef.d, EffParams(m), m.functions).out])
       ELSE IDoTransform([p.m EXCEPT !.nsrc = m.nsrc, !.src = m.src], ssRef, srcRef.d, srcRef)

(* the same transformation on a newly constructed transformer, as harness/c06.cpp does it *)
IFresh(ssDoc, srcDoc, ps, fs) ==
  LET Sets == {k \in PoolPNames : ps[k] # "none"}
      m0 == [MInit EXCEPT !.holders = [k \in PoolPNames |-> IF k \in Sets THEN ISetParam(MInit, k, ps[k]).m.holders[k] ELSE Holder0],
                          !.functions = fs]
      t == ITransform(m0, [k |-> "i", d |-> ssDoc], [k |-> "i", d |-> srcDoc]).ev
  IN [e |-> "Fresh", ss |-> ssDoc, src |-> srcDoc, params |-> ps, fns |-> fs, status |-> t.status, out |-> t.out, errEmpty |-> t.errEmpty]

(* ---- known deviations of this algorithm from the abstract life cycle (Transformer.tla) ------- *)
(* key paramExprShadowsValue: a value set through the XObjectPtr / double overload is ignored while *)
(* the holder still carries an expression string from an earlier setStylesheetParam of that name    *)
KD_paramExprShadowsValue(m, k, v) == v \notin PoolExprVals /\ m.holders[k].expr # "none"
(* key staleErrorMessage: a successful compileStylesheet, or transformation of a parsed-source      *)
(* handle, that follows a failed call leaves the old message in getLastError()                      *)
KD_staleErrorCompile(m, d)      == m.err # "" /\ StatusOf(CompileClass(d)) = 0
KD_staleErrorTransform(m, srcRef, status) == m.err # "" /\ srcRef.k = "h" /\ status = 0
=============================================================================
