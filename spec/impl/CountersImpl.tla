---------------------------- MODULE CountersImpl ----------------------------
(* Transcription of xsl:number level="any" counting as Xalan implements it:                        *)
(*   CountersTable::countNode, Counter::getPreviouslyCounted (src/xalanc/XSLT/CountersTable.cpp),  *)
(*   ElemNumber::getTargetNode = findPrecedingOrAncestorOrSelf and ElemNumber::getPreviousNode      *)
(*   (src/xalanc/XSLT/ElemNumber.cpp, after repairs 33a1ff8 / 1b42979 / 422ad92).                            *)
(* The document is abstracted to what those functions look at: its nodes other than attributes and  *)
(* namespace nodes, numbered 0..N in document order (0 is the document node; walking backwards in   *)
(* document order - previous sibling's last descendant, else the parent - is i -> i - 1), the set    *)
(* `match` of nodes the count pattern matches and the set `from` of nodes the from pattern matches.  *)
(* The table of one xsl:number instruction is a sequence of counters, each a list of nodes.          *)
(* Null is -1.                                                                                       *)
EXTENDS Naturals, Integers, Sequences, FiniteSets

Null == -1
Rev(s) == [k \in 1..Len(s) |-> s[Len(s) + 1 - k]]

(* ---- ElemNumber::findPrecedingOrAncestorOrSelf(from, count, context) ---------------------------- *)
RECURSIVE TargetFrom(_, _, _)
TargetFrom(pos, ctx, d) ==           \* d = [n, match, from, hasFrom]
  IF pos = Null THEN Null
  ELSE IF d.hasFrom /\ pos # ctx /\ pos \in d.from THEN Null          \* only a node before the current node ends the search
  ELSE IF pos \in d.match THEN pos
  ELSE TargetFrom(pos - 1, ctx, d)                                     \* 0 - 1 = Null: the parent of the document node
Target(ctx, d) == TargetFrom(ctx, ctx, d)

(* ---- ElemNumber::getPreviousNode(pos), level any -------------------------------------------------- *)
RECURSIVE PrevNode(_, _)
PrevNode(pos, d) ==
  LET next == pos - 1 IN
  IF next < 0 THEN Null                                                 \* the parent of the document node: the walk ends
  ELSE IF d.hasFrom /\ next \in d.from THEN Null
  ELSE IF next \in d.match THEN next
  ELSE PrevNode(next, d)

(* ---- Counter::getPreviouslyCounted(node): index of node in the list, searched from the end -------- *)
RECURSIVE GPC(_, _, _)
GPC(list, i, node) ==
  IF i = 0 THEN 0
  ELSE IF list[i] = node THEN i                                          \* m_countNodesStartCount is always 0
  ELSE IF node > list[i] THEN 0                                          \* isNodeAfter(countedNode, node): stop searching backwards
  ELSE GPC(list, i - 1, node)

FirstHit(counters, target) ==
  LET hits == {i \in 1..Len(counters) : GPC(counters[i], Len(counters[i]), target) > 0} IN
  IF hits = {} THEN 0 ELSE LET i == CHOOSE x \in hits : \A y \in hits : x <= y IN GPC(counters[i], Len(counters[i]), target)

(* the walk of countNode: target, count so far, nodes found so far (backwards order) *)
RECURSIVE Walk(_, _, _, _, _)
Walk(counters, target, count, found, d) ==
  IF target = Null
  THEN [count |-> count, counters |-> Append(counters, Rev(found))]      \* no counter reached: make one
  ELSE LET joins == IF count = 0 THEN {}
                    ELSE {i \in 1..Len(counters) : Len(counters[i]) > 0 /\ counters[i][Len(counters[i])] = target} IN
       IF joins # {}
       THEN LET i == CHOOSE x \in joins : \A y \in joins : x <= y IN
            [count |-> count + Len(counters[i]), counters |-> [counters EXCEPT ![i] = counters[i] \o Rev(found)]]
       ELSE Walk(counters, PrevNode(target, d), count + 1, Append(found, target), d)

(* CountersTable::countNode(numberElem, node) -> [count, counters] *)
CountNode(counters, node, d) ==
  LET target == Target(node, d) IN
  IF target = Null THEN [count |-> 0, counters |-> counters]
  ELSE LET c == FirstHit(counters, target) IN
       IF c > 0 THEN [count |-> c, counters |-> counters]
       ELSE Walk(counters, target, 0, <<>>, d)

(* ---- the definition (XSLT 7.7, as Numbering!NumberList states it for level "any") ------------------ *)
FromsBefore(node, d) == {x \in 0..(node - 1) : x \in d.from}
MaxOf(S) == CHOOSE x \in S : \A y \in S : y <= x
Ambiguous(node, d) == d.hasFrom /\ FromsBefore(node, d) = {}            \* not defined by XSLT 1.0: not judged
Def(node, d) ==
  LET pool == 0..node
      considered == IF ~d.hasFrom THEN pool ELSE {x \in pool : x > MaxOf(FromsBefore(node, d))} IN
  Cardinality(considered \cap d.match)

(* No named deviation is left: the only one found by MC_Counters (the document node was never visited by    *)
(* the backwards walk, so count="/ | b" numbered the first b 1 instead of 2) was repaired in /repo.          *)
KnownDeviation(node, d) == FALSE
=============================================================================
