--------------------------- MODULE WriterBufferImpl ---------------------------
(* The staging buffers between the serializer and the result target, transcribed with BufSize units      *)
(* instead of 512:                                                                                       *)
(*   "utf8"   XMLSupport/XalanUTF8Writer.hpp   write(char), write(XalanUnicodeChar) [2, 3, 4 byte forms check    *)
(*            m_bufferRemaining < 2 / 3 / 4], write(const char*, n) [n > sizeof(m_buffer): flush + direct]      *)
(*   "utf16"  XMLSupport/XalanUTF16Writer.hpp  write(XalanDOMChar) per unit (a surrogate pair is two calls),     *)
(*            write(const XalanDOMChar*, n)                                                                      *)
(*   "other"  XMLSupport/XalanOtherEncodingWriter.hpp  write(XalanDOMChar), write(XalanUnicodeChar) [pair:       *)
(*            m_bufferRemaining < 2], writeNumericCharacterReference [m_bufferRemaining < length], strings       *)
(*            unit by unit                                                                                       *)
(*   "legacy" XMLSupport/FormatterToXML.cpp    accumCharUTF / accumContentAsChar: m_charBuf[m_pos++] = ch;       *)
(*            if (m_pos == s_maxBufferSize) flushChars(); flushChars() keeps the last unit of a FULL buffer      *)
(*            back when it is the first half of a surrogate pair (fix legacySurrogatePairSplitHangs)             *)
(* and, behind the UTF-16 producing families, the second stage                                                  *)
(*   PlatformSupport/XalanOutputStream.cpp  write(const XalanDOMChar*, n): flushBuffer() if it does not fit,    *)
(*            doWrite() directly if n > m_bufferSize, else append; flushBuffer() -> doWrite() -> transcode()     *)
(* A unit is tagged <<j, L>>: the j-th of the L units of one character (or of one numeric character reference,  *)
(* which the "other" writer copies atomically); units of constant strings are <<0, 0>>.                         *)
(* Every write operation is one step: it returns the new buffer state, the chunks handed to the Writer           *)
(* (`flushed`) and the chunks handed to the transcoder (`calls`).  The properties are in MC_WriterBuffer.        *)
EXTENDS Integers, Sequences, FiniteSets, TLC

CONSTANTS BufSize,      \* kBufferSize / s_maxBufferSize (512)
          SBufSize      \* XalanOutputStream::eDefaultBufferSize (512)

Families == {"utf8", "utf16", "other", "legacy"}
MaxL(fam) == IF fam = "utf8" THEN 4 ELSE 2

(* ---- what an operation must put on the stream ------------------------------------------------------ *)
(* op = [k |-> "ch", n |-> L]   one character of L units                                                 *)
(*      [k |-> "str", n |-> n]  a constant string / entity reference of n ASCII units                     *)
(*      [k |-> "ref", n |-> n]  a numeric character reference of n units ("other", "legacy")            *)
(*      [k |-> "end"]           endDocument: flushBuffer                                                 *)
Enc(op) == CASE op.k = "ch"  -> [j \in 1..op.n |-> <<j, op.n>>]
             [] op.k = "ref" -> [j \in 1..op.n |-> <<j, op.n>>]
             [] op.k = "str" -> [j \in 1..op.n |-> <<0, 0>>]
             [] op.k = "end" -> <<>>

(* writer state: buf (m_buffer[0 .. m_bufferPosition)), rem (m_bufferRemaining), fl (chunks written to the Writer so far in this op) *)
W(buf, rem, fl) == [buf |-> buf, rem |-> rem, fl |-> fl]
Flush(w) == W(<<>>, BufSize, Append(w.fl, w.buf))                      \* flushBuffer(): m_writer.write(m_buffer, 0, pos); pos = 0; remaining = kBufferSize
Store(w, us) == W(w.buf \o us, w.rem - Len(us), w.fl)                  \* *m_bufferPosition++ = ..; m_bufferRemaining -= n
Direct(w, us) == W(w.buf, w.rem, Append(w.fl, us))                      \* m_writer.write(theChars, 0, theLength)

(* write(value_type) / write(XalanDOMChar): one unit *)
WriteUnit(w, u) == Store(IF w.rem = 0 THEN Flush(w) ELSE w, <<u>>)
RECURSIVE WriteUnits(_, _)
WriteUnits(w, us) == IF us = <<>> THEN w ELSE WriteUnits(WriteUnit(w, us[1]), Tail(us))
(* a multi-unit form that checks the space for all of its units first *)
WriteAtomic(w, us) == Store(IF w.rem < Len(us) THEN Flush(w) ELSE w, us)
(* write(const value_type*, n) of the UTF-8 / UTF-16 writers *)
WriteString(w, us) == IF Len(us) > BufSize THEN Direct(Flush(w), us)
                      ELSE Store(IF w.rem < Len(us) THEN Flush(w) ELSE w, us)
(* FormatterToXML::accumChar*: store, then flushChars() when full: a full buffer that ends in the first half of a  *)
(* surrogate pair (<<1, 2>>) is written without that unit, which moves to the front of the buffer                  *)
FlushChars(s) == LET n == Len(s.buf) IN
                 IF n = BufSize /\ s.buf[n] = <<1, 2>>
                 THEN W(<<s.buf[n]>>, BufSize - 1, Append(s.fl, SubSeq(s.buf, 1, n - 1)))
                 ELSE Flush(s)
Accum(w, u) == LET s == Store(w, <<u>>) IN IF Len(s.buf) = BufSize THEN FlushChars(s) ELSE s
RECURSIVE AccumAll(_, _)
AccumAll(w, us) == IF us = <<>> THEN w ELSE AccumAll(Accum(w, us[1]), Tail(us))

Apply(fam, w0, op) ==
  LET w == W(w0.buf, w0.rem, <<>>)
      us == Enc(op) IN
  IF op.k = "end" THEN (IF fam = "legacy" THEN W(<<>>, w.rem + Len(w.buf), <<w.buf>>)    \* flushChars(): m_pos = 0
                        ELSE Flush(w))
  ELSE CASE fam = "utf8"  -> IF op.k = "str" THEN WriteString(w, us)
                             ELSE IF op.n = 1 THEN WriteUnit(w, us[1])                   \* write(char)
                             ELSE WriteAtomic(w, us)                                      \* write(XalanUnicodeChar)
         [] fam = "utf16" -> IF op.k = "str" THEN WriteString(w, us)
                             ELSE WriteUnits(w, us)                                       \* one write(XalanDOMChar) per unit
         [] fam = "other" -> IF op.k = "str" THEN WriteUnits(w, us)
                             ELSE IF op.k = "ref" THEN WriteAtomic(w, us)                 \* writeNumericCharacterReference
                             ELSE IF op.n = 1 THEN WriteUnit(w, us[1])
                             ELSE WriteAtomic(w, us)                                      \* write(XalanUnicodeChar > 0xFFFF)
         [] fam = "legacy" -> AccumAll(w, us)

(* ---- second stage: XalanOutputStream::write(const XalanDOMChar*, n) ---------------------------------- *)
S2(sbuf, calls) == [sbuf |-> sbuf, calls |-> calls]
StreamWrite(s, chunk) ==
  LET a == IF Len(chunk) + Len(s.sbuf) > SBufSize
           THEN S2(<<>>, IF s.sbuf = <<>> THEN s.calls ELSE Append(s.calls, s.sbuf))       \* flushBuffer(): nothing if empty
           ELSE s IN
  IF Len(chunk) > SBufSize THEN S2(a.sbuf, Append(a.calls, chunk))                          \* doWrite(theBuffer, n)
  ELSE S2(a.sbuf \o chunk, a.calls)
RECURSIVE StreamWriteAll(_, _)
StreamWriteAll(s, chunks) == IF chunks = <<>> THEN s ELSE StreamWriteAll(StreamWrite(s, chunks[1]), Tail(chunks))
StreamFlush(s) == S2(<<>>, IF s.sbuf = <<>> THEN s.calls ELSE Append(s.calls, s.sbuf))     \* flush() at endDocument

(* ---- properties of one chunk ------------------------------------------------------------------------- *)
RECURSIVE Concat(_)
Concat(cs) == IF cs = <<>> THEN <<>> ELSE cs[1] \o Concat(Tail(cs))
(* a chunk does not start or end inside a multi-unit sequence *)
Whole(c) == c = <<>> \/ (c[1][1] <= 1 /\ c[Len(c)][1] = c[Len(c)][2])

(* ---- known deviations -------------------------------------------------------------------------------- *)
(* the UTF-16 writer buffers unit by unit: a surrogate pair can straddle two flushes.  The stream copies UTF-16 *)
(* units through, so the bytes are right.  (The legacy serializer had the same flaw in front of a transcoder:   *)
(* legacySurrogatePairSplitHangs, repaired - FlushChars above.)                                                *)
KD_unitwiseFlush(fam, w0, op) ==
  /\ fam = "utf16" /\ op.k \in {"ch", "ref"} /\ op.n > 1
  /\ w0.rem > 0 /\ w0.rem < op.n
=============================================================================
