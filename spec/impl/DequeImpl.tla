------------------------------ MODULE DequeImpl ------------------------------
(* Implementation-shaped model of XalanDeque (src/xalanc/Include/XalanDeque.hpp): a block index     *)
(* (m_blockIndex: vector of pointers to blocks of at most m_blockSize elements; only the last block   *)
(* may be partly filled) and a stack of emptied blocks kept for reuse (m_freeBlockVector).            *)
(* A deque is [blocks, nfree]: the blocks' contents and the number of spare blocks.                   *)
EXTENDS Containers

CONSTANT BlockSize,
         SwapExchangesBlockSize      \* TRUE: swap() exchanges m_blockSize too (repair); FALSE: the code before it (m_blockSize was const)
NewDeqBs(b) == [blocks |-> <<>>, nfree |-> 0, bs |-> b]          \* bs: m_blockSize of THIS deque (every index computation uses it)
NewDeq == NewDeqBs(BlockSize)

Size(D) == IF D.blocks = <<>> THEN 0 ELSE (Len(D.blocks) - 1) * D.bs + Len(D.blocks[Len(D.blocks)])
Empty(D) == D.blocks = <<>>                                                      \* m_blockIndex.empty()
(* operator[]: block index / offset computed with this deque's m_blockSize; 0 (no element) if that misses the blocks *)
Index(D, i) == LET b == (i \div D.bs) + 1  o == (i % D.bs) + 1 IN
               IF b <= Len(D.blocks) /\ o <= Len(D.blocks[b]) THEN D.blocks[b][o] ELSE 0
Items(D) == [i \in 1..Size(D) |-> Index(D, i - 1)]

PushBack(D, x) ==
  LET needNew == D.blocks = <<>> \/ Len(D.blocks[Len(D.blocks)]) >= D.bs
      D1 == IF needNew                                                            \* pushNewIndexBlock(): recycle or allocate
            THEN [D EXCEPT !.blocks = Append(D.blocks, <<>>), !.nfree = IF D.nfree > 0 THEN D.nfree - 1 ELSE 0]
            ELSE D
  IN [D1 EXCEPT !.blocks[Len(D1.blocks)] = Append(@, x)]

PopBack(D) ==
  LET b == Len(D.blocks)
      D1 == [D EXCEPT !.blocks[b] = Front(@)]
  IN IF D1.blocks[b] = <<>> THEN [D1 EXCEPT !.blocks = Front(D1.blocks), !.nfree = D1.nfree + 1] ELSE D1

Clear(D) == [D EXCEPT !.blocks = <<>>, !.nfree = D.nfree + Len(D.blocks)]

(* resize(newSize): the distance is fixed before the loops (repair 29ce248; the bounds used to contain size()) *)
RECURSIVE GrowLoop(_, _, _)
GrowLoop(D, i, newSize) == IF i < newSize THEN GrowLoop(PushBack(D, VecDefault), i + 1, newSize) ELSE D
RECURSIVE ShrinkLoop(_, _, _)
ShrinkLoop(D, i, newSize) == IF i > newSize THEN ShrinkLoop(PopBack(D), i - 1, newSize) ELSE D
Resize(D, newSize) == IF newSize > Size(D) THEN GrowLoop(D, Size(D), newSize) ELSE ShrinkLoop(D, Size(D), newSize)

RECURSIVE PushAll(_, _)
PushAll(D, s) == IF s = <<>> THEN D ELSE PushAll(PushBack(D, Head(s)), Tail(s))

DR(d, res, other) == [d |-> d, res |-> res, other |-> other]
ImplApply(D, op) ==
  CASE op.op = "pushBack"   -> DR(PushBack(D, op.v), 0, <<>>)
    [] op.op = "popBack"    -> DR(PopBack(D), 0, <<>>)
    [] op.op = "resize"     -> DR(Resize(D, op.n), 0, <<>>)
    [] op.op = "clear"      -> DR(Clear(D), 0, <<>>)
    [] op.op = "swap"       ->             \* with a temporary of the same block size, or (op.wide) of a larger one
         LET T == PushAll(NewDeqBs(IF "wide" \in DOMAIN op /\ op.wide THEN BlockSize + 1 ELSE BlockSize), op.src)
             mine == [blocks |-> T.blocks, nfree |-> T.nfree, bs |-> IF SwapExchangesBlockSize THEN T.bs ELSE D.bs]
             its  == [blocks |-> D.blocks, nfree |-> D.nfree, bs |-> IF SwapExchangesBlockSize THEN D.bs ELSE T.bs] IN
         DR(mine, 0, Items(its))
    [] op.op = "assign"     -> DR(PushAll(Clear(D), op.src), 0, <<>>)             \* operator=: clear(), copy through back_inserter
    [] op.op = "selfAssign" -> DR(D, 0, <<>>)
    [] op.op = "copy"       -> DR(D, 0, Items(PushAll(NewDeq, Items(D))))

WellFormed(D) ==
  /\ \A b \in 1..Len(D.blocks) : Len(D.blocks[b]) >= 1 /\ Len(D.blocks[b]) <= D.bs
  /\ \A b \in 1..(Len(D.blocks) - 1) : Len(D.blocks[b]) = D.bs

(* ---- repaired path (known_findings key deque-resize-half, now "fixed"): resize over a distance of more than *)
(* one element used to stop half way; the predicate only marks these transitions for replay on the real class   *)
RepairedPath(D, op) == op.op = "resize" /\ (op.n > Size(D) + 1 \/ op.n + 1 < Size(D))
=============================================================================
