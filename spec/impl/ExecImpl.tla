------------------------------ MODULE ExecImpl ------------------------------
(* Transcription of the ITERATIVE template executor of the default build (no                           *)
(* XALAN_RECURSIVE_STYLESHEET_EXECUTION): the loop of ElemTemplateElement::execute and, per element     *)
(* kind, startElement / endElement / getFirstChildElemToExecute / getNextChildElemToExecute /           *)
(* getInvoker with the explicit stacks that stand in for the C++ call stack                             *)
(*   (src/xalanc/XSLT/ElemTemplateElement.cpp, ElemTemplate.cpp, ElemLiteralResult.cpp, ElemUse.cpp,    *)
(*    ElemForEach.cpp, ElemApplyTemplates.cpp, ElemCallTemplate.cpp, ElemIf.cpp, ElemChoose.cpp,        *)
(*    ElemWhen.cpp, ElemOtherwise.cpp, ElemVariable.cpp, ElemComment.cpp;                               *)
(*    m_elementInvokerStack, m_nodesToTransformStack, m_currentNodeStack, m_executeIfStack, context     *)
(*    markers, m_currentTemplateStack, the formatter / string stacks of StylesheetExecutionContext).   *)
(* including the "direct template" short cut: an element whose only child is a parameter-less            *)
(* xsl:call-template runs the called template itself, and the "single text child" short cut of the      *)
(* elements that turn their content into a string.                                                      *)
(*                                                                                                      *)
(* A program P = [n, el]: elements 1..n, el[i] = [kind, parent, kids, b, nodes, target, ref];            *)
(* templates have parent 0, element 1 is the template instantiated for the root node.                    *)
(*   text / valueof / copyvar / wparam  leaves (copyvar copies the fragment of variable element `ref`)   *)
(*   lre, if (b), choose > when (b) / otherwise, var, comment     run their kids                          *)
(*   foreach: kids once per selected node (nodes = one BOOLEAN per selected node, value unused)           *)
(*   apply  : kids are wparam; per selected node the template `target`, nodes[i] = FALSE: no rule and     *)
(*            no built-in rule for that node (comments, PIs): it is skipped                               *)
(*   call   : kids are wparam; runs the template `target`                                                 *)
(* Source nodes are paths (<<>> = root; the i-th selected node of an instruction executed at p is         *)
(* p \o <<i>>).  Output is a sequence of tokens.  Element frames / variables scoping is                   *)
(* VariablesStackImpl's subject and left out here.                                                        *)
EXTENDS Naturals, Integers, Sequences, FiniteSets

Null == 0

Kind(P, e) == P.el[e].kind
Kids(P, e) == P.el[e].kids
Parent(P, e) == P.el[e].parent
Top(s) == s[Len(s)]
Pop(s) == SubSeq(s, 1, Len(s) - 1)
Push(s, x) == Append(s, x)

NextSib(P, e) == LET ks == Kids(P, Parent(P, e))
                     i == CHOOSE k \in 1..Len(ks) : ks[k] = e IN
                 IF i < Len(ks) THEN ks[i + 1] ELSE Null
(* ElemTemplateElement::postConstruction: eHasDirectTemplate / eHasSingleTextChild *)
HasDirect(P, e) == /\ Len(Kids(P, e)) = 1 /\ Kind(P, Kids(P, e)[1]) = "call" /\ Kids(P, Kids(P, e)[1]) = <<>>
DirectTemplate(P, e) == P.el[Kids(P, e)[1]].target
HasSingleText(P, e) == Len(Kids(P, e)) = 1 /\ Kind(P, Kids(P, e)[1]) = "text"

(* ---- output: a stack of buffers (result tree, fragments under construction, strings) ---------------- *)
Emit(s, tok) == [s EXCEPT !.out = [@ EXCEPT ![Len(@)] = Append(@, tok)]]

(* ---- ElemTemplateElement::getFirstChildElemToExecute / beginExecuteChildren / endExecuteChildren ----- *)
BaseFirst(P, s, e) ==
  IF HasDirect(P, e) THEN [s |-> [s EXCEPT !.mk = @ + 1, !.inv = Push(@, e)], next |-> DirectTemplate(P, e)]
  ELSE [s |-> s, next |-> IF Kids(P, e) = <<>> THEN Null ELSE Kids(P, e)[1]]
BeginExec(P, s, e) == BaseFirst(P, s, e)
EndExec(P, s, e) == IF HasDirect(P, e) THEN [s EXCEPT !.inv = Pop(@), !.mk = @ - 1] ELSE s
(* ElemTemplateElement::getNextChildElemToExecute *)
BaseNext(P, e, curElem) == IF HasDirect(P, e) THEN Null ELSE NextSib(P, curElem)

(* ---- ElemApplyTemplates::findNextTemplateToExecute -------------------------------------------------- *)
RECURSIVE FindNextTemplate(_, _, _)
FindNextTemplate(P, s, e) ==
  LET t == Top(s.ntt) IN
  IF t.i >= t.n THEN [s |-> s, next |-> Null]                                   \* getNextNodeToTransform() == 0
  ELSE LET i2 == t.i + 1
           s1 == [s EXCEPT !.ntt = [@ EXCEPT ![Len(@)] = [t EXCEPT !.i = i2]], !.cn = Push(@, t.base \o <<i2>>)] IN
       IF P.el[e].nodes[i2] THEN [s |-> s1, next |-> P.el[e].target]
       ELSE FindNextTemplate(P, [s1 EXCEPT !.cn = Pop(@)], e)                     \* no template: popCurrentNode, next node
PushNodes(P, s, e) == [s EXCEPT !.ntt = Push(@, [i |-> 0, n |-> Len(P.el[e].nodes), base |-> Top(s.cn)])]

(* ---- startElement ------------------------------------------------------------------------------------ *)
Start(P, s, e) ==
  LET k == Kind(P, e) IN
  CASE k = "template" ->
         LET ti == Top(s.inv)
             keep == ti # Null /\ (Kind(P, ti) = "call" \/ HasDirect(P, ti))
             s1 == [s EXCEPT !.ct = Push(@, IF keep THEN (IF s.ct = <<>> THEN Null ELSE Top(s.ct)) ELSE e)] IN
         BeginExec(P, s1, e)
    [] k = "text"    -> [s |-> Emit(s, <<"t", e>>), next |-> Null]
    [] k = "valueof" -> [s |-> Emit(s, <<"v", Top(s.cn)>>), next |-> Null]
    [] k = "copyvar" -> [s |-> Emit(s, <<"f", s.vars[P.el[e].ref]>>), next |-> Null]
    [] k = "wparam"  -> [s |-> s, next |-> Null]
    [] k = "lre"     -> BeginExec(P, Emit(s, <<"<", e>>), e)
    [] k = "foreach" ->
         IF Kids(P, e) = <<>> THEN [s |-> s, next |-> Null]
         ELSE LET s1 == PushNodes(P, [s EXCEPT !.ct = Push(@, Null)], e)
                  t == Top(s1.ntt) IN
              IF t.n = 0 THEN [s |-> s1, next |-> Null]
              ELSE BeginExec(P, [s1 EXCEPT !.ntt = [@ EXCEPT ![Len(@)] = [t EXCEPT !.i = 1]], !.cn = Push(@, t.base \o <<1>>)], e)
    [] k = "apply"   ->
         LET s1 == [s EXCEPT !.inv = Push(@, e)] IN
         IF Kids(P, e) # <<>> THEN [s |-> s1, next |-> Kids(P, e)[1]]                 \* beginParams
         ELSE FindNextTemplate(P, [PushNodes(P, s1, e) EXCEPT !.mk = @ + 1], e)
    [] k = "call"    ->
         LET s1 == [s EXCEPT !.inv = Push(@, e)] IN
         IF Kids(P, e) # <<>> THEN [s |-> s1, next |-> Kids(P, e)[1]]                 \* beginParams
         ELSE [s |-> [s1 EXCEPT !.mk = @ + 1], next |-> P.el[e].target]
    [] k = "if"      -> IF P.el[e].b THEN BeginExec(P, [s EXCEPT !.eif = Push(@, TRUE)], e)
                        ELSE [s |-> [s EXCEPT !.eif = Push(@, FALSE)], next |-> Null]
    [] k = "choose"  -> LET ks == Kids(P, e)
                            hit == {i \in 1..Len(ks) : Kind(P, ks[i]) = "otherwise" \/ P.el[ks[i]].b} IN
                        [s |-> s, next |-> IF hit = {} THEN Null ELSE ks[CHOOSE i \in hit : \A j \in hit : i <= j]]
    [] k \in {"when", "otherwise"} -> BeginExec(P, s, e)
    [] k = "var"     -> IF Kids(P, e) = <<>> THEN [s |-> [s EXCEPT !.vars = [@ EXCEPT ![e] = <<>>]], next |-> Null]
                        ELSE BeginExec(P, [s EXCEPT !.out = Push(@, <<>>)], e)           \* beginCreateXResultTreeFrag
    [] k = "comment" -> IF HasSingleText(P, e) THEN [s |-> [s EXCEPT !.str = Push(@, <<<<"t", Kids(P, e)[1]>>>>)], next |-> Null]
                        ELSE BeginExec(P, [s EXCEPT !.str = Push(@, <<>>), !.out = Push(@, <<>>)], e)   \* beginFormatToText

(* ---- endElement --------------------------------------------------------------------------------------- *)
End(P, s, e) ==
  LET k == Kind(P, e) IN
  CASE k = "template" -> EndExec(P, [s EXCEPT !.ct = Pop(@)], e)
    [] k = "lre"      -> Emit(EndExec(P, s, e), <<">", e>>)
    [] k = "foreach"  -> IF Kids(P, e) = <<>> THEN s
                         ELSE LET s1 == IF Top(s.ntt).n > 0 THEN EndExec(P, s, e) ELSE s IN
                              [s1 EXCEPT !.ntt = Pop(@), !.ct = Pop(@)]
    [] k = "apply"    -> [s EXCEPT !.ntt = Pop(@), !.mk = @ - 1, !.inv = Pop(@)]
    [] k = "call"     -> [s EXCEPT !.mk = @ - 1, !.inv = Pop(@)]
    [] k = "if"       -> LET s1 == [s EXCEPT !.eif = Pop(@)] IN IF Top(s.eif) THEN EndExec(P, s1, e) ELSE s1
    [] k \in {"when", "otherwise"} -> EndExec(P, s, e)
    [] k = "var"      -> IF Kids(P, e) = <<>> THEN s
                         ELSE LET s1 == EndExec(P, s, e) IN
                              [s1 EXCEPT !.vars = [@ EXCEPT ![e] = Top(s1.out)], !.out = Pop(@)]   \* endCreateXResultTreeFrag, pushVariable
    [] k = "comment"  -> IF HasSingleText(P, e) THEN Emit([s EXCEPT !.str = Pop(@)], <<"c", Top(s.str)>>)
                         ELSE LET s1 == EndExec(P, s, e)
                                  txt == Top(s1.out) IN
                              Emit([s1 EXCEPT !.out = Pop(@), !.str = Pop(@)], <<"c", txt>>)
    [] OTHER          -> s

(* ---- getInvoker ---------------------------------------------------------------------------------------- *)
GetInvoker(P, s, e) == IF Kind(P, e) = "template" THEN Top(s.inv) ELSE Parent(P, e)

(* ---- getNextChildElemToExecute of the invoker `li` after its child `ce` has ended ---------------------- *)
GetNext(P, s, li, ce) ==
  LET k == Kind(P, li) IN
  CASE k = "apply" ->
         IF Kind(P, ce) = "template" THEN FindNextTemplate(P, [s EXCEPT !.cn = Pop(@)], li)
         ELSE LET nx == BaseNext(P, li, ce) IN
              IF nx = Null THEN FindNextTemplate(P, [PushNodes(P, s, li) EXCEPT !.mk = @ + 1], li)      \* endParams
              ELSE [s |-> s, next |-> nx]
    [] k = "call" ->
         IF ce = P.el[li].target THEN [s |-> s, next |-> Null]
         ELSE LET nx == BaseNext(P, li, ce) IN
              IF nx = Null THEN [s |-> [s EXCEPT !.mk = @ + 1], next |-> P.el[li].target]                \* endParams
              ELSE [s |-> s, next |-> nx]
    [] k = "choose" -> [s |-> s, next |-> Null]
    [] k = "foreach" ->
         IF ~HasDirect(P, li) /\ NextSib(P, ce) # Null THEN [s |-> s, next |-> NextSib(P, ce)]
         ELSE LET s1 == [s EXCEPT !.cn = Pop(@)]
                  t == Top(s1.ntt) IN
              IF t.i >= t.n THEN [s |-> s1, next |-> Null]
              ELSE LET s2 == [s1 EXCEPT !.ntt = [@ EXCEPT ![Len(@)] = [t EXCEPT !.i = t.i + 1]], !.cn = Push(@, t.base \o <<t.i + 1>>)] IN
                   BeginExec(P, EndExec(P, s2, li), li)
    [] OTHER -> [s |-> s, next |-> BaseNext(P, li, ce)]

(* ---- the loop of ElemTemplateElement::execute, one step per startElement or endElement + look for next -- *)
InitState(P) == [cur |-> 1, pc |-> "start", inv |-> <<Null>>, ntt |-> <<>>, cn |-> <<<<>>>>, eif |-> <<>>, mk |-> 0, ct |-> <<>>,
                 out |-> <<<<>>>>, str |-> <<>>, vars |-> [e \in 1..P.n |-> <<>>]]
Step(P, s) ==
  IF s.pc = "start"
  THEN LET r == Start(P, s, s.cur) IN
       IF r.next # Null THEN [r.s EXCEPT !.cur = r.next] ELSE [r.s EXCEPT !.pc = "end"]
  ELSE LET s1 == End(P, s, s.cur)
           li == GetInvoker(P, s1, s.cur) IN
       IF li = Null THEN [s1 EXCEPT !.pc = "done"]                                    \* == invoker: the loop ends
       ELSE LET r == GetNext(P, s1, li, s.cur) IN
            IF r.next # Null THEN [r.s EXCEPT !.cur = r.next, !.pc = "start"]
            ELSE [r.s EXCEPT !.cur = GetInvoker(P, r.s, s.cur)]                       \* pc stays "end"
RECURSIVE RunFrom(_, _, _)
RunFrom(P, s, fuel) == IF s.pc = "done" \/ fuel = 0 THEN s ELSE RunFrom(P, Step(P, s), fuel - 1)

(* ---- the definition: instantiate the content recursively (XSLT 5.7, 8, 6, 9.1, 9.2, 11.2, 7.4) ----------- *)
RECURSIVE Inst(_, _, _), InstSeq(_, _, _, _), InstNodes(_, _, _, _, _)
Flat(ss) == IF ss = <<>> THEN <<>> ELSE LET F[i \in 0..Len(ss)] == IF i = 0 THEN <<>> ELSE F[i - 1] \o ss[i] IN F[Len(ss)]
InstSeq(P, ks, k, node) == IF k > Len(ks) THEN <<>> ELSE Inst(P, ks[k], node) \o InstSeq(P, ks, k + 1, node)
(* the items of a node list: run(x) is what is instantiated for the i-th node *)
InstNodes(P, e, i, node, body) ==
  IF i > Len(P.el[e].nodes) THEN <<>>
  ELSE (IF Kind(P, e) = "foreach" \/ P.el[e].nodes[i] THEN InstSeq(P, Kids(P, body), 1, node \o <<i>>) ELSE <<>>)
       \o InstNodes(P, e, i + 1, node, body)
Inst(P, e, node) ==
  LET k == Kind(P, e)  body == InstSeq(P, Kids(P, e), 1, node) IN
  CASE k = "text"    -> <<<<"t", e>>>>
    [] k = "valueof" -> <<<<"v", node>>>>
    [] k = "copyvar" -> <<<<"f", InstSeq(P, Kids(P, P.el[e].ref), 1, node)>>>>       \* the variable is an earlier sibling: same current node
    [] k = "wparam"  -> <<>>
    [] k = "lre"     -> <<<<"<", e>>>> \o body \o <<<<">", e>>>>
    [] k = "foreach" -> InstNodes(P, e, 1, node, e)
    [] k = "apply"   -> InstNodes(P, e, 1, node, P.el[e].target)
    [] k = "call"    -> InstSeq(P, Kids(P, P.el[e].target), 1, node)
    [] k = "if"      -> IF P.el[e].b THEN body ELSE <<>>
    [] k = "choose"  -> LET ks == Kids(P, e)
                            hit == {i \in 1..Len(ks) : Kind(P, ks[i]) = "otherwise" \/ P.el[ks[i]].b} IN
                        IF hit = {} THEN <<>> ELSE InstSeq(P, Kids(P, ks[CHOOSE i \in hit : \A j \in hit : i <= j]), 1, node)
    [] k \in {"when", "otherwise", "template"} -> body
    [] k = "var"     -> <<>>
    [] k = "comment" -> <<<<"c", body>>>>
Def(P) == Inst(P, 1, <<>>)
=============================================================================
