-------------------------- MODULE PatternMatcherImpl --------------------------
(* Implementation-shaped model of Xalan's match-pattern machinery (src/xalanc/XPath):            *)
(*   - Compile   : what XPathProcessorImpl::Pattern / LocationPathPattern / IdKeyPattern /        *)
(*                 RelativePathPattern / StepPattern / AbbreviatedNodeTestStep leave in the op    *)
(*                 map for one alternative of a match pattern (the sequence of step op codes in   *)
(*                 the order they are stored: left to right, head first);                         *)
(*   - StepPattern / DoStepPredicate / HandleFoundIndex / FindStep / ImplNodeTest :               *)
(*                 XPath::stepPattern, doStepPredicate, handleFoundIndex[Positional], step +      *)
(*                 findChildren / findAttributes + predicates, NodeTester  (XPath.cpp);           *)
(*   - ImplMatches / ImplMatchSet : XPath::getMatchScore != eMatchScoreNone (doGetMatchScore,     *)
(*                 locationPathPattern).                                                          *)
(* Pattern ASTs are the expression ASTs of XPathSem (tools/xpgen.py): a union `|` of alternatives *)
(* that are paths (optionally absolute, optionally headed by an id()/key() call) whose steps are  *)
(* on the child or attribute axis, '//' being the step descendant-or-self::node() without         *)
(* predicates, or a bare id()/key() call.  The expression INSIDE a predicate and the id()/key()   *)
(* call are evaluated with XPathSem!Eval - the evaluator is not transcribed again.                *)
(* Scores are abstracted to BOOLEAN (eMatchScoreNone = FALSE): only "matches or not" is modelled. *)
(* The algorithm is NOT the definition (XPathSem!Matches); where it is known to differ the class  *)
(* is named KD_<key> (keys of /verif/known_findings.jsonl and known_findings.d/C09.jsonl);        *)
(* MC_Pattern checks that they agree everywhere else, Trace_C09impl compares the REAL matcher     *)
(* with ImplMatchSet case by case.                                                               *)
(* Limits of the transcription: the position cache (FindStep) is modelled for the predicates of   *)
(* the match step itself; nested predicates inside a predicate expression are evaluated by the    *)
(* definition, and a single predicate that calls position(), then evaluates a location path, then *)
(* calls position() again is given one position value.  An in-place predicate sees position 1 of  *)
(* 1 (it never calls position()/last() itself: such predicates go through handleFoundIndex).      *)
EXTENDS XPathSem

Null == <<0, 0, 0>>                                  \* the null XalanNode*
(* DOMServices::getParentOfNode: the owner element for an attribute, 0 for the document *)
ParentOf(F, n) == IF n = Null THEN Null
                  ELSE LET p == DocOf(F, n).parent[NI(n)] IN IF p = 0 THEN Null ELSE Node(ND(n), p)
RECURSIVE UpChain(_, _)                              \* n, parent(n), ... , document node
UpChain(F, n) == IF n = Null THEN <<>> ELSE <<n>> \o UpChain(F, ParentOf(F, n))
FirstIdx(s, Ok(_)) == LET S == {i \in 1..Len(s) : Ok(s[i])} IN IF S = {} THEN 0 ELSE Min(S)

(* ============================ compilation (XPathProcessorImpl) ============================== *)
IsDos(s) == s.axis = "descendant-or-self" /\ s.test.t = "node" /\ Len(s.preds) = 0      \* the '//' of the AST
RECURSIVE Alts(_)                                    \* Pattern(): LocationPathPattern ('|' LocationPathPattern)*
Alts(P) == IF P.op = "bin" /\ P.o = "|" THEN Alts(P.a) \o Alts(P.b) ELSE <<P>>

NoFn   == [op |-> "none"]
TNode  == [t |-> "node"]                             \* eNODETYPE_NODE
TRoot  == [t |-> "root"]                             \* eNODETYPE_ROOT
TNone  == [t |-> "none"]
CS(code, test, preds, f) == [code |-> code, test |-> test, preds |-> preds, fn |-> f]

(* PredicateExpr(): the predicate is stored as eOP_PREDICATE_WITH_POSITION iff position() or     *)
(* last() is called in it outside any nested predicate (m_positionPredicateStack.back())         *)
RECURSIVE UsesPosition(_)
UsesPosition(e) ==
  CASE e.op = "fn"     -> e.name \in {"position", "last"} \/ \E i \in 1..Len(e.args) : UsesPosition(e.args[i])
    [] e.op = "bin"    -> UsesPosition(e.a) \/ UsesPosition(e.b)
    [] e.op = "neg"    -> UsesPosition(e.a)
    [] e.op = "filter" -> UsesPosition(e.e)
    [] e.op = "path"   -> e.start.op # "none" /\ UsesPosition(e.start)
    [] OTHER           -> FALSE
PredCode(p) == IF UsesPosition(p) THEN "OP_PREDICATE_WITH_POSITION" ELSE "OP_PREDICATE"

(* LocationPathPattern(): what precedes the first step pattern                                   *)
(*   id(..)/key(..)      -> eOP_FUNCTION                      (IdKeyPattern)                     *)
(*   id(..) '//'         -> eOP_FUNCTION, eMATCH_ANY_ANCESTOR_WITH_FUNCTION_CALL                 *)
(*   '//'                -> eMATCH_ANY_ANCESTOR_WITH_PREDICATE + eNODETYPE_NODE                  *)
(*   '/'                 -> eFROM_ROOT + eNODETYPE_ROOT                                          *)
PatHead(alt) ==
  IF alt.op = "fn" THEN <<CS("OP_FUNCTION", TNone, <<>>, alt)>>
  ELSE LET dd == Len(alt.steps) > 0 /\ IsDos(alt.steps[1]) IN
       IF alt.start.op # "none"
       THEN <<CS("OP_FUNCTION", TNone, <<>>, alt.start)>>
            \o (IF dd THEN <<CS("MATCH_ANY_ANCESTOR_WITH_FUNCTION_CALL", TNone, <<>>, NoFn)>> ELSE <<>>)
       ELSE IF alt.abs
       THEN (IF dd THEN <<CS("MATCH_ANY_ANCESTOR_WITH_PREDICATE", TNode, <<>>, NoFn)>>
                   ELSE <<CS("FROM_ROOT", TRoot, <<>>, NoFn)>>)
       ELSE <<>>
(* AbbreviatedNodeTestStep(): '@' / attribute:: -> eMATCH_ATTRIBUTE (matchTypePos stays -1);     *)
(* otherwise eMATCH_IMMEDIATE_ANCESTOR, rewritten to eMATCH_ANY_ANCESTOR when, after the          *)
(* predicates, the next two tokens are '/' '/' - i.e. the op code of '//' sits on the step to    *)
(* its LEFT.  Node test and predicates are stored with the step.                                  *)
RECURSIVE Body(_, _)
Body(steps, i) ==
  IF i > Len(steps) THEN <<>>
  ELSE IF IsDos(steps[i]) THEN Body(steps, i + 1)
  ELSE LET s == steps[i]
           slashSlash == i + 1 <= Len(steps) /\ IsDos(steps[i + 1])
           code == IF s.axis = "attribute" THEN "MATCH_ATTRIBUTE"
                   ELSE IF slashSlash THEN "MATCH_ANY_ANCESTOR" ELSE "MATCH_IMMEDIATE_ANCESTOR"
       IN <<CS(code, s.test, s.preds, NoFn)>> \o Body(steps, i + 1)
(* the step sequence of one eOP_LOCATIONPATHPATTERN, in op-map order (the matcher recurses to    *)
(* the LAST element first)                                                                       *)
Compile(alt) == PatHead(alt) \o (IF alt.op = "fn" THEN <<>> ELSE Body(alt.steps, 1))

(* ================================== NodeTester (XPath.cpp) ================================== *)
(* cls = "attr" when the tester is constructed with stepType eFROM_ATTRIBUTES, "elem" for every  *)
(* other step type the matcher uses (eMATCH_*, eFROM_ROOT): name tests then use testElement*.    *)
(* testNode / testText / testComment / testPI* ignore the step type altogether.                  *)
ImplNodeTest(F, test, cls, n) ==
  LET kind == KindOf(F, n)
      want == IF cls = "attr" THEN "attr" ELSE "elem" IN
  CASE test.t = "comment" -> kind = "comment"
    [] test.t = "text"    -> kind = "text"                       \* no whitespace stripping in force
    [] test.t = "pi"      -> kind = "pi" /\ (test.hasTarget => LocalOf(F, n) = test.target)
    [] test.t = "node"    -> TRUE                                \* testNode: ANY node type
    [] test.t = "root"    -> kind = "root"
    [] test.t = "any"     -> kind = want
    [] test.t = "nsany"   -> kind = want /\ UriOf(F, n) = test.uri
    [] test.t = "name"    -> kind = want /\ UriOf(F, n) = test.uri /\ LocalOf(F, n) = test.local
    [] OTHER              -> FALSE                               \* testDefault

(* ========================= forward re-evaluation of one match step ========================== *)
(* XPathExecutionContextDefault::getContextNodeListPosition keeps the position of the LAST node   *)
(* it was asked about (m_cachedPosition); the cache is cleared when a context node list is pushed *)
(* or popped, but XPath::predicates() shrinks the current list in place between two predicates    *)
(* without clearing it: a node that was the last one position() was asked about under predicate   *)
(* j still reports its OLD position under predicate j+1.  c.pcache switches the cache on (the     *)
(* algorithm as it is) or off (used only to say where the cache matters, KD_stalePosition...).    *)
NoCache == [node |-> Null, idx |-> 0]
WithCache(c, on) == [pcache |-> on] @@ c
(* the last thing evaluating e does to the cache: "set" - position() was called; "clear" - a      *)
(* location path or filter expression was evaluated (XPath::step pushes and pops a context node   *)
(* list); "none".  Operands left to right, and/or short-circuit.                                  *)
RECURSIVE CacheEvent(_, _), ArgsEvent(_, _, _)
Later(a, b) == IF b = "none" THEN a ELSE b
ArgsEvent(args, i, c) == IF i > Len(args) THEN "none" ELSE Later(CacheEvent(args[i], c), ArgsEvent(args, i + 1, c))
CacheEvent(e, c) ==
  CASE e.op = "fn"  -> IF e.name = "position" THEN "set" ELSE ArgsEvent(e.args, 1, c)
    [] e.op = "bin" -> IF e.o \in {"or", "and"}
                       THEN LET l == Eval(e.a, c) IN
                            IF Bad(l) \/ ToBool(l) = (e.o = "or") THEN CacheEvent(e.a, c)
                            ELSE Later(CacheEvent(e.a, c), CacheEvent(e.b, c))
                       ELSE Later(CacheEvent(e.a, c), CacheEvent(e.b, c))
    [] e.op = "neg" -> CacheEvent(e.a, c)
    [] e.op \in {"path", "filter"} -> "clear"
    [] OTHER -> "none"
(* one predicate over the current list (the loop of XPath::predicates), threading the cache *)
RECURSIVE PredPass(_, _, _, _, _)
PredPass(seq, p, k, cache, c) ==
  IF k > Len(seq) THEN [kept |-> <<>>, cache |-> cache, bad |-> FALSE]
  ELSE LET x == seq[k]
           posk == IF c.pcache /\ cache.node = x THEN cache.idx ELSE k     \* getContextNodeListPosition
           cc == [c EXCEPT !.n = x, !.pos = posk, !.size = Len(seq)]
           v == Eval(p, cc)
           ev == CacheEvent(p, cc)
           cache2 == CASE ev = "set" -> [node |-> x, idx |-> posk] [] ev = "clear" -> NoCache [] OTHER -> cache
           rest == PredPass(seq, p, k + 1, cache2, c)
           keep == ~Bad(v) /\ (IF v.t = "num" THEN NumEq(v.v, FromInt(k)) ELSE ToBool(v))   \* i + 1 != pred->num() || !pred->boolean()
       IN [kept |-> (IF keep THEN <<x>> ELSE <<>>) \o rest.kept, cache |-> rest.cache, bad |-> Bad(v) \/ rest.bad]
(* XPath::predicates: predicate after predicate; a number LITERAL is not evaluated, it indexes    *)
(* the list; nothing is evaluated once the list is empty                                          *)
RECURSIVE Predicates(_, _, _, _, _)
Predicates(seq, preds, j, cache, c) ==
  IF j > Len(preds) THEN seq
  ELSE IF Len(seq) = 0 THEN <<>>
  ELSE LET p == preds[j] IN
       IF p.op = "num"
       THEN LET ok == p.v.k = "fin" /\ ~p.v.neg /\ p.v.m > 0 /\ p.v.m % Scale = 0 /\ p.v.m \div Scale <= Len(seq) IN
            Predicates(IF ok THEN <<seq[p.v.m \div Scale]>> ELSE <<>>, preds, j + 1, cache, c)
       ELSE LET r == PredPass(seq, p, 1, cache, c) IN
            IF r.bad THEN <<>> ELSE Predicates(r.kept, preds, j + 1, r.cache, c)
(* XPath::step(parent, startOpPos) for a match op code: eMATCH_ATTRIBUTE -> findAttributes,       *)
(* eMATCH_*_ANCESTOR -> findChildren, no step recursion; the NodeTester is built with the MATCH   *)
(* op code as step type (so a NAME test on the attribute list uses the ELEMENT tests and finds    *)
(* nothing); a fresh context node list is pushed (cache cleared); then predicates().              *)
FindStep(cs, parent, c) ==
  LET F == c.f
      cand == IF cs.code = "MATCH_ATTRIBUTE"
              THEN {x \in Axis(F, "attribute", parent) : ImplNodeTest(F, cs.test, "elem", x)}
              ELSE {x \in Axis(F, "child", parent) : ImplNodeTest(F, cs.test, "elem", x)}
  IN Range(Predicates(DocOrderSeq(cand), cs.preds, 1, NoCache, c))
HandleFoundIndex(cs, n, c) ==
  LET p == ParentOf(c.f, n) IN IF p = Null THEN FALSE ELSE n \in FindStep(cs, p, c)
(* (NDEBUG) only looks whether the re-evaluated step found anything *)
HandleFoundIndexPositional(cs, n, c) ==
  LET p == ParentOf(c.f, n) IN IF p = Null THEN FALSE ELSE FindStep(cs, p, c) # {}

(* value of predicate p evaluated in place on node n (XPath::predicate -> executeMore) *)
InPlace(p, n, c) == Eval(p, [c EXCEPT !.n = n, !.pos = 1, !.size = 1])
(* does doStepPredicate hand predicate p over to handleFoundIndex? *)
PredIndexed(p, n, c) == UsesPosition(p) \/ InPlace(p, n, c).t = "num"

(* XPath::doStepPredicate: predicates j.. of step cs on node n; `score` is the score so far.     *)
(* A handleFoundIndex result REPLACES the score and the loop goes on; a false boolean predicate  *)
(* ends the loop with eMatchScoreNone.                                                            *)
RECURSIVE DoStepPredicate(_, _, _, _, _)
DoStepPredicate(cs, n, j, score, c) ==
  IF j > Len(cs.preds) THEN score
  ELSE LET p == cs.preds[j] IN
       IF PredCode(p) = "OP_PREDICATE_WITH_POSITION"
       THEN DoStepPredicate(cs, n, j + 1,
                            IF p.op = "num" THEN HandleFoundIndexPositional(cs, n, c)      \* "foo[1]" look-ahead; never taken:
                            ELSE HandleFoundIndex(cs, n, c), c)                             \* a literal has no position()
       ELSE LET v == InPlace(p, n, c) IN
            IF v.t = "num" THEN DoStepPredicate(cs, n, j + 1, HandleFoundIndex(cs, n, c), c)
            ELSE IF Bad(v) \/ ~ToBool(v) THEN FALSE
            ELSE DoStepPredicate(cs, n, j + 1, score, c)

(* ================================== XPath::stepPattern ====================================== *)
(* seq: compiled steps, k: the step at opPos, ctx0: the node getMatchScore was asked about,       *)
(* holder0: scoreHolder on entry.  Result [node |-> returned context (Null = 0), holder |->      *)
(* scoreHolder on exit].                                                                          *)
RECURSIVE StepPattern(_, _, _, _, _)
StepPattern(seq, k, ctx0, holder0, c) ==
  LET F == c.f
      cs == seq[k]
      hasNext == k < Len(seq)                                   \* nextStepType # eENDOP
      nextCode == IF hasNext THEN seq[k + 1].code ELSE "ENDOP"
      rec == StepPattern(seq, k + 1, ctx0, holder0, c)          \* "continue step via recursion": rightmost step first
      ctx1 == IF ~hasNext THEN ctx0
              ELSE IF nextCode # "MATCH_ANY_ANCESTOR_WITH_FUNCTION_CALL" THEN ParentOf(F, rec.node) ELSE rec.node
      holder1 == IF hasNext THEN TRUE ELSE holder0               \* scoreHolder = eMatchScoreOther
  IN
  IF hasNext /\ (rec.node = Null \/ ~rec.holder) THEN [node |-> Null, holder |-> FALSE]   \* big ugly return
  ELSE IF ctx1 = Null THEN [node |-> Null, holder |-> FALSE]                              \* no parent for this step
  ELSE
  LET sw ==   \* the switch: [score, node (context afterwards), preds (fDoPredicates)]
        CASE cs.code = "MATCH_ANY_ANCESTOR_WITH_FUNCTION_CALL" ->
               [score |-> holder1, node |-> ctx1, preds |-> TRUE]
          [] cs.code = "OP_FUNCTION" ->
               LET v == Eval(cs.fn, [c EXCEPT !.n = ctx1, !.pos = 1, !.size = 1])
                   nl == IF v.t = "ns" THEN v.v ELSE {} IN
               IF nextCode = "MATCH_ANY_ANCESTOR_WITH_FUNCTION_CALL"
               THEN LET ch == UpChain(F, ctx1)
                        i == FirstIdx(ch, LAMBDA x : x \in nl) IN
                    IF i = 0 THEN [score |-> FALSE, node |-> Null, preds |-> TRUE]
                    ELSE [score |-> TRUE, node |-> ParentOf(F, ch[i]), preds |-> TRUE]      \* context is moved once more after the hit
               ELSE [score |-> ctx1 \in nl, node |-> ctx1, preds |-> TRUE]
          [] cs.code = "FROM_ROOT" ->
               IF KindOf(F, ctx1) = "root" THEN [score |-> TRUE, node |-> ctx1, preds |-> TRUE]
               ELSE IF nextCode \in {"MATCH_ANY_ANCESTOR", "MATCH_ANY_ANCESTOR_WITH_PREDICATE"}
               THEN LET ch == UpChain(F, ctx1)                   \* walks up until testRoot succeeds: it always does
                        i == FirstIdx(ch, LAMBDA x : ImplNodeTest(F, cs.test, "elem", x)) IN
                    IF i = 0 THEN [score |-> FALSE, node |-> Null, preds |-> TRUE]
                    ELSE [score |-> TRUE, node |-> ch[i], preds |-> TRUE]
               ELSE [score |-> FALSE, node |-> ctx1, preds |-> TRUE]
          [] cs.code = "MATCH_ATTRIBUTE" ->                      \* tested whatever the node type of the context is
               [score |-> ImplNodeTest(F, cs.test, "attr", ctx1), node |-> ctx1, preds |-> TRUE]
          [] cs.code \in {"MATCH_ANY_ANCESTOR", "MATCH_ANY_ANCESTOR_WITH_PREDICATE"} ->
               IF KindOf(F, ctx1) = "attr" THEN [score |-> FALSE, node |-> ctx1, preds |-> FALSE]
               ELSE LET ch == UpChain(F, ctx1)                   \* the NEAREST ancestor-or-self passing test and predicates is taken
                        i == FirstIdx(ch, LAMBDA x : ImplNodeTest(F, cs.test, "elem", x) /\ DoStepPredicate(cs, x, 1, TRUE, c)) IN
                    IF i = 0 THEN [score |-> FALSE, node |-> Null, preds |-> FALSE]
                    ELSE [score |-> TRUE, node |-> ch[i], preds |-> FALSE]
          [] cs.code = "MATCH_IMMEDIATE_ANCESTOR" ->
               [score |-> KindOf(F, ctx1) # "attr" /\ ImplNodeTest(F, cs.test, "elem", ctx1), node |-> ctx1, preds |-> TRUE]
      score2 == IF sw.preds /\ sw.score THEN DoStepPredicate(cs, sw.node, 1, sw.score, c) ELSE sw.score
      holder2 == IF ~holder1 \/ ~score2 THEN score2 ELSE holder1
  IN [node |-> IF score2 THEN sw.node ELSE Null, holder |-> holder2]

(* locationPathPattern / doGetMatchScore / getMatchScore (c carries pcache) *)
ImplMatchesAlt(alt, n, c) ==
  LET seq == Compile(alt) IN Len(seq) > 0 /\ StepPattern(seq, 1, n, FALSE, c).holder
ImplMatchesC(P, n, c) == LET as == Alts(P) IN \E i \in 1..Len(as) : ImplMatchesAlt(as[i], n, c)
ImplMatches(P, n, c0) == ImplMatchesC(P, n, WithCache(c0, TRUE))
ImplMatchSet(P, d, c0) == {n \in {Node(d, i) : i \in 1..c0.f[d].n} : ImplMatches(P, n, c0)}

(* ================================ known deviations ========================================== *)
(* Observation points of the walk for node n: the context with which step k's switch is entered  *)
(* (ok = the steps to its right matched and the context has the parent that is needed), and the  *)
(* node at which step k itself matched (Null if it did not).                                      *)
StepEntry(seq, k, n, c) ==
  IF k = Len(seq) THEN [ok |-> TRUE, ctx |-> n]
  ELSE LET r == StepPattern(seq, k + 1, n, FALSE, c) IN
       IF r.node = Null \/ ~r.holder THEN [ok |-> FALSE, ctx |-> Null]
       ELSE LET x == IF seq[k + 1].code # "MATCH_ANY_ANCESTOR_WITH_FUNCTION_CALL" THEN ParentOf(c.f, r.node) ELSE r.node IN
            [ok |-> x # Null, ctx |-> x]
StepExit(seq, k, n, c) == StepPattern(seq, k, n, FALSE, c).node
SomeStep(P, Cond(_, _)) == LET as == Alts(P) IN
  \E i \in 1..Len(as) : LET seq == Compile(as[i]) IN \E k \in 1..Len(seq) : Cond(seq, k)

(* no backtracking over '//': the step left of '//' had more than one candidate ancestor, only   *)
(* the nearest one is ever tried against what is further left                                    *)
KD_descendantNoBacktrack(P, n, c0) == LET c == WithCache(c0, TRUE) IN
  SomeStep(P, LAMBDA seq, k :
     /\ k > 1 /\ seq[k].code = "MATCH_ANY_ANCESTOR"
     /\ LET e == StepEntry(seq, k, n, c) IN
        /\ e.ok /\ KindOf(c.f, e.ctx) # "attr"
        /\ Cardinality({x \in Range(UpChain(c.f, e.ctx)) :
                          ImplNodeTest(c.f, seq[k].test, "elem", x) /\ DoStepPredicate(seq[k], x, 1, TRUE, c)}) >= 2)
(* '/x//...': eFROM_ROOT reached from a node that is not a child of the document walks up to the *)
(* document instead of failing                                                                    *)
KD_anchorLostAfterDescendant(P, n, c0) == LET c == WithCache(c0, TRUE) IN
  SomeStep(P, LAMBDA seq, k :
     /\ k = 1 /\ Len(seq) >= 2 /\ seq[1].code = "FROM_ROOT" /\ seq[2].code = "MATCH_ANY_ANCESTOR"
     /\ LET e == StepEntry(seq, 1, n, c) IN e.ok /\ KindOf(c.f, e.ctx) # "root")
(* a child step with the node test node() matched AT the document node *)
KD_childNodeTestAcceptsRoot(P, n, c0) == LET c == WithCache(c0, TRUE) IN
  SomeStep(P, LAMBDA seq, k :
     /\ seq[k].code \in {"MATCH_IMMEDIATE_ANCESTOR", "MATCH_ANY_ANCESTOR"} /\ seq[k].test.t = "node"
     /\ LET x == StepExit(seq, k, n, c) IN x # Null /\ KindOf(c.f, x) = "root")
(* an attribute step with a node-TYPE test (node(), text(), comment(), processing-instruction()) *)
(* accepted a node that is not an attribute                                                       *)
KD_attributeNodeTestAcceptsNonAttributes(P, n, c0) == LET c == WithCache(c0, TRUE) IN
  SomeStep(P, LAMBDA seq, k :
     /\ seq[k].code = "MATCH_ATTRIBUTE" /\ seq[k].test.t \in {"node", "text", "comment", "pi"}
     /\ LET e == StepEntry(seq, k, n, c) IN
        e.ok /\ KindOf(c.f, e.ctx) # "attr" /\ ImplNodeTest(c.f, seq[k].test, "attr", e.ctx))
(* an attribute step with a NAME test and a predicate that goes through handleFoundIndex: the    *)
(* re-evaluated step tests the attributes with the element tests and finds nothing                *)
KD_attributeStepPositionalPredicate(P, n, c0) == LET c == WithCache(c0, TRUE) IN
  SomeStep(P, LAMBDA seq, k :
     /\ seq[k].code = "MATCH_ATTRIBUTE" /\ seq[k].test.t \in {"name", "any", "nsany"}
     /\ LET e == StepEntry(seq, k, n, c) IN
        /\ e.ok /\ ImplNodeTest(c.f, seq[k].test, "attr", e.ctx)
        /\ \E j \in 1..Len(seq[k].preds) : PredIndexed(seq[k].preds[j], e.ctx, c))

(* the stale position cache (see FindStep) changed the answer for n: with a fresh position for    *)
(* every predicate the same algorithm answers differently                                         *)
KD_stalePositionAcrossPredicates(P, n, c0) ==
  ImplMatchesC(P, n, WithCache(c0, TRUE)) # ImplMatchesC(P, n, WithCache(c0, FALSE))

KDKeys == <<"descendantNoBacktrack", "anchorLostAfterDescendant", "childNodeTestAcceptsRoot",
            "attributeNodeTestAcceptsNonAttributes", "attributeStepPositionalPredicate", "stalePositionAcrossPredicates">>
KD(key, P, n, c) ==
  CASE key = "descendantNoBacktrack"                 -> KD_descendantNoBacktrack(P, n, c)
    [] key = "anchorLostAfterDescendant"             -> KD_anchorLostAfterDescendant(P, n, c)
    [] key = "childNodeTestAcceptsRoot"              -> KD_childNodeTestAcceptsRoot(P, n, c)
    [] key = "attributeNodeTestAcceptsNonAttributes" -> KD_attributeNodeTestAcceptsNonAttributes(P, n, c)
    [] key = "attributeStepPositionalPredicate"      -> KD_attributeStepPositionalPredicate(P, n, c)
    [] key = "stalePositionAcrossPredicates"         -> KD_stalePositionAcrossPredicates(P, n, c)
(* direction of each class: a false positive (the algorithm accepts, the definition does not) or *)
(* a false negative                                                                              *)
KDExtraKeys   == {"anchorLostAfterDescendant", "childNodeTestAcceptsRoot", "attributeNodeTestAcceptsNonAttributes",
                  "stalePositionAcrossPredicates"}
KDMissingKeys == {"descendantNoBacktrack", "attributeStepPositionalPredicate", "stalePositionAcrossPredicates"}
KDKeysOf(P, n, c) == {key \in Range(KDKeys) : KD(key, P, n, c)}
(* the classes that explain the disagreement at node n, given what the algorithm answered there *)
KDExplains(P, n, c, implSays) == {key \in (IF implSays THEN KDExtraKeys ELSE KDMissingKeys) : KD(key, P, n, c)}
KnownDeviation(P, n, c) == KDKeysOf(P, n, c) # {}
=============================================================================
