-------------------------- MODULE PatternMatcherImpl --------------------------
(* Implementation-shaped model of Xalan's match-pattern machinery (src/xalanc/XPath):            *)
(*   - Compile   : what XPathProcessorImpl::Pattern / LocationPathPattern / IdKeyPattern /        *)
(*                 RelativePathPattern / StepPattern / AbbreviatedNodeTestStep leave in the op    *)
(*                 map for one alternative of a match pattern (the sequence of step op codes in   *)
(*                 the order they are stored: left to right, head first);                         *)
(*   - StepPattern / DoStepPredicate / HandleFoundIndex / FindStep / ImplNodeTest :               *)
(*                 XPath::stepPattern, doStepPredicate, handleFoundIndex[Positional], step +      *)
(*                 findChildren / findAttributes + predicates, NodeTester  (XPath.cpp);           *)
(*   - ImplMatches / ImplMatchSet : XPath::getMatchScore != eMatchScoreNone (doGetMatchScore,     *)
(*                 locationPathPattern).                                                          *)
(* Pattern ASTs are the expression ASTs of XPathSem (tools/xpgen.py): a union `|` of alternatives *)
(* that are paths (optionally absolute, optionally headed by an id()/key() call) whose steps are  *)
(* on the child or attribute axis, '//' being the step descendant-or-self::node() without         *)
(* predicates, or a bare id()/key() call.  The expression INSIDE a predicate and the id()/key()   *)
(* call are evaluated with XPathSem!Eval - the evaluator is not transcribed again.                *)
(* Scores are abstracted to BOOLEAN (eMatchScoreNone = FALSE): only "matches or not" is modelled. *)
(* The algorithm is NOT the definition (XPathSem!Matches); MC_Pattern checks that the two agree   *)
(* on a bounded family.  Where the algorithm is known to differ, the class is named KD_<key>      *)
(* (keys of /verif/known_findings.jsonl with status "known") and excluded there; Trace_C09impl    *)
(* compares the REAL matcher with ImplMatchSet case by case.  At present NO deviation is named:   *)
(* the six classes found so far (descendantNoBacktrack, anchorLostAfterDescendant,               *)
(* childNodeTestAcceptsRoot, attributeNodeTestAcceptsNonAttributes,                              *)
(* attributeStepPositionalPredicate, stalePositionAcrossPredicates) were repaired in the code and *)
(* this module transcribes the repaired algorithm.                                                *)
(* Limits of the transcription: nested predicates inside a predicate expression are evaluated by  *)
(* the definition.  An in-place predicate sees position 1 of 1 (it never calls position()/last()  *)
(* itself: such predicates go through handleFoundIndex).  The position cache of                   *)
(* XPathExecutionContextDefault (m_cachedPosition) is not modelled: XPath::predicates() re-pushes  *)
(* the context node list after every predicate that filtered it, which clears the cache, and      *)
(* within one pass over an unchanged list a cached position is the position.                      *)
EXTENDS XPathSem

Null == <<0, 0, 0>>                                  \* the null XalanNode*
(* DOMServices::getParentOfNode: the owner element for an attribute, 0 for the document *)
ParentOf(F, n) == IF n = Null THEN Null
                  ELSE LET p == DocOf(F, n).parent[NI(n)] IN IF p = 0 THEN Null ELSE Node(ND(n), p)
RECURSIVE UpChain(_, _)                              \* n, parent(n), ... , document node
UpChain(F, n) == IF n = Null THEN <<>> ELSE <<n>> \o UpChain(F, ParentOf(F, n))
FirstIdx(s, Ok(_)) == LET S == {i \in 1..Len(s) : Ok(s[i])} IN IF S = {} THEN 0 ELSE Min(S)

(* ============================ compilation (XPathProcessorImpl) ============================== *)
IsDos(s) == s.axis = "descendant-or-self" /\ s.test.t = "node" /\ Len(s.preds) = 0      \* the '//' of the AST
RECURSIVE Alts(_)                                    \* Pattern(): LocationPathPattern ('|' LocationPathPattern)*
Alts(P) == IF P.op = "bin" /\ P.o = "|" THEN Alts(P.a) \o Alts(P.b) ELSE <<P>>

NoFn   == [op |-> "none"]
TNode  == [t |-> "node"]                             \* eNODETYPE_NODE
TRoot  == [t |-> "root"]                             \* eNODETYPE_ROOT
TNone  == [t |-> "none"]
CS(code, test, preds, f) == [code |-> code, test |-> test, preds |-> preds, fn |-> f]

(* PredicateExpr(): the predicate is stored as eOP_PREDICATE_WITH_POSITION iff position() or     *)
(* last() is called in it outside any nested predicate (m_positionPredicateStack.back())         *)
RECURSIVE UsesPosition(_)
UsesPosition(e) ==
  CASE e.op = "fn"     -> e.name \in {"position", "last"} \/ \E i \in 1..Len(e.args) : UsesPosition(e.args[i])
    [] e.op = "bin"    -> UsesPosition(e.a) \/ UsesPosition(e.b)
    [] e.op = "neg"    -> UsesPosition(e.a)
    [] e.op = "filter" -> UsesPosition(e.e)
    [] e.op = "path"   -> e.start.op # "none" /\ UsesPosition(e.start)
    [] OTHER           -> FALSE
PredCode(p) == IF UsesPosition(p) THEN "OP_PREDICATE_WITH_POSITION" ELSE "OP_PREDICATE"

(* LocationPathPattern(): what precedes the first step pattern                                   *)
(*   id(..)/key(..)      -> eOP_FUNCTION                      (IdKeyPattern)                     *)
(*   id(..) '//'         -> eOP_FUNCTION, eMATCH_ANY_ANCESTOR_WITH_FUNCTION_CALL                 *)
(*   '//'                -> eMATCH_ANY_ANCESTOR_WITH_PREDICATE + eNODETYPE_NODE                  *)
(*   '/'                 -> eFROM_ROOT + eNODETYPE_ROOT                                          *)
PatHead(alt) ==
  IF alt.op = "fn" THEN <<CS("OP_FUNCTION", TNone, <<>>, alt)>>
  ELSE LET dd == Len(alt.steps) > 0 /\ IsDos(alt.steps[1]) IN
       IF alt.start.op # "none"
       THEN <<CS("OP_FUNCTION", TNone, <<>>, alt.start)>>
            \o (IF dd THEN <<CS("MATCH_ANY_ANCESTOR_WITH_FUNCTION_CALL", TNone, <<>>, NoFn)>> ELSE <<>>)
       ELSE IF alt.abs
       THEN (IF dd THEN <<CS("MATCH_ANY_ANCESTOR_WITH_PREDICATE", TNode, <<>>, NoFn)>>
                   ELSE <<CS("FROM_ROOT", TRoot, <<>>, NoFn)>>)
       ELSE <<>>
(* AbbreviatedNodeTestStep(): '@' / attribute:: -> eMATCH_ATTRIBUTE (matchTypePos stays -1);     *)
(* otherwise eMATCH_IMMEDIATE_ANCESTOR, rewritten to eMATCH_ANY_ANCESTOR when, after the          *)
(* predicates, the next two tokens are '/' '/' - i.e. the op code of '//' sits on the step to    *)
(* its LEFT.  Node test and predicates are stored with the step.                                  *)
RECURSIVE Body(_, _)
Body(steps, i) ==
  IF i > Len(steps) THEN <<>>
  ELSE IF IsDos(steps[i]) THEN Body(steps, i + 1)
  ELSE LET s == steps[i]
           slashSlash == i + 1 <= Len(steps) /\ IsDos(steps[i + 1])
           code == IF s.axis = "attribute" THEN "MATCH_ATTRIBUTE"
                   ELSE IF slashSlash THEN "MATCH_ANY_ANCESTOR" ELSE "MATCH_IMMEDIATE_ANCESTOR"
       IN <<CS(code, s.test, s.preds, NoFn)>> \o Body(steps, i + 1)
(* the step sequence of one eOP_LOCATIONPATHPATTERN, in op-map order (the matcher recurses to    *)
(* the LAST element first)                                                                       *)
Compile(alt) == PatHead(alt) \o (IF alt.op = "fn" THEN <<>> ELSE Body(alt.steps, 1))

(* ================================== NodeTester (XPath.cpp) ================================== *)
(* cls = "attr" when the tester is constructed with stepType eFROM_ATTRIBUTES, "elem" for every  *)
(* other step type the matcher uses (eMATCH_*, eFROM_ROOT): name tests then use testElement*.    *)
(* testNode / testText / testComment / testPI* ignore the step type altogether.                  *)
ImplNodeTest(F, test, cls, n) ==
  LET kind == KindOf(F, n)
      want == IF cls = "attr" THEN "attr" ELSE "elem" IN
  CASE test.t = "comment" -> kind = "comment"
    [] test.t = "text"    -> kind = "text"                       \* no whitespace stripping in force
    [] test.t = "pi"      -> kind = "pi" /\ (test.hasTarget => LocalOf(F, n) = test.target)
    [] test.t = "node"    -> TRUE                                \* testNode: ANY node type
    [] test.t = "root"    -> kind = "root"
    [] test.t = "any"     -> kind = want
    [] test.t = "nsany"   -> kind = want /\ UriOf(F, n) = test.uri
    [] test.t = "name"    -> kind = want /\ UriOf(F, n) = test.uri /\ LocalOf(F, n) = test.local
    [] OTHER              -> FALSE                               \* testDefault

(* ========================= forward re-evaluation of one match step ========================== *)
(* one predicate over the current list (the loop of XPath::predicates) *)
RECURSIVE PredPass(_, _, _, _)
PredPass(seq, p, k, c) ==
  IF k > Len(seq) THEN [kept |-> <<>>, bad |-> FALSE]
  ELSE LET x == seq[k]
           cc == [c EXCEPT !.n = x, !.pos = k, !.size = Len(seq)]
           v == Eval(p, cc)
           rest == PredPass(seq, p, k + 1, c)
           keep == ~Bad(v) /\ (IF v.t = "num" THEN NumEq(v.v, FromInt(k)) ELSE ToBool(v))   \* i + 1 != pred->num() || !pred->boolean()
       IN [kept |-> (IF keep THEN <<x>> ELSE <<>>) \o rest.kept, bad |-> Bad(v) \/ rest.bad]
(* XPath::predicates: predicate after predicate; a number LITERAL is not evaluated, it indexes    *)
(* the list; nothing is evaluated once the list is empty                                          *)
RECURSIVE Predicates(_, _, _, _)
Predicates(seq, preds, j, c) ==
  IF j > Len(preds) THEN seq
  ELSE IF Len(seq) = 0 THEN <<>>
  ELSE LET p == preds[j] IN
       IF p.op = "num"
       THEN LET ok == p.v.k = "fin" /\ ~p.v.neg /\ p.v.m > 0 /\ p.v.m % Scale = 0 /\ p.v.m \div Scale <= Len(seq) IN
            Predicates(IF ok THEN <<seq[p.v.m \div Scale]>> ELSE <<>>, preds, j + 1, c)
       ELSE LET r == PredPass(seq, p, 1, c) IN
            IF r.bad THEN <<>> ELSE Predicates(r.kept, preds, j + 1, c)
(* XPath::step(parent, startOpPos) for a match op code: eMATCH_ATTRIBUTE -> findAttributes (the   *)
(* NodeTester is always built for the attribute axis), eMATCH_*_ANCESTOR -> findChildren (tester  *)
(* built with the MATCH op code: the element tests), no step recursion; a fresh context node list *)
(* is pushed; then predicates().                                                                  *)
FindStep(cs, parent, c) ==
  LET F == c.f
      cand == IF cs.code = "MATCH_ATTRIBUTE"
              THEN {x \in Axis(F, "attribute", parent) : ImplNodeTest(F, cs.test, "attr", x)}
              ELSE {x \in Axis(F, "child", parent) : ImplNodeTest(F, cs.test, "elem", x)}
  IN Range(Predicates(DocOrderSeq(cand), cs.preds, 1, c))
HandleFoundIndex(cs, n, c) ==
  LET p == ParentOf(c.f, n) IN IF p = Null THEN FALSE ELSE n \in FindStep(cs, p, c)
(* (NDEBUG) only looks whether the re-evaluated step found anything *)
HandleFoundIndexPositional(cs, n, c) ==
  LET p == ParentOf(c.f, n) IN IF p = Null THEN FALSE ELSE FindStep(cs, p, c) # {}

(* value of predicate p evaluated in place on node n (XPath::predicate -> executeMore) *)
InPlace(p, n, c) == Eval(p, [c EXCEPT !.n = n, !.pos = 1, !.size = 1])
(* does doStepPredicate hand predicate p over to handleFoundIndex? *)
PredIndexed(p, n, c) == UsesPosition(p) \/ InPlace(p, n, c).t = "num"

(* XPath::doStepPredicate: predicates j.. of step cs on node n; `score` is the score so far.     *)
(* A handleFoundIndex result REPLACES the score and the loop goes on; a false boolean predicate  *)
(* ends the loop with eMatchScoreNone.                                                            *)
RECURSIVE DoStepPredicate(_, _, _, _, _)
DoStepPredicate(cs, n, j, score, c) ==
  IF j > Len(cs.preds) THEN score
  ELSE LET p == cs.preds[j] IN
       IF PredCode(p) = "OP_PREDICATE_WITH_POSITION"
       THEN DoStepPredicate(cs, n, j + 1,
                            IF p.op = "num" THEN HandleFoundIndexPositional(cs, n, c)      \* "foo[1]" look-ahead; never taken:
                            ELSE HandleFoundIndex(cs, n, c), c)                             \* a literal has no position()
       ELSE LET v == InPlace(p, n, c) IN
            IF v.t = "num" THEN DoStepPredicate(cs, n, j + 1, HandleFoundIndex(cs, n, c), c)
            ELSE IF Bad(v) \/ ~ToBool(v) THEN FALSE
            ELSE DoStepPredicate(cs, n, j + 1, score, c)

(* ================================== XPath::stepPattern ====================================== *)
(* seq: compiled steps, k: the step at opPos, ctx0: the node getMatchScore was asked about,       *)
(* holder0: scoreHolder on entry, anc0: theAncestor on entry.  Result [node |-> returned context  *)
(* (Null = 0), holder |-> scoreHolder on exit, anc |-> theAncestor on exit].                      *)
(* theAncestor is the backtracking protocol over '//': a step that matches any ancestor (it is    *)
(* followed by '//') reports the ancestor it found; when a step further left fails, the caller    *)
(* that started the search (the next any-ancestor step to the left, or locationPathPattern) calls  *)
(* again with that node and the any-ancestor step continues ABOVE it without re-running the steps *)
(* to its right.                                                                                  *)
IsAnyAncestor(code) == code \in {"MATCH_ANY_ANCESTOR", "MATCH_ANY_ANCESTOR_WITH_PREDICATE"}
RECURSIVE StepPattern(_, _, _, _, _, _), RetryLoop(_, _, _, _, _, _)
(* do { r = stepPattern(.., theAncestor) } while (r failed && theAncestor != 0) *)
RetryLoop(seq, k, ctx0, holder0, anc0, c) ==
  LET r == StepPattern(seq, k, ctx0, holder0, anc0, c) IN
  IF r.node = Null /\ r.anc # Null THEN RetryLoop(seq, k, ctx0, r.holder, r.anc, c) ELSE r
StepPattern(seq, k, ctx0, holder0, anc0, c) ==
  LET F == c.f
      cs == seq[k]
      hasNext == k < Len(seq)                                   \* nextStepType # eENDOP
      nextCode == IF hasNext THEN seq[k + 1].code ELSE "ENDOP"
      any == IsAnyAncestor(cs.code)                             \* fAnyAncestor
      \* "continue step via recursion": rightmost step first.  [node, holder, anc] after that part
      right == IF ~hasNext THEN [node |-> ctx0, holder |-> holder0, anc |-> anc0]
               ELSE IF ~any THEN StepPattern(seq, k + 1, ctx0, holder0, anc0, c)             \* theAncestor is passed through
               ELSE IF anc0 # Null THEN [node |-> anc0, holder |-> TRUE, anc |-> Null]       \* resume above the ancestor found last
               ELSE LET r == RetryLoop(seq, k + 1, ctx0, holder0, Null, c) IN                \* own search over the next any-ancestor step
                    [node |-> r.node, holder |-> r.holder, anc |-> Null]
      ctx1 == IF ~hasNext THEN ctx0
              ELSE IF nextCode # "MATCH_ANY_ANCESTOR_WITH_FUNCTION_CALL" THEN ParentOf(F, right.node) ELSE right.node
      holder1 == IF hasNext THEN TRUE ELSE holder0               \* scoreHolder = eMatchScoreOther
  IN
  IF hasNext /\ (right.node = Null \/ ~right.holder) THEN [node |-> Null, holder |-> FALSE, anc |-> right.anc]   \* big ugly return
  ELSE IF ctx1 = Null THEN [node |-> Null, holder |-> FALSE, anc |-> right.anc]                                  \* no parent for this step
  ELSE
  LET sw ==   \* the switch: [score, node (context afterwards), preds (fDoPredicates)]
        CASE cs.code = "MATCH_ANY_ANCESTOR_WITH_FUNCTION_CALL" ->
               [score |-> holder1, node |-> ctx1, preds |-> TRUE]
          [] cs.code = "OP_FUNCTION" ->
               LET v == Eval(cs.fn, [c EXCEPT !.n = ctx1, !.pos = 1, !.size = 1])
                   nl == IF v.t = "ns" THEN v.v ELSE {} IN
               IF nextCode = "MATCH_ANY_ANCESTOR_WITH_FUNCTION_CALL"
               THEN LET ch == UpChain(F, ctx1)
                        i == FirstIdx(ch, LAMBDA x : x \in nl) IN
                    IF i = 0 THEN [score |-> FALSE, node |-> Null, preds |-> TRUE]
                    ELSE [score |-> TRUE, node |-> ParentOf(F, ch[i]), preds |-> TRUE]      \* context is moved once more after the hit
               ELSE [score |-> ctx1 \in nl, node |-> ctx1, preds |-> TRUE]
          [] cs.code = "FROM_ROOT" ->                            \* nothing else: an ancestor that is not a child of the root is retried by the caller
               [score |-> KindOf(F, ctx1) = "root", node |-> ctx1, preds |-> TRUE]
          [] cs.code = "MATCH_ATTRIBUTE" ->                      \* only an attribute is tested
               [score |-> KindOf(F, ctx1) = "attr" /\ ImplNodeTest(F, cs.test, "attr", ctx1), node |-> ctx1, preds |-> TRUE]
          [] any ->
               IF KindOf(F, ctx1) = "attr" THEN [score |-> FALSE, node |-> ctx1, preds |-> FALSE]
               ELSE LET ch == UpChain(F, ctx1)                   \* the NEAREST ancestor-or-self passing test and predicates; the root only for the leading '//'
                        i == FirstIdx(ch, LAMBDA x : /\ (cs.code = "MATCH_ANY_ANCESTOR_WITH_PREDICATE" \/ KindOf(F, x) # "root")
                                                     /\ ImplNodeTest(F, cs.test, "elem", x) /\ DoStepPredicate(cs, x, 1, TRUE, c)) IN
                    IF i = 0 THEN [score |-> FALSE, node |-> Null, preds |-> FALSE]
                    ELSE [score |-> TRUE, node |-> ch[i], preds |-> FALSE]
          [] cs.code = "MATCH_IMMEDIATE_ANCESTOR" ->
               [score |-> KindOf(F, ctx1) \notin {"attr", "root"} /\ ImplNodeTest(F, cs.test, "elem", ctx1), node |-> ctx1, preds |-> TRUE]
      score2 == IF sw.preds /\ sw.score THEN DoStepPredicate(cs, sw.node, 1, sw.score, c) ELSE sw.score
      holder2 == IF ~holder1 \/ ~score2 THEN score2 ELSE holder1
      anc2 == IF any THEN (IF score2 THEN sw.node ELSE Null) ELSE right.anc     \* "this is where to continue"
  IN [node |-> IF score2 THEN sw.node ELSE Null, holder |-> holder2, anc |-> anc2]

(* locationPathPattern (the retry loop at the top) / doGetMatchScore / getMatchScore *)
ImplMatchesAlt(alt, n, c) ==
  LET seq == Compile(alt) IN Len(seq) > 0 /\ RetryLoop(seq, 1, n, FALSE, Null, c).holder
ImplMatches(P, n, c) == LET as == Alts(P) IN \E i \in 1..Len(as) : ImplMatchesAlt(as[i], n, c)
ImplMatchSet(P, d, c0) == {n \in {Node(d, i) : i \in 1..c0.f[d].n} : ImplMatches(P, n, c0)}

(* ================================ known deviations ========================================== *)
(* A class of inputs on which the algorithm is KNOWN to differ from the definition is described   *)
(* by a predicate KD_<key>(P, n, c) (key = the key of the known_findings entry), listed in KDKeys *)
(* and in KDExtraKeys (the algorithm accepts, the definition does not) and/or KDMissingKeys, and   *)
(* given a witness in MC_Pattern.  Observation points for writing such predicates: the context    *)
(* with which step k's switch is entered on the first attempt, and the node at which step k       *)
(* itself matched.  None is needed at present.                                                    *)
StepEntry(seq, k, n, c) ==
  IF k = Len(seq) THEN [ok |-> TRUE, ctx |-> n]
  ELSE LET r == StepPattern(seq, k + 1, n, FALSE, Null, c) IN
       IF r.node = Null \/ ~r.holder THEN [ok |-> FALSE, ctx |-> Null]
       ELSE LET x == IF seq[k + 1].code # "MATCH_ANY_ANCESTOR_WITH_FUNCTION_CALL" THEN ParentOf(c.f, r.node) ELSE r.node IN
            [ok |-> x # Null, ctx |-> x]
StepExit(seq, k, n, c) == StepPattern(seq, k, n, FALSE, Null, c).node
SomeStep(P, Cond(_, _)) == LET as == Alts(P) IN
  \E i \in 1..Len(as) : LET seq == Compile(as[i]) IN \E k \in 1..Len(seq) : Cond(seq, k)

KDKeys == <<>>
KD(key, P, n, c) == FALSE                            \* CASE key = "..." -> KD_...(P, n, c) [] ...
(* direction of each class: a false positive (the algorithm accepts, the definition does not) or *)
(* a false negative                                                                              *)
KDExtraKeys   == {}
KDMissingKeys == {}
KDKeysOf(P, n, c) == {key \in Range(KDKeys) : KD(key, P, n, c)}
(* the classes that explain the disagreement at node n, given what the algorithm answered there *)
KDExplains(P, n, c, implSays) == {key \in (IF implSays THEN KDExtraKeys ELSE KDMissingKeys) : KD(key, P, n, c)}
KnownDeviation(P, n, c) == KDKeysOf(P, n, c) # {}
=============================================================================
