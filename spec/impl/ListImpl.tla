------------------------------ MODULE ListImpl ------------------------------
(* Implementation-shaped model of XalanList (src/xalanc/Include/XalanList.hpp): a circular doubly   *)
(* linked list with a lazily allocated sentinel (m_listHead) and a singly linked list of freed nodes *)
(* (m_freeListHeadPtr) that constructNode recycles.  Nodes live in a pool nd: id -> [v, p, n]         *)
(* (value, prev, next; 0 = null pointer, RAW = destroyed value).  A list is [head, free].             *)
(* A world is [nd, a, t]: the pool, the user's list and a temporary second list (swap / splice).      *)
(* The pointer assignments of splice / constructNode / freeNode are transcribed in program order.     *)
EXTENDS Containers

RAW == -1
NoList == [head |-> 0, free |-> 0]
NewWorld == [nd |-> <<>>, a |-> NoList, t |-> NoList]

Lst(W, x) == IF x = "a" THEN W.a ELSE W.t
SetLst(W, x, L) == IF x = "a" THEN [W EXCEPT !.a = L] ELSE [W EXCEPT !.t = L]

(* getListHead(): allocates the sentinel on first use *)
WithHead(W, x) ==
  IF Lst(W, x).head # 0 THEN W
  ELSE LET id == Len(W.nd) + 1
       IN SetLst([W EXCEPT !.nd = Append(@, [v |-> RAW, p |-> id, n |-> id])], x, [Lst(W, x) EXCEPT !.head = id])

(* the nodes from begin() to end(), following next pointers (W has the head allocated) *)
RECURSIVE Walk(_, _, _, _)
Walk(nd, head, cur, fuel) == IF cur = head \/ fuel = 0 THEN <<>> ELSE <<cur>> \o Walk(nd, head, nd[cur].n, fuel - 1)
NodesOf(W, x) == IF Lst(W, x).head = 0 THEN <<>> ELSE Walk(W.nd, Lst(W, x).head, W.nd[Lst(W, x).head].n, Len(W.nd))
RECURSIVE WalkBack(_, _, _, _)
WalkBack(nd, head, cur, fuel) == IF cur = head \/ fuel = 0 THEN <<>> ELSE <<cur>> \o WalkBack(nd, head, nd[cur].p, fuel - 1)
RNodesOf(W, x) == IF Lst(W, x).head = 0 THEN <<>> ELSE WalkBack(W.nd, Lst(W, x).head, W.nd[Lst(W, x).head].p, Len(W.nd))
RECURSIVE FreeChain(_, _, _)
FreeChain(nd, cur, fuel) == IF cur = 0 \/ fuel = 0 THEN <<>> ELSE <<cur>> \o FreeChain(nd, nd[cur].n, fuel - 1)

Items(W, x) == [i \in 1..Len(NodesOf(W, x)) |-> W.nd[NodesOf(W, x)[i]].v]
RItems(W, x) == [i \in 1..Len(RNodesOf(W, x)) |-> W.nd[RNodesOf(W, x)[i]].v]

(* iterator at 0-based position pos (pos = size: end()); W has the head allocated *)
NodeAt(W, x, pos) == LET ns == NodesOf(W, x) IN IF pos < Len(ns) THEN ns[pos + 1] ELSE Lst(W, x).head

(* constructNode(data, pos) *)
ConstructNode(W0, x, data, posId) ==
  LET L == Lst(W0, x)
      reuse == L.free # 0
      new == IF reuse THEN L.free ELSE Len(W0.nd) + 1
      nextFree == IF reuse THEN W0.nd[L.free].n ELSE 0
      nd0 == IF reuse THEN W0.nd ELSE Append(W0.nd, [v |-> RAW, p |-> 0, n |-> 0])
      nd1 == [nd0 EXCEPT ![new] = [v |-> data, p |-> nd0[posId].p, n |-> posId]]
      nd2 == [nd1 EXCEPT ![nd1[posId].p].n = new]
      nd3 == [nd2 EXCEPT ![posId].p = new]
  IN SetLst([W0 EXCEPT !.nd = nd3], x, [L EXCEPT !.free = nextFree])

(* freeNode(node) *)
FreeNode(W, x, id) ==
  LET L == Lst(W, x)
      nd1 == [W.nd EXCEPT ![W.nd[id].p].n = W.nd[id].n]
      nd2 == [nd1 EXCEPT ![nd1[id].n].p = nd1[id].p]
      nd3 == [nd2 EXCEPT ![id] = [v |-> RAW, p |-> 0, n |-> L.free]]
  IN SetLst([W EXCEPT !.nd = nd3], x, [L EXCEPT !.free = id])

PushBack(W, x, data) == LET W1 == WithHead(W, x) IN ConstructNode(W1, x, data, Lst(W1, x).head)
PushFront(W, x, data) == LET W1 == WithHead(W, x) IN ConstructNode(W1, x, data, W1.nd[Lst(W1, x).head].n)
LInsertAt(W, x, pos, data) == LET W1 == WithHead(W, x) IN ConstructNode(W1, x, data, NodeAt(W1, x, pos))
EraseAt(W, x, pos) == LET W1 == WithHead(W, x) IN FreeNode(W1, x, NodeAt(W1, x, pos))
PopFront(W, x) == LET W1 == WithHead(W, x) IN FreeNode(W1, x, W1.nd[Lst(W1, x).head].n)           \* erase(begin())
PopBack(W, x) == LET W1 == WithHead(W, x) IN FreeNode(W1, x, W1.nd[Lst(W1, x).head].p)            \* erase(--end())

RECURSIVE FreeAll(_, _, _)
FreeAll(W, x, ids) == IF ids = <<>> THEN W ELSE FreeAll(FreeNode(W, x, Head(ids)), x, Tail(ids))
Clear(W, x) == LET W1 == WithHead(W, x) IN FreeAll(W1, x, NodesOf(W1, x))

RECURSIVE PushAll(_, _, _)
PushAll(W, x, s) == IF s = <<>> THEN W ELSE PushAll(PushBack(W, x, Head(s)), x, Tail(s))

(* splice(pos, list, toInsert): six pointer assignments, in program order *)
SpliceOne(W, posId, ti) ==
  IF posId = ti THEN W
  ELSE LET n1 == [W.nd EXCEPT ![W.nd[ti].p].n = W.nd[ti].n]
           n2 == [n1 EXCEPT ![n1[ti].n].p = n1[ti].p]
           n3 == [n2 EXCEPT ![ti].p = n2[posId].p]
           n4 == [n3 EXCEPT ![ti].n = posId]
           n5 == [n4 EXCEPT ![n4[posId].p].n = ti]
           n6 == [n5 EXCEPT ![posId].p = ti]
       IN [W EXCEPT !.nd = n6]

(* splice(pos, list, toInsertFirst, toInsertLast) *)
SpliceRange(W, posId, fi, la) ==
  IF fi = la THEN W
  ELSE LET last == W.nd[la].p                                 \* toInsertLastNode = *(toInsertLast.node().prev)
           n1 == [W.nd EXCEPT ![W.nd[fi].p].n = W.nd[last].n]
           n2 == [n1 EXCEPT ![n1[last].n].p = n1[fi].p]
           n3 == [n2 EXCEPT ![fi].p = n2[posId].p]
           n4 == [n3 EXCEPT ![last].n = posId]
           n5 == [n4 EXCEPT ![n4[posId].p].n = fi]
           n6 == [n5 EXCEPT ![posId].p = last]
       IN [W EXCEPT !.nd = n6]

(* the temporary goes away (destructor: its nodes, free nodes and sentinel are deallocated); then    *)
(* ids are renamed in the order sentinel, nodes, free chain so that equal structures are equal states *)
Canon(W) ==
  LET L == W.a
      order == IF L.head = 0 THEN <<>> ELSE <<L.head>> \o NodesOf(W, "a") \o FreeChain(W.nd, L.free, Len(W.nd))
      ren == [o \in Range(order) \cup {0} |-> IF o = 0 THEN 0 ELSE CHOOSE k \in 1..Len(order) : order[k] = o]
      RN(r) == [v |-> r.v, p |-> (IF r.p \in DOMAIN ren THEN ren[r.p] ELSE 0), n |-> (IF r.n \in DOMAIN ren THEN ren[r.n] ELSE 0)]
  IN [nd |-> [k \in 1..Len(order) |-> RN(W.nd[order[k]])],
      a |-> [head |-> ren[L.head], free |-> ren[L.free]], t |-> NoList]

(* ---- dispatcher with the op vocabulary of Containers!ListApply; returns [w, res, other] *)
LR(w, res, other) == [w |-> w, res |-> res, other |-> other]
ImplApply0(W, op) ==
  CASE op.op = "pushBack"   -> LR(PushBack(W, "a", op.v), 0, <<>>)
    [] op.op = "pushFront"  -> LR(PushFront(W, "a", op.v), 0, <<>>)
    [] op.op = "popBack"    -> LR(PopBack(W, "a"), 0, <<>>)
    [] op.op = "popFront"   -> LR(PopFront(W, "a"), 0, <<>>)
    [] op.op = "insert"     -> LET W1 == LInsertAt(W, "a", op.pos, op.v) IN LR(W1, W1.nd[NodeAt(W1, "a", op.pos)].v, <<>>)
    [] op.op = "erase"      -> LR(EraseAt(W, "a", op.pos), 0, <<>>)
    [] op.op = "clear"      -> LR(Clear(W, "a"), 0, <<>>)
    [] op.op = "swap"       -> LET W1 == PushAll(W, "t", op.src)
                                   W2 == [W1 EXCEPT !.a = W1.t, !.t = W1.a]
                               IN LR(W2, 0, Items(W2, "t"))
    [] op.op = "spliceOne"  -> LET W1 == WithHead(PushAll(W, "t", op.src), "a")
                                   W2 == SpliceOne(W1, NodeAt(W1, "a", op.pos), NodeAt(W1, "t", op.i))
                               IN LR(W2, 0, Items(W2, "t"))
    [] op.op = "spliceRange" -> LET W1 == WithHead(WithHead(PushAll(W, "t", op.src), "t"), "a")
                                    W2 == SpliceRange(W1, NodeAt(W1, "a", op.pos), NodeAt(W1, "t", op.first), NodeAt(W1, "t", op.last))
                                IN LR(W2, 0, Items(W2, "t"))
    [] op.op = "spliceOneSelf" -> LET W1 == WithHead(W, "a")
                                  IN LR(SpliceOne(W1, NodeAt(W1, "a", op.pos), NodeAt(W1, "a", op.i)), 0, <<>>)
    [] op.op = "spliceRangeSelf" -> LET W1 == WithHead(W, "a")
                                    IN LR(SpliceRange(W1, NodeAt(W1, "a", op.pos), NodeAt(W1, "a", op.first), NodeAt(W1, "a", op.last)), 0, <<>>)
ImplApply(W, op) == LET r == ImplApply0(W, op) IN LR(Canon(r.w), r.res, r.other)

(* ---- structure: next and prev links agree, free nodes are destroyed, live ones are not *)
WellFormed(W) ==
  LET ns == NodesOf(W, "a")
      fs == FreeChain(W.nd, W.a.free, Len(W.nd))
  IN /\ RNodesOf(W, "a") = Rev(ns)
     /\ \A i \in 1..Len(ns) : W.nd[ns[i]].v # RAW
     /\ \A i \in 1..Len(fs) : W.nd[fs[i]].v = RAW
     /\ Len(ns) + Len(fs) + (IF W.a.head = 0 THEN 0 ELSE 1) = Len(W.nd)             \* nothing leaked, nothing shared
=============================================================================
