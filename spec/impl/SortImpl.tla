------------------------------ MODULE SortImpl ------------------------------
(* Transcription of how Xalan sorts for xsl:sort (src/xalanc/XSLT/NodeSorter.cpp):                    *)
(*   NodeSorter::sort copies the node list into a vector of (node, original position) entries and      *)
(*   hands it to std::stable_sort with NodeSortKeyCompare as "less";                                   *)
(*   NodeSortKeyCompare::compare(lhs, rhs, k): keys are compared one after the other, number keys with *)
(*   NaN first, a non-zero result is negated for a descending key, equal keys go on to the next key;   *)
(*   getNumberResult / getStringResult evaluate a key for an entry at most once per sort: the value is *)
(*   kept in a per-key cache indexed by the entry's ORIGINAL position, where one number               *)
(*   (135792468) and the empty string mean "not evaluated yet".                                         *)
(* The key values are abstract: val[k][p] is what key k evaluates to for the node at original          *)
(* position p (evaluated in the unsorted list's context - XPathSem / Sort.tla say what that is).       *)
(* Numbers are small integers, NaN is the integer -1000 (never a value otherwise), the dummy number  *)
(* is 1000 (a legitimate key value that the cache cannot tell from an empty slot); strings are        *)
(* sequences of code points.                                                                           *)
EXTENDS Naturals, Integers, Sequences, FiniteSets, SequencesExt

NaNv == -1000
Dummy == 1000                  \* the key value 135792468: a number like any other when it is compared

(* keys: sequence of [num : BOOLEAN, desc : BOOLEAN]; val[k][p] *)
NumOf(x) == x

(* ---- the caches: cache[k][p] = the stored value or the "empty slot" marker ---------------------- *)
EmptySlot(keys, k) == IF keys[k].num THEN Dummy ELSE <<>>
NewCache(keys, n) == [k \in 1..Len(keys) |-> <<>>]                 \* theCache.resize(nKeys): no per-key vector yet

(* getNumberResult / getStringResult: returns [v, cache, evals (set of <<k, p>> evaluated now)] *)
GetResult(keys, val, cache, n, k, p) ==
  IF cache[k] = <<>>                                                \* first use of key k: size the vector, fill it with the marker
  THEN LET c1 == [cache EXCEPT ![k] = [q \in 1..n |-> IF q = p THEN val[k][p] ELSE EmptySlot(keys, k)]] IN
       [v |-> val[k][p], cache |-> c1, evals |-> {<<k, p>>}]
  ELSE IF cache[k][p] = EmptySlot(keys, k)                          \* not evaluated (or evaluated to the marker value)
  THEN [v |-> val[k][p], cache |-> [cache EXCEPT ![k][p] = val[k][p]], evals |-> {<<k, p>>}]
  ELSE [v |-> cache[k][p], cache |-> cache, evals |-> {}]

(* code-point order on strings (the generators keep text keys where every collation agrees) *)
RECURSIVE StrLt(_, _, _)
StrLt(a, b, i) == IF i > Len(b) THEN FALSE ELSE IF i > Len(a) THEN TRUE ELSE IF a[i] # b[i] THEN a[i] < b[i] ELSE StrLt(a, b, i + 1)

(* compare(lhs, rhs, k) -> [r \in {-1, 0, 1}, cache, evals]; lhs / rhs are original positions *)
RECURSIVE Compare(_, _, _, _, _, _, _)
Compare(keys, val, cache, n, l, r, k) ==
  LET g1 == GetResult(keys, val, cache, n, k, l)
      g2 == GetResult(keys, val, g1.cache, n, k, r)
      raw == IF keys[k].num
             THEN IF g1.v = NaNv THEN (IF g2.v = NaNv THEN 0 ELSE -1)
                  ELSE IF g2.v = NaNv THEN 1
                  ELSE IF NumOf(g1.v) < NumOf(g2.v) THEN -1 ELSE IF NumOf(g1.v) > NumOf(g2.v) THEN 1 ELSE 0
             ELSE IF g1.v = g2.v THEN 0 ELSE IF StrLt(g1.v, g2.v, 1) THEN -1 ELSE 1
      ev == g1.evals \cup g2.evals
  IN IF raw # 0 THEN [r |-> IF keys[k].desc THEN 0 - raw ELSE raw, cache |-> g2.cache, evals |-> ev]
     ELSE IF k + 1 <= Len(keys)
     THEN LET nx == Compare(keys, val, g2.cache, n, l, r, k + 1) IN [nx EXCEPT !.evals = @ \cup ev]
     ELSE [r |-> 0, cache |-> g2.cache, evals |-> ev]

(* ---- a stable sort driven by "less" (insertion from the left: an entry moves in front of the entries it is less than) ---- *)
(* state of the run: [order (original positions, sorted prefix first), cache, count (evaluations per <<k, p>>)]              *)
RECURSIVE InsertEntry(_, _, _, _, _, _)
(* walk left from position j while entry x is less than the entry before it *)
InsertEntry(keys, val, n, st, x, j) ==
  IF j = 0 THEN [st EXCEPT !.order = <<x>> \o st.order]
  ELSE LET c == Compare(keys, val, st.cache, n, x, st.order[j], 1)
           st1 == [st EXCEPT !.cache = c.cache, !.count = [kp \in DOMAIN st.count |-> st.count[kp] + (IF kp \in c.evals THEN 1 ELSE 0)]] IN
       IF c.r < 0 THEN LET rest == InsertEntry(keys, val, n, [st1 EXCEPT !.order = SubSeq(st1.order, 1, j - 1)], x, j - 1) IN
                       [rest EXCEPT !.order = rest.order \o SubSeq(st1.order, j, Len(st1.order))]
       ELSE [st1 EXCEPT !.order = SubSeq(st1.order, 1, j) \o <<x>> \o SubSeq(st1.order, j + 1, Len(st1.order))]
RECURSIVE SortFrom(_, _, _, _, _)
SortFrom(keys, val, n, st, p) == IF p > n THEN st ELSE SortFrom(keys, val, n, InsertEntry(keys, val, n, st, p, Len(st.order)), p + 1)
Run(keys, val, n) == SortFrom(keys, val, n, [order |-> <<>>, cache |-> NewCache(keys, n),
                                              count |-> [kp \in (1..Len(keys)) \X (1..n) |-> 0]], 1)

(* ---- the definition (XSLT 10): lexicographic by the keys, NaN first, descending per key, ties in document order ---------- *)
Cmp1(key, x, y) == LET raw == IF key.num
                              THEN IF x = NaNv THEN (IF y = NaNv THEN 0 ELSE -1) ELSE IF y = NaNv THEN 1
                                   ELSE IF NumOf(x) < NumOf(y) THEN -1 ELSE IF NumOf(x) > NumOf(y) THEN 1 ELSE 0
                              ELSE IF x = y THEN 0 ELSE IF StrLt(x, y, 1) THEN -1 ELSE 1 IN
                   IF key.desc THEN 0 - raw ELSE raw
RECURSIVE DefLess(_, _, _, _, _)
DefLess(keys, val, i, j, k) == IF k > Len(keys) THEN i < j
                               ELSE LET c == Cmp1(keys[k], val[k][i], val[k][j]) IN
                                    IF c < 0 THEN TRUE ELSE IF c > 0 THEN FALSE ELSE DefLess(keys, val, i, j, k + 1)
DefOrder(keys, val, n) == SetToSortSeq(1..n, LAMBDA i, j : DefLess(keys, val, i, j, 1))
=============================================================================
