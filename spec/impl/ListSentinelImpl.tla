-------------------------- MODULE ListSentinelImpl --------------------------
(* Implementation-shaped model of the XalanList lazy-sentinel pattern (Include/XalanList.hpp)     *)
(* inside one library call, composed with the memory-manager contract MemMgr.                       *)
(*                                                                                                 *)
(* XalanList(manager) allocates nothing; its head node (the sentinel) is created by getListHead()   *)
(* on the FIRST begin()/end() - also a const one, also one made by clear(), empty(), size() - and    *)
(* ~XalanList releases nodes and head only `if (m_listHead != 0)`.  Objects that OWN a list and      *)
(* walk it when they are cleaned up (XalanMap::~XalanMap / clear(), ArenaAllocator::reset() and      *)
(* ~ArenaAllocator via m_blocks, XalanNamespacesStack::clear(), XalanDOMStringCache::clear(), ...)   *)
(* therefore issue an allocation request from a destructor if the list was never used.  A            *)
(* destructor is noexcept: if that request is the one the manager refuses, the exception cannot      *)
(* leave it and std::terminate is called.                                                            *)
(*                                                                                                 *)
(* The call under study: a scope owning the objects Objs; the body may use them (push_back,          *)
(* iterate); any refused request throws; at scope exit or during unwinding every object is cleaned   *)
(* up; then the call returns "ok" or "exception".                                                    *)
(*   Lazy = TRUE  : the list as written.   Lazy = FALSE : a list whose begin()/end() answer          *)
(*   begin()==end() for a head-less list without allocating (the root-cause repair).                 *)
EXTENDS MemMgr, TLC

CONSTANTS Objs,        \* the objects of the scope
          Walks,       \* [Objs -> BOOLEAN]: does the object's clean-up walk its list (begin()..end())?
          Lazy,        \* BOOLEAN
          B            \* block addresses

VARIABLES mm,          \* the MemMgr state record
          head,        \* [Objs -> B \cup {0}]   m_listHead
          nodes,       \* [Objs -> SUBSET B]      the element nodes
          pc,          \* "idle" | "body" | "unwind" | "cleanup" | "returned"
          gone,        \* objects whose clean-up has completed
          dead         \* "" or the reason std::terminate was called

ivars == <<mm, head, nodes, pc, gone, dead>>
Cleaning == pc \in {"unwind", "cleanup"}

IInit(failAt) ==
  /\ mm = [Start(failAt, TRUE) EXCEPT !.tr = "alive"]       \* a live transformer, process data elsewhere
  /\ head = [o \in Objs |-> 0] /\ nodes = [o \in Objs |-> {}]
  /\ pc = "idle" /\ gone = {} /\ dead = ""

Enter == /\ pc = "idle" /\ dead = "" /\ Call_Enabled(mm, "use")
         /\ mm' = Call_Do(mm, "use") /\ pc' = "body"
         /\ UNCHANGED <<head, nodes, gone, dead>>

(* getListHead(): `if (0 == m_listHead) m_listHead = allocate(1)` - granted or refused *)
HeadGranted(o, b) == /\ head[o] = 0 /\ Alloc_Enabled(mm, b)
                     /\ mm' = Alloc_Do(mm, b) /\ head' = [head EXCEPT ![o] = b]
HeadRefused(o) == head[o] = 0 /\ Fail_Enabled(mm, mm.nreq + 1) /\ mm' = Fail_Do(mm)

(* ---- the body ------------------------------------------------------------------------------ *)
(* begin()/end()/empty()/find on a possibly never-used list *)
Iterate(o) == /\ pc = "body" /\ dead = "" /\ Lazy /\ head[o] = 0
              /\ \/ \E b \in B : HeadGranted(o, b) /\ UNCHANGED <<nodes, pc, gone, dead>>
                 \/ HeadRefused(o) /\ pc' = "unwind" /\ UNCHANGED <<head, nodes, gone, dead>>
(* push_back(): constructNode(data, end()) - end() creates the head first, then the node *)
PushHead(o) == /\ pc = "body" /\ dead = "" /\ head[o] = 0
               /\ \/ \E b \in B : HeadGranted(o, b) /\ UNCHANGED <<nodes, pc, gone, dead>>
                  \/ HeadRefused(o) /\ pc' = "unwind" /\ UNCHANGED <<head, nodes, gone, dead>>
PushNode(o) == /\ pc = "body" /\ dead = "" /\ head[o] # 0
               /\ \/ \E b \in B : /\ Alloc_Enabled(mm, b) /\ mm' = Alloc_Do(mm, b)
                                  /\ nodes' = [nodes EXCEPT ![o] = @ \cup {b}]
                                  /\ UNCHANGED <<head, pc, gone, dead>>
                  \/ /\ Fail_Enabled(mm, mm.nreq + 1) /\ mm' = Fail_Do(mm) /\ pc' = "unwind"
                     /\ UNCHANGED <<head, nodes, gone, dead>>
EndBody == pc = "body" /\ dead = "" /\ pc' = "cleanup" /\ UNCHANGED <<mm, head, nodes, gone, dead>>

(* ---- clean-up (destructors: noexcept) ------------------------------------------------------- *)
(* the known deviation: the clean-up of o is about to issue an allocation request *)
KD_cleanupAllocates(o) == Cleaning /\ o \notin gone /\ Walks[o] /\ Lazy /\ head[o] = 0
KnownDeviation == \E o \in Objs : KD_cleanupAllocates(o)

(* owner's clean-up walks the list: `pos = begin(); while (pos != end())` *)
WalkGranted(o) == /\ dead = "" /\ KD_cleanupAllocates(o)
                  /\ \E b \in B : HeadGranted(o, b)
                  /\ UNCHANGED <<nodes, pc, gone, dead>>
WalkRefused(o) == /\ dead = "" /\ KD_cleanupAllocates(o)
                  /\ HeadRefused(o)                        \* OutOfMemoryException inside a noexcept function
                  /\ dead' = "allocation refused inside clean-up"
                  /\ UNCHANGED <<head, nodes, pc, gone>>
(* ~XalanList: `if (m_listHead != 0) { destroy nodes; deallocate(m_listHead); }` *)
FreeNode(o) == /\ dead = "" /\ Cleaning /\ o \notin gone /\ ~KD_cleanupAllocates(o)
               /\ \E b \in nodes[o] : /\ Free_Enabled(mm, b) /\ mm' = Free_Do(mm, b)
                                      /\ nodes' = [nodes EXCEPT ![o] = @ \ {b}]
               /\ UNCHANGED <<head, pc, gone, dead>>
FreeHead(o) == /\ dead = "" /\ Cleaning /\ o \notin gone /\ ~KD_cleanupAllocates(o)
               /\ nodes[o] = {} /\ head[o] # 0
               /\ Free_Enabled(mm, head[o]) /\ mm' = Free_Do(mm, head[o])
               /\ head' = [head EXCEPT ![o] = 0] /\ gone' = gone \cup {o}
               /\ UNCHANGED <<nodes, pc, dead>>
Nothing(o) == /\ dead = "" /\ Cleaning /\ o \notin gone /\ ~KD_cleanupAllocates(o)
              /\ nodes[o] = {} /\ head[o] = 0
              /\ gone' = gone \cup {o} /\ UNCHANGED <<mm, head, nodes, pc, dead>>
Return == /\ dead = "" /\ Cleaning /\ gone = Objs
          /\ LET status == IF pc = "unwind" THEN "exception" ELSE "ok" IN
               Return_Enabled(mm, status) /\ mm' = Return_Do(mm, status)
          /\ pc' = "returned" /\ UNCHANGED <<head, nodes, gone, dead>>

INext == \/ Enter \/ EndBody \/ Return
         \/ \E o \in Objs : \/ Iterate(o) \/ PushHead(o) \/ PushNode(o)
                            \/ WalkGranted(o) \/ WalkRefused(o)
                            \/ FreeNode(o) \/ FreeHead(o) \/ Nothing(o)
=============================================================================
