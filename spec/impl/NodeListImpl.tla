---------------------------- MODULE NodeListImpl ----------------------------
(* Implementation-shaped model of xalanc::MutableNodeRefList (XPath/MutableNodeRefList.cpp):   *)
(* addNode, addNodeInDocOrder with its three search strategies, addNodesInDocOrder with the    *)
(* order-flag fast paths, clear, reverse and the caller-set order flag.                         *)
(* Iterators are transcribed as 1-based positions; `end` is Len(list)+1.                        *)
EXTENDS NodeList, Integers

CONSTANT Indexed      \* [document -> BOOLEAN]: does the document carry node indexes

IsRoot(n)   == Idx(n) = 1                 \* the document node is node 1 of its document
RawOwner(n) == IF IsRoot(n) THEN 0 ELSE Doc(n)     \* DOM: getOwnerDocument() of a document is null
NormOwner(n) == Doc(n)                    \* "normalize so that a document node owns itself"
NodeIndexed(n) == Indexed[Doc(n)]

(* struct DocumentPredicate: "always order a document node, or a node from another document,   *)
(* after another node"                                                                          *)
DocPred(n1, n2) == IF IsRoot(n1) /\ IsRoot(n2) THEN TRUE ELSE RawOwner(n1) # RawOwner(n2)
(* struct IndexPredicate / ExecutionContextPredicate; DOMServices::isNodeAfter is modelled by   *)
(* the index comparison (DomOrder.tla shows the structural walk computes the same relation)     *)
AfterPred(n1, n2) == IF DocPred(n1, n2) THEN TRUE ELSE Idx(n1) > Idx(n2)

(* findInsertionPointLinearSearch: [ins |-> insert?, at |-> insertion position] *)
RECURSIVE Linear(_, _, _)
Linear(list, n, cur) ==
  IF cur > Len(list) THEN [ins |-> TRUE, at |-> cur]
  ELSE IF list[cur] = n THEN [ins |-> FALSE, at |-> cur]
  ELSE IF ~AfterPred(n, list[cur]) THEN [ins |-> TRUE, at |-> cur]
  ELSE Linear(list, n, cur + 1)

(* the while loop of findInsertionPointBinarySearch; state = first, last, current, curIdx, ins *)
RECURSIVE BinLoop(_, _, _, _, _, _)
BinLoop(list, theIndex, first, last, current, curIdx) ==
  IF ~(first <= last) THEN [first |-> first, current |-> current, curIdx |-> curIdx, ins |-> TRUE]
  ELSE LET c  == first + ((last - first) \div 2)
           ci == Idx(list[c]) IN
       IF theIndex < ci
       THEN IF c = 1 THEN [first |-> first, current |-> c, curIdx |-> ci, ins |-> TRUE]
            ELSE BinLoop(list, theIndex, first, c - 1, c, ci)
       ELSE IF theIndex > ci THEN BinLoop(list, theIndex, c + 1, last, c, ci)
       ELSE [first |-> first, current |-> c, curIdx |-> ci, ins |-> FALSE]

Binary(list, n) ==
  LET theIndex == Idx(n)
      end == Len(list) + 1 IN
  IF Idx(list[Len(list)]) < theIndex THEN [ins |-> TRUE, at |-> end]
  ELSE LET r == BinLoop(list, theIndex, 1, Len(list), end, 0) IN
       IF theIndex # r.curIdx
       THEN IF r.current = end \/ r.first = end THEN [ins |-> r.ins, at |-> end]
            ELSE IF r.curIdx < theIndex THEN [ins |-> r.ins, at |-> r.current + 1]
            ELSE [ins |-> r.ins, at |-> r.current]
       ELSE [ins |-> r.ins, at |-> r.current]

InsAt(list, pos, n) == SubSeq(list, 1, pos - 1) \o <<n>> \o SubSeq(list, pos, Len(list))

Strategy(list, n) ==
  IF NodeIndexed(n) /\ RawOwner(n) = NormOwner(list[1])
  THEN IF NormOwner(list[1]) = NormOwner(list[Len(list)]) THEN "binary" ELSE "linearIndex"
  ELSE "linearStructural"

AddNodeInDocOrder(list, n) ==
  IF Len(list) = 0 THEN <<n>>
  ELSE IF list[Len(list)] = n THEN list
  ELSE LET r == IF Strategy(list, n) = "binary" THEN Binary(list, n) ELSE Linear(list, n, 1) IN
       IF r.ins THEN InsAt(list, r.at, n) ELSE list

RECURSIVE AddEach(_, _, _)
AddEach(list, src, i) == IF i > Len(src) THEN list
                         ELSE AddEach(AddNodeInDocOrder(list, src[i]), src, i + 1)

AddNodesInDocOrder(list, src, sflag) ==
  IF sflag = "unknown" THEN AddEach(list, src, 1)
  ELSE IF sflag = "doc" THEN (IF Len(list) = 0 THEN src ELSE AddEach(list, src, 1))
  ELSE (IF Len(list) = 0 THEN Reverse(src) ELSE AddEach(list, Reverse(src), 1))

(* ---- deviations of the algorithm itself from the abstract contract (known findings) ------- *)
(* KD_rootAfter: a document node added to a list that already holds nodes of its document is    *)
(* not recognised as belonging to it (its owner is null) and is ordered after them.             *)
KD_rootAfter(list, n) == IsRoot(n) /\ n \notin Range(list) /\ \E i \in 1..Len(list) : Doc(list[i]) = Doc(n)
(* KD_interleave: a node whose document is not the last group of a multi-document list and that *)
(* follows all listed nodes of its document is appended at the very end.                        *)
KD_interleave(list, n) ==
  /\ n \notin Range(list)
  /\ \E i \in 1..Len(list) : Doc(list[i]) = Doc(n)
  /\ Doc(list[Len(list)]) # Doc(n)
  /\ \A i \in 1..Len(list) : Doc(list[i]) = Doc(n) => Idx(list[i]) < Idx(n)
KnownDeviation(list, n) == KD_rootAfter(list, n) \/ KD_interleave(list, n)

(* does iterating src into list hit a deviating insertion (or continue from one)? *)
RECURSIVE EachDeviates(_, _, _)
EachDeviates(list, src, i) ==
  IF i > Len(src) THEN FALSE
  ELSE \/ (Len(list) > 0 /\ KnownDeviation(list, src[i]))
       \/ EachDeviates(AddNodeInDocOrder(list, src[i]), src, i + 1)
BulkDeviates(list, src, sflag) ==
  IF Len(list) = 0 /\ sflag # "unknown" THEN FALSE
  ELSE EachDeviates(list, IF sflag = "rev" THEN Reverse(src) ELSE src, 1)
=============================================================================
