---------------------------- MODULE NodeListImpl ----------------------------
(* Implementation-shaped model of xalanc::MutableNodeRefList (XPath/MutableNodeRefList.cpp):   *)
(* addNode, addNodeInDocOrder with its three search strategies, addNodesInDocOrder with the    *)
(* order-flag fast paths, clear, reverse and the caller-set order flag.                         *)
(* Iterators are transcribed as 1-based positions; `end` is Len(list)+1.                        *)
EXTENDS NodeList, Integers

CONSTANT Indexed      \* [document -> BOOLEAN]: does the document carry node indexes

IsRoot(n)   == Idx(n) = 1                 \* the document node is node 1 of its document
(* getNormalizedOwner: "normalize so that a document node owns itself" (DOM's owner of a document is null) *)
NormOwner(n) == Doc(n)
NodeIndexed(n) == Indexed[Doc(n)]

(* struct DocumentPredicate: "always order a node from another document after another node"      *)
DocPred(n1, n2) == NormOwner(n1) # NormOwner(n2)
(* struct IndexPredicate *)
IndexPred(n1, n2) == IF DocPred(n1, n2) THEN TRUE ELSE Idx(n1) > Idx(n2)
(* struct ExecutionContextPredicate: a document node precedes the nodes it owns; otherwise         *)
(* DOMSupport::isNodeAfter, modelled by the index comparison                                       *)
CtxPred(n1, n2) == IF DocPred(n1, n2) THEN TRUE
                   ELSE IF IsRoot(n1) THEN FALSE
                   ELSE IF IsRoot(n2) THEN TRUE
                   ELSE Idx(n1) > Idx(n2)
AfterPred(mode, n1, n2) == IF mode = "linearIndex" THEN IndexPred(n1, n2) ELSE CtxPred(n1, n2)

(* findInsertionPointLinearSearch: [ins |-> insert?, at |-> insertion position]; the nodes of     *)
(* one document stay together: once the node's own document has been seen, the first node of      *)
(* another document ends the search                                                                *)
RECURSIVE Linear(_, _, _, _, _)
Linear(list, n, cur, mode, seen) ==
  IF cur > Len(list) THEN [ins |-> TRUE, at |-> cur]
  ELSE IF list[cur] = n THEN [ins |-> FALSE, at |-> cur]
  ELSE IF NormOwner(list[cur]) # NormOwner(n)
       THEN (IF seen THEN [ins |-> TRUE, at |-> cur] ELSE Linear(list, n, cur + 1, mode, FALSE))
  ELSE IF ~AfterPred(mode, n, list[cur]) THEN [ins |-> TRUE, at |-> cur]
  ELSE Linear(list, n, cur + 1, mode, TRUE)

(* the while loop of findInsertionPointBinarySearch; state = first, last, current, curIdx, ins *)
RECURSIVE BinLoop(_, _, _, _, _, _)
BinLoop(list, theIndex, first, last, current, curIdx) ==
  IF ~(first <= last) THEN [first |-> first, current |-> current, curIdx |-> curIdx, ins |-> TRUE]
  ELSE LET c  == first + ((last - first) \div 2)
           ci == Idx(list[c]) IN
       IF theIndex < ci
       THEN IF c = 1 THEN [first |-> first, current |-> c, curIdx |-> ci, ins |-> TRUE]
            ELSE BinLoop(list, theIndex, first, c - 1, c, ci)
       ELSE IF theIndex > ci THEN BinLoop(list, theIndex, c + 1, last, c, ci)
       ELSE [first |-> first, current |-> c, curIdx |-> ci, ins |-> FALSE]

Binary(list, n) ==
  LET theIndex == Idx(n)
      end == Len(list) + 1 IN
  IF Idx(list[Len(list)]) < theIndex THEN [ins |-> TRUE, at |-> end]
  ELSE LET r == BinLoop(list, theIndex, 1, Len(list), end, 0) IN
       IF theIndex # r.curIdx
       THEN IF r.current = end \/ r.first = end THEN [ins |-> r.ins, at |-> end]
            ELSE IF r.curIdx < theIndex THEN [ins |-> r.ins, at |-> r.current + 1]
            ELSE [ins |-> r.ins, at |-> r.current]
       ELSE [ins |-> r.ins, at |-> r.current]

InsAt(list, pos, n) == SubSeq(list, 1, pos - 1) \o <<n>> \o SubSeq(list, pos, Len(list))

Strategy(list, n) ==
  IF NodeIndexed(n) /\ NormOwner(n) = NormOwner(list[1])
  THEN IF NormOwner(list[1]) = NormOwner(list[Len(list)]) THEN "binary" ELSE "linearIndex"
  ELSE "linearStructural"

AddNodeInDocOrder(list, n) ==
  IF Len(list) = 0 THEN <<n>>
  ELSE IF list[Len(list)] = n THEN list
  ELSE LET r == IF Strategy(list, n) = "binary" THEN Binary(list, n) ELSE Linear(list, n, 1, Strategy(list, n), FALSE) IN
       IF r.ins THEN InsAt(list, r.at, n) ELSE list

RECURSIVE AddEach(_, _, _)
AddEach(list, src, i) == IF i > Len(src) THEN list
                         ELSE AddEach(AddNodeInDocOrder(list, src[i]), src, i + 1)

AddNodesInDocOrder(list, src, sflag) ==
  IF sflag = "unknown" THEN AddEach(list, src, 1)
  ELSE IF sflag = "doc" THEN (IF Len(list) = 0 THEN src ELSE AddEach(list, src, 1))
  ELSE (IF Len(list) = 0 THEN Reverse(src) ELSE AddEach(list, Reverse(src), 1))

(* ---- deviations of the algorithm itself from the abstract contract --------------------------- *)
(* None are known for the current tree.  (Two were found with this model and repaired in /repo:    *)
(* a document node ordered after the nodes of its document, and interleaving of two documents -    *)
(* known_findings.jsonl, C12 rootAfter / interleave, status fixed.)                                *)
KnownDeviation(list, n) == FALSE

(* does iterating src into list hit a deviating insertion (or continue from one)? *)
RECURSIVE EachDeviates(_, _, _)
EachDeviates(list, src, i) ==
  IF i > Len(src) THEN FALSE
  ELSE \/ (Len(list) > 0 /\ KnownDeviation(list, src[i]))
       \/ EachDeviates(AddNodeInDocOrder(list, src[i]), src, i + 1)
BulkDeviates(list, src, sflag) ==
  IF Len(list) = 0 /\ sflag # "unknown" THEN FALSE
  ELSE EachDeviates(list, IF sflag = "rev" THEN Reverse(src) ELSE src, 1)
=============================================================================
