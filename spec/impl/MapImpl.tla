------------------------------ MODULE MapImpl ------------------------------
(* Implementation-shaped model of XalanMap (src/xalanc/Include/XalanMap.hpp), transcribed member  *)
(* by member.  A map instance is                                                                  *)
(*    ent   m_entries      list of live entry nodes, in list order (= iteration order)            *)
(*    fre   m_freeEntries  list of erased entry nodes (recycled LIFO: back())                     *)
(*    bkt   m_buckets      vector of buckets; a bucket is a vector of REFERENCES to list nodes -   *)
(*                         also stale ones: erase leaves the reference in the bucket (the node is  *)
(*                         only flagged `erased`), and a recycled node is still referenced by the  *)
(*                         bucket of its former key until the next compaction or rehash            *)
(*    size  m_size, ec m_eraseCount, thr m_eraseThreshold                                          *)
(* Nodes live in one pool `nd` (id -> [k, v, e]); k/v of an erased node are destroyed objects      *)
(* (written -1 here; the code never reads them: find tests `erased` first).                        *)
(* A world is [nd, inst, tags]: the pool, the sequence of instances (1, 2 = the user's two maps,   *)
(* 3 = a temporary during operator= / copy construction) and the set of interesting branches the   *)
(* current operation took (rehash, reuse of a freed node, compaction, ...) for coverage counting.  *)
(* Not modelled: bucket capacities (compactBuckets' shrinking is invisible), the memory manager.   *)
EXTENDS Containers

CONSTANTS LFNum, LFDen,        \* m_loadFactor = LFNum / LFDen (dyadic, so the double product is exact)
          MinBuckets,          \* m_minBuckets
          EraseThreshold,      \* m_eraseThreshold
          HashMod              \* m_hash(key) = key % HashMod (KeyTraits::Hasher of the harness)

Hash(k) == k % HashMod
BIdx(k, n) == (Hash(k) % n) + 1                      \* doHash(key, modulus), 1-based

NewInst == [ent |-> <<>>, fre |-> <<>>, bkt |-> <<>>, size |-> 0, ec |-> 0, thr |-> EraseThreshold]
NewWorld == [nd |-> <<>>, inst |-> <<NewInst, NewInst>>, tags |-> {}]

Tag(w, t) == [w EXCEPT !.tags = @ \cup {t}]
SetI(w, i, I) == [w EXCEPT !.inst[i] = I]
RemoveId(s, n) == SelectSeq(s, LAMBDA x : x # n)

(* ---- find(): first reference in the key's bucket that is not erased and has an equal key; 0 = end() *)
Find(w, i, k) ==
  LET I == w.inst[i] IN
  IF I.size = 0 THEN 0
  ELSE LET b == I.bkt[BIdx(k, Len(I.bkt))]
           hits == {j \in 1..Len(b) : ~w.nd[b[j]].e /\ w.nd[b[j]].k = k}
       IN IF hits = {} THEN 0 ELSE b[CHOOSE j \in hits : \A h \in hits : j <= h]

(* ---- rehash(): size_type(1.6 * size()) new buckets, filled from the entry list in list order *)
Rehash(w, i) ==
  LET I == w.inst[i]
      n == (16 * I.size) \div 10
      nb == [b \in 1..n |-> SelectSeq(I.ent, LAMBDA x : BIdx(w.nd[x].k, n) = b)]
  IN Tag(SetI(w, i, [I EXCEPT !.bkt = nb]), "rehash")

(* ---- doCreateEntry(key, data) *)
CreateEntry(w0, i, k, v) ==
  LET w1 == IF Len(w0.inst[i].bkt) = 0                                        \* no buckets yet: create m_minBuckets
            THEN SetI(w0, i, [w0.inst[i] EXCEPT !.bkt = [b \in 1..MinBuckets |-> <<>>]])
            ELSE w0
      w2 == IF (LFNum * w1.inst[i].size) \div LFDen > Len(w1.inst[i].bkt)     \* size_type(m_loadFactor * size()) > m_buckets.size()
            THEN Rehash(w1, i) ELSE w1
      I2 == w2.inst[i]
      idx == BIdx(k, Len(I2.bkt))
      fresh == I2.fre = <<>>
      w3 == IF fresh                                                          \* m_freeEntries.push_back(Entry(allocate(1)))
            THEN [w2 EXCEPT !.nd = Append(@, [k |-> -1, v |-> -1, e |-> FALSE]), !.inst[i].fre = <<Len(w2.nd) + 1>>]
            ELSE Tag(w2, "reuse")
      I3 == w3.inst[i]
      node == I3.fre[Len(I3.fre)]                                             \* m_freeEntries.back()
      stale == \E b \in 1..Len(I3.bkt) : \E j \in 1..Len(I3.bkt[b]) : I3.bkt[b][j] = node
      w4 == [w3 EXCEPT !.nd[node] = [k |-> k, v |-> v, e |-> FALSE],
                       !.inst[i].ent = Append(@, node),                       \* splice to m_entries.end()
                       !.inst[i].fre = SubSeq(@, 1, Len(@) - 1),
                       !.inst[i].bkt[idx] = Append(@, node),
                       !.inst[i].size = @ + 1]
  IN [w |-> IF stale THEN Tag(w4, "staleRef") ELSE w4, node |-> node]

(* ---- doRemoveEntry(pos): destroy the pair, splice the node to the free list, flag it *)
RemoveEntry(w, i, node) ==
  [w EXCEPT !.nd[node] = [k |-> -1, v |-> -1, e |-> TRUE],
            !.inst[i].ent = RemoveId(@, node),
            !.inst[i].fre = Append(@, node),
            !.inst[i].size = @ - 1]

(* ---- doRemoveEntries(): while (size() > 0) doRemoveEntry(begin()) *)
RECURSIVE RemoveEntries(_, _)
RemoveEntries(w, i) ==
  IF w.inst[i].size > 0 THEN RemoveEntries(RemoveEntry(w, i, w.inst[i].ent[1]), i) ELSE w

(* ---- compactBuckets(): drop the references to erased nodes *)
Compact(w, i) ==
  Tag([w EXCEPT !.inst[i].bkt = [b \in 1..Len(@) |-> SelectSeq(@[b], LAMBDA x : ~w.nd[x].e)]], "compact")

(* ---- doErase(pos) *)
DoErase(w, i, node) ==
  LET w1 == [RemoveEntry(w, i, node) EXCEPT !.inst[i].ec = @ + 1]
  IN IF w1.inst[i].ec = w1.inst[i].thr
     THEN [Compact(w1, i) EXCEPT !.inst[i].ec = 0]
     ELSE w1

(* ---- the public members; each returns [w, res] *)
WR(w, res) == [w |-> w, res |-> res]

Insert(w, i, k, v) ==                                                         \* insert(key, data)
  IF Find(w, i, k) = 0 THEN WR(CreateEntry(w, i, k, v).w, 0) ELSE WR(Tag(w, "insertExisting"), 0)

Index(w, i, k) ==                                                             \* operator[](key)
  LET pos == Find(w, i, k) IN
  IF pos = 0 THEN LET c == CreateEntry(w, i, k, MapDefault) IN WR(c.w, c.w.nd[c.node].v)
  ELSE WR(w, w.nd[pos].v)

Put(w, i, k, v) ==                                                            \* operator[](key) = v
  LET pos == Find(w, i, k)
      c == IF pos = 0 THEN CreateEntry(w, i, k, MapDefault) ELSE [w |-> w, node |-> pos]
  IN WR([c.w EXCEPT !.nd[c.node].v = v], v)

EraseKey(w, i, k) ==                                                          \* erase(key)
  LET pos == Find(w, i, k) IN
  IF pos # 0 THEN WR(DoErase(w, i, pos), 1) ELSE WR(Tag(w, "eraseAbsent"), 0)

EraseIt(w, i, k) ==                                                           \* erase(find(key)); erase(end()) is a no-op
  LET pos == Find(w, i, k) IN
  IF pos # 0 THEN WR(DoErase(w, i, pos), 0) ELSE WR(w, 0)

FindOp(w, i, k) == LET pos == Find(w, i, k) IN WR(w, IF pos = 0 THEN NoValue ELSE w.nd[pos].v)

Clear(w, i) ==
  LET w1 == RemoveEntries(w, i)
  IN WR([w1 EXCEPT !.inst[i].bkt = [b \in 1..Len(@) |-> <<>>], !.inst[i].ec = 0], 0)

SwapInst(w, i, j) ==                                                          \* swap(): everything but loadFactor / minBuckets
  [w EXCEPT !.inst[i] = w.inst[j], !.inst[j] = w.inst[i]]

(* copy constructor XalanMap(theRhs, mm): size_type(m_loadFactor * theRhs.size()) + 1 empty buckets, *)
(* then insert() of every entry of theRhs in iteration order.  The copy becomes instance 3.   *)
RECURSIVE InsertAll(_, _, _, _)
InsertAll(w, i, srcEnt, p) ==
  IF p > Len(srcEnt) THEN w
  ELSE InsertAll(Insert(w, i, w.nd[srcEnt[p]].k, w.nd[srcEnt[p]].v).w, i, srcEnt, p + 1)

CopyConstruct(w, j) ==
  LET J == w.inst[j]
      T == [NewInst EXCEPT !.bkt = [b \in 1..((LFNum * J.size) \div LFDen) + 1 |-> <<>>], !.thr = J.thr]
      w1 == [w EXCEPT !.inst = SubSeq(@, 1, 2) \o <<T>>]
  IN InsertAll(w1, 3, J.ent, 1)

(* destructor of the temporary (instance 3): its nodes are deallocated; then ids are renamed so     *)
(* that equal structures are equal states: ids in the order ent1, fre1, ent2, fre2                  *)
Canon(w) ==
  LET I == w.inst
      order == I[1].ent \o I[1].fre \o I[2].ent \o I[2].fre
      ren == [o \in Range(order) |-> CHOOSE n \in 1..Len(order) : order[n] = o]
      RS(s) == [x \in 1..Len(s) |-> ren[s[x]]]
      RI(X) == [X EXCEPT !.ent = RS(@), !.fre = RS(@), !.bkt = [b \in 1..Len(@) |-> RS(@[b])]]
  IN [nd |-> [n \in 1..Len(order) |-> w.nd[order[n]]], inst |-> <<RI(I[1]), RI(I[2])>>, tags |-> w.tags]

Assign(w, i, j) ==                                                            \* operator=: XalanMap theTemp(theRhs, mm); swap(theTemp);
  WR(Canon(SwapInst(CopyConstruct(w, j), i, 3)), 0)

(* ---- what a user sees of instance i *)
Items(w, i) == [p \in 1..Len(w.inst[i].ent) |-> <<w.nd[w.inst[i].ent[p]].k, w.nd[w.inst[i].ent[p]].v>>]
AbsMap(w, i) == Range(Items(w, i))
Lookup(w, i, k) == LET pos == Find(w, i, k) IN IF pos = 0 THEN NoValue ELSE w.nd[pos].v

(* ---- dispatcher with the same op vocabulary as Containers!MapApply *)
ImplApply0(w0, op) ==
  LET w == [w0 EXCEPT !.tags = {}]
      i == op.w
      o == 3 - i
  IN CASE op.op = "insert"     -> Insert(w, i, op.k, op.v)
       [] op.op = "index"      -> Index(w, i, op.k)
       [] op.op = "put"        -> Put(w, i, op.k, op.v)
       [] op.op = "erase"      -> EraseKey(w, i, op.k)
       [] op.op = "eraseIt"    -> EraseIt(w, i, op.k)
       [] op.op = "find"       -> FindOp(w, i, op.k)
       [] op.op = "clear"      -> Clear(w, i)
       [] op.op = "swap"       -> WR(SwapInst(w, 1, 2), 0)
       [] op.op = "assign"     -> Assign(w, i, o)
       [] op.op = "selfAssign" -> Assign(w, i, i)
       [] op.op = "copy"       -> WR(w, 0)           \* the temporary is observed by CopyOK below and destroyed

ImplApply(w0, op) == LET r == ImplApply0(w0, op) IN WR(Canon(r.w), r.res)

(* copy construction yields a map with the same pairs, whatever the source's internals look like *)
CopyOK(w, i) ==
  LET c == CopyConstruct(w, i) IN
  /\ AbsMap(c, 3) = AbsMap(w, i)
  /\ c.inst[3].size = w.inst[i].size
  /\ \A k \in MDom(AbsMap(w, i)) : Lookup(c, 3, k) = Lookup(w, i, k)

(* ---- structural invariants of an instance *)
WellFormed(w, i) ==
  LET I == w.inst[i] IN
  /\ I.size = Len(I.ent)
  /\ \A p \in 1..Len(I.ent) : ~w.nd[I.ent[p]].e
  /\ \A p \in 1..Len(I.fre) : w.nd[I.fre[p]].e
  /\ \A p, q \in 1..Len(I.ent) : p # q => w.nd[I.ent[p]].k # w.nd[I.ent[q]].k        \* no duplicate keys
  /\ I.ec < I.thr \/ I.thr = 0
  /\ \A b \in 1..Len(I.bkt) : \A j \in 1..Len(I.bkt[b]) : I.bkt[b][j] \in Range(I.ent) \cup Range(I.fre)
  /\ \A p \in 1..Len(I.ent) :                                                         \* every live entry is reachable
       \E j \in 1..Len(I.bkt[BIdx(w.nd[I.ent[p]].k, Len(I.bkt))]) : I.bkt[BIdx(w.nd[I.ent[p]].k, Len(I.bkt))][j] = I.ent[p]
=============================================================================
