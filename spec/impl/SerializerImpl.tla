--------------------------- MODULE SerializerImpl ---------------------------
(* The escaping decisions of the serializer XalanTransformer uses, transcribed from                     *)
(*   XMLSupport/FormatterToXMLUnicode.hpp   writeCharacters, writeAttrString, writeCDATA/writeCDATAChars, *)
(*                                          comment / writeProcessingInstruction -> writeNormalizedData   *)
(*   XMLSupport/XalanXMLSerializerBase.cpp  CharFunctor1_0 / CharFunctor1_1 :: s_specialChars             *)
(*   XMLSupport/XalanUTF8Writer.hpp, XalanUTF16Writer.hpp, XalanOtherEncodingWriter.hpp                  *)
(*                                          write(chars, start, length), writeCDATAChar, write(XalanDOMChar) *)
(* as a function from one string (plain sequence of code points; a supplementary character is ONE        *)
(* element - the code reads it as a surrogate pair -, a lone surrogate is an element of its own) in one   *)
(* context to a token sequence of Serializer.tla, or Err.  MC_Serializer checks it against the abstract   *)
(* parser; the deviations it has are named KD_* below (known_findings: same keys).                        *)
EXTENDS Serializer

Err == <<<<"err">>>>       \* a token sequence no writer produces
Family(enc) == IF enc = "UTF-8" THEN "utf8" ELSE IF enc = "UTF-16" THEN "utf16" ELSE "other"
IsHigh(c) == c >= 55296 /\ c <= 56319
IsLow(c) == c >= 56320 /\ c <= 57343

(* ---- CharFunctor tables ---------------------------------------------------------------------------- *)
eNone == 0   eAttr == 1   eBoth == 2   eForb == 4   eCRFb == 5
LastSpecial(ver) == IF ver = V11 THEN 159 ELSE 127
Flag10(c) == IF c \in {9, 34} THEN eAttr
             ELSE IF c \in {10, 13, 38, 60, 62} THEN eBoth
             ELSE IF c < 32 THEN eForb
             ELSE eNone
Flag11(c) == IF c = 0 THEN eNone
             ELSE IF c <= 31 THEN eCRFb            \* TAB, LF and CR included
             ELSE IF c = 34 THEN eAttr
             ELSE IF c \in {38, 60, 62} THEN eBoth
             ELSE IF c = 133 THEN eBoth
             ELSE IF c >= 127 THEN eCRFb
             ELSE eNone
Flag(c, ver) == IF ver = V11 THEN Flag11(c) ELSE Flag10(c)
InRange(c, ver) == c > LastSpecial(ver)                                     \* CharPredicate::range
AttrSpecial(c, ver) == ~InRange(c, ver) /\ Flag(c, ver) > eNone             \* ::attribute
ContentSpecial(c, ver) == ~InRange(c, ver) /\ Flag(c, ver) > eAttr          \* ::content
Forbidden(c, ver) == ~InRange(c, ver) /\ Flag(c, ver) = eForb               \* ::isForbidden
CharRefForbidden(c, ver) == ~InRange(c, ver) /\ Flag(c, ver) = (IF ver = V11 THEN eCRFb ELSE eForb)   \* ::isCharRefForbidden

(* ---- the writers: m_writer.write(chars, start, length) on one character ----------------------------- *)
(* UTF-8 / other: a high surrogate needs its low half (exception otherwise); a lone LOW surrogate is      *)
(* passed on as an ordinary BMP character.  UTF-16: the unit is copied.                                  *)
WriteChar(c, o) ==
  LET fam == Family(o.enc) IN
  IF fam = "utf16" THEN <<Lit(c)>>
  ELSE IF IsHigh(c) THEN Err
  ELSE IF fam = "utf8" THEN <<Lit(c)>>
  ELSE IF Encodable(c, o.enc) THEN <<Lit(c)>> ELSE <<Ref(c)>>      \* m_predicate ? write(value) : failureHandler = WriteCharRef

(* m_writer.write(value_type(ch)) of safeWriteContent: ASCII (or, XML 1.1, <= 0x9F) non-special *)
WriteSafe(c, o) == IF Family(o.enc) = "other" /\ ~Encodable(c, o.enc) THEN <<Ref(c)>> ELSE <<Lit(c)>>

(* writeNormalizedCharBig *)
WriteBig(c, o) == IF o.ver = V11 /\ c = LSEP THEN <<Ref(c)>> ELSE WriteChar(c, o)

Cat(a, b) == IF a = Err \/ b = Err THEN Err ELSE a \o b

(* ---- writeCharacters ------------------------------------------------------------------------------- *)
ContentChar(c, o) ==
  IF InRange(c, o.ver) THEN WriteBig(c, o)
  ELSE IF ~ContentSpecial(c, o.ver) THEN WriteSafe(c, o)
  ELSE IF c \in {LT, GT, AMP} THEN <<Ref(c)>>                     \* writeDefaultEntity
  ELSE IF c = LF THEN <<Lit(LF)>>                                 \* outputNewline
  ELSE IF Forbidden(c, o.ver) THEN Err
  ELSE <<Ref(c)>>                                                 \* writeNumericCharacterReference
RECURSIVE ImplContent(_, _)
ImplContent(p, o) == IF p = <<>> THEN <<>> ELSE Cat(ContentChar(p[1], o), ImplContent(Tail(p), o))

(* ---- writeAttrString ------------------------------------------------------------------------------- *)
AttrChar(c, o) ==
  IF InRange(c, o.ver) THEN WriteBig(c, o)
  ELSE IF ~AttrSpecial(c, o.ver) THEN WriteSafe(c, o)
  ELSE IF c \in {LT, GT, AMP, QUOT} THEN <<Ref(c)>>               \* writeDefaultAttributeEntity
  ELSE IF Forbidden(c, o.ver) THEN Err
  ELSE <<Ref(c)>>
RECURSIVE ImplAttr(_, _)
ImplAttr(p, o) == IF p = <<>> THEN <<>> ELSE Cat(AttrChar(p[1], o), ImplAttr(Tail(p), o))

(* ---- comment / PI data: writeNormalizedData -> writeNormalizedChar ---------------------------------- *)
LitCtxChar(c, o) ==
  IF c = LF THEN <<Lit(LF)>>
  ELSE IF CharRefForbidden(c, o.ver) THEN Err
  ELSE WriteChar(c, o)                                            \* m_writer.write(chars, start, length): the reference fallback
RECURSIVE ImplLit(_, _)
ImplLit(p, o) == IF p = <<>> THEN <<>> ELSE Cat(LitCtxChar(p[1], o), ImplLit(Tail(p), o))

(* ---- writeCDATA / writeCDATAChars / writeCDATAChar -------------------------------------------------- *)
(* the look-ahead for "]]>" is guarded by `length - i > 2` (fix ee3b6b4; `i - length > 2` on unsigned     *)
(* operands was always true and read past the end): exactly the in-bounds test below                      *)
RECURSIVE ImplCdataFrom(_, _, _, _, _)
ImplCdataFrom(p, i, outside, out, o) ==
  IF out = Err THEN Err
  ELSE IF i > Len(p)
  THEN IF outside THEN Append(out, CDO)                 \* writeCDATAChars re-opens, writeCDATA closes only if outsideCDATA = false
       ELSE Append(out, CDC)
  ELSE LET c == p[i] IN
       IF c = RSB /\ i + 2 <= Len(p) /\ p[i + 1] = RSB /\ p[i + 2] = GT
       THEN ImplCdataFrom(p, i + 3, FALSE,
                          out \o (IF outside THEN <<CDC>> ELSE <<>>) \o <<Lit(RSB), Lit(RSB), CDC, CDO, Lit(GT)>>, o)
       ELSE IF c = LF THEN ImplCdataFrom(p, i + 1, outside, Append(out, Lit(LF)), o)
       ELSE IF CharRefForbidden(c, o.ver) THEN Err
       ELSE LET fam == Family(o.enc) IN
            IF fam = "utf16" THEN ImplCdataFrom(p, i + 1, outside, Append(out, Lit(c)), o)
            ELSE IF IsHigh(c) THEN Err
            ELSE IF fam = "utf8" THEN ImplCdataFrom(p, i + 1, outside, Append(out, Lit(c)), o)
            ELSE IF Encodable(c, o.enc)
                 THEN ImplCdataFrom(p, i + 1, FALSE, out \o (IF outside THEN <<CDO>> ELSE <<>>) \o <<Lit(c)>>, o)
                 ELSE ImplCdataFrom(p, i + 1, TRUE, out \o (IF outside THEN <<>> ELSE <<CDC>>) \o <<Ref(c)>>, o)
ImplCdata(p, o) == IF p = <<>> THEN <<>> ELSE ImplCdataFrom(p, 1, FALSE, <<CDO>>, o)     \* cdata(): length 0 writes nothing

ImplSer(ctx, p, o) == CASE ctx = "text" -> ImplContent(p, o)
                        [] ctx = "attr" -> ImplAttr(p, o)
                        [] ctx = "cdata" -> ImplCdata(p, o)
                        [] ctx \in {"comment", "pi"} -> ImplLit(p, o)

(* ---- conformance of one string ---------------------------------------------------------------------- *)
Conforms(ctx, p, o) ==
  LET r == ImplSer(ctx, p, o) IN
  IF r = Err THEN ~RepresentableStr(ctx, p, o)
  ELSE Writable(r, o.enc) /\ Parse(ctx, r, o.ver) = p

(* ---- known deviations (keys of known_findings.d/C04.jsonl) ------------------------------------------ *)
Has(p, S) == \E i \in DOMAIN p : p[i] \in S
HasSeq(p, q) == HasSub(p, q)

(* a lone low surrogate (UTF-16 output: any lone surrogate) is written instead of being refused *)
KD_loneSurrogateWritten(ctx, p, o) ==
  \E i \in DOMAIN p : IsLow(p[i]) \/ (Family(o.enc) = "utf16" /\ IsHigh(p[i]))
(* U+FFFE / U+FFFF are not characters of XML and are written *)
KD_nonCharacterWritten(ctx, p, o) == Has(p, {65534, 65535})
(* #15: CR (XML 1.1: NEL, LSEP) literally inside a CDATA section *)
KD_rawLineEndInCdataSection(ctx, p, o) ==
  ctx = "cdata" /\ \E i \in DOMAIN p : LitLineEnd(p[i], o.ver) /\ ~CharRefForbidden(p[i], o.ver)
                                       /\ (Family(o.enc) = "other" => Encodable(p[i], o.enc))
(* CR (XML 1.1: NEL, LSEP) literally inside a comment / PI: no error although it cannot come back *)
KD_rawLineEndInCommentOrPI(ctx, p, o) ==
  ctx \in {"comment", "pi"} /\ \E i \in DOMAIN p : LitLineEnd(p[i], o.ver) /\ ~CharRefForbidden(p[i], o.ver)
                                                   /\ (Family(o.enc) = "other" => Encodable(p[i], o.enc))
(* #16: numeric character reference inside a comment / PI for a character the encoding lacks *)
KD_charRefInCommentOrPI(ctx, p, o) ==
  ctx \in {"comment", "pi"} /\ Family(o.enc) = "other" /\ \E i \in DOMAIN p : ~IsHigh(p[i]) /\ ~Encodable(p[i], o.enc)
(* XML 1.1 table marks TAB "reference only": refused in CDATA sections, comments, PIs *)
KD_xml11TabRejected(ctx, p, o) == o.ver = V11 /\ ctx \in {"cdata", "comment", "pi"} /\ Has(p, {TAB})
(* XML 1.1: CR and the restricted characters are refused inside a cdata-section-elements element          *)
(* instead of being written as references outside the section                                          *)
KD_xml11RestrictedInCdataElementRejected(ctx, p, o) ==
  o.ver = V11 /\ ctx = "cdata" /\ \E i \in DOMAIN p : p[i] = CR \/ Restricted11(p[i])
(* the section is re-opened after a final unencodable character (line feeds after it do not count) and   *)
(* never closed                                                                                         *)
RECURSIVE LastNonLF(_)
LastNonLF(p) == IF p = <<>> THEN 0 ELSE IF p[Len(p)] # LF THEN Len(p) ELSE LastNonLF(SubSeq(p, 1, Len(p) - 1))
KD_cdataSectionLeftOpen(ctx, p, o) ==
  ctx = "cdata" /\ Family(o.enc) = "other" /\ LastNonLF(p) > 0
  /\ LET c == p[LastNonLF(p)] IN ~IsHigh(c) /\ ~Encodable(c, o.enc) /\ ~CharRefForbidden(c, o.ver)
(* "]]>" right after an unencodable character (line feeds in between do not count): a stray "]]>" is      *)
(* written outside any section                                                                          *)
RECURSIVE SkipLF(_, _)
SkipLF(p, i) == IF i <= Len(p) /\ p[i] = LF THEN SkipLF(p, i + 1) ELSE i
KD_cdataEndAfterUnencodable(ctx, p, o) ==
  ctx = "cdata" /\ Family(o.enc) = "other"
  /\ \E i \in 1..Len(p) : /\ ~IsHigh(p[i]) /\ ~Encodable(p[i], o.enc) /\ ~CharRefForbidden(p[i], o.ver)
                           /\ LET j == SkipLF(p, i + 1) IN j + 2 <= Len(p) /\ SubSeq(p, j, j + 2) = <<RSB, RSB, GT>>

AnyKD(ctx, p, o) ==
  \/ KD_loneSurrogateWritten(ctx, p, o)
  \/ KD_nonCharacterWritten(ctx, p, o)
  \/ KD_rawLineEndInCdataSection(ctx, p, o)
  \/ KD_rawLineEndInCommentOrPI(ctx, p, o)
  \/ KD_charRefInCommentOrPI(ctx, p, o)
  \/ KD_xml11TabRejected(ctx, p, o)
  \/ KD_xml11RestrictedInCdataElementRejected(ctx, p, o)
  \/ KD_cdataSectionLeftOpen(ctx, p, o)
  \/ KD_cdataEndAfterUnencodable(ctx, p, o)
=============================================================================
