--------------------------- MODULE SerializerImpl ---------------------------
(* The escaping decisions of the serializer XalanTransformer uses, transcribed from                     *)
(*   XMLSupport/FormatterToXMLUnicode.hpp   writeCharacters, writeAttrString, writeCDATA/writeCDATAChars, *)
(*                                          comment / writeProcessingInstruction -> writeNormalizedData   *)
(*   XMLSupport/XalanXMLSerializerBase.cpp  CharFunctor1_0 / CharFunctor1_1 :: s_specialChars             *)
(*   XMLSupport/XalanUTF8Writer.hpp, XalanUTF16Writer.hpp, XalanOtherEncodingWriter.hpp                  *)
(*                                          write(chars, start, length), writeCDATAChar, write(XalanDOMChar) *)
(* as a function from one string (plain sequence of code points; a supplementary character is ONE        *)
(* element - the code reads it as a surrogate pair -, a lone surrogate is an element of its own) in one   *)
(* context to a token sequence of Serializer.tla, or Err.  MC_Serializer checks it against the abstract   *)
(* parser; the deviations it has are named KD_* below (known_findings: same keys).                        *)
(* The transcription follows the code WITH the repairs of /verif/fixes/C04-*.patch applied (factory serializer:  *)
(* cdataSectionLeftOpen, cdataEndAfterUnencodable, charRefInCommentOrPI, xml11TabRejected,                 *)
(* rawLineEndInCdataSection, loneSurrogateWritten, nonCharacterWritten, xml11RestrictedInCdataElementRejected; *)
(* ee3b6b4).  The second half transcribes the older serializer XMLSupport/FormatterToXML.cpp (characters,     *)
(* writeAttrString, accumDefaultEscape, cdata / writeNormalizedChars, accumCommentData,                       *)
(* accumNormalizedPIData -> accumName) WITH the legacy* repairs of the same directory applied.                *)
EXTENDS Serializer

Err == <<<<"err">>>>       \* a token sequence no writer produces
Family(enc) == IF enc = "UTF-8" THEN "utf8" ELSE IF enc = "UTF-16" THEN "utf16" ELSE "other"
IsHigh(c) == c >= 55296 /\ c <= 56319
IsLow(c) == c >= 56320 /\ c <= 57343

(* ---- CharFunctor tables ---------------------------------------------------------------------------- *)
eNone == 0   eAttr == 1   eBoth == 2   eForb == 4   eCRFb == 5
LastSpecial(ver) == IF ver = V11 THEN 159 ELSE 127
Flag10(c) == IF c \in {9, 34} THEN eAttr
             ELSE IF c \in {10, 13, 38, 60, 62} THEN eBoth
             ELSE IF c < 32 THEN eForb
             ELSE eNone
Flag11(c) == IF c = 0 THEN eNone
             ELSE IF c = 9 THEN eAttr              \* TAB and LF as in the 1.0 table (fix C04-xml11TabRejected);
             ELSE IF c = 10 THEN eBoth             \* CR stays "reference only": a literal CR does not come back
             ELSE IF c <= 31 THEN eCRFb
             ELSE IF c = 34 THEN eAttr
             ELSE IF c \in {38, 60, 62} THEN eBoth
             ELSE IF c = 133 THEN eBoth
             ELSE IF c >= 127 THEN eCRFb
             ELSE eNone
Flag(c, ver) == IF ver = V11 THEN Flag11(c) ELSE Flag10(c)
InRange(c, ver) == c > LastSpecial(ver)                                     \* CharPredicate::range
AttrSpecial(c, ver) == ~InRange(c, ver) /\ Flag(c, ver) > eNone             \* ::attribute
ContentSpecial(c, ver) == ~InRange(c, ver) /\ Flag(c, ver) > eAttr          \* ::content
Forbidden(c, ver) == ~InRange(c, ver) /\ Flag(c, ver) = eForb               \* ::isForbidden
CharRefForbidden(c, ver) == ~InRange(c, ver) /\ Flag(c, ver) = (IF ver = V11 THEN eCRFb ELSE eForb)   \* ::isCharRefForbidden

(* ---- checkCodeUnit: an unpaired surrogate or U+FFFE / U+FFFF is refused ------------------------------- *)
(* (a well-formed pair is ONE element here, so every surrogate element is unpaired)                      *)
BadUnit(c) == IsSurrogate(c) \/ c \in {65534, 65535}

(* ---- the writers: m_writer.write(chars, start, length) on one character ----------------------------- *)
(* "other": a character the encoding lacks is written as a numeric character reference                   *)
WriteChar(c, o) ==
  IF BadUnit(c) THEN Err
  ELSE IF Family(o.enc) = "other" /\ ~Encodable(c, o.enc) THEN <<Ref(c)>>    \* m_predicate ? write(value) : failureHandler = WriteCharRef
  ELSE <<Lit(c)>>
(* m_writer.writeCommentChars(chars + start, n): the exception functor instead of the reference *)
WriteCharStrict(c, o) ==
  IF BadUnit(c) THEN Err
  ELSE IF Family(o.enc) = "other" /\ ~Encodable(c, o.enc) THEN Err           \* UnrepresentableCharacterException
  ELSE <<Lit(c)>>

(* m_writer.write(value_type(ch)) of safeWriteContent: ASCII (or, XML 1.1, <= 0x9F) non-special *)
WriteSafe(c, o) == IF Family(o.enc) = "other" /\ ~Encodable(c, o.enc) THEN <<Ref(c)>> ELSE <<Lit(c)>>

(* writeNormalizedCharBig: checkCodeUnit first *)
WriteBig(c, o) == IF BadUnit(c) THEN Err ELSE IF o.ver = V11 /\ c = LSEP THEN <<Ref(c)>> ELSE WriteChar(c, o)

Cat(a, b) == IF a = Err \/ b = Err THEN Err ELSE a \o b

(* ---- writeCharacters ------------------------------------------------------------------------------- *)
ContentChar(c, o) ==
  IF InRange(c, o.ver) THEN WriteBig(c, o)
  ELSE IF ~ContentSpecial(c, o.ver) THEN WriteSafe(c, o)
  ELSE IF c \in {LT, GT, AMP} THEN <<Ref(c)>>                     \* writeDefaultEntity
  ELSE IF c = LF THEN <<Lit(LF)>>                                 \* outputNewline
  ELSE IF Forbidden(c, o.ver) THEN Err
  ELSE <<Ref(c)>>                                                 \* writeNumericCharacterReference
RECURSIVE ImplContent(_, _)
ImplContent(p, o) == IF p = <<>> THEN <<>> ELSE Cat(ContentChar(p[1], o), ImplContent(Tail(p), o))

(* ---- writeAttrString ------------------------------------------------------------------------------- *)
AttrChar(c, o) ==
  IF InRange(c, o.ver) THEN WriteBig(c, o)
  ELSE IF ~AttrSpecial(c, o.ver) THEN WriteSafe(c, o)
  ELSE IF c \in {LT, GT, AMP, QUOT} THEN <<Ref(c)>>               \* writeDefaultAttributeEntity
  ELSE IF Forbidden(c, o.ver) THEN Err
  ELSE <<Ref(c)>>
RECURSIVE ImplAttr(_, _)
ImplAttr(p, o) == IF p = <<>> THEN <<>> ELSE Cat(AttrChar(p[1], o), ImplAttr(Tail(p), o))

(* ---- comment / PI data: writeNormalizedData -> writeNormalizedChar ---------------------------------- *)
LitCtxChar(c, o) ==
  IF c = LF THEN <<Lit(LF)>>
  ELSE IF CharRefForbidden(c, o.ver) THEN Err
  ELSE WriteCharStrict(c, o)                                      \* checkCodeUnit, then writeCommentChars: no reference fallback
RECURSIVE ImplLit(_, _)
ImplLit(p, o) == IF p = <<>> THEN <<>> ELSE Cat(LitCtxChar(p[1], o), ImplLit(Tail(p), o))

(* ---- writeCDATA / writeCDATAChars / writeCDATAChar -------------------------------------------------- *)
(* the look-ahead for "]]>" is guarded by `length - i > 2` (fix ee3b6b4; `i - length > 2` on unsigned     *)
(* operands was always true and read past the end): exactly the in-bounds test below.                     *)
(* outside = the previous character was written as a reference after closing the section; every writer   *)
(* re-opens the section for the next character that goes into it; the end of the text re-opens nothing     *)
(* and writeCDATA closes only a section that is open.                                                     *)
RECURSIVE ImplCdataFrom(_, _, _, _, _)
ImplCdataFrom(p, i, outside, out, o) ==
  IF out = Err THEN Err
  ELSE IF i > Len(p)
  THEN IF outside THEN out ELSE Append(out, CDC)
  ELSE LET c == p[i]
           reopen == IF outside THEN <<CDO>> ELSE <<>>
           close == IF outside THEN <<>> ELSE <<CDC>> IN
       IF c = RSB /\ i + 2 <= Len(p) /\ p[i + 1] = RSB /\ p[i + 2] = GT
       THEN ImplCdataFrom(p, i + 3, FALSE, out \o reopen \o <<Lit(RSB), Lit(RSB), CDC, CDO, Lit(GT)>>, o)
       ELSE IF c = LF THEN ImplCdataFrom(p, i + 1, outside, Append(out, Lit(LF)), o)
       ELSE IF LitLineEnd(c, o.ver) \/ (o.ver = V11 /\ CharRefForbidden(c, o.ver))
            \* CR; XML 1.1: NEL, LSEP and the restricted characters (eCRFb) - reference outside the section
            THEN ImplCdataFrom(p, i + 1, TRUE, out \o close \o <<Ref(c)>>, o)
       ELSE IF CharRefForbidden(c, o.ver) THEN Err                 \* XML 1.0: not a character at all
       ELSE IF BadUnit(c) THEN Err                                 \* checkCodeUnit
       ELSE IF Family(o.enc) = "other" /\ ~Encodable(c, o.enc)
            THEN ImplCdataFrom(p, i + 1, TRUE, out \o close \o <<Ref(c)>>, o)
            ELSE ImplCdataFrom(p, i + 1, FALSE, out \o reopen \o <<Lit(c)>>, o)
ImplCdata(p, o) == IF p = <<>> THEN <<>> ELSE ImplCdataFrom(p, 1, FALSE, <<CDO>>, o)     \* cdata(): length 0 writes nothing

ImplSer(ctx, p, o) == CASE ctx = "text" -> ImplContent(p, o)
                        [] ctx = "attr" -> ImplAttr(p, o)
                        [] ctx = "cdata" -> ImplCdata(p, o)
                        [] ctx \in {"comment", "pi"} -> ImplLit(p, o)

(* ---- conformance of one string ---------------------------------------------------------------------- *)
Conforms(ctx, p, o) ==
  LET r == ImplSer(ctx, p, o) IN
  IF r = Err THEN ~RepresentableStr(ctx, p, o)
  ELSE Writable(r, o.enc) /\ Parse(ctx, r, o.ver) = p

(* ---- known deviations that remain (keys of known_findings.d/C04.jsonl) ------------------------------- *)
(* CR (XML 1.1: NEL, LSEP) literally inside a comment / PI: no error although it cannot come back *)
KD_rawLineEndInCommentOrPI(ctx, p, o) ==
  ctx \in {"comment", "pi"} /\ \E i \in DOMAIN p : LitLineEnd(p[i], o.ver) /\ ~CharRefForbidden(p[i], o.ver)
                                                   /\ (Family(o.enc) = "other" => Encodable(p[i], o.enc))

AnyKD(ctx, p, o) == KD_rawLineEndInCommentOrPI(ctx, p, o)

(* ==================================================================================================== *)
(* The older serializer, FormatterToXML (public class, base of FormatterToHTML).  It knows an encoding    *)
(* only through m_maxCharacter = XalanTranscodingServices::getMaximumCharacterValue: 0xFFFF for UTF-8 /   *)
(* UTF-16, 0xFF for ISO-8859-1, 0x7F for everything else; characters above it are written as references   *)
(* where references exist, and are checked with XalanOutputStream::canTranscodeTo where they do not.       *)
(* A supplementary character is ONE element here; the code sees its high surrogate first.                  *)
LMax(enc) == IF enc \in {"UTF-8", "UTF-16"} THEN 65535 ELSE IF enc = "ISO-8859-1" THEN 255 ELSE 127
LUtf(enc) == enc \in {"UTF-8", "UTF-16"}                                  \* m_encodingIsUTF
Above(c, enc) == IF c >= 65536 THEN ~LUtf(enc) ELSE c > LMax(enc)         \* ch > m_maxCharacter (first code unit)
(* initCharsMap / initAttrCharsMap ('S' entries; SPECIALSSIZE = 256) *)
LCharsS(c, enc) == \/ c \in {LT, GT, AMP}
                   \/ (c >= 1 /\ c <= 31 /\ c # TAB)
                   \/ (c >= 127 /\ c <= 159)                              \* j <= 0x9F (fix legacyXml11RestrictedRawInTextOrAttr)
                   \/ (c >= LMax(enc) /\ c < 256)
LAttrS(c) == \/ c \in {LT, GT, AMP, QUOT, CR, LF, TAB}
             \/ (c >= 1 /\ c <= 31)
             \/ (c >= 127 /\ c <= 159)

(* accumDefaultEscape (accumDefaultEntity first) *)
LEscape(c, o, escLF) ==
  IF ~escLF /\ c = LF THEN <<Lit(LF)>>                                    \* outputLineSep
  ELSE IF c \in {LT, GT, AMP, QUOT, APOS} THEN <<Ref(c)>>
  ELSE IF c >= 65536 THEN <<Ref(c)>>                                      \* surrogate pair -> one reference to the code point
  ELSE IF IsHigh(c) THEN Err                                              \* throwInvalidUTF16SurrogateException
  ELSE IF c > LMax(o.enc) THEN <<Ref(c)>>
  ELSE IF c < 256 /\ LAttrS(c)
       THEN IF c < 32
            THEN IF o.ver = V11 \/ c \in {TAB, LF, CR} THEN <<Ref(c)>> ELSE Err    \* throwInvalidCharacterException
            ELSE <<Ref(c)>>
  ELSE IF c = LSEP THEN <<Ref(c)>>                                        \* gets here under XML 1.1 only
  ELSE <<Lit(c)>>

(* characters() *)
LContentChar(c, o) ==
  IF (c < 256 /\ LCharsS(c, o.enc)) \/ Above(c, o.enc) \/ (c = LSEP /\ o.ver = V11)
  THEN LEscape(c, o, FALSE) ELSE <<Lit(c)>>
RECURSIVE LContent(_, _)
LContent(p, o) == IF p = <<>> THEN <<>> ELSE Cat(LContentChar(p[1], o), LContent(Tail(p), o))

(* writeAttrString() *)
LAttrChar(c, o) ==
  IF (c < 256 /\ LAttrS(c)) \/ Above(c, o.enc) \/ (c = LSEP /\ o.ver = V11)
  THEN LEscape(c, o, TRUE) ELSE <<Lit(c)>>
RECURSIVE LAttr(_, _)
LAttr(p, o) == IF p = <<>> THEN <<>> ELSE Cat(LAttrChar(p[1], o), LAttr(Tail(p), o))

(* cdata() -> writeNormalizedChars(isCData = true): the section is open on entry and on exit; a character   *)
(* that needs a reference is written between "]]>" and "<![CDATA[" (empty sections can result)             *)
RECURSIVE LCdataFrom(_, _, _, _)
LCdataFrom(p, i, out, o) ==
  IF i > Len(p) THEN Append(out, CDC)
  ELSE LET c == p[i] IN
       IF c = LF THEN LCdataFrom(p, i + 1, Append(out, Lit(LF)), o)
       ELSE IF Above(c, o.enc) \/ c = CR \/ (o.ver = V11 /\ c \in {NEL, LSEP})
            THEN IF IsHigh(c) THEN Err                                    \* unpaired high surrogate above the maximum
                 ELSE LCdataFrom(p, i + 1, out \o <<CDC, Ref(c), CDO>>, o)
       ELSE IF c = RSB /\ i + 2 <= Len(p) /\ p[i + 1] = RSB /\ p[i + 2] = GT
            THEN LCdataFrom(p, i + 3, out \o <<Lit(RSB), Lit(RSB), CDC, CDO, Lit(GT)>>, o)
       ELSE LCdataFrom(p, i + 1, Append(out, Lit(c)), o)                  \* c <= m_maxCharacter: accumContent(c)
LCdata(p, o) == IF p = <<>> THEN <<>> ELSE LCdataFrom(p, 1, <<CDO>>, o)

(* comment / PI data: accumName -> accumNameArray / accumNameAsChar (checkNameChar), UTF: copied *)
LLitChar(c, o) ==
  IF LUtf(o.enc) \/ c <= LMax(o.enc) \/ IsSurrogate(c) THEN <<Lit(c)>>
  ELSE IF Encodable(c, o.enc) THEN <<Lit(c)>>                             \* m_stream->canTranscodeTo
  ELSE Err                                                                \* UnrepresentableCharacterException
RECURSIVE LLit(_, _)
LLit(p, o) == IF p = <<>> THEN <<>> ELSE Cat(LLitChar(p[1], o), LLit(Tail(p), o))

LegacySer(ctx, p, o) == CASE ctx = "text" -> LContent(p, o)
                          [] ctx = "attr" -> LAttr(p, o)
                          [] ctx = "cdata" -> LCdata(p, o)
                          [] ctx \in {"comment", "pi"} -> LLit(p, o)
LegacyConforms(ctx, p, o) ==
  LET r == LegacySer(ctx, p, o) IN
  IF r = Err THEN ~RepresentableStr(ctx, p, o)
  ELSE Writable(r, o.enc) /\ Parse(ctx, r, o.ver) = p

(* ---- known deviations of the older serializer that remain ---------------------------------------------- *)
LRawLit(c, ctx, o) == c <= LMax(o.enc) \/ LUtf(o.enc) \/ (ctx # "cdata" /\ Encodable(c, o.enc))   \* copied, not referenced / refused
KD_legacyRawLineEndInCommentOrPI(ctx, p, o) ==
  ctx \in {"comment", "pi"} /\ \E i \in DOMAIN p : LitLineEnd(p[i], o.ver) /\ LRawLit(p[i], ctx, o)
KD_legacyControlRawInCdataCommentPI(ctx, p, o) ==
  ctx \in {"cdata", "comment", "pi"} /\ \E i \in DOMAIN p :
     /\ (p[i] < 32 /\ p[i] \notin {TAB, LF, CR}) \/ (o.ver = V11 /\ Restricted11(p[i]))
     /\ LRawLit(p[i], ctx, o)
KD_legacyLoneSurrogateWritten(ctx, p, o) == \E i \in DOMAIN p : IsSurrogate(p[i])
KD_legacyNonCharacterWritten(ctx, p, o) == \E i \in DOMAIN p : p[i] \in {65534, 65535}
AnyLegacyKD(ctx, p, o) ==
  \/ KD_legacyRawLineEndInCommentOrPI(ctx, p, o)
  \/ KD_legacyControlRawInCdataCommentPI(ctx, p, o)
  \/ KD_legacyLoneSurrogateWritten(ctx, p, o)
  \/ KD_legacyNonCharacterWritten(ctx, p, o)
=============================================================================
