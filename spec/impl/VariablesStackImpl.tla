------------------------- MODULE VariablesStackImpl -------------------------
(* Transcription of the variable stack of the XSLT engine, src/xalanc/XSLT/VariablesStack.cpp (after repair  *)
(* 46a849f), at the level of its entries:                                                                    *)
(*   [t |-> "cm"]                          context marker: pushContextMarker()                               *)
(*   [t |-> "ef", e, tmpl]                 element frame marker of stylesheet element e (tmpl: an xsl:template)*)
(*   [t |-> "var", n, v]                   a variable (or a parameter that took its default)                  *)
(*   [t |-> "par", n, v, act]              a value passed with xsl:with-param; act = claimed by an xsl:param   *)
(* The region of top-level variables below the first marker is abstracted: a name not found locally is a      *)
(* global reference.  Operations return the new stack; Find returns [stack, idx] (it may activate an entry).  *)
EXTENDS Naturals, Sequences

Pop(s) == SubSeq(s, 1, Len(s) - 1)

PushContextMarker(s) == Append(s, [t |-> "cm"])

(* popContextMarker: pop entries up to and including the topmost context marker *)
RECURSIVE PopContextMarker(_)
PopContextMarker(s) == IF Len(s) = 0 THEN s ELSE IF s[Len(s)].t = "cm" THEN Pop(s) ELSE PopContextMarker(Pop(s))

(* pushParams: one pending parameter entry per xsl:with-param, in order; ps = <<[n, v]>> *)
PushParams(s, ps) == s \o [i \in 1..Len(ps) |-> [t |-> "par", n |-> ps[i].n, v |-> ps[i].v, act |-> FALSE]]

PushElementFrame(s, e, tmpl) == Append(s, [t |-> "ef", e |-> e, tmpl |-> tmpl])

(* elementFrameAlreadyPushed(e): a marker of e anywhere above the bottom entry *)
FramePushed(s, e) == \E i \in 2..Len(s) : s[i].t = "ef" /\ s[i].e = e

(* pushVariable(name, value, e): the frame of e is pushed first if it is not on the stack *)
PushVariable(s, n, v, e, tmpl) ==
  Append(IF FramePushed(s, e) THEN s ELSE PushElementFrame(s, e, tmpl), [t |-> "var", n |-> n, v |-> v])

(* the parameters a template bound are released when its frame goes (the repair); Repaired = FALSE is the     *)
(* behaviour before it: resetParams() existed and was never called                                            *)
RECURSIVE Deactivate(_, _)
Deactivate(s, i) ==
  IF i = 0 \/ s[i].t = "cm" THEN s
  ELSE Deactivate(IF s[i].t = "par" THEN [s EXCEPT ![i].act = FALSE] ELSE s, i - 1)

RECURSIVE PopToFrame(_)
PopToFrame(s) ==        \* [stack, tmpl] after popping up to and including the topmost element frame marker
  IF Len(s) = 0 THEN [s |-> s, tmpl |-> FALSE]
  ELSE IF s[Len(s)].t = "ef" THEN [s |-> Pop(s), tmpl |-> s[Len(s)].tmpl]
  ELSE PopToFrame(Pop(s))
PopElementFrame(s, repaired) ==
  LET r == PopToFrame(s) IN IF repaired /\ r.tmpl THEN Deactivate(r.s, Len(r.s)) ELSE r.s

(* findEntry(name, fIsParam): from the top down to the first context marker; variables and ACTIVE parameters   *)
(* match by name; a pending parameter matches only a lookup made by xsl:param, which activates it.             *)
(* idx = 0: not found in the local frame (a plain reference then looks among the top-level variables).         *)
RECURSIVE FindFrom(_, _, _, _)
FindFrom(s, i, n, isParam) ==
  IF i = 0 THEN [s |-> s, idx |-> 0]
  ELSE LET e == s[i] IN
       IF e.t = "cm" THEN [s |-> s, idx |-> 0]
       ELSE IF (e.t = "var" \/ (e.t = "par" /\ e.act)) /\ e.n = n THEN [s |-> s, idx |-> i]
       ELSE IF e.t = "par" /\ ~e.act /\ isParam /\ e.n = n THEN [s |-> [s EXCEPT ![i].act = TRUE], idx |-> i]
       ELSE FindFrom(s, i - 1, n, isParam)
Find(s, n, isParam) == FindFrom(s, Len(s), n, isParam)
=============================================================================
