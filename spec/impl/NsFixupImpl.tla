---------------------------- MODULE NsFixupImpl ----------------------------
(* Implementation-shaped model of Xalan-C's result-namespace fix-up: a transcription, decision    *)
(* by decision, of                                                                                *)
(*   DOMSupport/XalanNamespacesStack.cpp (the class behind XSLTEngineImpl::m_resultNamespacesStack; *)
(*                                   XSLT/ResultNamespacesStack.cpp is an unused twin)            *)
(*                                   addDeclaration / pushContext / popContext / findEntry /      *)
(*                                   getNamespaceForPrefix / getPrefixForNamespace /              *)
(*                                   prefixIsPresentLocal                                         *)
(*   XSLT/XSLTEngineImpl.cpp         addResultAttribute (1246), startElement / endElement and the *)
(*                                   pending start tag, isPendingResultPrefix (2702),             *)
(*                                   getUniqueNamespaceValue (2975), addResultNamespace (2727),   *)
(*                                   copyNamespaceAttributes (2781), cloneToResultTree (2139),    *)
(*                                   checkDefaultNamespace (1921), copyAttributesToAttList (2938) *)
(*   PlatformSupport/AttributeListImpl.cpp addAttribute (the list is keyed by the QName string;   *)
(*                                   addResultAttribute looks the expanded name up first)         *)
(*   XSLT/NamespacesHandler.cpp      constructor (266), processExcludeResultPrefixes (374, 745),  *)
(*                                   postConstruction (501), copyExcludeResultPrefixes,           *)
(*                                   processNamespaceAliases (790), getNamespace (341),           *)
(*                                   outputResultNamespaces (589)                                 *)
(*   XSLT/ElemLiteralResult.cpp      startElement (332) + evaluateAVTs; ElemUse.cpp (order:       *)
(*                                   attribute sets, then the element's own attributes, children) *)
(*   XSLT/ElemElement.cpp            startElement (135), fixupDefaultNamespace                    *)
(*   XSLT/ElemAttribute.cpp          startElement (131) / endElement                              *)
(*   XSLT/ElemCopy.cpp, ElemCopyOf.cpp, ElemAttributeSet.cpp                                       *)
(* Run(ss, src) executes a stylesheet AST (form: see ResultTree.tla) and yields the RAW result    *)
(* tree exactly as the engine hands it to the FormatterListener - attribute order, invented       *)
(* prefixes ns0, ns1.. and xmlns attributes included - plus the set of KD_ classes the execution  *)
(* passed through.  The algorithm does NOT satisfy ResultTree's obligations everywhere: the       *)
(* deviating leaves are named KD_<key> below; MC_NsFixup checks that they are the only ones.      *)
(* State of the code transcribed: /repo with the eleven repairs of /verif/fixes/C14-*.patch        *)
(* applied (shadowed prefixes, skipped declarations, xmlns / xml / undeclared prefixes,             *)
(* namespace="", xmlns="" as literal attribute, alias on xsl:attribute, copied attributes,          *)
(* xsl:attribute never re-declares a prefix that is bound to another namespace); two deviation      *)
(* classes remain (staleExcludedPrefix, attrListKeyedByQName).                                      *)
(* Not transcribed (never generated): invalid QNames, xsl:attribute after a child node, copying   *)
(* namespace nodes selected with the namespace axis, extension namespaces, imports.               *)
EXTENDS ResultTree

Null == "#null"

(* ------------------------------------------------------------------------------ engine state *)
(* stk  : one entry per open result element = the declarations addDeclaration made for it, in     *)
(*        order (m_createNewContextStack only delays the allocation of an empty entry)            *)
(* pn/pa: name and attribute list of the pending start tag;  open: isElementPending()             *)
(* ctr  : m_uniqueNSValue;  tags: KD classes passed                                               *)
(* ex   : (ghost, only used to name KD classes) the namespace URIs XSLT excludes at this point     *)
S0 == [stk |-> <<>>, pn |-> [p |-> "", l |-> ""], pa |-> <<>>, open |-> FALSE, ctr |-> 0, tags |-> {}, err |-> FALSE, ex |-> {}]

Tag(S, t) == [S EXCEPT !.tags = @ \cup {t}]
Decls(S) == Flat(S.stk)
RECURSIVE FindBack(_, _, _, _)      \* search pairs from the back: k = 1 by prefix giving the URI, k = 2 by URI giving the prefix
FindBack(b, i, key, k) == IF i = 0 THEN Null ELSE IF b[i][k] = key THEN b[i][3 - k] ELSE FindBack(b, i - 1, key, k)
FirstIdx(vec, k, key) == IF \E i \in 1..Len(vec) : vec[i][k] = key
                         THEN CHOOSE i \in 1..Len(vec) : vec[i][k] = key /\ \A j \in 1..(i - 1) : vec[j][k] # key ELSE 0

(* XalanNamespacesStack::getNamespaceForPrefix: xml / xmlns are answered first, then the open     *)
(* elements innermost first, the declarations of each newest first                                *)
NsForPrefix(S, p) ==
  LET d == Decls(S)
  IN IF p = "xml" THEN XMLNS ELSE IF p = "xmlns" THEN XMLNSNS ELSE FindBack(d, Len(d), p, 1)
(* XSLTEngineImpl::getResultPrefixForNamespace: the most recent declaration of that URI           *)
(* (XalanNamespacesStack::getPrefixForNamespace) - but only if its prefix has not been re-declared *)
(* for another namespace since                                                                     *)
PrefixForNs(S, u) == LET d == Decls(S)
                         f == FindBack(d, Len(d), u, 2)
                     IN IF f # Null /\ NsForPrefix(S, f) # u THEN Null ELSE f
PresentLocal(S, p) == S.stk # <<>> /\ \E i \in 1..Len(S.stk[Len(S.stk)]) : S.stk[Len(S.stk)][i][1] = p
AddDecl(S, p, u) == [S EXCEPT !.stk[Len(S.stk)] = Append(@, <<p, u>>)]
(* what a parser will make of prefix p on the pending start tag, as far as declared by now *)
BoundUri(S, p) == IF p = "" THEN "" ELSE IF p = "xml" THEN XMLNS ELSE LET d == Decls(S) IN FindBack(d, Len(d), p, 1)

(* AttributeListImpl::addAttribute: same QName string -> the value is replaced in place *)
PutAttr(S, p, l, v) ==
  LET hit == {i \in 1..Len(S.pa) : S.pa[i].p = p /\ S.pa[i].l = l}
  IN IF hit # {} THEN [S EXCEPT !.pa[CHOOSE i \in hit : TRUE].v = v]
     ELSE [S EXCEPT !.pa = Append(@, [p |-> p, l |-> l, v |-> v])]

(* KD_attrListKeyedByQName: an attribute with the same expanded name but another QName is already  *)
(* pending; the new one is appended instead of replacing it (two constructors, one expanded name).  *)
(* (A repair that looked the expanded name up at this point - 62f6d93 - was withdrawn: the prefix   *)
(* of a pending COPIED attribute is declared only afterwards, so the look-up merged attributes of   *)
(* different namespaces; the thorough conformance run rejected it.)                                  *)
KD_attrListKeyedByQName(S, p, l) ==
  \E i \in 1..Len(S.pa) : /\ ~IsDecl(S.pa[i]) /\ S.pa[i].l = l /\ S.pa[i].p # p
                          /\ BoundUri(S, p) # Null /\ BoundUri(S, S.pa[i].p) = BoundUri(S, p)

(* XSLTEngineImpl::addResultAttribute *)
AddResultAttr(S, p, l, v, fromCopy) ==
  IF p = "xmlns" /\ l = "xml" THEN S                                           \* "xmlns:xml" is always dropped
  ELSE IF p = "" /\ l = "xmlns" THEN
    LET cur == NsForPrefix(S, "")
    IN IF v # ""
       THEN IF cur # Null /\ cur = v THEN S
            ELSE IF ~fromCopy \/ ~PresentLocal(S, "") THEN PutAttr(AddDecl(S, "", v), p, l, v)
            ELSE [S EXCEPT !.err = TRUE]
       ELSE IF cur # Null /\ cur # "" THEN PutAttr(AddDecl(S, "", v), p, l, v) ELSE S
  ELSE IF p = "xmlns" THEN
    LET ns == NsForPrefix(S, l)
    IN IF ns = Null THEN PutAttr(AddDecl(S, l, v), p, l, v)
       ELSE IF ns # v THEN IF ~fromCopy THEN PutAttr(AddDecl(S, l, v), p, l, v) ELSE [S EXCEPT !.err = TRUE]
       ELSE S
  ELSE PutAttr(IF KD_attrListKeyedByQName(S, p, l) THEN Tag(S, "attrListKeyedByQName") ELSE S, p, l, v)

AddNsAttr(S, prefix, uri) == IF prefix = "" THEN AddResultAttr(S, "", "xmlns", uri, FALSE) ELSE AddResultAttr(S, "xmlns", prefix, uri, FALSE)

(* startElement(name): flushPending, pushContext, new pending start tag *)
StartElement(S, p, l) == [S EXCEPT !.stk = Append(@, <<>>), !.pn = [p |-> p, l |-> l], !.pa = <<>>, !.open = TRUE]
EndElement(S) == [S EXCEPT !.stk = SubSeq(@, 1, Len(@) - 1), !.open = FALSE]

(* isPendingResultPrefix: used by the pending element name or an attribute name, or declared there *)
IsPendingResultPrefix(S, prefix) ==
  \/ S.pn.p = prefix
  \/ \E i \in 1..Len(S.pa) : S.pa[i].p = prefix \/ (S.pa[i].p = "xmlns" /\ S.pa[i].l = prefix)

(* getUniqueNamespaceValue: ns<N>, skipping prefixes that are in scope *)
RECURSIVE Unique(_)
Unique(S) == LET c == "ns" \o ToString(S.ctr)
                 S1 == [S EXCEPT !.ctr = @ + 1]
             IN IF NsForPrefix(S, c) # Null THEN Unique(S1) ELSE [prefix |-> c, S |-> S1]

(* ------------------------------------------------------- compile time: NamespacesHandler *)
(* handler = [decls: the namespace nodes the element will output, excl: excluded <<prefix, uri>>]  *)
AddByPrefix(vec, p, u) == IF FirstIdx(vec, 1, p) # 0 THEN vec ELSE Append(vec, <<p, u>>)
AddOrUpdateByPrefix(vec, p, u) == LET k == FirstIdx(vec, 1, p) IN IF k = 0 THEN Append(vec, <<p, u>>) ELSE [vec EXCEPT ![k] = <<p, u>>]
HasUri(vec, u) == \E j \in 1..Len(vec) : vec[j][2] = u
Rev(s) == [i \in 1..Len(s) |-> s[Len(s) + 1 - i]]

(* constructor: the stylesheet's namespace stack innermost element first; XSLT / XML namespaces   *)
(* (and URIs already put aside) go to the excluded list, a prefix is entered once per list         *)
RECURSIVE CtorFold(_, _, _)
CtorFold(visit, i, H) ==
  IF i > Len(visit) THEN H
  ELSE LET p == visit[i][1]
           u == visit[i][2]
       IN CtorFold(visit, i + 1, IF u = XSLTNS \/ u = XMLNS \/ HasUri(H.excl, u)
                                 THEN [H EXCEPT !.excl = AddByPrefix(@, p, u)] ELSE [H EXCEPT !.decls = AddByPrefix(@, p, u)])
HandlerCtor(nss) == CtorFold(Flat(Rev(nss)), 1, [decls |-> <<>>, excl |-> <<>>])

LookupNss(nss, p) == IF p = "xml" THEN XMLNS ELSE LET d == Flat(nss) IN FindBack(d, Len(d), p, 1)
(* [xsl:]exclude-result-prefixes attribute *)
RECURSIVE ExclAttr(_, _, _, _)
ExclAttr(H, nss, prefixes, i) ==
  IF i > Len(prefixes) THEN H
  ELSE ExclAttr([H EXCEPT !.excl = AddOrUpdateByPrefix(@, prefixes[i], LookupNss(nss, prefixes[i]))], nss, prefixes, i + 1)

RECURSIVE CopyExcl(_, _, _)
CopyExcl(own, par, i) == IF i > Len(par) THEN own
                         ELSE CopyExcl(IF FirstIdx(own, 1, par[i][1]) = 0 THEN Append(own, par[i]) ELSE own, par, i + 1)
RECURSIVE MoveExcluded(_, _, _, _, _, _)
MoveExcluded(decls, i, excl, keep, elemPrefix, active) ==
  IF i > Len(decls) THEN [decls |-> keep, excl |-> excl]
  ELSE LET d == decls[i]
       IN IF d[1] # elemPrefix /\ d[1] \notin active /\ HasUri(excl, d[2])
          THEN MoveExcluded(decls, i + 1, Append(excl, d), keep, elemPrefix, active)
          ELSE MoveExcluded(decls, i + 1, excl, Append(keep, d), elemPrefix, active)
(* postConstruction: inherit the parent's excluded prefixes, drop excluded declarations except the *)
(* owner element's prefix and prefixes of its literal attributes, then (all but xsl:element)       *)
(* substitute alias URIs in the remaining declarations - the prefix stays                          *)
PostConstruction(ss, H, parExcl, elemPrefix, active, doAlias) ==
  LET ex1 == IF H.excl = <<>> THEN parExcl ELSE CopyExcl(H.excl, parExcl, 1)
      H2  == IF ex1 = <<>> THEN [decls |-> H.decls, excl |-> ex1] ELSE MoveExcluded(H.decls, 1, ex1, <<>>, elemPrefix, active)
  IN IF doAlias THEN [H2 EXCEPT !.decls = [i \in 1..Len(H2.decls) |-> <<H2.decls[i][1], Aliased(ss, H2.decls[i][2])>>]] ELSE H2
(* NamespacesHandler::getNamespace: excluded list first *)
GetNamespace(H, p) == LET k == FirstIdx(H.excl, 1, p)
                          j == FirstIdx(H.decls, 1, p)
                      IN IF k # 0 THEN H.excl[k][2] ELSE IF j # 0 THEN H.decls[j][2] ELSE Null

(* KD_staleExcludedPrefix: getNamespace answers from the EXCLUDED list first, which is keyed by     *)
(* prefix and inherited from the enclosing elements - a prefix (or the default namespace) that was *)
(* excluded further out and re-declared since, or whose declaration merely shares its URI with an  *)
(* excluded prefix, still answers with the URI it had where it was excluded (and un-aliased).      *)
(* want = the namespace XSLT prescribes for the prefix at this instruction (Null/"" = none)        *)
Norm(x) == IF x = Null THEN "" ELSE x
NsTag(ss, S, got, inScope, aliasExpected) ==
  LET want == IF aliasExpected /\ inScope # Null THEN Aliased(ss, inScope) ELSE inScope
  IN IF Norm(got) = Norm(want) THEN S
     ELSE Tag(S, "staleExcludedPrefix")

SsCtx(ss) == <<<<"xsl", XSLTNS>>>> \o ss.nsd
StylesheetHandler(ss) == ExclAttr([decls |-> <<>>, excl |-> <<>>], <<SsCtx(ss)>>, ss.excl, 1)
InstrHandler(ss, nss, parH) == PostConstruction(ss, HandlerCtor(nss), parH.excl, "xsl", {}, TRUE)

(* ------------------------------------------------------------------ run time: instructions *)
RECURSIVE OutputResultNamespaces(_, _, _)
OutputResultNamespaces(S, decls, i) ==
  IF i > Len(decls) THEN S
  ELSE LET dest == NsForPrefix(S, decls[i][1])
       IN OutputResultNamespaces(IF dest = Null \/ dest # decls[i][2] THEN AddNsAttr(S, decls[i][1], decls[i][2]) ELSE S, decls, i + 1)

(* xsl:attribute - ElemAttribute::startElement + endElement.  H = the instruction's own handler   *)
(* (like xsl:element's it is built without alias substitution)                                     *)
ExecAttribute(ss, S, ins, nss0, parH) ==
  LET nss == Append(nss0, ins.nsd)
      H   == PostConstruction(ss, HandlerCtor(nss), parH.excl, "xsl", {}, FALSE)
      p   == ins.p
      l   == ins.l
  IN IF ins.hasNs THEN
       IF ins.ns = "" THEN AddResultAttr(S, "", l, ins.v, FALSE)                      \* prefix stripped, no namespace
       ELSE
         LET found == PrefixForNs(S, ins.ns)
             (* equals(prefix, attrName, indexOfNSSep) compares only as many characters as the attribute's  *)
             (* prefix has; within the prefixes that can be declared in a result tree (xmlns cannot any     *)
             (* more) no prefix is a proper beginning of another one here                                   *)
             samePrefix == found = p
         IN IF found # Null /\ found # "" /\ (p = "" \/ samePrefix)
            THEN (* re-use the prefix found for the namespace *)
                 AddResultAttr(S, found, l, ins.v, FALSE)
            ELSE LET isXmlns == p = "xmlns" \/ (p = "xml" /\ ins.ns # XMLNS)         \* prefixes that cannot be declared for this namespace
                     (* a prefix bound to another namespace is never re-declared, pending or not *)
                     keep == /\ p # "" /\ ~isXmlns
                             /\ ~(LET t == NsForPrefix(S, p) IN t # Null /\ t # ins.ns)
                     U  == Unique(S)
                     np == IF keep THEN p ELSE U.prefix
                     S1 == IF keep THEN S ELSE U.S
                     S2 == S1
                 IN AddResultAttr(AddNsAttr(S2, np, ins.ns), np, l, ins.v, FALSE)
     ELSE IF S.open /\ ~(p = "" /\ l = "xmlns") THEN
       IF p = "xml" \/ p = "" THEN AddResultAttr(S, p, l, ins.v, FALSE)             \* "starts with xml" / no prefix: added as it is
       ELSE
         LET theNs == GetNamespace(H, p)
             resNs == NsForPrefix(S, p)
             clash == theNs # Null /\ resNs # Null /\ theNs # resNs                   \* result tree binds the prefix to something else
             U     == Unique(S)
             np    == IF clash THEN U.prefix ELSE p
             S1    == IF clash THEN U.S ELSE S
             S1a   == NsTag(ss, S1, theNs, LookupNss(nss, p), FALSE)
         IN IF theNs = Null \/ theNs = "" THEN S                                      \* prefix not declared: warning, no attribute
            ELSE LET bound == NsForPrefix(S1a, np)
                     (* a declaration is made unless the attribute's own prefix np is already bound to  *)
                     (* the namespace                                                                  *)
                     S2 == IF bound = Null \/ bound # theNs THEN AddNsAttr(S1a, np, theNs) ELSE S1a
                 IN AddResultAttr(S2, np, l, ins.v, FALSE)
     ELSE S

(* copying an attribute node (xsl:copy / xsl:copy-of): cloneToResultTree ATTRIBUTE_NODE - the     *)
(* QName is kept if its prefix is bound to the attribute's namespace or not bound at all (then it   *)
(* is declared on the pending element); if it is bound to another namespace the attribute gets an  *)
(* invented one - re-declaring the prefix would hide a namespace node of the element               *)
(* (createFixedUpResultAttribute)                                                                  *)
ExecCopyAttr(S, a) ==
  IF ~S.open THEN S
  ELSE LET bound == IF a.p = "" THEN Null ELSE NsForPrefix(S, a.p)
       IN IF a.p = "" \/ a.u = "" \/ a.p = "xmlns" \/ bound = a.u THEN AddResultAttr(S, a.p, a.l, a.v, TRUE)
          ELSE IF bound = Null THEN AddResultAttr(AddNsAttr(S, a.p, a.u), a.p, a.l, a.v, TRUE)
          ELSE LET U == Unique(S) IN AddResultAttr(AddNsAttr(U.S, U.prefix, a.u), U.prefix, a.l, a.v, FALSE)

RECURSIVE ExecSets(_, _, _, _)
RECURSIVE ExecSetAttrs(_, _, _, _, _, _)
ExecSetAttrs(ss, S, attrs, i, nss, H) ==
  IF i > Len(attrs) THEN S ELSE ExecSetAttrs(ss, ExecAttribute(ss, S, attrs[i], nss, H), attrs, i + 1, nss, H)
(* ElemUse / ElemAttributeSet: the sets named, each preceded by the sets it uses *)
ExecSets(ss, S, names, i) ==
  IF i > Len(names) THEN S
  ELSE LET s   == SetNamed(ss, names[i])
           nss == <<SsCtx(ss), <<>>>>
           H   == InstrHandler(ss, nss, StylesheetHandler(ss))
       IN ExecSets(ss, ExecSetAttrs(ss, ExecSets(ss, S, s.use, 1), s.attrs, 1, nss, H), names, i + 1)

(* addResultNamespace (fOnlyIfPrefixNotPresent) for one xmlns attribute of a source element: note  *)
(* the second, unconditional addResultNamespaceDecl                                                *)
AddResultNamespace(S, prefix, uri) ==
  IF PresentLocal(S, prefix) THEN S
  ELSE LET dest == NsForPrefix(S, prefix)
       IN IF dest = Null \/ dest # uri THEN AddDecl(AddNsAttr(S, prefix, uri), prefix, uri) ELSE S
(* copyNamespaceAttributes: the element and its ancestors, innermost first, each xmlns attribute   *)
(* NAME once.  chain = <<declarations of the node, of its parent, ...>>; the document element of   *)
(* the native source tree carries an extra xmlns:xml attribute in front                            *)
RECURSIVE CopyNsLevel(_, _, _, _)
CopyNsLevel(S, decls, i, visited) ==
  IF i > Len(decls) THEN [S |-> S, visited |-> visited]
  ELSE IF decls[i][1] \in visited THEN CopyNsLevel(S, decls, i + 1, visited)
       ELSE CopyNsLevel(AddResultNamespace(S, decls[i][1], decls[i][2]), decls, i + 1, visited \cup {decls[i][1]})
RECURSIVE CopyNamespaceAttributes(_, _, _, _)
CopyNamespaceAttributes(S, chain, i, visited) ==
  IF i > Len(chain) THEN S
  ELSE LET r == CopyNsLevel(S, chain[i], 1, visited) IN CopyNamespaceAttributes(r.S, chain, i + 1, r.visited)
DocDecls(src) == <<<<"xml", XMLNS>>>> \o src.nsd

(* checkDefaultNamespace *)
CheckDefaultNamespace(S, p, u) ==
  IF p # "" THEN S
  ELSE LET cur == NsForPrefix(S, "") IN IF cur # Null /\ u # cur THEN AddNsAttr(S, "", u) ELSE S

(* xsl:copy-of of an element: cloneToResultTree for the element and every descendant element *)
RECURSIVE CopyAttrsToList(_, _, _)
CopyAttrsToList(S, e, i) ==     \* copyAttributesToAttList: namespace "nodes" first, then the attributes, each through addResultAttribute
  LET n == Len(e.nsd) IN
  IF i > n + Len(e.a) THEN S
  ELSE CopyAttrsToList(IF i <= n THEN AddNsAttr(S, e.nsd[i][1], e.nsd[i][2])
                       ELSE AddResultAttr(S, e.a[i - n].p, e.a[i - n].l, e.a[i - n].v, FALSE), e, i + 1)
RECURSIVE CloneDeep(_, _, _)
RECURSIVE CloneKids(_, _, _, _, _)
CloneDeep(S, e, chain) ==
  LET ch == <<e.nsd>> \o chain
      S1 == StartElement(S, e.p, e.l)
      S2 == CopyAttrsToList(S1, e, 1)
      S3 == CopyNamespaceAttributes(S2, ch, 1, {})
      S4 == CheckDefaultNamespace(S3, e.p, e.u)
      r  == CloneKids(S4, e.c, 1, ch, <<>>)
  IN [S |-> EndElement(r.S), node |-> [p |-> e.p, l |-> e.l, a |-> S4.pa, c |-> r.kids]]
CloneKids(S, kids, i, chain, acc) ==
  IF i > Len(kids) THEN [S |-> S, kids |-> acc]
  ELSE LET r == CloneDeep(S, kids[i], chain) IN CloneKids(r.S, kids, i + 1, chain, Append(acc, r.node))

(* fixupDefaultNamespace of xsl:element *)
FixupDefaultNamespace(ss, Sin, H, nss) ==
  LET own == GetNamespace(H, "")
      S   == NsTag(ss, Sin, own, LookupNss(nss, ""), FALSE)
      cur == NsForPrefix(S, "")
  IN IF cur # Null THEN IF own = Null THEN AddNsAttr(S, "", "") ELSE IF cur # own THEN AddNsAttr(S, "", own) ELSE S
     ELSE IF own # Null THEN AddNsAttr(S, "", own) ELSE S

RECURSIVE ExecBody(_, _, _, _, _, _, _, _, _)
RECURSIVE ExecElem(_, _, _, _, _, _)

(* children of a result element: attribute instructions work on the pending start tag, the first   *)
(* child element flushes it (fr = <<the attribute list as flushed>>, <<>> while still pending)     *)
ExecBody(ss, src, S, body, i, nss, H, kids, fr) ==
  IF i > Len(body) THEN [S |-> S, kids |-> kids, attrs |-> IF fr = <<>> THEN S.pa ELSE fr[1]]
  ELSE LET ins == body[i] IN
    IF ins.i = "attribute" THEN ExecBody(ss, src, ExecAttribute(ss, S, ins, nss, H), body, i + 1, nss, H, kids, fr)
    ELSE IF ins.i \in {"copyattr", "copy-of-attr"}
      THEN ExecBody(ss, src, ExecCopyAttr(S, src.kids[ins.node].a[ins.a]), body, i + 1, nss, H, kids, fr)
    ELSE LET r == ExecElem(ss, src, S, ins, nss, H)
         IN ExecBody(ss, src, r.S, body, i + 1, nss, H, Append(kids, r.node), IF fr = <<>> THEN <<S.pa>> ELSE fr)

(* ElemLiteralResult::evaluateAVTs: the attributes of the element that are neither namespace       *)
(* declarations (xmlns, xmlns:p) nor in the XSLT namespace                                         *)
(* (the attribute sets run BEFORE the element's own attributes are added; since xsl:attribute no   *)
(* longer re-declares a prefix that is bound to another namespace, the prefixes of the literal      *)
(* attributes still resolve as outputResultNamespaces left them)                                   *)
RECURSIVE LreAttrs(_, _, _, _, _)
LreAttrs(ss, S, attrs, i, nss) ==
  IF i > Len(attrs) THEN S
  ELSE LET a == attrs[i]
       IN LreAttrs(ss, AddResultAttr(S, a.p, a.l, a.v, FALSE), attrs, i + 1, nss)

ExecElem(ss, src, S, ins, nss0, parH) ==
  CASE ins.i = "lre" ->
    LET nss == Append(nss0, ins.nsd)
        H   == PostConstruction(ss, ExclAttr(HandlerCtor(nss), nss, ins.excl, 1), parH.excl, ins.p,
                                {ins.attrs[k].p : k \in 1..Len(ins.attrs)} \ {""}, TRUE)
        ex2 == S.ex \cup ExclURIs(Flat(nss), ins.excl)
        (* the excluded list is keyed by prefix: a URI excluded further out is forgotten once its prefix is *)
        (* excluded again with another URI, so a declaration XSLT excludes can survive                      *)
        kept == \E k \in 1..Len(H.decls) : /\ H.decls[k][1] # ins.p /\ H.decls[k][1] \notin ({ins.attrs[j].p : j \in 1..Len(ins.attrs)} \ {""})
                                           /\ LookupNss(nss, H.decls[k][1]) \in ex2
        S1  == StartElement([(IF kept THEN Tag(S, "staleExcludedPrefix") ELSE S) EXCEPT !.ex = ex2], ins.p, ins.l)
        S2  == OutputResultNamespaces(S1, H.decls, 1)
        S3  == IF ins.p # "" THEN S2
               ELSE LET cur == NsForPrefix(S2, "")
                        own == GetNamespace(H, "")
                        S2t == NsTag(ss, S2, own, LookupNss(nss, ""), TRUE)
                    IN IF cur = Null THEN S2 ELSE IF own = Null THEN AddNsAttr(S2t, "", "") ELSE IF cur # own THEN AddNsAttr(S2t, "", own) ELSE S2
        S4  == ExecSets(ss, S3, ins.uas, 1)
        S5  == LreAttrs(ss, S4, ins.attrs, 1, nss)
        r   == ExecBody(ss, src, S5, ins.body, 1, nss, H, <<>>, <<>>)
    IN [S |-> [EndElement(r.S) EXCEPT !.ex = S.ex], node |-> [p |-> ins.p, l |-> ins.l, a |-> r.attrs, c |-> r.kids]]
  [] ins.i = "element" ->
    LET nss  == Append(nss0, ins.nsd)
        H    == PostConstruction(ss, HandlerCtor(nss), parH.excl, "xsl", {}, FALSE)
        p    == ins.p
        ns0  == IF ins.hasNs THEN ins.ns ELSE ""
        own  == IF p = "" THEN Null ELSE GetNamespace(H, p)
        strip == \/ p # "" /\ own = Null /\ ns0 = "" /\ ins.hasNs              \* undeclared prefix, empty namespace: generated without the prefix
                 \/ p = "xmlns" /\ ns0 # ""                                   \* xmlns cannot be declared: no prefix, requested namespace
                 \/ p \notin {"", "xmlns"} /\ own # Null /\ ins.hasNs /\ ns0 = ""  \* empty namespace attribute: no namespace, so no prefix
        ns   == IF p # "" /\ own # Null /\ ~ins.hasNs /\ p # "xmlns" THEN own ELSE ns0
        np   == IF strip THEN "" ELSE p
        S0a  == IF p # "" /\ ~ins.hasNs THEN NsTag(ss, S, own, LookupNss(nss, p), FALSE) ELSE S
        S1   == StartElement(S0a, np, ins.l)
        S2   == IF ~ins.hasNs /\ np = "" THEN FixupDefaultNamespace(ss, S1, H, nss)
                ELSE IF np = "" THEN
                       IF ns # "" THEN LET d == NsForPrefix(S1, "") IN IF d = Null \/ d # ns THEN AddNsAttr(S1, "", ns) ELSE S1
                       ELSE LET pd == GetNamespace(parH, "")
                            IN IF (pd # Null /\ pd # "") \/ NsForPrefix(S1, "") # Null THEN AddNsAttr(S1, "", "") ELSE S1
                ELSE LET t == NsForPrefix(S1, np) IN IF t = Null \/ t # ns THEN AddNsAttr(S1, np, ns) ELSE S1
        S3   == ExecSets(ss, S2, ins.uas, 1)
        r    == ExecBody(ss, src, S3, ins.body, 1, nss, H, <<>>, <<>>)
    IN [S |-> EndElement(r.S), node |-> [p |-> np, l |-> ins.l, a |-> r.attrs, c |-> r.kids]]
  [] ins.i = "copy" ->
    (* <xsl:for-each select="/*/*[k]"><xsl:copy> *)
    LET e    == src.kids[ins.node]
        nssF == Append(nss0, <<>>)
        HF   == InstrHandler(ss, nssF, parH)
        nss  == Append(nssF, <<>>)
        H    == InstrHandler(ss, nss, HF)
        S1   == StartElement(S, e.p, e.l)
        S2   == CheckDefaultNamespace(S1, e.p, e.u)
        S3   == CopyNamespaceAttributes(S2, <<e.nsd, DocDecls(src)>>, 1, {})
        S4   == ExecSets(ss, S3, ins.uas, 1)
        r    == ExecBody(ss, src, S4, ins.body, 1, nss, H, <<>>, <<>>)
    IN [S |-> EndElement(r.S), node |-> [p |-> e.p, l |-> e.l, a |-> r.attrs, c |-> r.kids]]
  [] ins.i = "copy-of" ->
    CloneDeep([S EXCEPT !.open = FALSE], src.kids[ins.node], <<DocDecls(src)>>)

(* the template for "/" : xsl:stylesheet > xsl:template > body *)
Run(ss, src) ==
  LET HS  == StylesheetHandler(ss)
      nss == <<SsCtx(ss), <<>>>>
      HT  == InstrHandler(ss, nss, HS)
      r   == ExecBody(ss, src, [S0 EXCEPT !.ex = ExclURIs(ss.nsd, ss.excl)], ss.body, 1, nss, HT, <<>>, <<>>)
  IN [raw |-> r.kids, tags |-> r.S.tags, err |-> r.S.err]

(* ------------------------------------------------------------------------- known deviations *)
(* which fault classes of ResultTree!Faults each KD class can cause; a fault met without a class   *)
(* that explains it is a defect of the algorithm (MC_NsFixup) / of the code (triage in c14.py)     *)
NotWF == {"serialised-result-not-wellformed"}
KDFaults(t) ==
  CASE t = "attrListKeyedByQName"         -> {"duplicate-expanded-attribute-name", "attribute-value", "attribute-name"} \cup NotWF
    [] t = "staleExcludedPrefix"          -> {"element-name", "default-namespace-leak", "attribute-name", "attribute-value", "duplicate-expanded-attribute-name",
                                              "excluded-namespace-declared", "alias-stylesheet-namespace-declared"} \cup NotWF
    [] OTHER -> {}
KDTags == {"staleExcludedPrefix", "attrListKeyedByQName"}
Explained(tags) == UNION {KDFaults(t) : t \in tags}
=============================================================================
