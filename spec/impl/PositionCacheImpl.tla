-------------------------- MODULE PositionCacheImpl --------------------------
(* Transcription of how position() is answered: XPathExecutionContextDefault keeps a stack of context node lists  *)
(* (pushContextNodeList / popContextNodeList) and a ONE-entry cache (node, index) of the last answer of            *)
(* getContextNodeListPosition(node) = indexOf(node) + 1 in the TOP list (0 if absent).  The cache must never        *)
(* answer for another list than the top one: both push and pop clear it.  clearOnPush / clearOnPop switch the        *)
(* two clears off to show what each one is there for.                                                              *)
EXTENDS Naturals, Sequences

NoNode == 0
EmptyCache == [node |-> NoNode, index |-> 0]

IndexOf(list, n) == IF \E i \in 1..Len(list) : list[i] = n THEN CHOOSE i \in 1..Len(list) : list[i] = n /\ \A j \in 1..(i - 1) : list[j] # n ELSE 0

Push(s, list, clearOnPush) == [stack |-> Append(s.stack, list), cache |-> IF clearOnPush THEN EmptyCache ELSE s.cache]
Pop(s, clearOnPop) == [stack |-> SubSeq(s.stack, 1, Len(s.stack) - 1), cache |-> IF clearOnPop THEN EmptyCache ELSE s.cache]

(* getContextNodeListPosition: [state, answer] *)
Position(s, n) ==
  IF s.cache.node = n THEN [s |-> s, pos |-> s.cache.index]
  ELSE LET i == IndexOf(s.stack[Len(s.stack)], n) IN [s |-> [s EXCEPT !.cache = [node |-> n, index |-> i]], pos |-> i]

(* the definition: the position of the node in the current node list *)
Defined(s, n) == IndexOf(s.stack[Len(s.stack)], n)
=============================================================================
