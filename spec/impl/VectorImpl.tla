----------------------------- MODULE VectorImpl -----------------------------
(* Implementation-shaped model of XalanVector (src/xalanc/Include/XalanVector.hpp).               *)
(* A vector is [mem, size, alloc, uaf]: `mem` the allocated block (Len(mem) = alloc = m_allocation), *)
(* cells 1..size hold constructed elements, the cells above are raw storage (RAW: every destroy      *)
(* writes RAW, so "constructed = 1..size" is the construct/destroy balance), `uaf` is set when an     *)
(* operation reads a block it has already deallocated.                                               *)
(* The members are transcribed with the order of their reads and writes, because arguments may        *)
(* refer INTO the vector: a value argument `const value_type&` that is an element of the vector      *)
(* (Alias(i)), or an iterator range inside the vector's own block (Own(f, l); XalanDOMString passes   *)
(* such ranges for s.append(s), s.insert(p, s), s.insert(p, s, q, n)).                                *)
(* Positions and indices are 0-based offsets from begin() as in the C++ code; mem is 1-based.         *)
EXTENDS Containers

RAW == -1

NewVec(n) == [mem |-> Rep(n, RAW), size |-> 0, alloc |-> n, uaf |-> FALSE]    \* XalanVector(mm, initialAllocation)
Elems(V) == SubSeq(V.mem, 1, V.size)

(* ---- argument descriptors *)
Val(v) == [alias |-> FALSE, v |-> v, i |-> 0]            \* a value outside the vector
Alias(i) == [alias |-> TRUE, v |-> 0, i |-> i]            \* a reference to element i of this vector
ReadData(V, d) == IF d.alias THEN V.mem[d.i + 1] ELSE d.v

Ext(s) == [own |-> FALSE, seq |-> s, f |-> 0, l |-> Len(s)]       \* [first, last) outside the vector
Own(f, l) == [own |-> TRUE, seq |-> <<>>, f |-> f, l |-> l]       \* [begin() + f, begin() + l) of this vector
SrcLen(S) == S.l - S.f
ReadSrc(V, S, j) == IF S.own THEN V.mem[S.f + j + 1] ELSE S.seq[j + 1]        \* *(first + j), read NOW

(* ---- construct_back / pop_back on raw storage *)
ConstructBack(V, x) == [V EXCEPT !.mem[V.size + 1] = x, !.size = @ + 1]
PopBack(V) == [V EXCEPT !.mem[V.size] = RAW, !.size = @ - 1]
RECURSIVE ShrinkTo(_, _)
ShrinkTo(V, n) == IF V.size > n THEN ShrinkTo(PopBack(V), n) ELSE V

(* copy constructor XalanVector(theSource, mm, theInitialAllocation) *)
CopyVec(V, initAlloc) ==
  IF V.size > 0
  THEN LET a == CMax(V.size, initAlloc)
       IN [mem |-> Elems(V) \o Rep(a - V.size, RAW), size |-> V.size, alloc |-> a, uaf |-> V.uaf]
  ELSE [NewVec(initAlloc) EXCEPT !.uaf = V.uaf]

(* doReserve(theSize): a temporary copy with that allocation is swapped in, the old block is freed *)
DoReserve(V, n) == CopyVec(V, n)
Reserve(V, n) == IF n > V.alloc THEN DoReserve(V, n) ELSE V

(* doPushBack(data): data is read before the old block goes away (grow copies first, pushes, swaps) *)
GrowSize(n) == (16 * n + 5) \div 10                       \* size_type((m_size * 1.6) + 0.5)
DoPushBack(V, x) ==
  IF V.size < V.alloc THEN ConstructBack(V, x)
  ELSE IF V.size = 0 THEN ConstructBack([V EXCEPT !.mem = <<RAW>>, !.alloc = 1], x)            \* init()
  ELSE ConstructBack(CopyVec(V, GrowSize(V.size)), x)                                           \* grow()
PushBack(V, d) == DoPushBack(V, ReadData(V, d))

RECURSIVE PushAll(_, _)
PushAll(V, s) == IF s = <<>> THEN V ELSE PushAll(DoPushBack(V, Head(s)), Tail(s))
FromSeq(s) == PushAll(NewVec(0), s)                        \* a vector filled by push_back (the harness' temporaries)

(* std::copy / std::copy_backward / std::fill inside the block.  For trivially copyable element     *)
(* types std::copy is memmove (all reads before all writes); otherwise it assigns front to back.      *)
RECURSIVE CopyFwd(_, _, _, _)
CopyFwd(m, src, dst, cnt) ==                               \* 1-based cell numbers
  IF cnt = 0 THEN m ELSE CopyFwd([m EXCEPT ![dst] = m[src]], src + 1, dst + 1, cnt - 1)
MemMove(m, src, dst, cnt) == [c \in 1..Len(m) |-> IF c >= dst /\ c < dst + cnt THEN m[src + (c - dst)] ELSE m[c]]
CopyWithin(m, src, dst, cnt, trivial) == IF trivial THEN MemMove(m, src, dst, cnt) ELSE CopyFwd(m, src, dst, cnt)
RECURSIVE CopyBwd(_, _, _, _)
CopyBwd(m, srcLast, dstLast, cnt) ==                       \* copy_backward: last element first
  IF cnt = 0 THEN m ELSE CopyBwd([m EXCEPT ![dstLast] = m[srcLast]], srcLast - 1, dstLast - 1, cnt - 1)
RECURSIVE FillFwd(_, _, _, _)
FillFwd(V, dst, cnt, d) ==                                 \* std::fill(first, first + cnt, theData): theData re-read each time
  IF cnt = 0 THEN V ELSE FillFwd([V EXCEPT !.mem[dst] = ReadData(V, d)], dst + 1, cnt - 1, d)

RECURSIVE PushSrc(_, _, _, _)
PushSrc(V, S, j, toJ) ==                                   \* doPushBack(first[j]) for j in [j, toJ)
  IF j >= toJ THEN V ELSE PushSrc(DoPushBack(V, ReadSrc(V, S, j)), S, j + 1, toJ)
RECURSIVE PushCells(_, _, _)
PushCells(V, c, toC) ==                                    \* doPushBack(m_data[c]) for 0-based c in [c, toC)
  IF c >= toC THEN V ELSE PushCells(DoPushBack(V, V.mem[c + 1]), c + 1, toC)
RECURSIVE PutSrc(_, _, _, _, _)
PutSrc(V, S, j, toJ, dst) ==                               \* external source assigned front to back onto cells dst..
  IF j >= toJ THEN V ELSE PutSrc([V EXCEPT !.mem[dst] = S.seq[j + 1]], S, j + 1, toJ, dst + 1)

(* copy(first + a, first + b, position dst) where the source may be the block itself *)
CopySrc(V, S, a, b, dst, trivial) ==
  IF S.own THEN [V EXCEPT !.mem = CopyWithin(@, S.f + a + 1, dst + 1, b - a, trivial)]
  ELSE PutSrc(V, S, a, b, dst + 1)

(* ---- insert(thePosition, theFirst, theLast) *)
InsertRange(V, pos, S, trivial) ==
  LET n == SrcLen(S)
      total == V.size + n
  IN IF n = 0 THEN V
     ELSE IF pos = V.size                                  \* thePosition == end()
     THEN LET vals == [j \in 1..n |-> ReadSrc(V, S, j - 1)]
              V1 == IF total > V.alloc                     \* ensureCapacity: the block moves, an Own range dangles
                    THEN [DoReserve(V, total) EXCEPT !.uaf = V.uaf \/ S.own] ELSE V
          IN [V1 EXCEPT !.mem = SubSeq(@, 1, V.size) \o vals \o SubSeq(@, total + 1, Len(@)), !.size = total]
     ELSE IF total > V.alloc                               \* build a temporary of the total size, swap
     THEN LET vals == [j \in 1..n |-> ReadSrc(V, S, j - 1)]
          IN [mem |-> SubSeq(V.mem, 1, pos) \o vals \o SubSeq(V.mem, pos + 1, V.size), size |-> total, alloc |-> total, uaf |-> V.uaf]
     ELSE LET origSize == V.size
              rs == origSize - pos                          \* theRightSplitSize
          IN IF rs <= n
             THEN LET V1 == PushSrc(V, S, rs, n)            \* the part of the range that lands beyond the old end
                      V2 == PushCells(V1, pos, origSize)    \* the old right part
                  IN CopySrc(V2, S, 0, rs, pos, trivial)    \* the rest of the range over the old right part
             ELSE LET V1 == PushCells(V, origSize - n, origSize)
                      V2 == [V1 EXCEPT !.mem = CopyBwd(@, origSize - n, origSize, rs - n)]
                  IN CopySrc(V2, S, 0, n, pos, trivial)

(* ---- insert(thePosition, theCount, theData) *)
RECURSIVE PushData(_, _, _)
PushData(V, cnt, d) == IF cnt = 0 THEN V ELSE PushData(DoPushBack(V, ReadData(V, d)), cnt - 1, d)

InsertN(V, pos, cnt, d) ==
  LET total == V.size + cnt IN
  IF cnt # 0 /\ V.size # 0 /\ d.alias                      \* theData is one of our own elements (repair 62035e7):
  THEN [mem |-> SubSeq(V.mem, 1, pos) \o Rep(cnt, ReadData(V, d)) \o SubSeq(V.mem, pos + 1, V.size),   \* the result is built in a
        size |-> total, alloc |-> total, uaf |-> V.uaf]                                                 \* temporary of the total size
  ELSE IF pos = V.size
  THEN LET V1 == IF total > V.alloc                        \* ensureCapacity first, theData read afterwards
                 THEN [DoReserve(V, total) EXCEPT !.uaf = V.uaf \/ (d.alias /\ cnt > 0)] ELSE V
           x == ReadData(V, d)                              \* (the stale value, when the block has moved)
       IN [V1 EXCEPT !.mem = SubSeq(@, 1, V.size) \o Rep(cnt, x) \o SubSeq(@, total + 1, Len(@)), !.size = total]
  ELSE IF total > V.alloc
  THEN [mem |-> SubSeq(V.mem, 1, pos) \o Rep(cnt, ReadData(V, d)) \o SubSeq(V.mem, pos + 1, V.size),
        size |-> total, alloc |-> total, uaf |-> V.uaf]
  ELSE LET origSize == V.size
           rs == origSize - pos
       IN IF rs <= cnt
          THEN LET V1 == PushData(V, cnt - rs, d)
                   V2 == PushCells(V1, pos, origSize)
               IN FillFwd(V2, pos + 1, rs, d)
          ELSE LET V1 == PushCells(V, origSize - cnt, origSize)
                   V2 == [V1 EXCEPT !.mem = CopyBwd(@, origSize - cnt, origSize, rs - cnt)]
               IN FillFwd(V2, pos + 1, cnt, d)             \* theData is read AFTER the elements have moved

(* ---- erase(theFirst, theLast): copy the tail down, pop the surplus *)
EraseRange(V, f, l) ==
  IF f = l THEN V
  ELSE ShrinkTo([V EXCEPT !.mem = CopyFwd(@, l + 1, f + 1, V.size - l)], V.size - (l - f))

(* ---- resize(theSize, theValue) *)
Resize(V, n, d) ==
  IF V.size > n THEN ShrinkTo(V, n)
  ELSE IF V.size < n /\ n > V.alloc /\ V.size # 0 /\ d.alias      \* theValue is an own element and the block must move
  THEN LET x == ReadData(V, d)                                    \* (repair d40be26): a copy with the new allocation is
           T == CopyVec(V, n)                                     \* filled while the element is still in place, then swapped
       IN [T EXCEPT !.mem = SubSeq(@, 1, V.size) \o Rep(n - V.size, x) \o SubSeq(@, n + 1, Len(@)), !.size = n]
  ELSE IF V.size < n
  THEN LET V1 == IF n > V.alloc THEN [DoReserve(V, n) EXCEPT !.uaf = V.uaf \/ d.alias] ELSE V     \* reserve(theSize) up-front
           x == ReadData(V, d)
       IN [V1 EXCEPT !.mem = SubSeq(@, 1, V.size) \o Rep(n - V.size, x) \o SubSeq(@, n + 1, Len(@)), !.size = n]
  ELSE V

Clear(V) == ShrinkTo(V, 0)

(* ---- operator=(theRHS), theRHS another vector with elements r *)
AssignFrom(V, r) ==
  IF V.alloc < Len(r) THEN [mem |-> r, size |-> Len(r), alloc |-> Len(r), uaf |-> V.uaf]      \* copy and swap
  ELSE LET keep == CMin(V.size, Len(r))
           V1 == IF V.size > Len(r) THEN ShrinkTo(V, Len(r))
                 ELSE IF V.size < Len(r) THEN InsertRange(V, V.size, Ext(SubSeq(r, V.size + 1, Len(r))), FALSE)
                 ELSE V
       IN [V1 EXCEPT !.mem = SubSeq(r, 1, keep) \o SubSeq(@, keep + 1, Len(@))]

(* ---- assign(theFirst, theLast): clear(); insert(begin(), theFirst, theLast) *)
AssignRange(V, S, trivial) == InsertRange(Clear(V), 0, S, trivial)

(* ---- dispatcher with the op vocabulary of Containers!VecApply; returns [v, res, other] *)
VR(v, res, other) == [v |-> v, res |-> res, other |-> other]
ImplApply(V, op) ==
  CASE op.op = "pushBack"     -> VR(PushBack(V, Val(op.v)), 0, <<>>)
    [] op.op = "pushBackSelf" -> VR(PushBack(V, Alias(op.i)), 0, <<>>)
    [] op.op = "popBack"      -> VR(PopBack(V), 0, <<>>)
    [] op.op = "insert"       -> VR(InsertN(V, op.pos, 1, Val(op.v)), op.pos, <<>>)
    [] op.op = "insertN"      -> VR(InsertN(V, op.pos, op.n, Val(op.v)), 0, <<>>)
    [] op.op = "insertRange"  -> VR(InsertRange(V, op.pos, Ext(op.src), FALSE), 0, <<>>)
    [] op.op = "insertSelf"   -> VR(InsertN(V, op.pos, op.n, Alias(op.i)), 0, <<>>)
    [] op.op = "erase"        -> VR(EraseRange(V, op.pos, op.pos + 1), op.pos, <<>>)
    [] op.op = "eraseRange"   -> VR(EraseRange(V, op.first, op.last), op.first, <<>>)
    [] op.op = "resize"       -> VR(Resize(V, op.n, Val(VecDefault)), 0, <<>>)
    [] op.op = "resizeV"      -> VR(Resize(V, op.n, Val(op.v)), 0, <<>>)
    [] op.op = "resizeSelf"   -> VR(Resize(V, op.n, Alias(op.i)), 0, <<>>)
    [] op.op = "reserve"      -> VR(Reserve(V, op.n), 0, <<>>)
    [] op.op = "clear"        -> VR(Clear(V), 0, <<>>)
    [] op.op = "swap"         -> VR(FromSeq(op.src), 0, Elems(V))
    [] op.op = "assign"       -> VR(AssignFrom(V, op.src), 0, <<>>)
    [] op.op = "selfAssign"   -> VR(V, 0, <<>>)
    [] op.op = "assignRange"  -> VR(AssignRange(V, Ext(op.src), FALSE), 0, <<>>)
    [] op.op = "copy"         -> VR(V, 0, Elems(CopyVec(V, 0)))
    [] op.op = "at"           -> VR(V, IF op.i >= V.size THEN NoValue ELSE V.mem[op.i + 1], <<>>)
    [] op.op = "cmp"          -> VR(V, VecCmp(Elems(V), op.src), <<>>)

(* ---- structure: allocation covers the size; exactly the cells 1..size are constructed *)
WellFormed(V) ==
  /\ Len(V.mem) = V.alloc /\ V.size <= V.alloc
  /\ \A c \in 1..V.alloc : (V.mem[c] = RAW) = (c > V.size)

(* ---- repaired paths --------------------------------------------------------------------------- *)
(* Until the fix: commits 62035e7 / d40be26 these calls deviated from std::vector (known_findings keys *)
(* vector-insert-value-aliases-element, vector-resize-value-aliases-element, now "fixed"): theData was   *)
(* read after the elements had been shifted or after the old block had been freed.  The predicate only  *)
(* marks the transitions that run through the repaired code, so that all of them are replayed on the     *)
(* real class; the refinement has no exclusions.                                                         *)
(* (the inputs on which the unrepaired code deviated: in-place insertion with i at or after pos + n and *)
(* a different value there, appending with reallocation, resize with reallocation)                      *)
RP_InsertAlias(V, pos, cnt, i) ==
  LET total == V.size + cnt IN
  /\ cnt > 0
  /\ \/ pos = V.size /\ total > V.alloc
     \/ pos < V.size /\ total <= V.alloc /\ V.size - pos > cnt /\ i >= pos + cnt /\ V.mem[i + 1] # V.mem[i + 1 - cnt]
RP_ResizeAlias(V, n) == n > V.size /\ n > V.alloc

RepairedPath(V, op) ==
  CASE op.op = "insertSelf" -> RP_InsertAlias(V, op.pos, op.n, op.i)
    [] op.op = "resizeSelf" -> RP_ResizeAlias(V, op.n)
    [] OTHER -> FALSE
=============================================================================
