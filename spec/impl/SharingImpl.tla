----------------------------- MODULE SharingImpl -----------------------------
(* Implementation-shaped instance of the sharing protocol: the objects Xalan-C++ really shares    *)
(* and the way its code really touches them.                                                       *)
(*                                                                                                *)
(*   stylesheet  StylesheetRoot / Stylesheet / Elem* / XPath: everything is built by               *)
(*               postConstruction; execute() is const and works on the caller's execution context  *)
(*   source      XalanSourceTreeDocument: the node arrays are complete when parsing ends.  The     *)
(*               element-by-ID index is a XalanMap whose bucket list is a XalanList; XalanList     *)
(*               allocates its sentinel node lazily inside begin()/end() (getListHead, a           *)
(*               const_cast), and XalanMap::find() const calls end().  A document WITH ID          *)
(*               attributes has created the sentinel while parsing (HasIds); a document WITHOUT    *)
(*               them creates it inside the first getElementById() of a transformation - a store   *)
(*               into the shared document, without a lock                                          *)
(*   wrapper     XercesDocumentWrapper: wrapper nodes are built with the document (thread-safe /   *)
(*               build-wrapper mode, PrebuiltWrapper) or on demand while navigating                 *)
(*   pool        the wrapper's string pool interns node names/values on demand; in thread-safe     *)
(*               mode it is a XercesLiaisonXalanDOMStringPool whose get() takes an XMLMutex         *)
(*               (PoolLocked), otherwise a plain XalanDOMStringPool                                 *)
(*                                                                                                *)
(*   statics     the library's own static data (.data/.bss of libxalan-c): shared by all threads   *)
(*               whatever they share on purpose.  StaticScratch models a function-local `static`     *)
(*               scratch buffer (e.g. the digit buffer of xsl:number's alphabetic formatter made     *)
(*               static): every use fills it and then reads it back                                  *)
(*                                                                                                *)
(* A lazy field is used the way the code does it: [lock] - look - if missing: build it with        *)
(* several stores (torn in between) - use - [unlock].                                              *)
EXTENDS Naturals, Sequences, FiniteSets

CONSTANTS Threads, SourceKind, HasIds, PrebuiltWrapper, PoolLocked, StaticScratch, MaxRuns

VARIABLES s, loc

NoLockV  == "nolock"
XLocks   == {"poolMutex"}
XObjects == (IF SourceKind = "native" THEN {"stylesheet", "source"} ELSE {"stylesheet", "wrapper", "pool"})
            \cup (IF StaticScratch THEN {"statics"} ELSE {})
XFieldsOf(o) == CASE o = "stylesheet" -> {"templates", "xpaths"}
                  [] o = "source"     -> {"nodes", "idIndexHead"}
                  [] o = "wrapper"    -> {"wnodes"}
                  [] o = "pool"       -> {"strings"}
                  [] o = "statics"    -> {"numberBuf"}
XTag(o, f) == CASE o = "stylesheet" -> "eager"
                [] o = "source" /\ f = "nodes" -> "eager"
                [] o = "source" /\ f = "idIndexHead" -> (IF HasIds THEN "eager" ELSE "lazy")
                [] o = "wrapper" -> (IF PrebuiltWrapper THEN "eager" ELSE "lazy")
                [] o = "pool" -> "lazy"
                [] o = "statics" -> "scratch"
XGuard(o, f) == IF o = "pool" /\ PoolLocked THEN "poolMutex" ELSE NoLockV

S == INSTANCE Sharing WITH Objects <- XObjects, FieldsOf <- XFieldsOf, Tag <- XTag, Guard <- XGuard,
                           Locks <- XLocks, NoLock <- NoLockV

(* what one transformation touches, in program order *)
UseOrder == (IF SourceKind = "native"
             THEN << <<"stylesheet", "templates">>, <<"stylesheet", "xpaths">>, <<"source", "nodes">>, <<"source", "idIndexHead">> >>
             ELSE << <<"stylesheet", "templates">>, <<"stylesheet", "xpaths">>, <<"wrapper", "wnodes">>, <<"pool", "strings">> >>)
            \o (IF StaticScratch THEN << <<"statics", "numberBuf">> >> ELSE << >>)
Uses == {UseOrder[i] : i \in 1..Len(UseOrder)}

Idle == [pos |-> 0, ph |-> "idle"]
vars == <<s, loc>>

Init == s = S!SInit /\ loc = [t \in Threads |-> Idle]

(* ---- the owner of transformer A ---- *)
Build(o)  == S!PreBuild(s, o) /\ s' = S!DoBuild(s, o) /\ UNCHANGED loc
Freeze(o) == S!PreFreeze(s, o) /\ s.built = XObjects /\ s' = S!DoFreeze(s, o) /\ UNCHANGED loc

(* ---- a worker ---- *)
Cur(t)    == UseOrder[loc[t].pos]
Active(t) == loc[t].ph # "idle" /\ loc[t].pos <= Len(UseOrder)
Advance(t) == loc' = [loc EXCEPT ![t] = [pos |-> loc[t].pos + 1, ph |-> "pick"]]
Phase(t, p) == loc' = [loc EXCEPT ![t].ph = p]
Guarded(of) == XGuard(of[1], of[2]) # NoLockV
Lazy(of)    == XTag(of[1], of[2]) = "lazy"
Scratch(of) == XTag(of[1], of[2]) = "scratch"

Start(t) == /\ S!PreStart(s, t) /\ s.runs[t] < MaxRuns
            /\ s' = S!DoStart(s, t)
            /\ loc' = [loc EXCEPT ![t] = [pos |-> 1, ph |-> "pick"]]

ReadEager(t) == /\ Active(t) /\ loc[t].ph = "pick" /\ ~Lazy(Cur(t)) /\ ~Scratch(Cur(t))
                /\ S!PreRead(s, t, Cur(t)[1], Cur(t)[2])
                /\ s' = S!DoRead(s, t, Cur(t)[1], Cur(t)[2])
                /\ Advance(t)

Acquire(t) == /\ Active(t) /\ loc[t].ph = "pick" /\ Lazy(Cur(t)) /\ Guarded(Cur(t))
              /\ S!PreLock(s, t, XGuard(Cur(t)[1], Cur(t)[2]))
              /\ s' = S!DoLock(s, t, XGuard(Cur(t)[1], Cur(t)[2]))
              /\ Phase(t, "chk")

(* look whether the lazy value is there *)
Check(t) == /\ Active(t) /\ Lazy(Cur(t))
            /\ \/ loc[t].ph = "chk"
               \/ loc[t].ph = "pick" /\ ~Guarded(Cur(t))
            /\ S!PreRead(s, t, Cur(t)[1], Cur(t)[2])
            /\ s' = S!DoRead(s, t, Cur(t)[1], Cur(t)[2])
            /\ IF s.val[Cur(t)] = "none" THEN Phase(t, "wr1")
               ELSE IF Guarded(Cur(t)) THEN Phase(t, "rel") ELSE Advance(t)

(* a scratch buffer is filled by every use, whatever is in it *)
WriteBegin(t) == /\ Active(t) /\ (loc[t].ph = "wr1" \/ (loc[t].ph = "pick" /\ Scratch(Cur(t))))
                 /\ S!PreWrite(s, t, Cur(t)[1], Cur(t)[2])
                 /\ s' = S!DoWrite(s, t, Cur(t)[1], Cur(t)[2], "torn")
                 /\ Phase(t, "wr2")

WriteEnd(t) == /\ Active(t) /\ loc[t].ph = "wr2"
               /\ S!PreWrite(s, t, Cur(t)[1], Cur(t)[2])
               /\ IF Scratch(Cur(t))
                  THEN s' = S!DoWrite(s, t, Cur(t)[1], Cur(t)[2], "ok") /\ Phase(t, "use")
                  ELSE /\ s' = S!DoRead(S!DoWrite(s, t, Cur(t)[1], Cur(t)[2], "ok"), t, Cur(t)[1], Cur(t)[2])
                       /\ IF Guarded(Cur(t)) THEN Phase(t, "rel") ELSE Advance(t)

(* ... and read back afterwards (the formatter copies the filled part into its result) *)
UseScratch(t) == /\ Active(t) /\ loc[t].ph = "use"
                 /\ S!PreRead(s, t, Cur(t)[1], Cur(t)[2])
                 /\ s' = S!DoRead(s, t, Cur(t)[1], Cur(t)[2])
                 /\ Advance(t)

Release(t) == /\ Active(t) /\ loc[t].ph = "rel"
              /\ S!PreUnlock(s, t, XGuard(Cur(t)[1], Cur(t)[2]))
              /\ s' = S!DoUnlock(s, t, XGuard(Cur(t)[1], Cur(t)[2]))
              /\ Advance(t)

Done(t) == /\ loc[t].ph = "pick" /\ loc[t].pos > Len(UseOrder)
           /\ S!PreDone(s, t)
           /\ s' = S!DoDone(s, t)
           /\ loc' = [loc EXCEPT ![t] = Idle]

Join == S!PreJoin(s) /\ s' = S!DoJoin(s) /\ UNCHANGED loc

Next == \/ \E o \in XObjects : Build(o) \/ Freeze(o)
        \/ \E t \in Threads : Start(t) \/ ReadEager(t) \/ Acquire(t) \/ Check(t) \/ WriteBegin(t)
                                \/ WriteEnd(t) \/ UseScratch(t) \/ Release(t) \/ Done(t)
        \/ Join

Spec == Init /\ [][Next]_vars
=============================================================================
