------------------------- MODULE ObjectFactoryImpl -------------------------
(* Transcription of how XObjectFactoryDefault recycles value objects (src/xalanc/XPath/XObjectFactoryDefault.cpp) and of the        *)
(* conversions the recycled classes cache (XNumber.cpp, XStringBase.cpp / XString.hpp, XNodeSetBase.cpp / XNodeSet.cpp):              *)
(*   createNumber(v)   takes the most recently returned XNumber out of m_xnumberCache and set()s it: m_value = v, the cached          *)
(*                     string is cleared; str() fills the cached string when it is empty                                               *)
(*   createString(s)   the same with m_xstringCache; XString::set assigns the string and puts the cached NUMBER back to 0.0,           *)
(*                     which num() reads as "not computed yet" (so a string whose number is 0 is converted every time)                 *)
(*   createNodeSet(l)  the same with m_xnodesetCache; XNodeSet::set releases the old list and clears both cached values: the           *)
(*                     number goes back to the marker 123456789 ("not computed"), the string to empty ("not computed": the string      *)
(*                     of an empty node-set is computed every time); num() is the number of str()                                      *)
(*   returnObject(o)   puts the object into the cache of its class while that has fewer than 40 entries (a node-set is released       *)
(*                     first), otherwise the object is destroyed;  reset() empties the caches and destroys every object               *)
(* Numbers and strings are the tokens of ValueObjects; Marker is the token of the number 123456789, Zero the token of 0.0.             *)
(* The two switches re-create seeded defects (both found realistic by independent reviewers): the refinement must fail with them.     *)
EXTENDS ValueObjects

CONSTANTS Marker, Zero, EmptyStr, CacheMax,
          KeepNumberWithoutString,     \* clearCachedValues() only when a string is cached
          SkipSetOfEqualNumber,        \* createNumber() leaves a recycled object alone when its old value compares equal
          SameNumber(_, _)             \* IEEE ==  (Zero and the token of -0 are the same; the NaN token is not the same as itself)

(* objects: [id -> [k, val, cstr, cnum]] ; caches: [num, str, ns -> sequence of ids] ; next: fresh ids *)
New == [obj |-> <<>>, cache |-> [num |-> <<>>, str |-> <<>>, ns |-> <<>>], next |-> 1]

(* ghosts (no operation reads them): asked = the conversions this life of the object was asked for, prev = value and `asked` of its     *)
(* previous life - they keep "recycled after having cached X" apart from "new" in the state graph, so that each has its own history     *)
NoPrev == [val |-> "-", asked |-> {}]
Fresh(kind, val) == CASE kind = "num" -> [k |-> "num", val |-> val, cstr |-> EmptyStr, cnum |-> Zero, asked |-> {}, prev |-> NoPrev]
                      [] kind = "str" -> [k |-> "str", val |-> val, cstr |-> EmptyStr, cnum |-> Zero, asked |-> {}, prev |-> NoPrev]
                      [] kind = "ns"  -> [k |-> "ns",  val |-> val, cstr |-> EmptyStr, cnum |-> Marker, asked |-> {}, prev |-> NoPrev]
Reborn(x, y) == [y EXCEPT !.prev = [val |-> x.val, asked |-> x.asked], !.asked = {}]

(* set() of the three classes on a recycled object x *)
SetTo(x, kind, val) ==
  CASE kind = "num" -> IF SkipSetOfEqualNumber /\ SameNumber(x.val, val) THEN x ELSE [x EXCEPT !.val = val, !.cstr = EmptyStr]
    [] kind = "str" -> [x EXCEPT !.val = val, !.cnum = Zero]
    [] kind = "ns"  -> [x EXCEPT !.val = val]                     \* (the cached values were cleared by release(), see Return)

Create(F, kind, val) ==         \* -> [f, id]
  IF F.cache[kind] # <<>>
  THEN LET id == F.cache[kind][Len(F.cache[kind])] IN
       [f |-> [F EXCEPT !.cache[kind] = SubSeq(@, 1, Len(@) - 1), !.obj[id] = Reborn(@, SetTo(@, kind, val))], id |-> id]
  ELSE [f |-> [F EXCEPT !.obj = [i \in DOMAIN F.obj \cup {F.next} |-> IF i = F.next THEN Fresh(kind, val) ELSE F.obj[i]], !.next = @ + 1], id |-> F.next]

ClearCached(x) == IF KeepNumberWithoutString /\ x.cstr = EmptyStr THEN x ELSE [x EXCEPT !.cnum = Marker, !.cstr = EmptyStr]

Return(F, id) ==
  LET x == F.obj[id]  kind == x.k IN
  IF Len(F.cache[kind]) < CacheMax
  THEN [F EXCEPT !.cache[kind] = Append(@, id), !.obj[id] = IF kind = "ns" THEN ClearCached(x) ELSE x]
  ELSE [F EXCEPT !.obj = [i \in DOMAIN F.obj \ {id} |-> F.obj[i]]]

Reset(F) == [New EXCEPT !.next = F.next]

(* the conversions: [f (the caches they fill), ans] *)
AskStr(F, id) ==
  LET x == F.obj[id] IN
  CASE x.k = "num" -> LET s == IF x.cstr = EmptyStr THEN StrOfNum[x.val] ELSE x.cstr IN [f |-> [F EXCEPT !.obj[id].cstr = s, !.obj[id].asked = @ \cup {"str"}], ans |-> s]
    [] x.k = "str" -> [f |-> [F EXCEPT !.obj[id].asked = @ \cup {"str"}], ans |-> x.val]
    [] x.k = "ns"  -> LET s == IF x.cstr = EmptyStr /\ x.val.n > 0 THEN x.val.first ELSE x.cstr IN [f |-> [F EXCEPT !.obj[id].cstr = s, !.obj[id].asked = @ \cup {"str"}], ans |-> s]
AskNum(F, id) ==
  LET x == F.obj[id] IN
  CASE x.k = "num" -> [f |-> [F EXCEPT !.obj[id].asked = @ \cup {"num"}], ans |-> x.val]
    [] x.k = "str" -> LET n == IF SameNumber(x.cnum, Zero) THEN NumOfStr[x.val] ELSE x.cnum IN [f |-> [F EXCEPT !.obj[id].cnum = n, !.obj[id].asked = @ \cup {"num"}], ans |-> n]
    [] x.k = "ns"  -> IF SameNumber(x.cnum, Marker)
                      THEN LET r == AskStr(F, id)  n == NumOfStr[r.ans] IN [f |-> [r.f EXCEPT !.obj[id].cnum = n, !.obj[id].asked = x.asked \cup {"num"}], ans |-> n]
                      ELSE [f |-> [F EXCEPT !.obj[id].asked = @ \cup {"num"}], ans |-> x.cnum]
AskBool(F, id) ==
  LET x == F.obj[id] IN
  CASE x.k = "num" -> [f |-> F, ans |-> TruthOfNum[x.val]]
    [] x.k = "str" -> [f |-> F, ans |-> x.val # EmptyStr]
    [] x.k = "ns"  -> [f |-> F, ans |-> x.val.n > 0]

(* the value an object stands for, in the vocabulary of ValueObjects *)
ValueOf(x) == CASE x.k = "num" -> NumV(x.val) [] x.k = "str" -> StrV(x.val) [] x.k = "ns" -> NsV(x.val.first, x.val.n)
=============================================================================
