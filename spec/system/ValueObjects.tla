--------------------------- MODULE ValueObjects ---------------------------
(* What a caller may assume about the value objects an XObjectFactory hands out (XPath 4.1 - 4.4 seen at the object level, the     *)
(* object-level reading of C11): an object IS a value, and whatever conversion it is asked for, however often and in whatever      *)
(* order, the answer is the standard conversion of THAT value - whatever the object was before it was recycled.                     *)
(* Values are abstract: numbers are the tokens of Nums, strings the tokens of Strs, a node-set is [first |-> string-value of its     *)
(* first node in document order, n |-> how many nodes]; the conversion tables are constants of the instantiating module (the        *)
(* binding realises the tokens: "B" is the numeral 123456789, "Z" is -0, ...).                                                       *)
EXTENDS Naturals, Sequences, FiniteSets

CONSTANTS Nums, Strs,
          NumOfStr,      \* [Strs -> Nums]        number(string)
          StrOfNum,      \* [Nums -> Strs]        string(number)
          TruthOfNum     \* [Nums -> BOOLEAN]     boolean(number)

NumV(x)  == [k |-> "num", v |-> x]
StrV(s)  == [k |-> "str", v |-> s]
NsV(f, n) == [k |-> "ns", first |-> f, n |-> n]            \* n = 0: first = "" (the empty string token)

AsStr(v)  == CASE v.k = "num" -> StrOfNum[v.v] [] v.k = "str" -> v.v [] v.k = "ns" -> v.first
AsNum(v)  == CASE v.k = "num" -> v.v [] OTHER -> NumOfStr[AsStr(v)]
AsBool(v) == CASE v.k = "num" -> TruthOfNum[v.v] [] v.k = "str" -> v.v # "" [] v.k = "ns" -> v.n > 0

(* the abstract machine: live |-> [object id -> value].  Step(s, ev) for the trace specification *)
Init == [live |-> <<>>]
Has(s, o) == o \in DOMAIN s.live
Answer(v, how) == CASE how = "str" -> [t |-> "str", v |-> AsStr(v)]
                    [] how = "num" -> [t |-> "num", v |-> AsNum(v)]
                    [] how = "bool" -> [t |-> "bool", v |-> AsBool(v)]
=============================================================================
