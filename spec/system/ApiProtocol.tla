---------------------------- MODULE ApiProtocol ----------------------------
(* C03 - the call / return protocol of the public entry points of xalan-c (XalanTransformer, its C API,   *)
(* XPathEvaluator, the XPath C API) under arbitrary input.                                                *)
(*                                                                                                        *)
(* One execution: a driver hands an input of a known CLASS to an entry point of one object (handle) and   *)
(* observes   Call(h, op, cls, d)   Return(h, op, status, msgEmpty)   Probe(h, status, out)               *)
(*            LeakCheck(clean)      Abort(why)                         Exit(normal).                      *)
(* The contract (property C03):                                                                           *)
(*   P1  every Call is followed by its Return: nothing but the matching Return may follow a Call, Abort   *)
(*       (std::terminate, a fatal signal, a sanitizer report, a time-out, an escaped exception, a leak)   *)
(*       is never a step of the protocol, and the finite execution ends Idle with Exit(normal);           *)
(*   P2  a failure is a reported error: status # 0 => the message is not empty (entry points that have a  *)
(*       message channel);                                                                                *)
(*   P3  the status fits the class of the input: 0 for the classes that are well-formed and valid, # 0    *)
(*       for the classes that are not (so neither "fails on everything" nor "accepts everything" passes); *)
(*   P4  the object stays usable: a Probe (a fixed known-good piece of work on the SAME object) after any *)
(*       history returns status 0 and the reference output.                                               *)
(* What this module cannot say: that no byte outside an object was read or written.  The sanitizer build  *)
(* is the observation instrument that turns such an access into an Abort event; the claim is bounded by   *)
(* the inputs executed.                                                                                   *)
EXTENDS Naturals, Sequences, FiniteSets

(* ------------------------------------------------------------------------------------------ handles *)
Handles == {"T", "C", "E", "X"}     \* XalanTransformer, C API transformer, XPathEvaluator, XPath C API evaluator

OpsOf(h) ==
  CASE h = "T" -> {"transformStream", "transformCallback", "transformFile", "transformPrebuilt", "transformParsed",
                   "transformWithParam", "compileStylesheet", "parseSource", "parseSourceXerces", "setStylesheetParam",
                   "clearStylesheetParams", "destroyStylesheet", "destroyParsedSource"}
    [] h = "C" -> {"XalanTransformToData", "XalanTransformToFile", "XalanTransformToHandler", "XalanTransformToDataPrebuilt",
                   "XalanCompileStylesheet", "XalanCompileStylesheetFromStream", "XalanParseSource", "XalanParseSourceFromStream",
                   "XalanSetStylesheetParam", "XalanClearStylesheetParams", "XalanDestroyCompiledStylesheet", "XalanDestroyParsedSource"}
    [] h = "E" -> {"evaluate", "evaluateXPath", "selectNodeList", "selectSingleNode", "createXPath", "destroyXPath",
                   "parseXMLStream", "parseXMLStreamXerces"}
    [] h = "X" -> {"XalanCreateXPath", "XalanEvaluateXPathAsBoolean", "XalanEvaluateXPathExpressionAsBoolean", "XalanDestroyXPath"}
    [] OTHER   -> {}

(* the XPath C API reports a bare code; every other entry point has a message (getLastError / exception text) *)
HasMessageChannel(h) == h # "X"

(* void entry points: the input is only stored, its evaluation (and any error) belongs to the next transformation *)
DeferredOps == {"setStylesheetParam", "XalanSetStylesheetParam"}
SetsParam(op)   == op \in DeferredOps
ClearsParam(op) == op \in {"clearStylesheetParams", "XalanClearStylesheetParams"}

(* ------------------------------------------------------------------------------------ input classes *)
(* Classes are MUTATIONS of well-formed seeds (or constructions with one extreme parameter); the set of  *)
(* concrete cases is enumerated by MC_ApiProtocol!Cases.  d = nesting depth for the Deep classes, else 0. *)
Depths == {100, 1000, 10000, 100000}

(* not well-formed XML (XML 1.0 section 2.1: a fatal error for every conforming parser)                    *)
NotWellFormed == {"truncate", "dropTag", "dupTag", "swapTag", "unclosedQuote", "illegalChar", "brokenUtf8",
                  "loneSurrogate", "fffe", "nul", "unknownXmlEncoding"}
(* well-formed but not a stylesheet (XSLT 1.0: 2.1/2.3 no xsl:version, 2.5 unknown element in 1.0 mode, 2.1 unknown *)
(* attribute, the "required" attributes of section 5-16, 7.6.2 unbalanced braces) or not an expression (XPath 1.0 3) *)
(* or refers to a variable that is not in scope (XPath 1.0 3.7 / XSLT 11: an error; nothing is in scope of a top-level      *)
(* parameter expression supplied through the API)                                                                       *)
NotValid      == {"wrongXslNamespaceRoot", "unknownXslElement", "unknownXslAttribute", "missingRequiredAttribute",
                  "avtUnbalanced", "nonExpression", "undefinedVariable"}
(* well-formed and valid: must succeed                                                                      *)
MustSucceed   == {"seed", "wrongXslNamespaceInner", "numberLiteral", "numberFormat", "numberValue", "longName",
                  "cdataBracket", "paramExpression", "manyDecimalFormats", "manyDefaultCounts", "manyLiveStrings"}
(* nesting depth d: a program / document / expression of any depth is valid; an implementation may impose a *)
(* limit above depth 100 but must then REPORT it                                                            *)
DeepClasses   == {"deepDocument", "deepTemplateBody", "deepParens", "deepPredicates", "deepSteps"}
(* the Recommendation leaves the outcome open (XSLT 16.1: unsupported output encoding "may signal an error"; *)
(* characters outside the XML Char production inside an XPath expression; bytes produced by the fuzzer)     *)
Open          == {"unknownOutputEncoding", "xpathIllegalChar", "fuzz", "xmlDeclVersion", "dotSegmentHref"}

Classes == NotWellFormed \cup NotValid \cup MustSucceed \cup DeepClasses \cup Open

Verdict(cls, d) ==
  IF cls \in NotWellFormed \cup NotValid THEN "invalid"
  ELSE IF cls \in MustSucceed THEN "valid"
  ELSE IF cls \in DeepClasses THEN (IF d <= 100 THEN "valid" ELSE "either")
  ELSE "either"

(* ------------------------------------------------------------------------------- reference outputs *)
(* the fixed Probe work of harness/c03.cpp: PROBE_XML / PROBE_XSL (sorted items, count, key(), format-number),  *)
(* PROBE_EXPR, PROBE_BOOL                                                                                   *)
ProbeExpected(h) ==
  CASE h \in {"T", "C"} -> "<out n=\"2\"><i>1:a</i><i>2:b</i><k>b</k><f>1,234.50</f></out>"
    [] h = "E" -> "doc:2:b:3.5"
    [] h = "X" -> "1"
    [] OTHER -> "?"

(* ------------------------------------------------------------------------------------- the machine *)
(* state of one execution (one driver, one object per handle; the objects themselves carry arbitrary history) *)
Idle0 == [phase |-> "Idle", h |-> "", op |-> "", cls |-> "", d |-> 0,
          params |-> {},          \* handles holding a top-level parameter that was set and not yet cleared
          failed |-> FALSE,       \* some call of this execution returned a non-zero status
          calls  |-> 0]

Call_Enabled(s, h, op) == s.phase = "Idle" /\ h \in Handles /\ op \in OpsOf(h)
Call_Do(s, h, op, cls, d) == [s EXCEPT !.phase = "InCall", !.h = h, !.op = op, !.cls = cls, !.d = d, !.calls = @ + 1]

(* the three parts of a correct Return, separately (Trace_C03 names the one that fails) *)
Return_Matches(s, h, op) == s.phase = "InCall" /\ s.h = h /\ s.op = op
(* a reference to an unbound variable is an error of the EVALUATION (the bindings belong to the evaluation context): the ops *)
(* that only compile may accept the text                                                                                    *)
DynamicErrorClasses == {"undefinedVariable"}
CompileOps == {"compileStylesheet", "XalanCompileStylesheet", "XalanCompileStylesheetFromStream", "createXPath", "XalanCreateXPath"}

StatusFits(s, status) ==
  IF s.op \in DeferredOps THEN status = 0
  ELSE IF s.cls \in DynamicErrorClasses /\ s.op \in CompileOps THEN TRUE
  ELSE CASE Verdict(s.cls, s.d) = "valid"   -> status = 0
         [] Verdict(s.cls, s.d) = "invalid" -> status # 0
         [] OTHER -> TRUE
Reported(s, status, msgEmpty) == (status # 0 /\ HasMessageChannel(s.h)) => ~msgEmpty

Return_Enabled(s, h, op, status, msgEmpty) ==
  /\ Return_Matches(s, h, op) /\ StatusFits(s, status) /\ Reported(s, status, msgEmpty)
Return_Do(s, status) ==
  [s EXCEPT !.phase = "Idle",
            !.failed = @ \/ status # 0,
            !.params = IF SetsParam(s.op) THEN @ \cup {s.h} ELSE IF ClearsParam(s.op) THEN @ \ {s.h} ELSE @]

(* the Probe is only meaningful on an object without pending parameters (a parameter stays set by contract) *)
Probe_Possible(s, h) == s.phase = "Idle" /\ h \in Handles /\ h \notin s.params
Probe_Good(h, status, out) == status = 0 /\ out = ProbeExpected(h)
Probe_Enabled(s, h, status, out) == Probe_Possible(s, h) /\ Probe_Good(h, status, out)

LeakCheck_Enabled(s, clean) == s.phase = "Idle" /\ clean

(* the finite-trace form of "every Call is followed by its Return": the execution ends Idle and normally *)
Exit_Enabled(s, normal) == s.phase = "Idle" /\ normal
Exit_Do(s) == [s EXCEPT !.phase = "Exited"]

(* Abort(why) - std::terminate, SIGSEGV/SIGBUS/SIGFPE/SIGILL/SIGABRT, stack overflow, a sanitizer report, a  *)
(* time-out, an exception escaping an entry point that reports by status, a leak - is enabled in NO state.   *)
Abort_Enabled(s, why) == FALSE

(* ---- one recorded event against the machine: the acceptor shared by MC_ApiProtocol and Trace_C03          *)
Has(ev, f) == f \in DOMAIN ev
DepthOf(ev) == IF Has(ev, "d") THEN ev.d ELSE 0

Ev_Enabled(s, ev) ==
  CASE ev.e = "Call"      -> Call_Enabled(s, ev.h, ev.op) /\ ev.cls \in Classes
    [] ev.e = "Return"    -> Return_Enabled(s, ev.h, ev.op, ev.status, ev.msgEmpty)
    [] ev.e = "Probe"     -> Probe_Enabled(s, ev.h, ev.status, ev.out)
    [] ev.e = "LeakCheck" -> LeakCheck_Enabled(s, ev.clean)
    [] ev.e = "Abort"     -> Abort_Enabled(s, ev.why)
    [] ev.e = "Exit"      -> Exit_Enabled(s, ev.normal)
    [] OTHER              -> FALSE

Ev_Do(s, ev) ==
  CASE ev.e = "Call"   -> Call_Do(s, ev.h, ev.op, ev.cls, DepthOf(ev))
    [] ev.e = "Return" -> Return_Do(s, ev.status)
    [] ev.e = "Exit"   -> Exit_Do(s)
    [] OTHER           -> s
=============================================================================
