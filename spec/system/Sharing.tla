------------------------------ MODULE Sharing ------------------------------
(* The thread-sharing protocol of Xalan-C++ (property C07).                                       *)
(*                                                                                                *)
(* One thread (the owner of "transformer A") BUILDs shared objects - a compiled stylesheet, a      *)
(* parsed source, for a Xerces-backed source the bridge wrapper and its string pool - and then     *)
(* publishes them: FREEZE.  Worker threads, each with its own transformer, START a transformation  *)
(* that READs fields of the shared objects, finish it with DONE(t, out) and are JOINed.  A field   *)
(* is tagged `eager` (it has its value when Build returns) or `lazy` (it gets its value on first   *)
(* use - a cache, an on-demand wrapper node, an interned string, a lazily allocated list           *)
(* sentinel); it may be protected by a lock (Guard).  A store into a field is WRITE(t,o,f,L,v): L  *)
(* is the set of locks t holds, v the state the store leaves the field in ("torn" in the middle of *)
(* an update, "ok" when it is complete).                                                           *)
(*                                                                                                *)
(* RaceFree is the promise the documentation makes ("compiled stylesheets and parsed sources may   *)
(* be shared freely"): after Freeze(o) nobody performs Write(_, o, f, L, _) unless the lock        *)
(* protecting f is in L, and every access to a lock-protected lazy field takes that lock.          *)
(* OutputsSequential: every finished transformation delivered what a single thread delivers.       *)
(*                                                                                                *)
(* The module is constant-level: a state is a record, actions are Pre/Do operators.  MC_Sharing    *)
(* drives them through all interleavings of the implementation-shaped thread program               *)
(* (SharingImpl); Trace_C07 replays what the real library did through the same preconditions.      *)
EXTENDS Naturals, FiniteSets

CONSTANTS
  Objects,          \* shared objects
  FieldsOf(_),      \* fields of an object
  Tag(_, _),        \* Tag(o, f) \in {"eager", "lazy", "scratch"} (scratch: rewritten by every use, e.g. a static buffer)
  Guard(_, _),      \* Guard(o, f) \in Locks \cup {NoLock}: the lock protecting the field
  Threads,          \* worker threads
  Locks,
  NoLock

AllFields == UNION {{<<o, f>> : f \in FieldsOf(o)} : o \in Objects}

(* ---- the rules themselves, on plain values (shared with the trace specification) ------------- *)
(* a store is allowed before the object is published, or under the lock that protects the field   *)
WriteOK(isFrozen, guardHeld) == (~isFrozen) \/ guardHeld
(* a read of a lock-protected lazy field must hold the lock, too                                   *)
ReadOK(isLazy, hasGuard, guardHeld) == (isLazy /\ hasGuard) => guardHeld
CanBuild(built, frozen, o)   == o \notin built /\ o \notin frozen
CanFreeze(built, frozen, o)  == o \in built /\ o \notin frozen
CanStart(running, t)         == t \notin running
CanAccess(running, built, t, o) == t \in running /\ o \in built
CanDone(running, t)          == t \in running
CanJoin(running)             == running = {}
OutputOK(out, seqOut)        == out = seqOut

(* ---- state ----------------------------------------------------------------------------------- *)
FieldStates == {"none", "torn", "ok"}

SInit == [built   |-> {},
          frozen  |-> {},
          val     |-> [of \in AllFields |-> "none"],
          running |-> {},
          held    |-> [t \in Threads |-> {}],
          seen    |-> [t \in Threads |-> {}],       \* <<o, f, value>> read since Start
          out     |-> [t \in Threads |-> {}],        \* what the last finished transformation was computed from
          runs    |-> [t \in Threads |-> 0],
          races   |-> {},                             \* stores that broke the rule
          unguardedReads |-> {},
          postFreezeWrites |-> {},                    \* all stores after Freeze, allowed or not
          joined  |-> FALSE]

LockFree(s, l) == \A t \in Threads : l \notin s.held[t]

(* ---- actions: Pre = enabling condition, Do = successor state --------------------------------- *)
PreBuild(s, o)  == CanBuild(s.built, s.frozen, o) /\ s.running = {}
DoBuild(s, o)   == [s EXCEPT !.built = @ \cup {o},
                             !.val = [of \in AllFields |->
                                        IF of[1] = o /\ Tag(o, of[2]) = "eager" THEN "ok" ELSE @[of]]]

PreFreeze(s, o) == CanFreeze(s.built, s.frozen, o)
DoFreeze(s, o)  == [s EXCEPT !.frozen = @ \cup {o}]

(* the protocol of the documentation: workers use published objects only *)
PreStart(s, t)  == CanStart(s.running, t) /\ s.frozen = Objects /\ ~s.joined
DoStart(s, t)   == [s EXCEPT !.running = @ \cup {t}, !.seen[t] = {}]

PreLock(s, t, l)   == t \in s.running /\ l \in Locks /\ LockFree(s, l)
DoLock(s, t, l)    == [s EXCEPT !.held[t] = @ \cup {l}]
PreUnlock(s, t, l) == t \in s.running /\ l \in s.held[t]
DoUnlock(s, t, l)  == [s EXCEPT !.held[t] = @ \ {l}]

PreRead(s, t, o, f) == CanAccess(s.running, s.built, t, o) /\ f \in FieldsOf(o)
DoRead(s, t, o, f)  ==
  LET ok == ReadOK(Tag(o, f) = "lazy", Guard(o, f) # NoLock, Guard(o, f) \in s.held[t])
  IN [s EXCEPT !.seen[t] = {x \in @ : ~(x[1] = o /\ x[2] = f)} \cup {<<o, f, s.val[<<o, f>>]>>},
               !.unguardedReads = IF ok THEN @ ELSE @ \cup {<<t, o, f>>}]

WriteAllowed(s, t, o, f) == WriteOK(o \in s.frozen, Guard(o, f) \in s.held[t])
PreWrite(s, t, o, f)     == CanAccess(s.running, s.built, t, o) /\ f \in FieldsOf(o)
DoWrite(s, t, o, f, v)   ==
  LET w == [t |-> t, o |-> o, f |-> f, L |-> s.held[t]]
  IN [s EXCEPT !.val[<<o, f>>] = v,
               !.races = IF WriteAllowed(s, t, o, f) THEN @ ELSE @ \cup {w},
               !.postFreezeWrites = IF o \in s.frozen THEN @ \cup {w} ELSE @]

(* the output of a transformation is a function of the values it read *)
PreDone(s, t)   == CanDone(s.running, t) /\ s.held[t] = {}
DoDone(s, t)    == [s EXCEPT !.running = @ \ {t}, !.out[t] = s.seen[t], !.runs[t] = @ + 1]

PreJoin(s)      == CanJoin(s.running) /\ ~s.joined /\ \A t \in Threads : s.runs[t] > 0
DoJoin(s)       == [s EXCEPT !.joined = TRUE]

(* ---- properties ------------------------------------------------------------------------------ *)
RaceFree(s) == s.races = {} /\ s.unguardedReads = {}

(* what one thread alone reads from completely built objects: every used field, complete *)
SeqOut(uses) == {<<of[1], of[2], "ok">> : of \in uses}
OutputsSequential(s, uses) == \A t \in Threads : s.runs[t] > 0 => OutputOK(s.out[t], SeqOut(uses))

NoPostFreezeWrite(s) == s.postFreezeWrites = {}

TypeOK(s) == /\ s.built \subseteq Objects /\ s.frozen \subseteq s.built
             /\ s.running \subseteq Threads
             /\ \A of \in AllFields : s.val[of] \in FieldStates
             /\ \A l \in Locks : Cardinality({t \in Threads : l \in s.held[t]}) <= 1
=============================================================================
