--------------------------- MODULE TransformerPool ---------------------------
(* The ROLES of the documents of the C06 pool (texts: tools/props/c06_pool.py).  The specification  *)
(* never sees the texts; it knows which outcome CLASS each (stylesheet, source, params, functions)  *)
(* combination is designed to produce.  The classes drive the history generator (MC_Transformer:    *)
(* every class must occur) and are confronted with reality by Trace_C06 (the status of every Fresh  *)
(* event must be the status of the predicted class), so that the generator's claim "this history    *)
(* contains a transformation aborted by xsl:message" is a checked fact about the real run.          *)
(*   S1 plain                      S2 nested for-each / variable / attribute / element / mode scopes, *)
(*   S3 xsl:key, xsl:number,          xsl:message terminate="yes" inside them when $p = 'stop'        *)
(*      result-tree fragments, xsl:sort, document(''), format-number + xsl:decimal-format;            *)
(*      string used as a node-set (run-time type error) deep inside when $p = 'stop'                  *)
(*   S4 calls the external function f (run-time error while it is not installed), top-level param     *)
(*   S9 calls g, the other function of f's namespace, and shows function-available of both             *)
(*   S5 a top-level variable (lazily evaluated, reached through a second top-level variable) whose     *)
(*      evaluation is aborted by xsl:message terminate="yes" when $p = 'stop'                          *)
(*   S6 a top-level variable that uses $p as a node-set: run-time XPath error whenever p is set        *)
(*   S8 result-tree-fragment bodies aborted by xsl:message terminate="yes" right after text was written    *)
(*      ($p = 'stop': xsl:variable, $p = 2: xsl:with-param)                                              *)
(*   S7 xsl:sort keys whose evaluation fails after the keys of some nodes have been computed            *)
(*      ($p = 'stop': in a text-keyed sort, $p = 2: in a number-keyed sort)                              *)
(*   SD1, SD2 (role ok) named decimal-formats d0..d9 + the default one; SD2's dK differs from SD1's dK  *)
(*      in exactly the K-th symbol, every symbol shown by format-number calls; a sort with lang=: the    *)
(*      transformer's number formatter and collation functor keep VALUE-keyed caches across calls        *)
(*   SE unknown output encoding (Xalan falls back to UTF-8)   SU character the encoding cannot        *)
(*   represent (substituted)   SM document() of a missing file (warning, empty node-set)              *)
(*   SX not well-formed   SV well-formed but not a valid stylesheet   DX not well-formed source       *)
EXTENDS Integers

PoolSS   == {"S1", "S2", "S3", "S4", "S5", "S6", "S7", "S8", "S9", "SD1", "SD2", "SE", "SU", "SM", "SX", "SV"}
PoolSrc  == {"D1", "D2", "DX"}
PoolPNames == {"p"}
PoolPVals  == {"str", "num", "obj", "nz", "pz"}    \* 'stop' as an expression string; 2 as a double; "obj" as an XObjectPtr; -0.0 / +0.0 as doubles
PoolNumVals == {"num", "nz", "pz"}     \* the values that go through setStylesheetParam(name, double)
PoolExprVals == {"str"}                \* the values that go through setStylesheetParam(name, expression)
PoolFNames == {"f", "g", "h"}          \* functions of ONE namespace: f installed on the transformer, g and h process-wide (...Global)

Classes == {"ok", "terminated", "xpathError", "extError", "encoding", "unserializable", "missingDoc",
            "malformedSS", "invalidSS", "malformedSrc"}

CompileClass(ss) == CASE ss = "SX" -> "malformedSS" [] ss = "SV" -> "invalidSS" [] OTHER -> "ok"
ParseClass(src)  == IF src = "DX" THEN "malformedSrc" ELSE "ok"

(* ps: the EFFECTIVE parameter values [name -> value or "none"] *)
Class(ss, src, ps, fs) ==
  IF ParseClass(src) # "ok" THEN ParseClass(src)                 \* the source is parsed first
  ELSE IF CompileClass(ss) # "ok" THEN CompileClass(ss)
  ELSE CASE ss = "S2" /\ ps["p"] = "str" -> "terminated"
         [] ss = "S3" /\ ps["p"] = "str" -> "xpathError"
         [] ss = "S4" /\ ~fs["f"]        -> "extError"
         [] ss = "S9" /\ ~fs["g"]        -> "extError"
         [] ss = "S5" /\ ps["p"] = "str" -> "terminated"
         [] ss = "S6" /\ ps["p"] # "none" -> "xpathError"
         [] ss = "S7" /\ ps["p"] \in {"str", "num"} -> "xpathError"
         [] ss = "S8" /\ ps["p"] \in {"str", "num"} -> "terminated"
         [] ss = "SE"                    -> "encoding"
         [] ss = "SU"                    -> "unserializable"
         [] ss = "SM"                    -> "missingDoc"
         [] OTHER                        -> "ok"

(* XalanTransformer's status codes: -1 XSLException, -2 SAX(Parse)Exception *)
(* ("unserializable": a text-method character the output encoding lacks - an error since repair 0dce416, *)
(*  raised while output is being written)                                                              *)
StatusOf(c) == CASE c \in {"ok", "encoding", "missingDoc"} -> 0
                 [] c \in {"terminated", "xpathError", "extError", "invalidSS", "unserializable"} -> -1
                 [] c \in {"malformedSS", "malformedSrc"} -> -2

(* the engine as the model checker sees it: a deterministic function of its four inputs; the output *)
(* is an uninterpreted token that depends on every input                                            *)
Engine(ss, src, ps, fs) == [status |-> StatusOf(Class(ss, src, ps, fs)), out |-> <<ss, src, ps, fs>>]
=============================================================================
